"""Grammar-directed generators of GFA1/GFA2 documents, written from the GFA specifications and
gfapy's documented dialect (not from gfapy's code).  A document is a list of line strings plus
an abstract description (dict) that oracles use.  All randomness comes from the rng passed in."""

INV = {'+': '-', '-': '+'}
NAME_POOL = ['A', 'B', 'C', 'D', 's1', 's2', '10', '2', 'x*y', 'A*2', 'seg.7', 'Z_z']
DNA = 'ACGT'


def rand_seq(rng, n):
    return ''.join(rng.choice(DNA) for _ in range(n))


def rand_tag_value(rng, dt):
    if dt == 'i':
        return str(rng.choice([0, 1, -1, 7, 42, 255, 256, -128, 65536, 2 ** 31, -2 ** 31 - 1, 10 ** 12]))
    if dt == 'f':
        return rng.choice(['1.5', '-0.25', '3.0', '1e-05', '2.5e+20', '0.1', '100.0', '-7.75', '1e+16', '-1e-07', '12345.678'])
    if dt == 'Z':
        return rng.choice(['hello', 'a b c', 'x:y:z', '*', '123', ' lead', 'trail ', '!~', 'co:Z:q'])
    if dt == 'A':
        return rng.choice(list('aZ0!~*+:'))
    if dt == 'J':
        return rng.choice(['[1, 2, 3]', '{"a": 1}', '[]', '{}', '{"k": [1, {"z": null}], "b": true}', '["x y", 1.5]',
                           '[1,2]', '{"a":1}'])
    if dt == 'H':
        return rng.choice(['00', 'FF', '1A2B3C', '0123456789ABCDEF'])
    if dt == 'B':
        return rng.choice(['C,1,2,3', 'c,-1,5', 'S,300,2', 's,-300,2', 'I,70000', 'i,-70000,1', 'f,1.5,2.0', 'C,255',
                           'c,-128,127', 'S,65535', 'i,2147483647', 'I,4294967295', 'f,0.1',
                           # values on the boundaries between the integer subtypes
                           's,-1,128', 'i,-5,32768', 's,-32768,32767', 'S,256', 'I,65536', 'i,-2147483648,0', 'C,0', 'f,1e+16,-2.5e-07'])
    raise ValueError(dt)


def rand_tags(rng, predefined, maxn=3, used=None):
    """predefined: dict name->datatype allowed on this record. returns list of 'xx:T:v'"""
    used = set(used or [])
    out = []
    n = rng.choice([0, 0, 1, 1, 2, maxn])
    for _ in range(n):
        if predefined and rng.random() < 0.4:
            name = rng.choice(sorted(predefined))
            dt = predefined[name]
        else:
            name = rng.choice(['xx', 'ab', 'z9', 'q1', 'aa', 'cn', 'or'])
            dt = rng.choice('ifZAJHB')
        if name in used:
            continue
        used.add(name)
        out.append('%s:%s:%s' % (name, dt, rand_tag_value(rng, dt)))
    return out


def rand_cigar(rng, codes='MIDP', maxops=3, total=None):
    n = rng.randint(1, maxops)
    return ''.join('%d%s' % (rng.choice([1, 2, 3, 5]), rng.choice(codes)) for _ in range(n))


def cigar_lengths(cig):
    import re
    r = q = 0
    for n, c in re.findall(r'(\d+)([MIDNSHPX=])', cig):
        n = int(n)
        if c in 'M=XDN':
            r += n
        if c in 'M=XIS':
            q += n
    return r, q


# ----------------------------------------------------------------------------------------
# GFA1
# ----------------------------------------------------------------------------------------
def gen_gfa1(rng, nseg=None, with_paths=True, with_containments=True, tags=True, headers=True,
             comments=True, seqs=None, cigar_codes='MIDP', lengths=True, parallel=True, selfloops=True):
    """returns (lines, info).  Every reference is resolvable; overlaps fit into the segments when
    lengths are given."""
    nseg = nseg or rng.randint(2, 6)
    names = rng.sample(NAME_POOL, nseg)
    info = {'version': 'gfa1', 'segments': {}, 'links': [], 'containments': [], 'paths': []}
    lines = []
    if headers and rng.random() < 0.6:
        h = ['H']
        if rng.random() < 0.7:
            h.append('VN:Z:1.0')
        h += rand_tags(rng, {}, 2, used=['VN', 'TS']) if tags else []
        if len(h) > 1:
            lines.append('\t'.join(h))
    if comments and rng.random() < 0.4:
        lines.append(rng.choice(['# a comment', '#no space', '#\ttabbed comment', '# two  spaces ']))
    for n in names:
        ln = rng.choice([8, 10, 12, 20])
        mode = rng.choice(['seq', 'seq', 'ln', 'both', 'none']) if seqs is None else seqs
        if mode == 'none' and lengths:
            mode = 'ln'
        seq = rand_seq(rng, ln) if mode in ('seq', 'both') else '*'
        f = ['S', n, seq]
        if mode in ('ln', 'both'):
            f.append('LN:i:%d' % ln)
        if tags:
            f += rand_tags(rng, {'RC': 'i', 'FC': 'i', 'KC': 'i', 'SH': 'H', 'UR': 'Z'}, 2, used=['LN'])
        lines.append('\t'.join(f))
        info['segments'][n] = {'len': ln if mode != 'none' else None, 'seq': seq}
    nlinks = rng.randint(0, nseg + 2)
    seen = set()
    for _ in range(nlinks):
        a, b = rng.choice(names), rng.choice(names)
        if a == b and not selfloops:
            continue
        oa, ob = rng.choice('+-'), rng.choice('+-')
        key = (a, oa, b, ob)
        ckey = (b, INV[ob], a, INV[oa])
        is_par = key in seen or ckey in seen
        if is_par and not parallel:
            continue
        if rng.random() < 0.3:
            ov = '*'
        else:
            ov = rand_cigar(rng, cigar_codes)
            r, q = cigar_lengths(ov)
            la, lb = info['segments'][a]['len'], info['segments'][b]['len']
            if (la is not None and r > la) or (lb is not None and q > lb):
                ov = '%dM' % min(x for x in (la, lb, 3) if x is not None)
        # parallel links are distinct edges only if both overlaps are specified and differ (also
        # from the other's complement); a '*' overlap is compatible with everything
        if is_par:
            if ov == '*':
                continue
            clash = False
            for m in info['links']:
                mk_ = (m['from'], m['fo'], m['to'], m['to_o'])
                if mk_ == key and (m['ov'] == '*' or m['ov'] == ov):
                    clash = True
                if mk_ == ckey and (m['ov'] == '*' or m['ov'] == complement_cigar(ov)):
                    clash = True
            if clash:
                continue
        seen.add(key)
        f = ['L', a, oa, b, ob, ov]
        if tags:
            f += rand_tags(rng, {'MQ': 'i', 'NM': 'i', 'RC': 'i', 'FC': 'i', 'KC': 'i'}, 2, used=['ID'])
        lines.append('\t'.join(f))
        info['links'].append({'from': a, 'fo': oa, 'to': b, 'to_o': ob, 'ov': ov})
    if with_containments:
        for _ in range(rng.choice([0, 0, 1, 2])):
            a, b = rng.sample(names, 2) if nseg > 1 else (names[0], names[0])
            la, lb = info['segments'][a]['len'], info['segments'][b]['len']
            if la is None or lb is None or lb > la:
                a, b, la, lb = b, a, lb, la
            if la is None or lb is None or lb > la:
                continue
            pos = rng.choice([0, la - lb, (la - lb) // 2])
            ov = rng.choice(['*', '%dM' % lb])
            if lb >= 3 and rng.random() < 0.4:
                # an alignment with an insertion or a deletion: reference and query lengths differ
                x = rng.randint(1, lb - 2)
                y = rng.randint(1, lb - x - 1)
                if rng.random() < 0.5:
                    ov = '%dM%dI%dM' % (x, y, lb - x - y)               # query lb, reference lb - y
                    pos = rng.choice([0, la - (lb - y), (la - (lb - y)) // 2])
                elif la - lb >= 1:
                    d = rng.randint(1, la - lb)
                    ov = '%dM%dD%dM' % (x, d, lb - x)                    # query lb, reference lb + d
                    pos = rng.choice([0, la - lb - d])
            f = ['C', a, rng.choice('+-'), b, rng.choice('+-'), str(pos), ov]
            if tags:
                f += rand_tags(rng, {'MQ': 'i', 'NM': 'i'}, 1, used=['ID'])
            lines.append('\t'.join(f))
            info['containments'].append({'from': a, 'to': b, 'pos': pos, 'ov': ov})
    if with_paths and info['links']:
        for k in range(rng.choice([0, 1, 1, 2])):
            # walk along existing links, forwards or reversed
            l = rng.choice(info['links'])
            steps = [(l['from'], l['fo']), (l['to'], l['to_o'])]
            ovs = [l['ov']]
            if rng.random() < 0.5:
                steps = [(l['to'], INV[l['to_o']]), (l['from'], INV[l['fo']])]
                ovs = [complement_cigar(l['ov'])]
            for _ in range(rng.choice([0, 1, 2])):
                last = steps[-1]
                cands = []
                for m in info['links']:
                    if (m['from'], m['fo']) == last:
                        cands.append(((m['to'], m['to_o']), m['ov']))
                    if (m['to'], INV[m['to_o']]) == last:
                        cands.append(((m['from'], INV[m['fo']]), complement_cigar(m['ov'])))
                if not cands:
                    break
                nxt, ov = rng.choice(cands)
                steps.append(nxt)
                ovs.append(ov)
            # ambiguity guard: each step must be compatible with exactly one link of the document
            if not all(unambiguous(info['links'], steps[i], steps[i + 1], ovs[i]) for i in range(len(steps) - 1)):
                continue
            if rng.random() < 0.4 or '*' in ovs:
                ovs_s = '*' if all(unambiguous(info['links'], steps[i], steps[i + 1], '*') for i in range(len(steps) - 1)) else None
                if ovs_s is None:
                    if '*' in ovs:
                        continue
                    ovs_s = ','.join(ovs)
            else:
                ovs_s = ','.join(ovs)
            name = 'p%d' % k
            f = ['P', name, ','.join(s + o for s, o in steps), ovs_s]
            if tags:
                f += rand_tags(rng, {}, 1)
            lines.append('\t'.join(f))
            info['paths'].append({'name': name, 'steps': steps, 'ovs': ovs_s})
    if with_paths and rng.random() < 0.25 and nseg >= 2:
        # a circular path (as many overlaps as segments) over two links added for it between a pair not yet linked
        pairs = [(a, b) for a in names for b in names if a < b and
                 not any(set([m['from'], m['to']]) == set([a, b]) for m in info['links'])]
        if pairs:
            a, b = rng.choice(pairs)
            oa, ob = rng.choice('+-'), rng.choice('+-')
            o1, o2 = rng.choice(['1M', '2M', '1M1I1M']), rng.choice(['1M', '1M1D1M', '2M'])
            lines.append('\t'.join(['L', a, oa, b, ob, o1]))
            lines.append('\t'.join(['L', b, ob, a, oa, o2]))
            info['links'].append({'from': a, 'fo': oa, 'to': b, 'to_o': ob, 'ov': o1})
            info['links'].append({'from': b, 'fo': ob, 'to': a, 'to_o': oa, 'ov': o2})
            lines.append('\t'.join(['P', 'pcirc', '%s%s,%s%s' % (a, oa, b, ob), '%s,%s' % (o1, o2)]))
            info['paths'].append({'name': 'pcirc', 'steps': [(a, oa), (b, ob)], 'ovs': '%s,%s' % (o1, o2), 'circular': True})
    if with_paths and rng.random() < 0.3:
        # a path over one segment needs no link at all
        n = rng.choice(names)
        o = rng.choice('+-')
        lines.append('\t'.join(['P', 'p1s', n + o, '*']))
        info['paths'].append({'name': 'p1s', 'steps': [(n, o)], 'ovs': '*'})
    return lines, info


def complement_cigar(c):
    import re
    if c == '*':
        return '*'
    ops = re.findall(r'(\d+)([MIDNSHPX=])', c)
    return ''.join(n + {'I': 'D', 'D': 'I', 'S': 'D', 'N': 'I'}.get(k, k) for n, k in reversed(ops))


def unambiguous(links, a, b, ov):
    """exactly one link of the document is compatible with the step a -> b with overlap ov"""
    n = 0
    for m in links:
        direct = (m['from'], m['fo']) == a and (m['to'], m['to_o']) == b and (ov == '*' or m['ov'] == '*' or m['ov'] == ov)
        compl = (m['to'], INV[m['to_o']]) == a and (m['from'], INV[m['fo']]) == b and \
            (ov == '*' or m['ov'] == '*' or m['ov'] == complement_cigar(ov))
        if direct or compl:
            n += 1
    return n == 1


# ----------------------------------------------------------------------------------------
# GFA2
# ----------------------------------------------------------------------------------------
def pos_s(v, slen):
    return '%d$' % v if v == slen else str(v)


def interval(rng, kind, slen):
    """(beg, end) as strings for an interval of the given kind on a segment of length slen"""
    if kind == 'whole':
        return '0', '%d$' % slen
    if kind == 'pfx':
        e = rng.randint(1, max(1, slen - 1))
        return '0', str(e)
    if kind == 'sfx':
        b = rng.randint(1, max(1, slen - 1))
        return str(b), '%d$' % slen
    if kind == 'empty0':
        return '0', '0'
    if kind == 'emptyend':
        return '%d$' % slen, '%d$' % slen
    if kind == 'innerempty':
        p = rng.randint(1, max(1, slen - 1))
        return str(p), str(p)
    b = rng.randint(1, max(1, slen - 2))
    e = rng.randint(b, max(b, slen - 1))
    return str(b), str(e)


IKINDS = ['whole', 'pfx', 'sfx', 'inner', 'empty0', 'emptyend', 'innerempty']


def gen_gfa2(rng, nseg=None, tags=True, headers=True, comments=True, groups=True, gaps=True, fragments=True,
             custom=True, edge_kinds=None, named_edges=None, seqs=None):
    nseg = nseg or rng.randint(2, 6)
    names = rng.sample(NAME_POOL, nseg)
    info = {'version': 'gfa2', 'segments': {}, 'edges': [], 'gaps': [], 'fragments': [], 'ogroups': [],
            'ugroups': [], 'custom': []}
    lines = []
    if headers and rng.random() < 0.6:
        h = ['H']
        if rng.random() < 0.7:
            h.append('VN:Z:2.0')
        if rng.random() < 0.3:
            h.append('TS:i:100')
        h += rand_tags(rng, {}, 2, used=['VN', 'TS']) if tags else []
        if len(h) > 1:
            lines.append('\t'.join(h))
    if comments and rng.random() < 0.4:
        lines.append(rng.choice(['# a comment', '#no space', '# two  spaces ']))
    for n in names:
        ln = rng.choice([8, 10, 12, 20])
        mode = rng.choice(['seq', 'none']) if seqs is None else seqs
        seq = rand_seq(rng, ln) if mode == 'seq' else '*'
        f = ['S', n, str(ln), seq]
        if tags:
            f += rand_tags(rng, {'RC': 'i', 'FC': 'i', 'KC': 'i', 'SH': 'H', 'UR': 'Z'}, 2)
        lines.append('\t'.join(f))
        info['segments'][n] = {'len': ln, 'seq': seq}
    used_ids = set(names)

    def fresh(prefix):
        k = 1
        while '%s%d' % (prefix, k) in used_ids:
            k += 1
        used_ids.add('%s%d' % (prefix, k))
        return '%s%d' % (prefix, k)
    for _ in range(rng.randint(0, nseg + 2)):
        a, b = rng.choice(names), rng.choice(names)
        oa, ob = rng.choice('+-'), rng.choice('+-')
        k1 = rng.choice(edge_kinds or ['whole', 'pfx', 'sfx', 'pfx', 'sfx', 'inner', 'empty0', 'emptyend'])
        k2 = rng.choice(edge_kinds or ['whole', 'pfx', 'sfx', 'pfx', 'sfx', 'inner', 'empty0', 'emptyend'])
        b1, e1 = interval(rng, k1, info['segments'][a]['len'])
        b2, e2 = interval(rng, k2, info['segments'][b]['len'])
        named = rng.random() < 0.6 if named_edges is None else named_edges
        eid = fresh('e') if named else '*'
        aln = rng.choice(['*', '*', '2M', '1,2,3'])
        f = ['E', eid, a + oa, b + ob, b1, e1, b2, e2, aln]
        if tags:
            f += rand_tags(rng, {'TS': 'i'}, 1)
        lines.append('\t'.join(f))
        info['edges'].append({'id': eid, 's1': a, 'o1': oa, 's2': b, 'o2': ob, 'b1': b1, 'e1': e1, 'b2': b2,
                              'e2': e2, 'aln': aln})
    if gaps:
        for _ in range(rng.choice([0, 0, 1, 2])):
            a, b = rng.choice(names), rng.choice(names)
            gid = fresh('g') if rng.random() < 0.7 else '*'
            f = ['G', gid, a + rng.choice('+-'), b + rng.choice('+-'), str(rng.choice([0, 5, 100])),
                 rng.choice(['*', '3', '10'])]
            if tags:
                f += rand_tags(rng, {}, 1)
            lines.append('\t'.join(f))
            info['gaps'].append({'id': gid, 's1': f[2][:-1], 'o1': f[2][-1], 's2': f[3][:-1], 'o2': f[3][-1]})
    if fragments:
        for _ in range(rng.choice([0, 0, 1, 2])):
            a = rng.choice(names)
            ln = info['segments'][a]['len']
            sb, se = interval(rng, rng.choice(['whole', 'pfx', 'sfx', 'inner']), ln)
            ext = rng.choice(['read1', 'read2', 'r:3'])
            f = ['F', a, ext + rng.choice('+-'), sb, se, '0', str(rng.choice([5, 9])), rng.choice(['*', '2M'])]
            if tags:
                f += rand_tags(rng, {'TS': 'i'}, 1)
            lines.append('\t'.join(f))
            info['fragments'].append({'seg': a, 'ext': ext})
    if groups:
        named_e = [e for e in info['edges'] if e['id'] != '*']
        for _ in range(rng.choice([0, 0, 1, 2])):
            items = []
            pool = names + [e['id'] for e in named_e] + [g['id'] for g in info['gaps'] if g['id'] != '*'] + \
                [u['id'] for u in info['ugroups'] if u['id'] != '*'] + [o['id'] for o in info['ogroups'] if o['id'] != '*']
            for _ in range(rng.randint(1, 4)):
                items.append(rng.choice(pool))
            uid = fresh('u') if rng.random() < 0.8 else '*'
            f = ['U', uid, ' '.join(items)]
            if tags:
                f += rand_tags(rng, {}, 1)
            lines.append('\t'.join(f))
            info['ugroups'].append({'id': uid, 'items': items})
        # ordered groups: a walk over dovetail edges when possible
        for _ in range(rng.choice([0, 0, 1])):
            dv = [e for e in named_e]
            if not dv:
                break
            e = rng.choice(dv)
            oid = fresh('o')
            style = rng.choice(['edge', 'segs', 'mixed'])
            if style == 'edge':
                items = [e['id'] + rng.choice('+-')]
            elif style == 'segs':
                items = [e['s1'] + e['o1'], e['s2'] + e['o2']]
            else:
                items = [e['s1'] + e['o1'], e['id'] + '+', e['s2'] + e['o2']]
            f = ['O', oid, ' '.join(items)]
            lines.append('\t'.join(f))
            info['ogroups'].append({'id': oid, 'items': items, 'edge': e})
    if custom:
        for _ in range(rng.choice([0, 0, 1])):
            f = [rng.choice(['X', 'Y', 'Z1']), rng.choice(['f1', 'some field', 'a:b']), rng.choice(['2', 'x'])]
            if tags:
                f += rand_tags(rng, {}, 1)
            lines.append('\t'.join(f))
            info['custom'].append(f)
    return lines, info
