"""Independent recogniser of GFA1/GFA2 lines, written from the specifications and gfapy's documented
dialect (positional field tables of the manual), not from gfapy's code.  valid_line(text, version)
-> (ok, reason).  Python twin of coq/Spec/Grammar.v, used as oracle on the implementation."""
import json
import re

INT = r'[-+]?[0-9]+'
FLOAT = r'[-+]?[0-9]*\.?[0-9]+([eE][-+]?[0-9]+)?'
ID2 = r'[!-~]+'
NAME1 = r'[!-)+-<>-~][!-~]*'
CIGAR1 = r'([0-9]+[MIDNSHPX=])+'
CIGAR2 = r'([0-9]+[MIDP])+'
TRACE = r'[0-9]+(,[0-9]+)*'


def full(pattern, s):
    return re.fullmatch(pattern, s) is not None and '\n' not in s


RANGES = {'c': (-2 ** 7, 2 ** 7), 'C': (0, 2 ** 8), 's': (-2 ** 15, 2 ** 15), 'S': (0, 2 ** 16),
          'i': (-2 ** 31, 2 ** 31), 'I': (0, 2 ** 32)}


def valid_value(dt, s):
    if dt == 'i':
        return full(INT, s)
    if dt == 'f':
        return full(FLOAT, s)
    if dt == 'Z':
        return full(r'[ !-~]+', s)
    if dt == 'A':
        return full(r'[!-~]', s)
    if dt == 'H':
        return full(r'[0-9A-F]+', s) and len(s) % 2 == 0
    if dt == 'J':
        if not full(r'[ !-~]+', s):
            return False
        try:
            return isinstance(json.loads(s), (list, dict))
        except Exception:
            return False
    if dt == 'B':
        if not full(r'[cCsSiIf](,[^,]+)+', s):
            return False
        st, elems = s[0], s.split(',')[1:]
        if st == 'f':
            return all(full(FLOAT, e) for e in elems)
        pat = INT if st.islower() else r'\+?[0-9]+'
        if not all(full(pat, e) for e in elems):
            return False
        lo, hi = RANGES[st]
        return all(lo <= int(e) < hi for e in elems)
    return False


def f_name1(s):
    return full(NAME1, s) and not re.search(r'[+-],', s)


def f_orient(s):
    return s in ('+', '-')


def f_aln1(s):
    return s == '*' or full(CIGAR1, s)


def f_aln2(s):
    return s == '*' or full(CIGAR2, s) or full(TRACE, s)


def f_pos1(s):
    return full(r'[0-9]+', s)


def f_pos2(s):
    return full(r'[0-9]+\$?', s)


def f_seq1(s):
    return s == '*' or full(r'[A-Za-z=.]+', s)


def f_seq2(s):
    return full(r'[!-~]+', s)


def f_id(s):
    return full(ID2, s)


def f_optid(s):
    return full(ID2, s)


def f_oid(s):
    return full(ID2 + '[+-]', s)


def f_int(s):
    return full(INT, s)


def f_optint(s):
    return s == '*' or full(INT, s)


def f_olist1(s):
    parts = s.split(',')
    return all(len(p) >= 2 and p[-1] in '+-' and full(NAME1, p[:-1]) for p in parts)


def f_alist1(s):
    return all(f_aln1(p) for p in s.split(','))


def f_olist2(s):
    return all(f_oid(p) for p in s.split(' '))


def f_idlist(s):
    return all(f_id(p) for p in s.split(' '))


RECORDS = {
    'gfa1': {
        'H': ([], {'VN': 'Z', 'TS': 'i'}),
        'S': ([f_name1, f_seq1], {'LN': 'i', 'RC': 'i', 'FC': 'i', 'KC': 'i', 'SH': 'H', 'UR': 'Z'}),
        'L': ([f_name1, f_orient, f_name1, f_orient, f_aln1], {'MQ': 'i', 'NM': 'i', 'RC': 'i', 'FC': 'i', 'KC': 'i', 'ID': 'Z'}),
        'C': ([f_name1, f_orient, f_name1, f_orient, f_pos1, f_aln1], {'MQ': 'i', 'NM': 'i', 'ID': 'Z'}),
        'P': ([lambda s: full(NAME1, s), f_olist1, f_alist1], {}),
    },
    'gfa2': {
        'H': ([], {'VN': 'Z', 'TS': 'i'}),
        'S': ([f_id, f_int, lambda s: f_seq2(s)], {'RC': 'i', 'FC': 'i', 'KC': 'i', 'SH': 'H', 'UR': 'Z'}),
        'E': ([f_optid, f_oid, f_oid, f_pos2, f_pos2, f_pos2, f_pos2, f_aln2], {'TS': 'i'}),
        'G': ([f_optid, f_oid, f_oid, f_int, f_optint], {}),
        'F': ([f_id, f_oid, f_pos2, f_pos2, f_pos2, f_pos2, f_aln2], {'TS': 'i'}),
        'O': ([f_optid, f_olist2], {}),
        'U': ([f_optid, f_idlist], {}),
    },
}
TAG = re.compile(r'([A-Za-z][A-Za-z0-9]):([AifZJHB]):(.+)', re.S)


def check_tags(fields, predefined, names_seen=()):
    seen = set(names_seen)
    for t in fields:
        m = TAG.fullmatch(t)
        if not m or '\n' in t:
            return False, 'tag syntax %r' % t
        n, dt, v = m.groups()
        if n in seen:
            return False, 'duplicate tag ' + n
        seen.add(n)
        if n in predefined and predefined[n] != dt:
            return False, 'predefined tag %s with type %s' % (n, dt)
        if not valid_value(dt, v):
            return False, 'tag value %r' % t
    return True, ''


def posvalue(s):
    return int(s.rstrip('$'))


def valid_line(text, version):
    """version: 'gfa1' | 'gfa2'.  Grammar of one line taken alone (no cross-line rules)."""
    if '\n' in text:
        return False, 'newline'
    if text.startswith('#'):
        return True, ''
    f = text.split('\t')
    rt = f[0]
    table = RECORDS[version]
    if rt in table:
        pos, predefined = table[rt]
        if len(f) - 1 < len(pos):
            return False, 'too few fields'
        for chk, v in zip(pos, f[1:]):
            if not chk(v):
                return False, 'positional field %r' % v
        ok, why = check_tags(f[1 + len(pos):], predefined)
        if not ok:
            return False, why
        if rt == 'S' and version == 'gfa1':
            ln = [t for t in f[3:] if t.startswith('LN:i:')]
            if ln and f[2] != '*' and int(ln[0][5:]) != len(f[2]):
                return False, 'LN differs from the sequence length'
        if rt == 'P':
            ns, no = len(f[2].split(',')), len(f[3].split(','))
            if not (no == ns - 1 or no == ns or f[3] == '*'):
                return False, 'overlap count'
        if rt in ('E', 'F'):
            pairs = [(f[4], f[5]), (f[6], f[7])] if rt == 'E' else [(f[3], f[4]), (f[5], f[6])]
            for b, e in pairs:
                if posvalue(b) > posvalue(e):
                    return False, 'begin > end'
                if b.endswith('$') and not e.endswith('$'):
                    return False, '$ on begin only'
        return True, ''
    if version == 'gfa1':
        return False, 'unknown record type in GFA1'
    # GFA2 custom record: type is any printable word that is not a standard type; fields free of tabs
    if not full(ID2, rt) or rt in ('P', 'C', 'L'):
        return False, 'custom record type'
    return True, ''
