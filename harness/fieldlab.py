"""Field-level experiments shared by C01/C04/C20: enumeration of short strings per datatype,
the implementation's safe decoder / writer, the float/JSON oracle tables for the model."""
import itertools
import json
import re

from . import core, impl
from .core import cstr, cbool, clist, copt

MODULES = ['alignment_gfa1', 'alignment_gfa2', 'alignment_list_gfa1', 'byte_array', 'char', 'comment',
           'custom_record_type', 'float', 'generic', 'identifier_gfa2', 'oriented_identifier_gfa2',
           'identifier_list_gfa2', 'integer', 'json', 'numeric_array', 'optional_identifier_gfa2',
           'optional_integer', 'orientation', 'oriented_identifier_list_gfa1', 'oriented_identifier_list_gfa2',
           'path_name_gfa1', 'position_gfa1', 'position_gfa2', 'segment_name_gfa1', 'sequence_gfa1',
           'sequence_gfa2', 'string']
TAGS = {'A': 'char', 'i': 'integer', 'f': 'float', 'Z': 'string', 'J': 'json', 'H': 'byte_array', 'B': 'numeric_array'}

ALPHABETS = {
    'integer': '07+-* $a\n', 'optional_integer': '07+-* $a\n', 'position_gfa1': '07+-* $a\n',
    'position_gfa2': '07+-*$ a\n',
    'float': '10.eE+-n', 'string': ' !~a+\t*\n', 'char': ' !~a+\t*\n', 'comment': 'a\t\n #',
    'generic': 'a\t\n #', 'byte_array': '09AFGa\n', 'numeric_array': 'cCfiI,1-+.3',
    'alignment_gfa1': '10MIXS*,P-', 'alignment_gfa2': '10MIXS*,P-', 'alignment_list_gfa1': '10MIX*,N ',
    'json': '[]{}1," ', 'custom_record_type': 'EXSa# ~', 'identifier_gfa2': ' !~a+\t*\n',
    'optional_identifier_gfa2': ' !~a+\t*\n', 'identifier_list_gfa2': ' !~a+\t*', 'orientation': '+-* a',
    'oriented_identifier_gfa2': 'A+-, *\n', 'oriented_identifier_list_gfa1': 'A+-, *=', 'oriented_identifier_list_gfa2': 'A+-, *=',
    'path_name_gfa1': 'A*=+-, ', 'segment_name_gfa1': 'A*=+-, ', 'sequence_gfa1': 'Ac*=.1-', 'sequence_gfa2': 'Ac*=.1- ',
}


def words(alpha, n):
    if n == 0:
        return ['']
    sub = words(alpha, n - 1)
    return [c + w for c in alpha for w in sub]


def enum(alpha, n):
    out = []
    for k in range(n + 1):
        out += words(alpha, k)
    return out


def impl_decode(dt, s):
    g = impl.gfapy()
    return impl.outcome(lambda: g.Field._parse_gfa_field(s, dt, safe=True))


def impl_accepts(dt, s):
    """the safe decoder accepts s and the decoded value passes validation"""
    g = impl.gfapy()
    r = impl_decode(dt, s)
    if r[0] != 'ok':
        return False, r
    v = impl.outcome(lambda: g.Field._validate_gfa_field(r[1], dt))
    return v[0] == 'ok', (r if v[0] == 'ok' else v)


def impl_written(dt, s):
    """decode with the safe decoder and write the value back"""
    g = impl.gfapy()
    r = impl_decode(dt, s)
    if r[0] != 'ok':
        return None
    w = impl.outcome(lambda: g.Field._to_gfa_field(r[1], datatype=dt, safe=True))
    return w[1] if w[0] == 'ok' else None


def json_ok(s):
    try:
        v = json.loads(s)
    except Exception:
        return None
    if isinstance(v, (list, dict)):
        return json.dumps(v)
    return None


FLOAT_RE = re.compile(r'^[-+]?[0-9]*\.?[0-9]+([eE][-+]?[0-9]+)?\Z')


def float_items(dt, s):
    """float-looking substrings whose Python spelling the model needs"""
    md = TAGS.get(dt, dt)
    if md == 'float':
        return [s]
    if md == 'numeric_array' and s.startswith('f,'):
        return s.split(',')[1:]
    return []


def oracle_tables(dt, s):
    ft, jt = [], []
    for x in float_items(dt, s):
        try:
            ft.append((x, str(float(x))))
        except Exception:
            pass
    if TAGS.get(dt, dt) == 'json':
        jt.append((s, json_ok(s)))
    return ft, jt


def canon_case_term(dt, s):
    acc, _ = impl_accepts(dt, s)
    w = impl_written(dt, s) if acc else None
    ft, jt = oracle_tables(dt, s)
    fts = clist(['(%s, %s)' % (cstr(a), cstr(b)) for a, b in ft])
    jts = clist(['(%s, %s)' % (cstr(a), copt(cstr(b)) if b is not None else 'None') for a, b in jt])
    return '(%s, %s, %s, %s, %s, %s)' % (cstr(dt), cstr(s), cbool(acc and w is not None), cstr(w or ''), fts, jts), acc, w


def enum_case_term(dt, alpha, n):
    ws = enum(alpha, n)
    bits = ''.join('1' if impl_accepts(dt, w)[0] else '0' for w in ws)
    jok = [w for w in ws if json_ok(w) is not None] if TAGS.get(dt, dt) == 'json' else []
    return '(%s, %s, %d, %s, %s)' % (cstr(dt), cstr(alpha), n, cstr(bits), clist([cstr(x) for x in jok])), ws, bits


IMPORTS = "From GfaV Require Import Base.Py Base.Regex Model.Align Model.Codec Corr.Codecc."


def model_bits(prop, dt, alpha, n, jok):
    term = '(%s, %s, %d, "", %s)' % (cstr(dt), cstr(alpha), n, clist([cstr(x) for x in jok]))
    vals, err = core.coq_eval_strings(prop, 'bits_' + dt, IMPORTS, ['model_bits %s' % term])
    return (vals[0] if vals else None), err
