"""Line-level experiments shared by C01/C04/C07/C18: build the Coq case for one text line."""
import re

from . import core, impl, fieldlab as FL
from .core import cstr, clist, copt

IMPORTS = "From GfaV Require Import Base.Py Base.Regex Model.Align Model.Codec Model.Line Corr.C12c Corr.Linec."
TAGRE = re.compile(r'^([A-Za-z][A-Za-z0-9]):([AifZJHB]):(.+)$', re.S)


def tables_for(text):
    ft, jt = [], []
    for f in text.split('\t'):
        m = TAGRE.match(f)
        if m:
            a, b = FL.oracle_tables(m.group(2), m.group(3))
            ft += a
            jt += b
    return ft, jt


def impl_line(text, vlevel, version):
    g = impl.gfapy()
    return impl.outcome(lambda: str(g.Line(text, vlevel=vlevel, version=version)))


def case_term(text, vlevel, version):
    r = impl_line(text, vlevel, version)
    exp = ('(Ok %s)' % cstr(r[1])) if r[0] == 'ok' else ('(Err %s)' % impl.exn_term(r[1]))
    ft, jt = tables_for(text)
    fts = clist(['(%s, %s)' % (cstr(a), cstr(b)) for a, b in ft])
    jts = clist(['(%s, %s)' % (cstr(a), copt(cstr(b)) if b is not None else 'None') for a, b in jt])
    ver = copt(cstr(version)) if version else 'None'
    return '(%d, %s, %s, %s, %s, %s)' % (vlevel, ver, cstr(text), exp, fts, jts), r


def show_model(prop, terms):
    vals, err = core.coq_eval_strings(prop, 'showline', IMPORTS, ['show_line %s' % t for t in terms])
    return vals, err
