"""Independent reading of GFA2 groups from the text of a document (oracle of C17): same-identifier merge,
captured path of an ordered group as the set of alternating walks its items imply, induced set of an unordered group.
Nothing here is shared with gfapy or with the Coq model."""

INV = {'+': '-', '-': '+'}


class Doc:
    def __init__(self, lines):
        self.segs = []
        self.edges = []          # (id or None, (n1, o1), (n2, o2))
        self.edge_by_id = {}
        self.og = {}             # id -> [(name, orient)]
        self.ug = {}             # id -> [name]
        self.gaps = set()
        self.tags = {}           # group id -> list of tag strings
        self.tag_clash = set()
        for l in lines:
            f = l.split('\t')
            if f[0] == 'S':
                self.segs.append(f[1])
            elif f[0] == 'E':
                e = (None if f[1] == '*' else f[1], (f[2][:-1], f[2][-1]), (f[3][:-1], f[3][-1]))
                self.edges.append(e)
                if e[0]:
                    self.edge_by_id[e[0]] = len(self.edges) - 1
            elif f[0] == 'G':
                self.gaps.add(f[1])
            elif f[0] in 'OU':
                store = self.og if f[0] == 'O' else self.ug
                items = [(x[:-1], x[-1]) for x in f[2].split(' ')] if f[0] == 'O' else f[2].split(' ')
                if f[1] == '*':
                    continue
                store.setdefault(f[1], []).extend(items)
                old = self.tags.setdefault(f[1], [])
                for t in f[3:]:
                    same = [u for u in old if u[:2] == t[:2]]
                    if same and same[0] != t:
                        self.tag_clash.add(f[1])
                    elif not same:
                        old.append(t)


def ends(doc, ei, o):
    _, a, b = doc.edges[ei]
    if o == '-':
        return [(a[0], INV[a[1]]), (b[0], INV[b[1]])]
    return [a, b]


def fitting_edges(doc, x, y):
    """distinct edge records that join oriented segments x and y, with the orientation in which they are traversed"""
    out = []
    for ei in range(len(doc.edges)):
        for o in '+-':
            p = ends(doc, ei, o)
            if (p[0] == x and p[1] == y) or (p[0] == y and p[1] == x):
                out.append((ei, o))
                break
    return out


class Err(Exception):
    def __init__(self, kind):
        self.kind = kind


def push_seg(doc, path, prev_edge, x):
    if path:
        if prev_edge:
            if path[-1] != ('S',) + x:
                raise Err('noncontiguous')
            return
        last = path[-1][1:]
        es = fitting_edges(doc, last, x)
        if not es:
            raise Err('noncontiguous')
        if len(es) > 1:
            raise Err('ambiguous')
        path.append(('E', es[0][0], es[0][1]))
    path.append(('S',) + x)


def push_edge(doc, path, ei, o, direction):
    p = ends(doc, ei, o)
    if not path:
        a, b = (p[0], p[1]) if direction == 0 else (p[1], p[0])
        path += [('S',) + a, ('E', ei, o), ('S',) + b]
        return
    prev = path[-1][1:]
    if prev == p[0]:
        nxt = p[1]
    elif prev == p[1]:
        nxt = p[0]
    else:
        raise Err('noncontiguous')
    path += [('E', ei, o), ('S',) + nxt]


def walk(doc, gid, direction, stack):
    if gid in stack:
        raise Err('cyclic')
    path, prev_edge = [], False
    for (n, o) in doc.og[gid]:
        if n in doc.segs:
            push_seg(doc, path, prev_edge, (n, o))
            prev_edge = False
        elif n in doc.edge_by_id:
            push_edge(doc, path, doc.edge_by_id[n], o, direction)
            prev_edge = True
        elif n in doc.og:
            subs = captured_all(doc, n, stack + (gid,))
            sub = subs[0]
            seq = sub if o == '+' else [(k, a, INV[b]) if k == 'E' else (k, a, INV[b]) for (k, a, b) in reversed(sub)]
            for el in seq:
                if el[0] == 'S':
                    push_seg(doc, path, prev_edge, el[1:])
                    prev_edge = False
                else:
                    push_edge(doc, path, el[1], el[2], 0)
                    prev_edge = True
            prev_edge = False
        elif n in doc.ug or n in doc.gaps:
            raise Err('type')
        else:
            raise Err('unresolved')
    return path


def captured_all(doc, gid, stack=()):
    """the alternating walks the items imply (one, or two when the first item is an edge and both directions work);
    raises Err when there is none"""
    first = doc.og[gid][0][0] if doc.og[gid] else None
    outs, err = [], None
    for d in ((0, 1) if first in doc.edge_by_id else (0,)):
        try:
            p = walk(doc, gid, d, stack)
            if p not in outs:
                outs.append(p)
        except Err as e:
            err = err or e
    if not outs:
        raise err
    return outs


def show_path(doc, p):
    out = []
    for (k, a, o) in p:
        if k == 'S':
            out.append(a + o)
        else:
            e = doc.edges[a]
            out.append((e[0] or ('*%s%s%s%s' % (e[1] + e[2]))) + o)
    return ' '.join(out)


def induced_segments(doc, uid, stack=()):
    if uid in stack:
        raise Err('cyclic')
    out = []
    for n in doc.ug[uid]:
        if n in doc.segs:
            out.append(n)
        elif n in doc.edge_by_id:
            e = doc.edges[doc.edge_by_id[n]]
            out += [e[1][0], e[2][0]]
        elif n in doc.og:
            p = captured_all(doc, n, stack + (uid,))[0]
            out += [a for (k, a, o) in p if k == 'S']
        elif n in doc.ug:
            out += induced_segments(doc, n, stack + (uid,))
        elif n in doc.gaps:
            raise Err('type')
        else:
            raise Err('unresolved')
    seen = []
    for x in out:
        if x not in seen:
            seen.append(x)
    return seen


def induced_edges(doc, segs):
    return [i for i, e in enumerate(doc.edges) if e[1][0] in segs and e[2][0] in segs]
