"""Independent reading of linear paths and of their merging from the text of a GFA1 document (oracle of C14).
Nothing here is shared with gfapy or with the Coq model."""

INV = {'+': '-', '-': '+'}
OTHER = {'L': 'R', 'R': 'L'}
# IUPAC nucleotide codes and their complements (NC-IUB 1984): the code of the set of complemented bases
_UP = {'A': 'T', 'C': 'G', 'G': 'C', 'T': 'A', 'R': 'Y', 'Y': 'R', 'K': 'M', 'M': 'K', 'S': 'S', 'W': 'W', 'B': 'V', 'V': 'B',
       'D': 'H', 'H': 'D', 'N': 'N'}
COMP = dict(_UP)
COMP.update((a.lower(), b.lower()) for a, b in _UP.items())


def rc(s):
    if s == '*':
        return s
    return ''.join(COMP[c] for c in reversed(s))


class Doc:
    def __init__(self, lines):
        self.lines = list(lines)
        self.segs = {}       # name -> fields
        self.links = []      # (index in lines, end1, end2, overlap)
        for i, l in enumerate(lines):
            f = l.split('\t')
            if f[0] == 'S':
                self.segs[f[1]] = f
            elif f[0] == 'L':
                e1 = (f[1], 'R' if f[2] == '+' else 'L')
                e2 = (f[3], 'L' if f[4] == '+' else 'R')
                self.links.append((i, e1, e2, f[5]))
        self.deg = {}
        for _, e1, e2, _ in self.links:
            self.deg[e1] = self.deg.get(e1, 0) + 1
            self.deg[e2] = self.deg.get(e2, 0) + 1

    def simple(self, lk):
        _, e1, e2, _ = lk
        return self.deg[e1] == 1 and self.deg[e2] == 1 and e1[0] != e2[0]

    def chains(self):
        """maximal chains as lists of (segment, exit end); cycles start at their first segment in document order"""
        nxt = {}      # end -> (other end, link)
        for lk in self.links:
            if self.simple(lk):
                nxt[lk[1]] = (lk[2], lk)
                nxt[lk[2]] = (lk[1], lk)
        seen = set()
        out = []
        for n in self.segs:
            if n in seen:
                continue
            if (n, 'L') not in nxt and (n, 'R') not in nxt:
                continue
            # walk to the left-most member, then to the right
            start = (n, 'L')
            cur = start
            visited = {n}
            cyc = False
            while cur in nxt:
                o, _ = nxt[cur]
                if o[0] in visited:
                    cyc = True
                    break
                visited.add(o[0])
                cur = (o[0], OTHER[o[1]])
            if cyc:
                first = (n, 'R')
            else:
                first = (cur[0], OTHER[cur[1]])      # exit end of the left-most member
            chain = [first]
            members = {first[0]}
            cur = first
            while cur in nxt:
                o, _ = nxt[cur]
                if o[0] in members:
                    break
                members.add(o[0])
                cur = (o[0], OTHER[o[1]])
                chain.append(cur)
            seen |= members
            if len(chain) > 1:
                out.append((chain, cyc))
        return out


def canon_chain(names, cyc):
    names = list(names)
    if not cyc:
        return min(tuple(names), tuple(reversed(names)))
    best = None
    for seq in (names, list(reversed(names))):
        for k in range(len(seq)):
            r = tuple(seq[k:] + seq[:k])
            if best is None or r < best:
                best = r
    return best


def cut_of(ov):
    if ov == '*':
        return 0
    import re
    ops = re.findall(r'(\d+)([MIDNSHPX=])', ov)
    if any(c not in 'M=' for _, c in ops):
        return None
    return sum(int(n) for n, _ in ops)


def spell(doc, chain):
    """(sequence, length or None) of the chain given as [(segment, exit end)]"""
    nxt = {}
    for lk in doc.links:
        nxt.setdefault(lk[1], []).append((lk[2], lk))
        nxt.setdefault(lk[2], []).append((lk[1], lk))
    seq, total, star = '', 0, False
    ln_known = True
    for k, (n, ex) in enumerate(chain):
        f = doc.segs[n]
        s = f[2]
        ln = None
        for t in f[3:]:
            if t.startswith('LN:i:'):
                ln = int(t[5:])
        if s != '*':
            ln = len(s) if ln is None else ln
        o = s if ex == 'R' else rc(s)
        cut = 0
        if k > 0:
            pn, pex = chain[k - 1]
            cands = [lk for (oe, lk) in nxt.get((pn, pex), []) if oe == (n, OTHER[ex])]
            cut = cut_of(cands[0][3])
            if cut is None:
                return None
        if s == '*':
            star = True
        else:
            seq += o[cut:]
        if ln is None:
            ln_known = False
        else:
            total += ln - cut
    return ('*' if star else seq), (total if ln_known else None)
