"""Canonical spelling of tag values — the documented normalisations of gfapy's writer
(numbers and JSON are re-spelled; everything else is verbatim).  Independent of gfapy."""
import json


def canon_float(v):
    return repr(float(v))


def canon_value(dt, v):
    try:
        if dt == 'i':
            return str(int(v))
        if dt == 'f':
            return canon_float(v)
        if dt == 'J':
            return json.dumps(json.loads(v))
        if dt == 'B':
            st, rest = v.split(',')[0], v.split(',')[1:]
            if st == 'f':
                return 'f,' + ','.join(canon_float(x) for x in rest)
            nums = [int(x) for x in rest]
            return smallest_subtype(nums) + ',' + ','.join(str(x) for x in nums)
    except Exception:
        return v
    return v


def smallest_subtype(nums):
    lo, hi = min(nums), max(nums)
    if lo < 0:
        for st, bits in (('c', 8), ('s', 16), ('i', 32)):
            if -2 ** (bits - 1) <= lo and hi < 2 ** (bits - 1):
                return st
    else:
        for st, bits in (('C', 8), ('S', 16), ('I', 32)):
            if hi < 2 ** bits:
                return st
    raise ValueError("out of range")


def canon_tag(t):
    parts = t.split(':', 2)
    if len(parts) != 3:
        return t
    return '%s:%s:%s' % (parts[0], parts[1], canon_value(parts[1], parts[2]))
