"""Invariant checker of a built Gfa through its public getters (independent of the Coq model):
closure, symmetry with multiplicities, ownership, lookup coherence, identifier uniqueness."""
from . import impl
from . import spec_edge as SE

COLLS_ALL = ["dovetails_L", "dovetails_R", "edges_to_contained", "edges_to_containers", "paths", "sets",
             "gaps_L", "gaps_R", "fragments", "internals"]


def mentions_of(ln):
    """[(target object or name, collection key)] as the specification files them"""
    g = impl.gfapy()
    rt = ln.record_type
    out = []
    if rt == 'L':
        out.append((ln.from_segment, SE.collection_of_L(ln.from_orient, ln.to_orient, True)))
        out.append((ln.to_segment, SE.collection_of_L(ln.from_orient, ln.to_orient, False)))
    elif rt == 'C':
        out.append((ln.from_segment, 'edges_to_contained'))
        out.append((ln.to_segment, 'edges_to_containers'))
    elif rt == 'P':
        for ol in ln.segment_names:
            out.append((ol.line, 'paths'))
        for ol in ln.links:
            out.append((ol.line, 'paths'))
    elif rt == 'E':
        f = str(ln).split('\t')
        k1 = SE.ikind(SE.parse_pos(f[4]), SE.parse_pos(f[5]))
        k2 = SE.ikind(SE.parse_pos(f[6]), SE.parse_pos(f[7]))
        o1, o2 = ln.sid1.orient, ln.sid2.orient
        out.append((ln.sid1.line, SE.collection_of_E(o1, o2, 1, k1, k2)))
        out.append((ln.sid2.line, SE.collection_of_E(o1, o2, 2, k1, k2)))
    elif rt == 'G':
        o1, o2 = ln.sid1.orient, ln.sid2.orient
        out.append((ln.sid1.line, SE.collection_of_G(o1, o2, 1)))
        out.append((ln.sid2.line, SE.collection_of_G(o1, o2, 2)))
    elif rt == 'F':
        out.append((ln.sid, 'fragments'))
    elif rt == 'O':
        for ol in ln.items:
            out.append((ol.line, 'paths'))
    elif rt == 'U':
        for it in ln.items:
            out.append((it, 'sets'))
    return out


def check(G, removed=()):
    """returns list of (what, expected, observed)"""
    g = impl.gfapy()
    out = []
    lines = [l for l in G.lines if l.record_type != 'H']
    ids = {id(l) for l in lines}
    removed_ids = {id(l) for l in removed}
    expected = {}          # (id(target), coll) -> list of id(mentioning line)
    for ln in lines:
        if ln.gfa is not G or not ln.is_connected():
            out.append(('a line listed by the Gfa does not report it as its owner', 'owner', str(ln)))
        try:
            ms = mentions_of(ln)
        except Exception as e:
            out.append(('reading the reference fields of %s raised %s' % (str(ln)[:60], type(e).__name__), None, None))
            continue
        for tgt, coll in ms:
            if not isinstance(tgt, g.Line):
                out.append(('a reference field of a connected line holds %r instead of a line' % (tgt,), 'Line', str(ln)))
                continue
            if id(tgt) in removed_ids or not tgt.is_connected() or tgt.gfa is not G:
                out.append(('a line of the Gfa refers to a removed/foreign line', str(ln), str(tgt)))
                continue
            if id(tgt) not in ids:
                out.append(('a referenced line is not listed by the Gfa', str(ln), str(tgt)))
                continue
            expected.setdefault((id(tgt), coll), []).append(id(ln))
    by_id = {id(l): l for l in lines}
    for ln in lines:
        cls = ln.__class__
        for coll in list(cls.DEPENDENT_LINES) + list(cls.OTHER_REFERENCES):
            if coll == 'links':
                continue
            members = getattr(ln, coll)
            got = sorted(id(m) for m in members)
            for m in members:
                if not isinstance(m, g.Line) or id(m) not in ids or not m.is_connected():
                    out.append(('collection %s of %s holds a line that is not in the Gfa' % (coll, str(ln)[:50]), None, str(m)))
            want = sorted(expected.get((id(ln), coll), []))
            if got != want:
                out.append(('back-references %s of %s do not mirror the references' % (coll, str(ln)[:60]),
                            sorted(str(by_id[i]) for i in want if i in by_id), sorted(str(m) for m in members)))
    # identifiers
    names = G.names
    if len(names) != len(set(names)):
        out.append(('identifiers are not unique', None, sorted(n for n in names if names.count(n) > 1)))
    for ln in lines:
        n = getattr(ln, 'name', None)
        if isinstance(n, str) and n != '*' and ln.record_type in ('S', 'E', 'G', 'P', 'O', 'U', '\n'):
            if G.line(n) is not ln:
                out.append(('lookup of %r does not return the line that carries it' % n, str(ln), str(G.line(n))))
    return out
