"""C19 — a clone is an equal, detached and fully independent line."""
import random
from .. import core, impl, gen, graphlab as GL
from ..core import cstr, clist
from . import graphcommon as GC

DEPS = ['Tables', 'K_clone']
MODEL_TARGETS = ['Corr/C19c.vo']
IMPORTS = "From GfaV Require Import Base.Py Model.Clone Corr.C19c."
ASSUMPTIONS = ["Placeholder, LastPos, numbers, strings and byte strings are treated as immutable values",
               "edits are in-place changes of the objects reachable from one of the two lines and assignments to its fields"]
LEVEL_TEXT = ("Theorems in coq/Props/C19.v over Model/Clone.v (field values as trees of objects with identities, clone as "
              "copy/render/share per value according to the if/elif chain of Cloning.clone): the clone is written like the "
              "original; it contains none of the original's objects as long as no value of a mutable kind reaches the sharing "
              "branch; consequently no sequence — of any length — of in-place edits and assignments made through the clone "
              "changes the original, and vice versa; refuted for a sharing copy. Tie: for every field of every line of generated "
              "documents the copy mode observed on the real objects (same object / distinct object with disjoint parts / "
              "rendered to an identifier) is compared inside Coq with clone_mode. Oracle on the real heap: the clone is "
              "disconnected, has no owner, is written like the original and equals it, reaches no Line object and no mutable "
              "object that the original reaches (object-identity walk), and random in-place edits and assignments on either "
              "side leave the other side, and the Gfa, written as before.")
RULE = ("every line (all record types, connected, virtual and free-standing) of GFA1/GFA2 documents from the shared generators "
        "with tags of every datatype, placeholders included (segments left undefined), levels 0-3; 3-10 random edits per side; "
        "the records of an extension (two record types registered with register_extension, one with two reference fields) in "
        "a process of its own. Non-trivial: the line has at least one value "
        "with a mutable part (list, alignment, JSON, oriented line, field array).")


def immutable(v):
    g = impl.gfapy()
    return isinstance(v, (int, float, str, bytes, bool, type(None), g.Placeholder, g.LastPos)) and not isinstance(v, list)


def walk(v, acc, lines, depth=0):
    """identities of the mutable objects reachable from a stored value; Line objects are recorded apart"""
    g = impl.gfapy()
    if depth > 8 or immutable(v):
        return
    if isinstance(v, g.Line):
        lines.append(v)
        return
    if id(v) in acc:
        return
    acc[id(v)] = v
    if isinstance(v, dict):
        for k, x in v.items():
            walk(x, acc, lines, depth + 1)
    elif isinstance(v, (list, tuple, set)):
        for x in v:
            walk(x, acc, lines, depth + 1)
    if hasattr(v, '__dict__'):
        for k, x in vars(v).items():
            walk(x, acc, lines, depth + 1)


def kind_of(v):
    g = impl.gfapy()
    if isinstance(v, g.FieldArray):
        return 'fieldarray'
    if isinstance(v, list):
        return 'list'
    if isinstance(v, str):
        return 'str'
    if isinstance(v, g.OrientedLine):
        return 'oriented'
    if immutable(v):
        return 'immutable'
    return 'mutable'


def observe_modes(l, c):
    out = []
    for k, v in l._data.items():
        cv = c._data.get(k)
        ref = k in type(l).REFERENCE_FIELDS
        js = l.get_datatype(k) == 'J'
        kd = kind_of(v)
        a, la = {}, []
        walk(v, a, la)
        b, lb = {}, []
        walk(cv, b, lb)
        if not a and not la:
            obs = 'render' if (ref and isinstance(cv, str) and not isinstance(v, str)) else 'any'
        elif isinstance(cv, str) and not isinstance(v, str):
            obs = 'render'
        elif cv is v:
            obs = 'share'
        elif not (set(a) & set(b)):
            obs = 'deep'
        else:
            obs = 'partly-shared'
        out.append((k, ref, js, kd, obs))
    return out


def mutate_in_place(rng, root):
    """change one mutable object reachable from the stored values of a line; returns a description or None"""
    g = impl.gfapy()
    acc, lines = {}, []
    for v in root._data.values():
        walk(v, acc, lines)
    objs = list(acc.values())
    if not objs:
        return None
    o = rng.choice(objs)
    try:
        if isinstance(o, g.OrientedLine):
            o.orient = '-' if o.orient == '+' else '+'
            return 'orient of an oriented line'
        if isinstance(o, dict):
            o['added'] = [1, 2]
            return 'key added to a JSON object'
        if isinstance(o, g.CIGAR.Operation):
            o.length = o.length + 7
            return 'length of a CIGAR operation'
        if isinstance(o, list):
            if len(o) and rng.random() < 0.5:
                o.reverse()
                o.pop()
                return 'list reversed and shortened'
            if isinstance(o, g.CIGAR):
                o.append(g.CIGAR.Operation(9, 'D'))
            elif isinstance(o, g.NumericArray) or (o and isinstance(o[0], (int, float))):
                o.append(5)
            else:
                o.append('zz')
            return 'element appended to a list'
        if hasattr(o, '__dict__') and vars(o):
            k = rng.choice(sorted(vars(o)))
            if isinstance(vars(o)[k], (int, float)):
                setattr(o, k, vars(o)[k] + 1)
                return 'attribute %s changed' % k
    except Exception:
        return None
    return None


def assign(rng, line):
    names = list(line.tagnames)
    try:
        if names and rng.random() < 0.6:
            n = rng.choice(names)
            line.set(n, None)
            return 'tag %s deleted' % n
        line.set('zq', 'new')
        return 'tag zq set'
    except Exception:
        return None


def judge_line(G, l, rng, free=False):
    """returns (failures, modes, nontrivial)"""
    g = impl.gfapy()
    out = []
    r = impl.outcome(lambda: l.clone())
    if r[0] != 'ok':
        return [('clone() of %r raised %s' % (str(l)[:60], impl.outcome_name(r)), None, None)], [], False
    c = r[1]
    t = str(l)
    st = impl.outcome(lambda: str(c))
    if st[0] != 'ok':
        return [('str() of the clone of %r raised %s' % (t[:60], impl.outcome_name(st)), t, None)], [], False
    if c.is_connected() or c.gfa is not None:
        out.append(('the clone of %r belongs to a Gfa' % t[:60], None, None))
    if st[1] != t:
        out.append(('the clone is not written like the original', t, st[1]))
    eq = impl.outcome(lambda: c == l)
    if eq[0] != 'ok' or not eq[1]:
        out.append(('the clone does not compare equal to the original %r' % t[:60], True, eq[1]))
    a, la = {}, []
    for v in l._data.values():
        walk(v, a, la)
    b, lb = {}, []
    for v in c._data.values():
        walk(v, b, lb)
    if lb:
        out.append(('the clone of %r holds a reference to a line object' % t[:60], None, str(lb[0])[:60]))
    shared = set(a) & set(b)
    if shared:
        o = a[sorted(shared)[0]]
        out.append(('the clone of %r shares a mutable %s object with the original' % (t[:60], type(o).__name__), None, repr(o)[:80]))
    if c._datatype is l._datatype and l._datatype:
        out.append(('the clone shares the datatype table of the original', None, None))
    modes = observe_modes(l, c)
    nontrivial = bool(a)
    if out:
        return out, modes, nontrivial
    # edits through the clone
    before_g = str(G) if G is not None else None
    for _ in range(rng.randint(3, 10)):
        what = mutate_in_place(rng, c) if rng.random() < 0.7 else assign(rng, c)
        if what is None:
            continue
        now = impl.outcome(lambda: str(l))
        if now != ('ok', t) or (G is not None and str(G) != before_g):
            out.append(('an edit of the clone (%s) changed the original' % what, t, now[1] if now[0] == 'ok' else now))
            return out, modes, nontrivial
    # edits through the original against a fresh clone (the original is a scratch line: a second, free-standing copy)
    r2 = impl.outcome(lambda: g.Line(t, version=l.version, vlevel=l.vlevel))
    if r2[0] == 'ok' and not l.virtual:
        o2 = r2[1]
        c2 = o2.clone()
        # values that are decoded on access: read every field of both copies, then compare the object identities again
        for x in (o2, c2):
            for f in list(x.positional_fieldnames) + list(x.tagnames):
                impl.outcome(lambda: x.get(f))
        a2, la2 = {}, []
        for v in o2._data.values():
            walk(v, a2, la2)
        b2, lb2 = {}, []
        for v in c2._data.values():
            walk(v, b2, lb2)
        sh = set(a2) & set(b2)
        if sh:
            o = a2[sorted(sh)[0]]
            out.append(('after both copies of %r decoded their fields they share a mutable %s object' % (t[:60], type(o).__name__), None, repr(o)[:80]))
            return out, modes, nontrivial
        t2 = str(c2)
        for _ in range(rng.randint(3, 10)):
            what = mutate_in_place(rng, o2) if rng.random() < 0.7 else assign(rng, o2)
            if what is None:
                continue
            now = impl.outcome(lambda: str(c2))
            if now != ('ok', t2):
                out.append(('an edit of the original (%s) changed the clone' % what, t2, now[1] if now[0] == 'ok' else now))
                return out, modes, nontrivial
    return out, modes, nontrivial


def gen_case(rng, i):
    version = 'gfa1' if i % 2 else 'gfa2'
    vlevel = rng.choice([0, 1, 1, 2, 3])
    lines, info = (gen.gen_gfa1(rng) if version == 'gfa1' else gen.gen_gfa2(rng))
    if rng.random() < 0.4:
        # a header tag defined on several lines is stored as a field array
        lines = ['H\tzx:i:1', 'H\tzx:i:2'] + lines
    if i < 4 or rng.random() < 0.4:
        # leave a segment (and, in GFA1, a link under a path) undefined: the Gfa holds placeholders, which are cloned too
        segs = [l for l in lines if l.startswith('S\t')]
        for l in rng.sample(segs, min(len(segs), rng.choice([1, 2]))):
            lines = [x for x in lines if x is not l]
        if version == 'gfa1':
            lines = lines + ['P\tpv\tvA+,vB-\t*']
        else:
            lines = lines + ['O\tov\tvA+ vE+ vB-', 'U\tuv\tvA vX']
    return {'kind': 'clone', 'version': version, 'vlevel': vlevel, 'lines': lines, 'seed': rng.randrange(10 ** 9)}


def py_of(case):
    return ("import gfapy\ng=gfapy.Gfa(version=%r, vlevel=%d)\nfor l in %r: g.add_line(l)\nfor l in g.lines:\n  c=l.clone(); print(str(c)==str(l), c==l, c.is_connected())"
            % (case['version'], case['vlevel'], case['lines']))


def run_case(case):
    g = impl.gfapy()
    G = g.Gfa(version=case['version'], vlevel=case['vlevel'])
    for l in case['lines']:
        G.add_line(l)
    rng = random.Random(case['seed'])
    fails, modes, nt = [], set(), False
    for l in list(G.lines) + [G.header]:
        f, m, n = judge_line(G, l, rng)
        fails += f
        nt = nt or n
        for (k, ref, js, kd, obs) in m:
            modes.add((ref, js, kd, obs))
        if fails:
            break
    if not fails:
        for text in case['lines']:
            r = impl.outcome(lambda: g.Line(text, version=case['version'], vlevel=case['vlevel']))
            if r[0] != 'ok':
                continue
            f, m, n = judge_line(None, r[1], rng, free=True)
            fails += f
            for (k, ref, js, kd, obs) in m:
                modes.add((ref, js, kd, obs))
            if fails:
                break
    return fails, modes, nt


EXTENSION_SCRIPT = r"""
import sys, json
import gfapy
from collections import OrderedDict

class Taxon(gfapy.Line):
  RECORD_TYPE = "T"
  POSFIELDS = OrderedDict([("tid","identifier_gfa2")])
  TAGS_DATATYPE = {"UL":"Z"}
  NAME_FIELD = "tid"
Taxon.register_extension()

class Assignment(gfapy.Line):
  RECORD_TYPE = "M"
  POSFIELDS = OrderedDict([("mid","optional_identifier_gfa2"), ("tid","identifier_gfa2"), ("sid","identifier_gfa2")])
  TAGS_DATATYPE = {"SC":"i"}
  NAME_FIELD = "mid"
Assignment.register_extension(references=[("sid", gfapy.line.segment.GFA2, "assignments"), ("tid", Taxon, "assignments")])

out = []
g = gfapy.Gfa(version="gfa2")
for l in ["S\tA\t10\t*", "S\tB\t10\t*", "T\ttx1\tUL:Z:u", "T\ttx2", "M\tm1\ttx1\tA\tSC:i:5", "M\t*\ttx2\tB", "M\tm3\ttx1\tB\txx:J:[1,2]"]:
  g.add_line(l)
for l in list(g.lines):
  if l.record_type not in ("M", "T"):
    continue
  t = str(l)
  c = l.clone()
  if str(c) != t:
    out.append(["the clone of an extension record is not written like the original", t, str(c)])
  if c.is_connected():
    out.append(["the clone of an extension record belongs to a Gfa", t, None])
  for k, v in c._data.items():
    if isinstance(v, gfapy.Line) or (isinstance(v, gfapy.OrientedLine) and isinstance(v.line, gfapy.Line)):
      out.append(["field %s of the clone of an extension record holds a line of the Gfa instead of its identifier" % k, t, str(v)])
before = str(g)
for l in list(g.lines):
  if l.record_type == "M":
    c = l.clone()
    try:
      c.set("SC", 99); c.set("zz", "edited")
    except gfapy.Error:
      pass
if str(g) != before:
  out.append(["editing the clones of extension records changed the Gfa", before, str(g)])
# a rename in the Gfa does not reach a clone made before it
m = [l for l in g.lines if l.record_type == "M"][0]
c = m.clone(); t = str(c)
g.segment("A").name = "renamed"
if str(c) != t:
  out.append(["renaming a segment of the Gfa changed a clone made before", t, str(c)])
print(json.dumps(out))
"""


def extension_records():
    """clones of the records of an extension (two record types, one with two reference fields), in a process of its own
    because registering an extension changes the classes of gfapy for good"""
    import subprocess, json, os
    env = dict(os.environ, PYTHONPATH=core.REPO, PYTHONHASHSEED="0")
    r = subprocess.run([core.PY, '-c', EXTENSION_SCRIPT], capture_output=True, text=True, timeout=120, env=env)
    if r.returncode != 0:
        return [['the extension scenario raised', None, r.stderr.strip().split('\n')[-1][:200]]]
    return json.loads(r.stdout.strip().split('\n')[-1])


def run(ctx, deep, model_ok):
    for what, exp, obs in extension_records():
        ctx.violation('failing-input', what, {'kind': 'extension', 'script': 'EXTENSION_SCRIPT of harness/props/c19.py'}, exp, obs,
                      python=EXTENSION_SCRIPT)
    ctx.count({'kind': 'extension'}, True)
    rng = ctx.rng
    n = 200 if deep else 40
    allmodes = set()
    for i in range(n):
        case = gen_case(rng, i)
        r = impl.outcome(lambda: run_case(case))
        if r[0] != 'ok':
            if r[1][0] == 'gfapy':
                ctx.count(case, False)
                continue
            ctx.violation('failing-input', 'running the case raised %s' % (r[1],), case, python=py_of(case))
            continue
        fails, modes, nt = r[1]
        ctx.count(case, nt)
        allmodes |= modes
        for what, exp, ob in fails[:1]:
            ctx.violation('failing-input', what, case, exp, ob, python=py_of(case))
    ctx.notes['observed_copy_modes'] = sorted('%s/%s/%s/%s' % m for m in allmodes)
    if model_ok:
        ms = sorted(allmodes)
        terms = ['(%s, %s, %s, %s)' % ('true' if r else 'false', 'true' if j else 'false', cstr(k), cstr(o)) for (r, j, k, o) in ms]
        failing, errs = core.coq_eval_cases('C19', 'modes', IMPORTS, 'clone_case', 'check_clone', terms, shard=200)
        for e in errs:
            ctx.broken.append(('correspondence-broken', 'clone modes: ' + e))
        for i in failing[:3]:
            vals, _ = core.coq_eval_strings('C19', 'showmode', IMPORTS, ['show_clone %s' % terms[i]])
            ctx.disagree('Model/Clone.v copies a value differently from Cloning.clone: reference field=%s JSON=%s kind=%s observed=%s model=%s'
                         % (ms[i] + ((vals[0] if vals else '?'),)), {'kind': 'mode', 'mode': list(ms[i])})
        ctx.notes['copy_modes_compared_in_coq'] = len(terms)


def replay(ctx, body):
    case = body.get('case') or {}
    if case.get('kind') == 'clone':
        r = impl.outcome(lambda: run_case(case))
        return r[0] != 'ok' or bool(r[1][0])
    return True
