"""C08 — a failed mutation leaves the Gfa unchanged."""
from .. import impl, gen, graphlab as GL
from . import graphcommon as GC
from .. import graph_oracle as GO

DEPS = GC.DEPS
MODEL_TARGETS = GC.MODEL_TARGETS
ASSUMPTIONS = GC.ASSUMPTIONS + ["header merges are checked by the oracle only (headers are outside Model/Graph.v)"]
LEVEL_TEXT = ("Theorem in coq/Props/C08.v: in the reference semantics Model/Graph.v an operation that raises returns the state "
              "it was given (operations are functions state -> error | state, so this holds by construction) and a successful "
              "one returns exactly its result. The content of the property is therefore carried by the tie: every generated "
              "history — about a third of whose operations fail (duplicate and clashing identifiers, malformed fields, version "
              "conflicts, renames onto names in use, several failures in a row) — is run on gfapy and on the model and the full "
              "observation is compared after every operation, so an implementation that leaves anything behind after a raise "
              "differs from the model at that step. The oracle independently compares the implementation's observation before "
              "and after every raising call (including header lines, version, names).")
RULE = ("histories as in C02 with 40% failing operations: adding a line whose identifier is in use (same and other record "
        "type), U/O lines with contradictory tags, header lines with conflicting TS/VN or a tag of another datatype, malformed "
        "lines, lines of the other version, renames onto identifiers in use or invalid at level 3, removals of unknown "
        "identifiers. Non-trivial: an operation raised when the Gfa held >= 3 lines.")


def full_state(G):
    return (GL.impl_obs(G), str(G), G.version, sorted(G.names), G.n_input_header_lines)


def step_oracle_factory():
    state = {}

    def oracle(G, op, r, ob, oa, removed):
        out = []
        if r[0] != 'ok':
            if ob != oa:
                a, b = set(ob.split('\n')), set(oa.split('\n'))
                out.append(('the Gfa changed although %r raised %s' % (op, r[1][1]), sorted(a - b)[:3], sorted(b - a)[:3]))
        return out
    return oracle


def gen_ops(rng, version):
    ops = GL.gen_history(rng, version, nops=rng.randint(2, 8), fail_rate=0.6)
    # failing header and group operations
    extra = []
    if version == 'gfa2':
        extra += [('add', 'U\tgrp\tA B\txx:i:1'), ('add', 'U\tgrp\tB\txx:i:2'), ('add', 'O\tgrp\tA+')]
    ts = rng.choice(['5', '0', '0', '-1'])          # a stored value that is falsy must be checked like any other
    extra += [('add', 'H\tTS:i:%s\tab:i:1' % ts), ('add', 'H\tzz:i:1\tTS:i:6'), ('add', 'H\tab:Z:x'),
              ('add', 'H\tVN:Z:9.9'), ('add', 'H\tVN:Z:%s' % ('2.0' if version == 'gfa1' else '1.0'))]
    k = rng.randint(0, len(extra))
    # the header lines keep their relative order: the conflicting line comes after the one it conflicts with
    at = sorted(rng.randint(0, len(ops)) for _ in range(k))
    for j, e in reversed(list(enumerate(extra[:k]))):
        ops.insert(at[j], e)
    return ops


# hand-made histories that run first: lines that fail late in their connection (a path with too few overlaps at the
# level that does not check the text, a path over an unknown link at the levels that do, a group over an unknown item)
CORPUS = [
    ('gfa1', 0, ['S\ta\t*', 'S\tb\t*', 'L\ta\t+\tb\t+\t1M', 'P\tp\ta+,b+,c+\t1M', 'P\tq\ta+,b+,c+,d-\t1M,2M', 'P\tr\tx+,y+,z+\t3M']),
    ('gfa1', 1, ['S\ta\t*', 'S\tb\t*', 'L\ta\t+\tb\t+\t1M', 'P\tp\ta+,b+,c+\t1M', 'P\tp\ta+,b+\t2M,1M,3M', 'S\ta\t*', 'P\tb\ta+,b+\t1M']),
    ('gfa2', 0, ['S\ta\t10\t*', 'S\tb\t10\t*', 'E\te\ta+\tb+\t7\t10$\t0\t3\t*', 'O\to\ta+ b+', 'O\te\ta+ b+', 'U\tu\ta e', 'U\ta\tb', 'E\tu\ta+\tb-\t0\t1\t0\t1\t*']),
    ('gfa2', 2, ['S\ta\t10\t*', 'S\tb\t10\t*', 'E\te\ta+\tb+\t7\t10$\t0\t3\t*', 'O\to\ta+ b+', 'O\te\ta+ b+', 'U\tu\ta e', 'U\ta\tb', 'E\tu\ta+\tb-\t0\t1\t0\t1\t*']),
    # a definition that is refused while a placeholder of its identifier is listed by groups: the placeholder stays, the
    # groups keep pointing at it, and the corrected definition is taken afterwards
    ('gfa2', 1, ['S\ta\t10\t*', 'S\tb\t10\t*', 'U\tu\te1 a', 'O\to\ta+ e1+ b+', 'E\te1\ta+\tb+\t5\t3\t0\t3\t*',
                 'E\te1\ta+\tb+\t8$\t10$\t0\t3\t*', 'E\te1\ta+\tb+\t7\t10$\t0\t3\t*', 'U\tw\tg1', 'G\tg1\ta+\tb+\t-1\t*', 'G\tg1\ta+\tb+\t5\t*']),
    # an edge that is refused for its intervals while its segments are not defined yet: no placeholder is left
    ('gfa2', 1, ['E\te1\tx+\ty+\t5\t3\t0\t3\t*', 'E\te2\tx+\ty+\t8$\t10$\t0\t3\t*', 'S\ty\t10\t*', 'E\te3\tx+\ty+\t0\t3\t5\t3\t*',
                 'G\tg\tx+\tq\t5\t*', 'F\tx\tr\t0\t3\t0\t3\t*', 'E\te4\tx+\ty+\t0\t3\t7\t10$\t*']),
    ('gfa2', 3, ['S\ta\t10\t*', 'U\tu\ts2 a', 'S\ts2\t-5\t*', 'S\ts2\t5\tAC GT', 'S\ts2\t5\t*', 'O\to\ta+ e9+', 'E\te9\ta+\tzz\t0\t1\t0\t1\t*']),
    # the version still unknown: a header line whose VN is fine but whose other tag clashes with the stored header is refused
    # and the version stays undecided (the lines that follow may be of either version); the same with an unsupported VN
    (None, 1, ['H\txx:i:1', 'H\tVN:Z:1.0\txx:Z:a', 'H\tVN:Z:3.0', 'H\tVN:Z:2.0\txx:i:1', 'S\ta\t10\t*', 'H\tVN:Z:1.0']),
    (None, 0, ['H\txx:i:1\tyy:Z:b', 'H\tVN:Z:2.0\tyy:i:3', 'H\tVN:Z:1.0\txx:i:1', 'S\ta\t*', 'S\tb\t10\t*']),
    (None, 2, ['# c', 'H\tab:Z:x', 'H\tVN:Z:2.0\tab:i:1', 'H\tVN:Z:1.0\tab:Z:x', 'S\ta\t*', 'L\ta\t+\tb\t+\t1M']),
    ('gfa1', 1, ['P\tp\ta+,b+\t*', 'S\ta\t*\tLN:i:3', 'S\tb\tACGT\tLN:i:9', 'S\tb\tACGT', 'L\ta\t+\tb\t+\t1Q', 'L\ta\t+\tb\t+\t1M']),
]


def judge(case):
    g = impl.gfapy()
    G = g.Gfa(version=case['version'], vlevel=case['vlevel'])
    for k, op in enumerate(case['ops']):
        before = impl.value_or(lambda: full_state(G), None)
        inv_before = impl.value_or(lambda: GO.check(G), [])
        r = GL.apply_op(G, op)
        if r[0] != 'ok':
            if r[1][0] != 'gfapy':
                return [('operation %r raised a foreign exception' % (op,), 'gfapy.Error', impl.outcome_name(r), k)]
            after = impl.value_or(lambda: full_state(G), None)
            # identity level: the references of the Gfa are to lines of the Gfa after the refusal as they were before it
            inv_after = impl.value_or(lambda: GO.check(G), [])
            if inv_after and not inv_before:
                return [('after %r raised %s: %s' % (op, r[1][1], inv_after[0][0]), inv_after[0][1], inv_after[0][2], k)]
            if before != after:
                names = ['references/collections', 'written text', 'version', 'identifiers', 'header line count']
                d = [names[i] for i in range(5) if before is None or after is None or before[i] != after[i]]
                return [('the Gfa changed although %r raised %s: %s differ' % (op, r[1][1], ', '.join(d)),
                         None if before is None else before[1], None if after is None else after[1], k)]
    return []


def run(ctx, deep, model_ok):
    rng = ctx.rng
    n = 300 if deep else 60
    # oracle over the full state (incl. headers)
    for i in range(-len(CORPUS), n):
        ver = 'gfa1' if i % 2 else 'gfa2'
        if i < 0:
            ver, vl, lines = CORPUS[i + len(CORPUS)]
            case = {'kind': 'history', 'version': ver, 'vlevel': vl, 'ops': [('add', l) for l in lines]}
        else:
            case = {'kind': 'history', 'version': ver, 'vlevel': rng.choice([0, 1, 2, 3]), 'ops': gen_ops(rng, ver)}
        fails = judge(case)
        if fails:
            small = GC.shrink(dict(case, ops=case['ops'][:fails[0][3] + 1]), lambda c: bool(judge(c)))
            f2 = judge(small) or fails
            last = small['ops'][f2[0][3]] if len(f2[0]) > 3 and f2[0][3] < len(small['ops']) else None
            if small['vlevel'] == 0 and last and last[0] == 'add' and 'raised FormatError' in f2[0][0]:
                ctx.known('F65', "at level 0 an added line with a malformed field raises FormatError while its references are "
                                 "being initialised and leaves the placeholders created so far (add_line is not atomic)")
                continue
            ctx.violation('failing-input', f2[0][0], small, f2[0][1], f2[0][2], python=GC.py_of(small))
    # correspondence with the model (headers are no-ops there and excluded from the observation)
    def gen_nohdr(rng2, version):
        return [o for o in gen_ops(rng2, version) if not (o[0] == 'add' and o[1].startswith('H\t'))]
    GC.run_histories(ctx, 'C08', deep, model_ok, 30, 200, lambda *a: [], lambda ops: len(ops) >= 4, gen_ops=gen_nohdr)
    # known finding F29
    g = impl.gfapy()
    G = g.Gfa(vlevel=1)
    try:
        G.add_line('L\tA\t+\tB\t+\t*')
        G.add_line('L\tA\t+\tB\t+\t*')
        before = (str(G), G.version)
        try:
            G.add_line('S\tA\t*')
        except g.Error:
            if (str(G), G.version) != before:
                ctx.known('F29', "a failure inside the deferred queue processing (duplicate line queued before the version was "
                                 "known) leaves the version set and part of the queue added")
    except g.Error:
        pass


def replay(ctx, body):
    case = body.get('case') or {}
    if 'ops' not in case:
        return True
    return bool(judge(case)) or GC.replay_history(ctx, 'C08', body, lambda *a: [])
