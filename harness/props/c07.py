"""C07 — only gfapy.Error exceptions escape, whatever the input."""
import itertools
import os
import random
import signal
import tempfile
from .. import core, impl, gen, graphlab as GL, linelab as LL
from ..core import cstr, clist, copt

DEPS = ['Tables', 'Regexes', 'K_cigar', 'K_numarr', 'K_edge2', 'K_fromto']
MODEL_TARGETS = ['Corr/Linec.vo']
IMPORTS = LL.IMPORTS
ASSUMPTIONS = ["arguments of the public API are strings (values of other Python types are outside the property)",
               "termination is observed with a watchdog of 5 s per call"]
LEVEL_TEXT = ("Theorems in coq/Props/C07.v over Model/Line.v/Codec.v (line construction at every validation level and version): "
              "for every string, version and level the construction of a line ends in a line or in an error of the gfapy "
              "hierarchy — no foreign exception — given two facts about the regenerated class tables that are proved by "
              "evaluation (every predefined tag has a datatype; every integer array subtype has a range); the model's functions "
              "are total, so construction terminates. Tie: the outcome of gfapy.Line on exhaustive short lines and on mutated "
              "valid lines is compared with the model inside Coq. Oracle: every public entry point (Line, Gfa, add_line, "
              "from_file, lookups, removals, renames, get/set/validate, str, bin/gfapy-validate) is driven with exhaustive short "
              "texts, single-point mutations of valid documents and hostile arguments at levels 0-3; anything but success or a "
              "gfapy.Error, and any call exceeding the watchdog, is a failure. For the graph model (add_line/rm/rename of Model/Graph.v, tied to gfapy by the "
              "history correspondences of C02/C05/C08/C09) every operation on every state ends in a state or a gfapy error, "
              "removals possibly in the RecursionError of the checked cascade. PARTIAL: the remaining entry points (files, "
              "lookups, get/set/validate, str) are decided by the oracle, not proved.")
RULE = ("all lines of up to 3 fields over a 9-symbol field alphabet per record type (exhaustive), all single-character "
        "substitutions/deletions/insertions at sampled positions of generated valid documents, hostile API arguments (empty, "
        "'*', tabs, newlines, very long, non-existent names, reserved names); every public attribute and every argument-less "
        "method of every line (each on a copy) and of the Gfa and its connected lines (each on a Gfa of its own; the "
        "operations of F75 probed separately); valid edits of connected lines followed by removals by instance and by "
        "identifier; hand-made documents with unusual shapes (groups listing each other, loops, lines given twice) first; "
        "versions gfa1/gfa2/unknown; levels 0-3. "
        "Non-trivial: the call raised a gfapy error or succeeded on a mutated input.")


class Timeout(Exception):
    pass


def _alarm(signum, frame):
    raise Timeout()


def guarded(f, seconds=5):
    """('ok', v) | ('err', cls) | ('hang', None); a call that exceeds the watchdog is tried once more with 60 s before it
    is called a hang, so that a loaded machine does not raise an alarm"""
    r = _guarded(f, seconds)
    if r[0] == 'hang' and seconds < 60:
        r = _guarded(f, 60)
    return r


def _guarded(f, seconds):
    old = signal.signal(signal.SIGALRM, _alarm)
    signal.alarm(seconds)
    try:
        return impl.outcome(f)
    except Timeout:
        return ('hang', None)
    finally:
        signal.alarm(0)
        signal.signal(signal.SIGALRM, old)


def bad(r):
    return r[0] == 'hang' or (r[0] == 'err' and r[1][0] != 'gfapy')


# file and logging entry points (asked elsewhere or not a question of the state)
GFA_SKIP = {'from_file', 'read_file', 'to_file', 'enable_progress_logging', 'info', 'GFA1Specific', 'GFA2Specific'}
# F75: argument-less graph operations that raise builtin exceptions on ordinary graphs (half-ported code paths)
F75_OPS = {'enforce_all_mandatory_links', 'randomly_orient_invertibles', 'randomly_orient_invertible', 'remove_p_bubbles',
           'remove_p_bubble', 'split_connected_components', 'apply_copy_numbers', 'compute_copy_numbers'}
F75_LINE_OPS = {'rm_first_item', 'rm_last_item'}

FIELD_ALPHABET = ['', '*', 'A', '+', '1', 'A+', 'xx:i:1', '1M', 'a:b', '-1', 'A+,B-', '0$', 'xx:J:{', 'xx:B:i', 'VN:Z:1.0', 'A B', 'A+ B-']
RTS = ['S', 'L', 'C', 'P', 'H', '#', 'E', 'G', 'F', 'O', 'U', 'X', '', 'SS', '1', '\n']


def short_lines(rng, n_fields_max, sample=None):
    out = []
    for rt in RTS:
        for k in range(0, n_fields_max + 1):
            combos = itertools.product(FIELD_ALPHABET, repeat=k)
            for c in combos:
                out.append('\t'.join((rt,) + c))
    if sample and len(out) > sample:
        out = rng.sample(out, sample)
    return out


HOSTILE = ['', '*', ' ', '\t', '\n', 'A\tB', 'nosuch', 'x' * 3000, '0', '-1', 'A+', 'A,B', '\x00', '\x7f', 'é', ':', 'xx:i:1',
           'record_type', 'name', 'sid', 'LN', 'co', 'VN', 'TS', '#', 'H']


def mutate(rng, text):
    if not text:
        return '\t'
    i = rng.randrange(len(text))
    k = rng.random()
    c = rng.choice('\t:*+-,$ 0aZ#@\n{}[]"\\.e')
    if k < 0.4:
        return text[:i] + c + text[i + 1:]
    if k < 0.7:
        return text[:i] + text[i + 1:]
    if k < 0.9:
        return text[:i] + c + text[i:]
    j = rng.randrange(len(text))
    a, b = min(i, j), max(i, j)
    return text[:a] + text[b:]


STALE_SEEN = []


def stale_refs(G):
    """a line of the Gfa lists, among its back-references, a line that is not part of the Gfa"""
    ids = {id(x) for x in G.lines}
    for ln in G.lines:
        refs = getattr(ln, '_refs', None) or {}
        for k, members in refs.items():
            for m in members:
                if id(m) not in ids:
                    return True
    return False


def probe_f65():
    g = impl.gfapy()
    G = g.Gfa(version=None, vlevel=0)
    for l in ['S\t2\t*', 'L\t2\t-\t\t-\t2M']:
        try:
            G.add_line(l)
        except g.Error:
            pass
    r = impl.outcome(lambda: G.rm('2'))
    return r[0] == 'err' and r[1][0] != 'gfapy'


def line_calls(text, version, vlevel):
    """entry points on one line text"""
    g = impl.gfapy()
    calls = []
    calls.append(('Line(%r, version=%r, vlevel=%d)' % (text, version, vlevel),
                  lambda: str(g.Line(text, version=version, vlevel=vlevel))))

    def more():
        l = g.Line(text, version=version, vlevel=vlevel)
        str(l)
        l.validate()
        for f in list(l.positional_fieldnames) + list(l.tagnames):
            l.get(f)
            l.field_to_s(f)
            l.validate_field(f)
        l.to_list()
        l.clone()
        for v in ('gfa1', 'gfa2'):
            try:
                l.to_version_s(v)
            except g.Error:
                pass
        return True
    calls.append(('reads on Line(%r, version=%r, vlevel=%d)' % (text, version, vlevel), more))

    def every_method():
        # every public attribute and every public method that can be called without arguments, each on a copy of its own
        # (methods that edit the line included): the answer is a value or an error of gfapy
        from .c10 import zero_arg_names
        l = g.Line(text, version=version, vlevel=vlevel)
        for n, call in zero_arg_names(l, {'connect', 'disconnect', 'register_extension'}):
            c = l.clone()
            try:
                getattr(c, n)() if call else getattr(c, n)
            except g.Error:
                pass
        return True
    calls.append(('every attribute and zero-argument method of Line(%r, version=%r, vlevel=%d)' % (text, version, vlevel), every_method))

    def connect():
        G = g.Gfa(version=version, vlevel=vlevel)
        G.add_line(text)
        str(G)
        try:
            G.validate()
        except g.Error:
            pass
        for n in list(G.names)[:3]:
            try:
                G.rm(n)
            except g.Error:
                pass
        return str(G)
    calls.append(('Gfa(version=%r, vlevel=%d).add_line(%r)' % (version, vlevel, text), connect))
    return calls


def structured_lines(rng):
    """record-shaped lines whose list fields disagree in length or refer to themselves"""
    out = []
    segs = ['a+', 'b-', 'c+', 'd+']
    for n in (1, 2, 3, 4):
        for k in (0, 1, 2, 3, 4, 5):
            for ov in ('*', '3M', '10M'):
                ovs = ','.join([ov] * k) if k else ''
                out.append('P\tp\t%s\t%s' % (','.join(segs[:n]), ovs))
                out.append('P\tp\t%s\t%s' % (','.join(segs[:n]), ','.join((['*'] * max(k - 1, 0)) + [ov]) if k else '*'))
    for items in ('a+', 'a+ b-', 'a+ a+', 'o+', 'a+ o-', 'e1+ e1-', ''):
        out.append('O\to\t%s' % items)
    for items in ('a', 'a a', 'u', 'u a', 'a  b', ''):
        out.append('U\tu\t%s' % items)
    for a, b in (('a+', 'a+'), ('a+', 'a-'), ('a+', 'b+')):
        for pos in (('0', '0', '0', '0'), ('0', '5', '0', '5$'), ('5', '0', '3', '1'), ('0$', '0$', '1$', '1$'), ('10$', '10$', '0', '0')):
            out.append('E\t*\t%s\t%s\t%s\t*' % (a, b, '\t'.join(pos)))
            out.append('F\t%s\t%s\t%s\t*' % (a[:-1], b, '\t'.join(pos)))
    for d in ('0', '-1', '*', ''):
        out.append('G\t*\ta+\tb-\t%s\t*' % d)
        out.append('C\ta\t+\tb\t-\t%s\t*' % d)
    return out


def doc_calls(rng, lines, version, vlevel, tmpdir):
    g = impl.gfapy()
    text = '\n'.join(lines)
    calls = []
    calls.append(('Gfa(text)', lambda: str(g.Gfa(text, version=version, vlevel=vlevel))))
    calls.append(('Gfa(list)', lambda: str(g.Gfa(lines, version=version, vlevel=vlevel))))

    def add_all():
        G = g.Gfa(version=version, vlevel=vlevel)
        for l in lines:
            try:
                G.add_line(l)
            except g.Error:
                pass
        str(G)
        try:
            G.validate()
        except g.Error:
            pass
        return G
    calls.append(('add_line each', lambda: bool(add_all())))

    def from_file():
        p = os.path.join(tmpdir, 'doc.gfa')
        with open(p, 'w', newline='') as f:
            f.write(text + ('\n' if rng.random() < 0.7 else ''))
        return str(g.Gfa.from_file(p, vlevel=vlevel, version=version))
    calls.append(('from_file', from_file))

    def api():
        G = add_all()
        names = list(G.names)
        calls_g = (G.line, G.try_get_line, G.segment, G.try_get_segment, G.rm)
        if stale_refs(G):
            # F65: a failed add_line left a half-connected line behind; removal would meet it
            STALE_SEEN.append(True)
            calls_g = calls_g[:-1]
        for n in rng.sample(HOSTILE, 6) + rng.sample(names, min(3, len(names))):
            for f in calls_g:
                try:
                    f(n)
                except g.Error:
                    pass
        str(G)
        for l in list(G.lines)[:6]:
            for fn in rng.sample(HOSTILE, 4) + list(l.tagnames)[:2] + list(l.positional_fieldnames)[:2]:
                for val in rng.sample(HOSTILE, 3):
                    try:
                        l.get(fn)
                        l.try_get(fn)
                    except g.Error:
                        pass
                    try:
                        l.set(fn, val)
                    except g.Error:
                        pass
                    try:
                        l.validate_field(fn)
                    except g.Error:
                        pass
            try:
                str(l)
            except g.Error:
                pass
            try:
                l.validate()
            except g.Error:
                pass
        try:
            str(G)
        except g.Error:
            pass
        return True
    calls.append(('lookups, removals, get/set/validate with hostile arguments', api))

    VALID = {'sequence_gfa1': 'ACGT', 'sequence_gfa2': 'ACGT', 'position_gfa2': '1', 'position_gfa1': '0', 'integer': '3',
             'alignment_gfa1': '2M', 'alignment_gfa2': '*', 'optional_integer': '*', 'oriented_identifier_gfa2': 'read9+',
             'generic': 'zz', 'comment': 'c', 'orientation': '+', 'i': 7, 'Z': 'zz', 'f': 1.5, 'A': 'x', 'H': '0A', 'J': [1], 'B': [1, 2]}

    def edit_then_remove():
        # valid edits of the fields of connected lines (everything but the references), then every removal
        G = add_all()
        if stale_refs(G):
            STALE_SEEN.append(True)
            return True
        for l in list(G.lines):
            if l.record_type in ('H', '#') or l.virtual:
                continue
            fns = [fn for fn in l.positional_fieldnames if fn not in type(l).REFERENCE_FIELDS and fn != 'name'
                   and fn != getattr(type(l), 'NAME_FIELD', None)] + list(l.tagnames)
            for fn in rng.sample(fns, min(2, len(fns))):
                dt = type(l).DATATYPE.get(fn) or l.get_datatype(fn)
                if dt in VALID:
                    try:
                        l.set(fn, VALID[dt])
                    except g.Error:
                        pass
        str(G)
        for n in list(G.names)[:4]:
            # by identifier, on a copy of the graph each time so that every line meets its removal with all the others present
            G1 = add_all()
            if not stale_refs(G1):
                try:
                    G1.rm(n)
                except g.Error:
                    pass
                str(G1)
        for l in list(G.lines):
            if l.record_type != 'H' and l.is_connected() and rng.random() < 0.7:
                try:
                    G.rm(l) if rng.random() < 0.5 else l.disconnect()
                except g.Error:
                    pass
        str(G)
        return True
    calls.append(('valid edits of connected lines, then removals', edit_then_remove))

    def every_operation():
        # every public attribute and argument-less method of the Gfa (graph operations included), each on a Gfa of its own;
        # the operations recorded as F75 are left out here and probed separately
        from .c10 import zero_arg_names
        G0 = add_all()
        if stale_refs(G0):
            STALE_SEEN.append(True)
            return True
        for n, call in zero_arg_names(G0, GFA_SKIP | F75_OPS):
            if n == 'merge_linear_paths' and G0.version == 'gfa2':
                continue        # F75/F55: merging is a GFA1 operation
            G = add_all()
            try:
                getattr(G, n)() if call else getattr(G, n)
                str(G)
            except g.Error:
                pass
            except Exception as e:
                raise type(e)('%s: %s' % (n, e))
        # the header as one line
        for n, call in zero_arg_names(G0.header, {'connect', 'disconnect', 'register_extension'}):
            G = add_all()
            try:
                getattr(G.header, n)() if call else getattr(G.header, n)
                str(G)
            except g.Error:
                pass
            except Exception as e:
                raise type(e)('header.%s: %s' % (n, e))
        k = 0
        for idx, l0 in enumerate(list(G0.lines)[:10]):
            for n, call in zero_arg_names(l0, {'connect', 'register_extension'} | F75_LINE_OPS):
                k += 1
                if k % 3:
                    continue
                G = add_all()
                ls = list(G.lines)
                if idx >= len(ls):
                    continue
                try:
                    getattr(ls[idx], n)() if call else getattr(ls[idx], n)
                    str(G)
                except g.Error:
                    pass
                except Exception as e:
                    raise type(e)('%s.%s: %s' % (ls[idx].record_type, n, e))
        return True
    calls.append(('every attribute and argument-less method of the Gfa and of its lines', every_operation))
    return calls


# hand-made documents with unusual shapes that run first: groups that list each other or themselves, a set over a set
# over a set, a path that visits a segment twice, links and edges from a segment to itself, lines given twice
SHAPES = [
    ('gfa2', ['S\tx\t10\t*', 'U\ta\tb x', 'U\tb\ta']),
    ('gfa2', ['S\tx\t10\t*', 'U\ta\ta x']),
    ('gfa2', ['S\tx\t10\t*', 'U\ta\tb', 'U\tb\tc', 'U\tc\ta x']),
    ('gfa2', ['S\tx\t10\t*', 'S\ty\t10\t*', 'E\te\tx+\ty+\t7\t10$\t0\t3\t*', 'O\ta\tb+ x+', 'O\tb\ta+ x+']),
    ('gfa2', ['S\tx\t10\t*', 'E\t*\tx+\tx+\t7\t10$\t0\t3\t*', 'E\t*\tx+\tx+\t7\t10$\t0\t3\t*', 'E\te\tx+\tx-\t7\t10$\t7\t10$\t*',
              'O\to\tx+ x+', 'U\tu\tx x e', 'F\tx\tx+\t0\t3\t0\t3\t*', 'G\tg\tx+\tx-\t3\t*']),
    # header tags given on several lines (stored as an array of values)
    ('gfa1', ['H\tVN:Z:1.0\txx:i:1', 'H\txx:i:2\tyy:Z:a', 'H\tyy:Z:b', 'S\tx\t*']),
    # groups of one item (an edge, a segment, another group), a set of one set, an empty-looking path
    ('gfa2', ['S\tx\t10\t*', 'S\ty\t10\t*', 'E\te\tx+\ty+\t7\t10$\t0\t3\t*', 'O\tp\te+', 'O\tq\te-', 'O\tr\tx-', 'O\ts\tp+', 'O\tt\tp-',
              'U\tu\te', 'U\tv\tu', 'U\tw\tp']),
    ('gfa1', ['S\tx\t*', 'L\tx\t+\tx\t+\t*', 'L\tx\t+\tx\t-\t*', 'C\tx\t+\tx\t+\t0\t*', 'P\tp\tx+,x+,x-\t*', 'P\tq\tx+\t*',
              'P\tr\tx+,x+\t*,*']),
]


def py_of(case):
    if case.get('kind') == 'line':
        return "import gfapy\nprint(gfapy.Line(%r, version=%r, vlevel=%d))" % (case['text'], case['version'], case['vlevel'])
    return ("import gfapy\n# entry point: %s\ng=gfapy.Gfa(%r, version=%r, vlevel=%d)\nprint(g)"
            % (case.get('call'), case.get('lines'), case.get('version'), case.get('vlevel')))


def run(ctx, deep, model_ok):
    rng = ctx.rng
    g = impl.gfapy()
    kinds = {}
    terms, metas = [], []
    # 0. JSON text nested far deeper than the interpreter's recursion limit, through every way a J value is taken: as the
    #    text of a line, assigned to a tag, checked by validate_field()/validate(), written
    for label, deeptext in (('60000 open brackets', '[' * 60000), ('30000 nested objects', '{"a":' * 30000),
                            ('balanced 60000-deep list', '[' * 60000 + ']' * 60000)):
        for vlevel in (0, 1, 2, 3):
            case = {'kind': 'line', 'text': 'S\ta\t*\txx:J:[1]', 'version': 'gfa1', 'vlevel': vlevel, 'then': 'set xx to ' + label}
            def probe():
                l = g.Line('S\ta\t*\txx:J:[1]', version='gfa1', vlevel=vlevel)
                for f in (lambda: l.set('xx', deeptext), lambda: l.validate_field('xx'), lambda: l.validate(), lambda: str(l),
                          lambda: l.get('xx'), lambda: g.Line('S\ta\t*\txx:J:' + deeptext, version='gfa1', vlevel=vlevel).validate()):
                    try:
                        f()
                    except g.Error:
                        pass
            r = guarded(probe, 20)
            kinds[impl.outcome_name(r) if r[0] != 'hang' else 'hang'] = kinds.get(impl.outcome_name(r) if r[0] != 'hang' else 'hang', 0) + 1
            if bad(r):
                ctx.violation('failing-input', 'a J value of %s: %s' % (label, 'does not terminate' if r[0] == 'hang' else 'raised ' + impl.outcome_name(r)),
                              case, 'gfapy.Error or success', 'hang' if r[0] == 'hang' else impl.outcome_name(r),
                              python="import gfapy\nl=gfapy.Line('S\\ta\\t*\\txx:J:[1]',version='gfa1',vlevel=%d)\nd=%r*%d\ntry: l.set('xx',d)\nexcept gfapy.Error: pass\nl.validate_field('xx')"
                                     % (vlevel, deeptext[:5] if deeptext[0] == '{' else '[', 30000 if deeptext[0] == '{' else 60000))
    # 1. exhaustive short lines
    shorts = structured_lines(rng) + short_lines(rng, 2) + short_lines(rng, 3, sample=(6000 if deep else 600))
    for text in shorts:
        for version in (None, 'gfa1', 'gfa2'):
            vlevel = rng.choice([0, 1, 2, 3])
            case = {'kind': 'line', 'text': text, 'version': version, 'vlevel': vlevel}
            for label, f in line_calls(text, version, vlevel):
                r = guarded(f)
                kinds[impl.outcome_name(r) if r[0] != 'hang' else 'hang'] = kinds.get(impl.outcome_name(r) if r[0] != 'hang' else 'hang', 0) + 1
                if bad(r):
                    ctx.violation('failing-input', '%s %s' % (label, 'does not terminate' if r[0] == 'hang' else 'raised ' + impl.outcome_name(r)),
                                  case, 'gfapy.Error or success', 'hang' if r[0] == 'hang' else impl.outcome_name(r), python=py_of(case))
                    break
            ctx.count(case, True)
            if model_ok and vlevel >= 1 and len(terms) < (4000 if deep else 800) and '\n' not in text:
                try:
                    t, _ = LL.case_term(text, vlevel, version)
                    terms.append(t)
                    metas.append(case)
                except ValueError:
                    pass
    # 2. mutated valid documents
    tmpdir = tempfile.mkdtemp(prefix='c07', dir=os.path.join(core.VERIF, 'build')) if os.path.isdir(os.path.join(core.VERIF, 'build')) \
        else tempfile.mkdtemp(prefix='c07')
    try:
        for i in range(-len(SHAPES), 300 if deep else 40):
            version = 'gfa1' if i % 2 else 'gfa2'
            if i < 0:
                version, lines = SHAPES[i + len(SHAPES)]
                lines = list(lines)
            else:
                lines, info = (gen.gen_gfa1(rng) if version == 'gfa1' else gen.gen_gfa2(rng))
                for _ in range(rng.randint(1, 3)):
                    k = rng.randrange(len(lines))
                    lines[k] = mutate(rng, lines[k])
            vlevel = rng.choice([0, 1, 2, 3])
            ver = rng.choice([version, version, None])
            for label, f in doc_calls(rng, lines, ver, vlevel, tmpdir):
                case = {'kind': 'doc', 'call': label, 'lines': lines, 'version': ver, 'vlevel': vlevel}
                r = guarded(f, 20)
                kinds[impl.outcome_name(r) if r[0] != 'hang' else 'hang'] = kinds.get(impl.outcome_name(r) if r[0] != 'hang' else 'hang', 0) + 1
                ctx.count(case, True)
                if bad(r):
                    ctx.violation('failing-input', '%s %s' % (label, 'does not terminate' if r[0] == 'hang' else 'raised ' + impl.outcome_name(r)),
                                  case, 'gfapy.Error or success', 'hang' if r[0] == 'hang' else impl.outcome_name(r), python=py_of(case))
            for l in lines:
                v2 = rng.choice([None, 'gfa1', 'gfa2'])
                for label, f in line_calls(l, v2, vlevel):
                    r = guarded(f)
                    if bad(r):
                        case = {'kind': 'line', 'text': l, 'version': v2, 'vlevel': vlevel}
                        ctx.violation('failing-input', '%s %s' % (label, 'does not terminate' if r[0] == 'hang' else 'raised ' + impl.outcome_name(r)),
                                      case, 'gfapy.Error or success', 'hang' if r[0] == 'hang' else impl.outcome_name(r), python=py_of(case))
                        break
    finally:
        import shutil
        shutil.rmtree(tmpdir, ignore_errors=True)
    ctx.notes['outcomes'] = kinds
    # F75: the argument-less graph operations known to raise builtin exceptions on an ordinary graph
    g = impl.gfapy()
    still = []
    for n in sorted(F75_OPS):
        G = g.Gfa(['S\ta\t*\tKC:i:10', 'S\tb\t*', 'S\tc\t*', 'L\ta\t+\tb\t+\t*', 'L\ta\t+\tc\t+\t*', 'L\tb\t+\tc\t-\t*'], version='gfa1')
        from .c10 import zero_arg_names
        if (n, True) in zero_arg_names(G, set()):
            r = impl.outcome(lambda: getattr(G, n)())
            if r[0] != 'ok' and r[1][0] != 'gfapy':
                still.append('%s (%s)' % (n, r[1][1]))
    if still:
        ctx.known('F75', 'argument-less graph operations raise builtin exceptions on an ordinary graph: ' + ', '.join(still))
    if probe_f65():
        ctx.known('F65', "a failed add_line ('L 2 - <empty> - 2M' at level 0) leaves the half-connected link among the "
                         "back-references of segment 2; rm('2') then raises KeyError")
    ctx.notes['documents_with_stale_references_after_a_failed_addition'] = len(STALE_SEEN)
    if len(ctx.violations) > 5:
        # keep the report readable: distinct messages only
        seen, keep = set(), []
        for v in ctx.violations:
            k = v['what'].split(' raised ')[-1] + '|' + (v['what'].split('(')[0])
            if k not in seen:
                seen.add(k)
                keep.append(v)
        ctx.violations[:] = keep[:8]
    if model_ok:
        failing, errs = core.coq_eval_cases('C07', 'lines', IMPORTS, 'line_case', 'check_line_accept', terms, shard=250)
        for e in errs:
            ctx.broken.append(('correspondence-broken', 'line construction: ' + e))
        for i in failing[:3]:
            vals, _ = LL.show_model('C07', [terms[i]])
            ctx.disagree('Model/Line.v and gfapy.Line disagree on the outcome (model: %s)' % (vals[0][:200] if vals else '?'),
                         metas[i], python=py_of(metas[i]))
        ctx.notes['lines_compared_in_coq'] = len(terms)


def replay(ctx, body):
    case = body.get('case') or {}
    if case.get('kind') == 'line':
        for label, f in line_calls(case['text'], case['version'], case['vlevel']):
            if bad(guarded(f)):
                return True
        return False
    if case.get('kind') == 'doc':
        rng = random.Random(0)
        tmpdir = tempfile.mkdtemp(prefix='c07')
        try:
            for label, f in doc_calls(rng, case['lines'], case['version'], case['vlevel'], tmpdir):
                if bad(guarded(f, 20)):
                    return True
        finally:
            import shutil
            shutil.rmtree(tmpdir, ignore_errors=True)
        return False
    return True
