"""C18 — validation levels only change when errors surface, never the result."""
import random
from .. import core, impl, gen, graphlab as GL, linelab as LL, fieldlab as FL, grammar as GR
from ..core import cstr, clist, copt

DEPS = ['Tables', 'Regexes', 'K_cigar', 'K_numarr', 'K_levels', 'K_clone']
MODEL_TARGETS = ['Corr/C18c.vo', 'Corr/Linec.vo']
IMPORTS = "From GfaV Require Import Base.Py Model.Codec Model.Levels Corr.C18c."
ASSUMPTIONS = ["assigned values are strings (the encoded form); fields that hold references are assigned on free-standing lines only",
               "a value followed by a newline is outside the domain (F23)"]
LEVEL_TEXT = ("Theorems in coq/Props/C18.v: (construction, Model/Line.v with the level as parameter) for every text and version "
              "levels 1, 2 and 3 build the same line or fail with the same error, and a text accepted above level 0 is accepted at "
              "level 0 where every record type with declared fields yields the same line (unconditionally: the safe decoder of "
              "every datatype accepts only what the unsafe one accepts, by checked inclusion of the regenerated grammars in the "
              "grammars of Python's int() and float() and separate arguments for GFA2 positions and oriented identifier lists); (assignments, Model/Levels.v) an "
              "invalid assignment is refused at the assignment at level 3, reported by the next write at level 2 and by validate "
              "at every level; a valid one is accepted, written as assigned and validates at every level; over operation sequences "
              "of any length the stored value stays valid at level 3 and only valid texts are written at level >= 2. Tie: "
              "gfapy.Line outcomes per level and set/field_to_s/validate_field sequences on real lines are compared with the "
              "models inside Coq. Oracle: valid documents are built at levels 0-3 and must give the same text and the same "
              "observation; acceptance of mutated documents must be monotone in the level; assignment timing is judged with the "
              "independent grammar (harness/grammar.py).")
RULE = ("valid GFA1/GFA2 documents from the shared generators at levels 0-3; single-point mutations for monotonicity; per "
        "document up to 12 fields (all positional datatypes and tag types) with sequences of 3-8 set/write/validate operations "
        "mixing valid and invalid strings. Non-trivial: a sequence containing an invalid assignment, or a mutated document "
        "rejected at some level.")

POOL = {
    'i': ['5', '-3', '007', 'x', '1.5', '', '5 '], 'f': ['1.5', '-2e3', 'x', '1,5', ''], 'Z': ['hello', 'a b', 'tab\there', ''],
    'A': ['x', 'xy', ''], 'J': ['[1, 2]', '{"a": 1}', '[1', 'x', '1'], 'H': ['0A', 'FF00', '0a', 'G1', 'ABC', ''],
    'B': ['C,1,2', 'f,1.5', 'i,-1', 'C,300', 'x,1', 'C', ''],
}
POS_POOL = ['*', 'A', '5', '-1', '10$', '+', '-', 'A+', 'A+,B-', 'A+ B-', '3M', '1,2', 'ACGT', 'x y', '', 'a\tb', '1M2X', '0', '3M,*']


def gen_doc(rng, i):
    version = 'gfa1' if i % 2 else 'gfa2'
    if i == 1:
        # every GFA1 alignment operation on links, containments and under paths
        return 'gfa1', ['S\ta\t*\tLN:i:30', 'S\tb\t*\tLN:i:30', 'S\tc\t*\tLN:i:30', 'L\ta\t+\tb\t-\t2M1=1X1I1D', 'L\tb\t-\tc\t+\t1S2M1N1H1P',
                        'C\ta\t+\tc\t-\t2\t3=1X', 'P\tp\ta+,b-,c+\t2M1=1X1I1D,1S2M1N1H1P', 'P\tq\tc-,b+\t*']
    if i == 2:
        # spellings that every level reads alike: signed integers, floats with exponents, positions with `$`, arrays
        return 'gfa2', ['S\ta\t10\t*\txx:i:+6\tyy:i:-0\tzz:f:+1.5e+2\tww:f:-.5', 'S\tb\t10\tACGTACGTAC\tvv:B:i,+1,-2', 'E\te\ta+\tb-\t7\t10$\t7\t10$\t*\tTS:i:+3',
                        'G\tg\ta+\tb+\t12\t*', 'G\th\ta-\tb+\t0\t5', 'F\ta\tr+\t0\t10$\t0\t5\t1,2\tuu:H:0A']
    if i == 3:
        return 'gfa1', ['H\tVN:Z:1.0', 'S\ta\tACGT\tLN:i:+4\tRC:i:+07', 'S\tb\t*\tLN:i:4\tKC:i:-0', 'L\ta\t+\tb\t-\t2M\tNM:i:+1\tMQ:i:0', 'C\ta\t+\tb\t+\t0\t4M']
    if version == 'gfa1':
        lines, info = gen.gen_gfa1(rng, cigar_codes=rng.choice(['MIDP', 'MIDNSHPX=']), lengths=rng.random() < 0.5)
    else:
        lines, info = gen.gen_gfa2(rng)
    return version, lines


def build(version, vlevel, lines):
    g = impl.gfapy()
    G = g.Gfa(version=version, vlevel=vlevel)
    for l in lines:
        G.add_line(l)
    return G


def py_of(case):
    if case.get('kind') == 'levels':
        return ("import gfapy\nfor vl in range(4):\n  try: print(vl, repr(str(gfapy.Gfa(%r, version=%r, vlevel=vl))))\n  except gfapy.Error as e: print(vl, type(e).__name__)"
                % (case['lines'], case['version']))
    return ("import gfapy\nl=gfapy.Line(%r, version=%r, vlevel=%d)\nfor _ in range(%d): l=l.clone()\nfor op in %r:\n  try:\n    if op[0]=='set': l.set(%r, op[1]); print('set ok')\n"
            "    elif op[0]=='write': print(repr(l.field_to_s(%r)))\n    else: l.validate_field(%r); print('valid')\n  except gfapy.Error as e: print(op, type(e).__name__)"
            % (case['text'], case['version'], case['vlevel'], case.get('clones', 0), case['ops'], case['field'], case['field'], case['field']))


def assignment_case(rng, version, text, vlevel):
    """a field of a free-standing line and a random operation sequence; returns the case with observed outcomes"""
    g = impl.gfapy()
    r = impl.outcome(lambda: g.Line(text, version=version, vlevel=vlevel))
    if r[0] != 'ok':
        return None
    l = r[1]
    if l.record_type in ('#', 'H') or type(l).__name__ == 'CustomRecord':
        return None         # header tags have multi-definition semantics (Multiline), comments and custom records no datatypes
    fields = [(n, type(l).DATATYPE[n], k) for k, n in enumerate(l.positional_fieldnames) if n not in type(l).REFERENCE_FIELDS] + \
             [(n, l.get_datatype(n), None) for n in l.tagnames]
    if not fields or l.record_type not in GR.RECORDS[version]:
        return None
    name, dt, pos = rng.choice(fields)
    init = l.field_to_s(name)
    ops = []
    if rng.random() < 0.2 and 'zq' not in l.tagnames:
        # a tag that does not exist yet: a string value makes it a Z tag
        name, dt, pos, init = 'zq', 'Z', None, None
        ops.append(('set', rng.choice(['hello', 'a b', 'tab\there', '', 'x\ny'])))
    for _ in range(rng.randint(3, 8)):
        k = rng.random()
        if k < 0.45:
            pool = POOL.get(dt) or POS_POOL
            ops.append(('set', rng.choice(pool)))
        elif k < 0.75:
            ops.append(('write',))
        else:
            ops.append(('validate',))
    return {'kind': 'assign', 'version': version, 'vlevel': vlevel, 'text': text, 'field': name, 'dt': dt, 'init': init, 'ops': ops,
            'rt': l.record_type, 'pos': pos, 'clones': rng.choice([0, 0, 1, 2])}


def valid_for(case, s):
    if case.get('pos') is None:
        return GR.valid_value(case['dt'], s)
    if '\n' in s or '\t' in s:
        return False
    return bool(GR.RECORDS[case['version']][case['rt']][0][case['pos']](s))


def same_value(case, a, b):
    """b is a or the canonical spelling of a"""
    from .. import canon as CN
    if a == b:
        return True
    if case.get('pos') is None:
        return CN.canon_value(case['dt'], a) == b
    if not valid_for(case, b):
        return False
    def num(x):
        try:
            return int(x.rstrip('$')), x.endswith('$')
        except ValueError:
            return None
    if num(a) is not None:
        return num(a) == num(b)
    import re
    return re.sub(r'(^|[^0-9])0+(?=[0-9])', r'\1', a) == re.sub(r'(^|[^0-9])0+(?=[0-9])', r'\1', b)


def run_assignment(case):
    """observed outcomes and the oracle's verdict"""
    g = impl.gfapy()
    l = g.Line(case['text'], version=case['version'], vlevel=case['vlevel'])
    for _ in range(case.get('clones', 0)):
        l = l.clone()              # a copy behaves as the line it was made from, level included
    name, dt, vl = case['field'], case['dt'], case['vlevel']
    cur = case['init']
    obs, fails = [], []
    for op in case['ops']:
        if op[0] == 'set':
            r = impl.outcome(lambda: l.set(name, op[1]))
            ok_val = valid_for(case, op[1])
            if r[0] != 'ok' and r[1][0] != 'gfapy':
                fails.append(('assigning %r to %s raised a foreign exception' % (op[1], name), 'gfapy.Error', impl.outcome_name(r)))
            if ok_val and r[0] != 'ok':
                fails.append(('a valid assignment (%s = %r, datatype %s) is rejected at level %d' % (name, op[1], dt, vl), 'accepted', impl.outcome_name(r)))
            if not ok_val and vl >= 3 and r[0] == 'ok':
                fails.append(('an invalid assignment (%s = %r, datatype %s) is not reported at the assignment at level 3' % (name, op[1], dt), 'gfapy.Error', 'accepted'))
            if r[0] == 'ok':
                cur = op[1]
            obs.append('ok' if r[0] == 'ok' else 'err')
        elif cur is None:
            # the tag does not exist (its only assignment was refused): reading or validating it is an error of gfapy
            r = impl.outcome((lambda: l.field_to_s(name)) if op[0] == 'write' else (lambda: l.validate_field(name)))
            if r[0] == 'ok' or r[1][0] != 'gfapy':
                fails.append(('%s of the undefined tag %s did not raise a gfapy error' % (op[0], name), 'gfapy.Error', impl.outcome_name(r)))
            obs.append('err')
        elif op[0] == 'write':
            r = impl.outcome(lambda: l.field_to_s(name))
            ok_val = valid_for(case, cur)
            if r[0] != 'ok' and r[1][0] != 'gfapy':
                fails.append(('writing %s raised a foreign exception' % name, 'gfapy.Error', impl.outcome_name(r)))
            if not ok_val and vl >= 2 and r[0] == 'ok':
                fails.append(('the invalid value %r of %s (datatype %s) is written without error at level %d' % (cur, name, dt, vl), 'gfapy.Error', r[1]))
            if ok_val and r[0] != 'ok':
                fails.append(('writing the valid value %r of %s fails at level %d' % (cur, name, vl), cur, impl.outcome_name(r)))
            if ok_val and r[0] == 'ok' and not same_value(case, cur, r[1]):
                fails.append(('the valid value %r of %s is written as a different value' % (cur, name), cur, r[1]))
            obs.append('ok:' + r[1] if r[0] == 'ok' else 'err')
        else:
            r = impl.outcome(lambda: l.validate_field(name))
            ok_val = valid_for(case, cur)
            if r[0] != 'ok' and r[1][0] != 'gfapy':
                fails.append(('validate_field(%s) raised a foreign exception' % name, 'gfapy.Error', impl.outcome_name(r)))
            if ok_val != (r[0] == 'ok'):
                fails.append(('validate_field(%s) %s the %s value %r (datatype %s, level %d)' % (name, 'accepts' if r[0] == 'ok' else 'rejects',
                              'valid' if ok_val else 'invalid', cur, dt, vl), 'valid' if ok_val else 'gfapy.Error', impl.outcome_name(r)))
            obs.append('ok' if r[0] == 'ok' else 'err')
    return obs, fails


def assign_term(case, obs):
    ops = []
    texts = [case['init']]
    for op, o in zip(case['ops'], obs):
        if op[0] == 'set':
            ops.append('(LSet %s, %s)' % (cstr(op[1]), cstr(o)))
            texts.append(op[1])
        elif op[0] == 'write':
            ops.append('(LWrite, %s)' % cstr(o))
        else:
            ops.append('(LValidate, %s)' % cstr(o))
    ft, jt = [], []
    for t in texts:
        if case['dt'] in ('f', 'J', 'B'):
            a, b = FL.oracle_tables(case['dt'], t)
            ft += a
            jt += b
    fts = clist(['(%s, %s)' % (cstr(a), cstr(b)) for a, b in ft])
    jts = clist(['(%s, %s)' % (cstr(a), copt(cstr(b)) if b is not None else 'None') for a, b in jt])
    return '(%d, %s, %s, %s, %s, %s)' % (case['vlevel'], cstr(case['dt']), cstr(case['init']), clist(ops), fts, jts)


def object_assignments(ctx):
    """values assigned as Python objects whose written form is not valid text of the field (an empty list of segments,
    overlaps or items; a boolean for an integer): from level 2 on the line is not written silently"""
    g = impl.gfapy()
    for vl in (2, 3):
        for text, ver, f, v in [('P\tp\ta+,b-\t*', 'gfa1', 'segment_names', []), ('P\tp\ta+,b-\t*', 'gfa1', 'overlaps', []),
                                ('O\to\ta+ b-', 'gfa2', 'items', []), ('U\tu\ta b', 'gfa2', 'items', []),
                                ('S\ta\t10\t*', 'gfa2', 'slen', True), ('G\tg\ta+\tb-\t5\t*', 'gfa2', 'var', True)]:
            l = g.Line(text, version=ver, vlevel=vl)
            case = {'kind': 'object', 'text': text, 'version': ver, 'vlevel': vl, 'field': f, 'value_repr': repr(v)}
            ctx.count(case, True)
            r = impl.outcome(lambda: l.set(f, v))
            if r[0] != 'ok':
                if r[1][0] != 'gfapy':
                    ctx.violation('failing-input', 'assigning %r to %s raised a foreign exception' % (v, f), case, 'gfapy.Error', impl.outcome_name(r))
                continue
            w = impl.outcome(lambda: l.field_to_s(f))
            w2 = impl.outcome(lambda: str(l))
            silent = w[0] == 'ok' and w2[0] == 'ok' and 'INVALID' not in w2[1]
            if silent:
                back = impl.outcome(lambda: g.Line(w2[1], version=ver, vlevel=1))
                if back[0] != 'ok':
                    ctx.violation('failing-input', 'the value %r of %s is written without error or marker at level %d although the text is refused when read' % (v, f, vl),
                                  case, 'gfapy.Error or INVALID marker', w2[1],
                                  python="import gfapy\nl=gfapy.Line(%r,version=%r,vlevel=%d)\nl.set(%r,%r)\nprint(repr(str(l)))" % (text, ver, vl, f, v))

    # plain Python lists assigned to an existing B tag (not NumericArray objects, not text): a list that is no numeric array
    # (mixed integers and floats, a non-number, no element, an integer beyond 64 bits) is refused at the assignment at
    # level 3 and reported by validate_field()/validate() at every other level, and not written silently at level 2;
    # a list that is one is taken at every level
    BADL = [[1, 2.5], ['a'], [], [2 ** 70], [1, 'x', 2], [0.5, 1]]
    GOODL = [[1, 2], [1.5, 2.0], [-1, 300], [70000], [0]]
    for text, ver in (('S\ta\t*\tbb:B:c,1,2', 'gfa1'), ('E\te\ta+\tb-\t0\t4\t6\t10$\t*\tbb:B:f,0.5', 'gfa2'), ('H\tbb:B:S,1', 'gfa1')):
        for vl in (0, 1, 2, 3):
            for good, v in [(False, x) for x in BADL] + [(True, x) for x in GOODL]:
                l = g.Line(text, version=ver, vlevel=vl)
                case = {'kind': 'object', 'text': text, 'version': ver, 'vlevel': vl, 'field': 'bb', 'value_repr': repr(v)}
                ctx.count(case, True)
                py = "import gfapy\nl=gfapy.Line(%r,version=%r,vlevel=%d)\nl.set('bb',%r)\nl.validate_field('bb')\nl.validate()\nprint(repr(str(l)))" % (text, ver, vl, v)
                r = impl.outcome(lambda: l.set('bb', list(v)))
                if r[0] != 'ok' and r[1][0] != 'gfapy':
                    ctx.violation('failing-input', 'assigning the list %r to a B tag raised a foreign exception' % (v,), case, 'gfapy.Error', impl.outcome_name(r), python=py)
                    continue
                if good:
                    rs = [r, impl.outcome(lambda: l.validate_field('bb')), impl.outcome(lambda: l.validate()), impl.outcome(lambda: str(l))]
                    if any(x[0] != 'ok' for x in rs) or 'INVALID' in rs[3][1]:
                        ctx.violation('failing-input', 'the valid list %r for a B tag is rejected at level %d' % (v, vl), case, 'accepted',
                                      [impl.outcome_name(x) for x in rs], python=py)
                    continue
                if vl == 3:
                    if r[0] == 'ok':
                        ctx.violation('failing-input', 'the list %r, which is no numeric array, is taken for a B tag at level 3' % (v,), case,
                                      'gfapy.Error at the assignment', 'accepted', python=py)
                    continue
                if r[0] != 'ok':
                    continue                       # refused earlier than required: allowed
                vf = impl.outcome(lambda: l.validate_field('bb'))
                va = impl.outcome(lambda: l.validate())
                if vf[0] == 'ok' or va[0] == 'ok':
                    ctx.violation('failing-input', 'the list %r assigned to a B tag at level %d is not reported by validate_field()/validate()' % (v, vl),
                                  case, 'gfapy.Error', [impl.outcome_name(vf), impl.outcome_name(va)], python=py)
                    continue
                if vl == 2:
                    w = impl.outcome(lambda: str(l))
                    if w[0] == 'ok' and 'INVALID' not in w[1]:
                        ctx.violation('failing-input', 'the list %r of a B tag is written without error or marker at level 2' % (v,), case,
                                      'gfapy.Error or INVALID marker', w[1], python=py)


def run(ctx, deep, model_ok):
    object_assignments(ctx)
    rng = ctx.rng
    g = impl.gfapy()
    n = 150 if deep else 30
    terms, metas = [], []
    line_terms, line_metas = [], []
    for i in range(n):
        version, lines = gen_doc(rng, i)
        # (a) the same graph and text at every level
        outs = []
        for vl in range(4):
            r = impl.outcome(lambda: build(version, vl, lines))
            outs.append(r)
        case = {'kind': 'levels', 'version': version, 'lines': lines}
        ctx.count(case, False)
        from .c10 import unsettled
        if unsettled(lines, version, 0):
            ctx.known('F56', 'at level 0 fields that are parsed on access keep their input spelling: a valid document with a '
                             'non-canonical alignment/H/J/B field is written differently at level 0 [generated document]')
            outs = outs[1:]
        if any(r[0] != 'ok' for r in outs):
            bad = [vl for vl, r in enumerate(outs) if r[0] != 'ok']
            ctx.violation('failing-input', 'a valid document is rejected at level(s) %r' % bad, case, 'accepted at every level',
                          [impl.outcome_name(r) for r in outs], python=py_of(case))
        else:
            texts = [str(r[1]) for r in outs]
            obss = [GL.impl_obs(r[1]) for r in outs]
            if len(set(texts)) != 1:
                k = [j for j in range(len(texts)) if texts[j] != texts[-1]][0]
                a, b = set(texts[-1].split('\n')), set(texts[k].split('\n'))
                ctx.violation('failing-input', 'a valid document is written differently at level %d and at level 3' % k, case,
                              sorted(a - b)[:3], sorted(b - a)[:3], python=py_of(case))
            elif len(set(obss)) != 1:
                ctx.violation('failing-input', 'a valid document builds a different graph at different levels', case, python=py_of(case))
        # (b) monotone acceptance of mutated documents
        from .c07 import mutate
        for _ in range(3):
            ml = list(lines)
            k = rng.randrange(len(ml))
            ml[k] = mutate(rng, ml[k])
            if '\n' in ml[k]:
                continue
            acc = [impl.outcome(lambda: build(version, vl, ml))[0] == 'ok' for vl in range(4)]
            mcase = {'kind': 'levels', 'version': version, 'lines': ml}
            ctx.count(mcase, not all(acc))
            for hi in range(1, 4):
                if acc[hi] and not all(acc[:hi]):
                    ctx.violation('failing-input', 'a document accepted at level %d is rejected at a lower level' % hi, mcase,
                                  'accepted below', acc, python=py_of(mcase))
                    break
            if model_ok and len(line_terms) < (2000 if deep else 300):
                for vl in (0, 1, 2, 3):
                    try:
                        ver = version if not ml[k].startswith('S') else None
                        built = impl.outcome(lambda: g.Line(ml[k], vlevel=vl, version=ver))
                        if built[0] == 'ok':
                            w = impl.outcome(lambda: str(built[1]))
                            if w[0] != 'ok' or '# INVALID' in w[1]:
                                continue    # the line is built but a field cannot be written (flagged by the writer)
                            from .c10 import unsettled
                            if vl == 0 and unsettled([ml[k]], version, 0):
                                continue    # F56: input spelling kept at level 0
                        if vl == 0 and (' ' in ml[k] or '_' in ml[k]):
                            continue        # int()/float() re-spell values with blanks or underscores: outside the writer model
                        t, _ = LL.case_term(ml[k], vl, ver)
                        line_terms.append(t)
                        line_metas.append({'kind': 'line', 'text': ml[k], 'vlevel': vl, 'version': version})
                    except ValueError:
                        pass
        # (c, d) assignments
        for _ in range(12):
            text = rng.choice(lines)
            vl = rng.choice([0, 1, 2, 3])
            c = assignment_case(rng, version, text, vl)
            if c is None:
                continue
            r = impl.outcome(lambda: run_assignment(c))
            if r[0] != 'ok':
                ctx.violation('failing-input', 'running an assignment sequence raised %s' % (r[1],), c, python=py_of(c))
                continue
            obs, fails = r[1]
            invalid = any(op[0] == 'set' and not valid_for(c, op[1]) for op in c['ops'])
            ctx.count(c, invalid)
            for what, exp, ob in fails[:1]:
                ctx.violation('failing-input', what, c, exp, ob, python=py_of(c))
            if model_ok and not fails and c['init'] is not None:
                try:
                    terms.append(assign_term(c, obs))
                    metas.append(c)
                except ValueError:
                    pass
    if model_ok:
        failing, errs = core.coq_eval_cases('C18', 'assign', IMPORTS, 'lev_case', 'check_lev', terms, shard=200)
        for e in errs:
            ctx.broken.append(('correspondence-broken', 'assignments: ' + e))
        for i in failing[:3]:
            vals, _ = core.coq_eval_strings('C18', 'showlev', IMPORTS, ['show_lev %s' % terms[i]])
            ctx.disagree('Model/Levels.v and gfapy disagree on an assignment sequence (model: %s)' % (vals[0][:200] if vals else '?'),
                         metas[i], python=py_of(metas[i]))
        ctx.notes['assignment_sequences_compared_in_coq'] = len(terms)
        for lo, checker in ((True, 'check_line_kind'), (False, 'check_line_accept')):
            idx = [i for i, mm in enumerate(line_metas) if (mm['vlevel'] == 0) == lo]
            failing, errs = core.coq_eval_cases('C18', 'lines%d' % int(lo), LL.IMPORTS, 'line_case', checker, [line_terms[i] for i in idx], shard=250)
            for e in errs:
                ctx.broken.append(('correspondence-broken', 'line construction per level: ' + e))
            for j in failing[:3]:
                i = idx[j]
                vals, _ = LL.show_model('C18', [line_terms[i]])
                ctx.disagree('Model/Line.v and gfapy.Line disagree at level %d (model: %s)' % (line_metas[i]['vlevel'], vals[0][:200] if vals else '?'),
                             line_metas[i])
        ctx.notes['line_constructions_compared_in_coq'] = len(line_terms)


def replay(ctx, body):
    case = body.get('case') or {}
    if case.get('kind') == 'assign':
        r = impl.outcome(lambda: run_assignment(case))
        return r[0] != 'ok' or bool(r[1][1])
    if case.get('kind') == 'levels':
        acc = [impl.outcome(lambda: build(case['version'], vl, case['lines'])) for vl in range(4)]
        oks = [a[0] == 'ok' for a in acc]
        for hi in range(1, 4):
            if oks[hi] and not all(oks[:hi]):
                return True
        if all(oks):
            return len(set(str(a[1]) for a in acc)) != 1
        return False
    return True
