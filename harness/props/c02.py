"""C02 — the reference graph stays closed and symmetric under every mutation history."""
from .. import impl, graphlab as GL, graph_oracle as GO
from . import graphcommon as GC

DEPS = GC.DEPS
MODEL_TARGETS = GC.MODEL_TARGETS
ASSUMPTIONS = GC.ASSUMPTIONS
LEVEL_TEXT = ("Theorems in coq/Props/C02.v over Model/Graph.v, the reference semantics of the object graph (state = the lines "
              "of the Gfa incl. placeholders; references and back-references derived from the fields): Inv = unique identities, "
              "unique identifiers, closure (every mention resolves to a line of the Gfa of the right kind) holds initially, is "
              "preserved by every successful add_line (placeholders, substitution of placeholders, link complement, group "
              "merge) and rm (dependency closure), hence in every state reached by any finite history, failed operations "
              "included; F28 and F49 are exhibited as refutations outside the guards. The mirror clause (each reference has "
              "exactly one back-reference) holds in the model by construction. Tie: every generated history is run on gfapy and on "
              "the model (vm_compute) and the canonical observation — written lines, virtual flags, every back-reference "
              "collection read through its public getter, path links with direction — is compared after every operation. Renames "
              "are inside the theorem (Proofs/RenameP.v): with an identifier that is non-empty, not '*' and free of the list "
              "separators, and a renamed line that does not mention itself (F50), a rename keeps Inv, so Inv holds in every "
              "state reached by histories of add/rm/rename. The oracle checks closure, mirror "
              "multiplicities, ownership and lookup on the implementation after every step.")
RULE = ("histories: a generated GFA1/GFA2 document added line by line in shuffled order (forward references, placeholders), "
        "followed by 1-8 operations: rm of segments/edges/groups/placeholders (fan-out up to 4 on one segment end, self-links, "
        "parallel links, nested groups), renames (fresh / in use), additions (duplicates, complements, same-id groups, malformed "
        "lines). Non-trivial: an rm or a rename after >= 4 additions.")


def step_oracle(G, op, r, ob, oa, removed):
    return GO.check(G, removed)


def nontrivial(ops):
    return len(ops) >= 5 and any(o[0] in ('rm', 'rename') for o in ops)


WIT_F28 = ['S\tA\t5\t*', 'S\tB\t5\t*', 'G\tg\tA+\tB+\t5\t*', 'U\tu\tA g']
WIT_F49 = ['E\te\tA+\tB+\t0\t0\t0\t0\t*', 'G\tA\tB+\tB-\t1\t*']


def known_witnesses(ctx):
    g = impl.gfapy()
    G = g.Gfa(WIT_F28, version='gfa2')
    gap = G.line('g')
    G.rm('g')
    if any(it is gap for it in G.line('u').items):
        ctx.known('F28', "a gap listed in a set is not its dependant: after rm('g') the set 'U u A g' still refers to the "
                         "disconnected gap (theorem C02_gap_in_set_refuted)")
    G = g.Gfa(version='gfa2')
    for l in WIT_F49:
        G.add_line(l)
    if G.line('A') is not None and G.line('A').record_type == 'G' and str(G.line('e').sid1.line.record_type) == 'G':
        ctx.known('F49', "a placeholder standing for segment A is replaced by a gap named A: edge e then refers to a gap "
                         "(theorem C02_cross_type_placeholder_refuted)")


def run(ctx, deep, model_ok):
    GC.run_histories(ctx, 'C02', deep, model_ok, 30, 300, step_oracle, nontrivial)
    known_witnesses(ctx)


def replay(ctx, body):
    return GC.replay_history(ctx, 'C02', body, step_oracle)
