"""C12 — a link and its complement are one edge."""
import itertools

from .. import core
from ..core import cstr, cz, cbool, clist
from .. import impl

DEPS = ['K_cigar', 'K_fromto']
MODEL_TARGETS = ['Corr/C12c.vo']
IMPORTS = "From GfaV Require Import Base.Py Model.Align Model.Link Corr.C12c."
LEVEL_TEXT = ("Theorems in coq/Props/C12.v over the kernels regenerated from cigar.py/symbol_invert.py/from_to.py: "
              "complement involution (M I D P = X H), length exchange (all codes), link complement involution, "
              "is_complement of the complement, symmetry and characterisation of is_eql; S/N refutation witness. "
              "Tie B: link/equivalence.py and link/complement.py hand-modelled in Model/Link.v and compared with the "
              "implementation on generated links inside Coq.  In the Gfa (Model/Graph.v, Proofs/LinkGraphP.v): adding the "
              "complement of a stored link returns the state unchanged, another link on a stored oriented pair is refused, "
              "the lookup by oriented pair is sound and complete and answers in direct or complement form.  Path "
              "orientation in every arrival order is decided on the implementation by the oracle and by the graph "
              "correspondence.")
RULE = ("random CIGARs over all nine codes (1..12 ops), links over a 3-name pool with all orientation pairs, "
        "self-links and hairpins, pairs (l, l), (l, complement l), (l, one-field mutant of l), (l, other); documents "
        "with a forward and a reversed path over the link in up to 12 arrival orders. Non-trivial: the CIGAR is not "
        "its own complement.")
ASSUMPTIONS = ["segment names are printable 7-bit strings",
               "CIGAR text -> operation list conversion of the cases is done by the harness "
               "(Alignment parsing itself is covered by C04/C01)"]

CODES7 = "MIDP=XH"
CODES9 = "MIDP=XHSN"
INV = {'+': '-', '-': '+'}


def rand_cigar(rng, codes, maxops=6):
    n = rng.choice([1, 1, 2, 2, 3, 4, maxops])
    return [(rng.choice([0, 1, 2, 3, 5, 10, 100]), rng.choice(codes)) for _ in range(n)]


def cig_str(ops):
    return ''.join('%d%s' % o for o in ops) if ops else '*'


def cig_term(ops):
    return clist(['(%s, %s)' % (cz(n), cstr(c)) for n, c in ops])


def aln_term(a):
    g = impl.gfapy()
    if isinstance(a, g.CIGAR):
        return '(ACigar %s)' % cig_term([(op.length, op.code) for op in a])
    if isinstance(a, g.Trace):
        return '(ATrace %s)' % clist([cz(x) for x in a])
    return 'APlaceholder'


def link_term(l):
    return '(mkLink %s %s %s %s %s)' % (cstr(str(l.from_segment)), cstr(l.from_orient), cstr(str(l.to_segment)),
                                        cstr(l.to_orient), aln_term(l.overlap))


def res_term(f, conv):
    r = impl.outcome(f)
    return ('(Ok %s)' % conv(r[1])) if r[0] == 'ok' else ('(Err %s)' % impl.exn_term(r[1]))


def segend_term(se):
    return '(%s, %s)' % (cstr(se.name), cstr(se.end_type))


def ops_of(a):
    return [(op.length, op.code) for op in a]


# ------------------------------------------------------------------ oracles (implementation only)
def oracle_cigar(case):
    """returns list of (what, expected, observed)"""
    g = impl.gfapy()
    s = case['cigar']
    out = []
    a = g.Alignment(s, version='gfa1')
    ops = ops_of(a)
    before = str(a)
    c = a.complement()
    r, q = a.length_on_reference(), a.length_on_query()
    if str(a) != before:
        out.append(('complement() changed the receiver', before, str(a)))
    if all(code in CODES7 for _, code in ops):
        cc = c.complement()
        if ops_of(cc) != ops:
            out.append(('complement twice is not the identity', s, str(cc)))
    if (c.length_on_reference(), c.length_on_query()) != (q, r):
        out.append(('complement does not exchange reference and query length', [q, r],
                    [c.length_on_reference(), c.length_on_query()]))
    exp_r = sum(n for n, code in ops if code in 'M=XDN')
    exp_q = sum(n for n, code in ops if code in 'M=XIS')
    if (r, q) != (exp_r, exp_q):
        out.append(('length_on_reference/length_on_query disagree with the CIGAR definition', [exp_r, exp_q], [r, q]))
    exp_c = [(n, {'I': 'D', 'D': 'I', 'S': 'D', 'N': 'I'}.get(code, code)) for n, code in reversed(ops)]
    if ops_of(c) != exp_c:
        out.append(('complement is not the reversed CIGAR with I/D exchanged', cig_str(exp_c), str(c)))
    return out


def mk(spec):
    g = impl.gfapy()
    return g.Line('\t'.join(['L'] + list(spec[:5])), vlevel=spec[5], version='gfa1')


def core_of(x):
    return (str(x.from_segment), x.from_orient, str(x.to_segment), x.to_orient, str(x.overlap))


def oracle_linkpair(case):
    g = impl.gfapy()
    out = []
    a, b = mk(case['a']), mk(case['b'])
    sa, sb = str(a), str(b)

    def valid(spec):
        return spec[1] in ('+', '-') and spec[3] in ('+', '-') and all(c in CODES7 + '0123456789*' for c in spec[4])
    if valid(case['a']):
        try:
            ca = a.complement()
            if str(ca.complement()) != sa:
                out.append(('link complement twice is not the link', sa, str(ca.complement())))
            exp = (case['a'][2], INV[case['a'][3]], case['a'][0], INV[case['a'][1]])
            if core_of(ca)[:4] != exp:
                out.append(('complement does not swap the segments and invert both orientations', exp, core_of(ca)))
            if not (a.is_complement(ca) and ca.is_complement(a) and a.is_eql(ca) and ca.is_eql(a)):
                out.append(('a link and its complement are not recognised as complements', True, False))
            if str(a) != sa:
                out.append(('complement()/is_eql changed the link', sa, str(a)))
            # the in-place form: the same link as complement(), and twice gives the link back
            m = mk(case['a'])
            m.make_complement()
            if core_of(m) != core_of(ca):
                out.append(('make_complement() does not turn the link into its complement', core_of(ca), core_of(m)))
            m.make_complement()
            if str(m) != sa:
                out.append(('make_complement() twice is not the link', sa, str(m)))
            # the canonical form is the link or its complement, and is the same for both
            r1 = impl.outcome(lambda: mk(case['a']).canonicize())
            r2 = impl.outcome(lambda: mk(case['a']).complement().canonicize())
            if r1[0] != 'ok' or r2[0] != 'ok':
                out.append(('canonicize() of a valid link raised', 'a link', impl.outcome_name(r1 if r1[0] != 'ok' else r2)))
            else:
                k1, k2 = r1[1], r2[1]
                hairpin = case['a'][0] == case['a'][2] and case['a'][1] != case['a'][3]
                if core_of(k1) != core_of(k2) and not hairpin:
                    out.append(('a link and its complement have different canonical forms', core_of(k1), core_of(k2)))
                if core_of(k1) not in (core_of(a), core_of(ca)):
                    out.append(('the canonical form is neither the link nor its complement', core_of(a), core_of(k1)))
                if not k1.is_canonical():
                    out.append(('the canonical form is not canonical', True, False))
        except g.Error as e:
            out.append(('complement of a valid link raised', 'no error', type(e).__name__))
        if valid(case['b']) and case['a'][4] != '*' and case['b'][4] != '*':
            if bool(a.is_eql(b)) != bool(b.is_eql(a)):
                out.append(('is_eql is not symmetric', a.is_eql(b), b.is_eql(a)))
            if bool(a.is_eql(b)) != bool(a.is_eql(b)):
                out.append(('is_eql is not repeatable', None, None))
            same = core_of(b) == core_of(a) or core_of(b) == core_of(a.complement())
            if bool(a.is_eql(b)) != same:
                out.append(('is_eql disagrees with "the same link or its complement"', same, bool(a.is_eql(b))))
            if (str(a), str(b)) != (sa, sb):
                out.append(('equivalence tests changed a link', [sa, sb], [str(a), str(b)]))
        if valid(case['b']):
            # lookup compatibility: the same oriented pair in direct or complement form; an unspecified overlap on
            # either side matches any overlap, two specified overlaps must be equal (complemented in complement form)
            fa, foa, ta, toa, ova = case['a'][:5]
            fb, fob, tb, tob, ovb = case['b'][:5]
            def ov_ok(x, y):
                return x == '*' or y == '*' or x == y
            comp_ov = '*' if ova == '*' else str(a.overlap.complement())
            direct = (fa, foa, ta, toa) == (fb, fob, tb, tob) and ov_ok(ova, ovb)
            compl = (ta, INV[toa], fa, INV[foa]) == (fb, fob, tb, tob) and ov_ok(comp_ov, ovb)
            got = impl.outcome(lambda: (bool(a.is_compatible_direct(b.oriented_from, b.oriented_to, b.overlap)),
                                        bool(a.is_compatible_complement(b.oriented_from, b.oriented_to, b.overlap)),
                                        bool(a.is_compatible(b.oriented_from, b.oriented_to, b.overlap, True))))
            if got[0] == 'ok' and got[1] != (direct, compl, direct or compl):
                out.append(('is_compatible_direct/complement/is_compatible disagree with "same oriented pair in direct or complement '
                            'form, unspecified overlaps match anything"', (direct, compl, direct or compl), got[1]))
    return out


def oracle_graph(case):
    g = impl.gfapy()
    out = []
    doc = case['doc']
    ltxt = case['link']
    l = g.Line(ltxt)
    comp = l.complement()
    try:
        G = g.Gfa(doc)
        before = str(G)
        G.add_line(str(comp))
        if str(G) != before or len(G.dovetails) != 1:
            out.append(('adding the complement of a stored link changed the Gfa', before, str(G)))
        for form in (l, comp):
            found = G._search_link(form.oriented_from, form.oriented_to, form.overlap)
            if found is None or str(found) != ltxt:
                out.append(('lookup by oriented segment pair does not find the stored link from the form %s' % form,
                            ltxt, str(found)))
    except g.Error as e:
        out.append(('building the Gfa / adding the complement raised', 'no error', type(e).__name__))
        return out
    f, fo, t, to, ov = ltxt.split('\t')[1:6]
    # a hairpin whose overlap equals its own complement is traversed identically by both paths
    ambiguous = (f == t and fo != to) and str(comp.overlap) == ov
    if 'pf' in case['paths']:
        flags = [(p, [(str(ol.line), ol.orient) for ol in G.line(p).links]) for p in ('pf', 'pr')]
        for p, fl in flags:
            if len(fl) != 1 or fl[0][0] != ltxt:
                out.append(('path %s did not resolve to the stored link' % p, ltxt, fl))
        if not out:
            want = ['+', '+'] if ambiguous else ['+', '-']
            got = [flags[0][1][0][1], flags[1][1][0][1]]
            if got != want:
                out.append(('path traversal direction recorded wrongly (pf forwards, pr reversed)', want, got))
    return out


# ------------------------------------------------------------------ model side (inside Coq)
def cigar_case_term(case):
    g = impl.gfapy()
    a = g.Alignment(case['cigar'], version='gfa1')
    c = a.complement()
    return '(%s, (%s, (%s, %s)))' % (cig_term(ops_of(a)), cig_term(ops_of(c)), cz(a.length_on_reference()),
                                       cz(a.length_on_query()))


def link_case_term(case):
    a, b = mk(case['a']), mk(case['b'])
    r1 = impl.outcome(lambda: a.is_complement(b))
    r2 = impl.outcome(lambda: a.is_eql(b))
    if r1[0] != 'ok' or r2[0] != 'ok':
        return None
    obs = '(mkObs %s %s %s %s %s %s %s %s %s %s)' % (
        segend_term(a.from_end), segend_term(a.to_end),
        cbool(bool(a.is_same(b))), cbool(bool(r1[1])), cbool(bool(r2[1])),
        res_term(lambda: a.complement(), link_term),
        cbool(bool(a.is_compatible_direct(b.oriented_from, b.oriented_to, b.overlap))),
        res_term(lambda: bool(a.is_compatible_complement(b.oriented_from, b.oriented_to, b.overlap)), cbool),
        res_term(lambda: bool(a.is_compatible(b.oriented_from, b.oriented_to, b.overlap, True)), cbool),
        res_term(lambda: bool(a.is_compatible(b.oriented_from, b.oriented_to, b.overlap, False)), cbool))
    return '(%s, %s, %s)' % (link_term(a), link_term(b), obs)


def model_disagreements(kind, cases):
    """indices of cases on which model and implementation differ, plus infrastructure errors"""
    if kind == 'cigar':
        terms = [cigar_case_term(c) for c in cases]
        idx = list(range(len(cases)))
        return _eval('cigar', 'cigar_case', 'check_cigar', terms, idx)
    terms, idx = [], []
    for i, c in enumerate(cases):
        t = link_case_term(c)
        if t is not None:
            terms.append(t)
            idx.append(i)
    return _eval('link', 'link_case', 'check_link', terms, idx)


def _eval(name, ty, checker, terms, idx):
    failing, errs = core.coq_eval_cases('C12', name, IMPORTS, ty, checker, terms)
    return [idx[i] for i in failing], errs, len(terms)


# ------------------------------------------------------------------ generation
def gen_link_specs(rng, n):
    names = ['A', 'B', 'C1']
    out = []
    for _ in range(n):
        f, t = rng.choice(names), rng.choice(names)
        if rng.random() < 0.25:
            t = f
        fo, to = rng.choice('+-'), rng.choice('+-')
        ov = cig_str(rand_cigar(rng, CODES7 if rng.random() < 0.7 else CODES9)) if rng.random() < 0.8 else '*'
        vl = 1
        if rng.random() < 0.08:
            vl = 0
            if rng.random() < 0.5:
                fo = rng.choice(['x', 'L', '', '++'])
            else:
                to = rng.choice(['x', 'R', '', '-+'])
        out.append([f, fo, t, to, ov, vl])
    return out


def mutant(rng, spec):
    f, fo, t, to, ov, vl = spec
    k = rng.randrange(5)
    if k == 0:
        f = f + 'x'
    elif k == 1:
        fo = INV.get(fo, '+')
    elif k == 2:
        t = t + 'y'
    elif k == 3:
        to = INV.get(to, '+')
    else:
        ov = '7M' if ov != '7M' else '8M'
    return [f, fo, t, to, ov, vl]


def py_of(case):
    k = case['kind']
    if k == 'cigar':
        return ("import gfapy\na=gfapy.Alignment(%r,version='gfa1'); c=a.complement()\n"
                "print(a, c, c.complement(), a.length_on_reference(), a.length_on_query(), "
                "c.length_on_reference(), c.length_on_query())" % case['cigar'])
    if k == 'linkpair':
        return ("import gfapy\na=gfapy.Line(%r,vlevel=%d); b=gfapy.Line(%r,vlevel=%d)\n"
                "print(a.is_same(b), a.is_complement(b), a.is_eql(b), b.is_eql(a), a.complement(), a.from_end, a.to_end)"
                % ('\t'.join(['L'] + case['a'][:5]), case['a'][5], '\t'.join(['L'] + case['b'][:5]), case['b'][5]))
    return ("import gfapy\ng=gfapy.Gfa(%r); l=gfapy.Line(%r)\ng.add_line(str(l.complement())); print(g)\n"
            "print([(p,[(str(o.line),o.orient) for o in g.line(p).links]) for p in %r])" % (case['doc'], case['link'], case['paths']))


def judge(ctx, case, fails):
    for what, exp, obs in fails[:1]:
        ctx.violation('failing-input', what, case, exp, obs, python=py_of(case))


def run(ctx, deep, model_ok):
    g = impl.gfapy()
    rng = ctx.rng
    n_cig = 3000 if deep else 600
    n_link = 2500 if deep else 500
    n_graph = 300 if deep else 60
    # ---- cigars
    cases = []
    for i in range(n_cig):
        ops = rand_cigar(rng, CODES9 if i % 3 else CODES7, 12 if deep else 6)
        case = {'kind': 'cigar', 'cigar': cig_str(ops)}
        comp = [(n, {'I': 'D', 'D': 'I', 'S': 'D', 'N': 'I'}.get(c, c)) for n, c in reversed(ops)]
        ctx.count(case, comp != ops)
        judge(ctx, case, oracle_cigar(case))
        cases.append(case)
    if model_ok:
        bad, errs, n = model_disagreements('cigar', cases)
        for e in errs:
            ctx.broken.append(('correspondence-broken', 'cigar cases: ' + e))
        for i in bad[:3]:
            ctx.disagree('the kernels translated from cigar.py (about which Props/C12.v is proved) and '
                          'the running implementation disagree on complement/length of this CIGAR', cases[i],
                          python=py_of(cases[i]))
        ctx.notes['cigars_compared_in_coq'] = n
    # ---- link pairs
    specs = gen_link_specs(rng, n_link)
    cases = []
    for spec in specs:
        if impl.outcome(lambda: mk(spec))[0] != 'ok':
            continue
        kind = rng.randrange(8)
        if kind == 0:
            b = list(spec)
        elif kind in (6, 7):
            # the stored link has an unspecified overlap, the query names it with a specified one (direct / complement form)
            r = impl.outcome(lambda: mk(spec).complement())
            b = (list(core_of(r[1])) + [spec[5]]) if (kind == 7 and r[0] == 'ok') else list(spec)
            spec = list(spec)
            spec[4] = '*'
        elif kind in (4, 5):
            # the same adjacency asked for with an unspecified overlap, in direct or in complement form
            r = impl.outcome(lambda: mk(spec).complement())
            b = (list(core_of(r[1])) + [spec[5]]) if (kind == 5 and r[0] == 'ok') else list(spec)
            b[4] = '*'
        elif kind == 1:
            r = impl.outcome(lambda: mk(spec).complement())
            b = (list(core_of(r[1])) + [spec[5]]) if r[0] == 'ok' else list(spec)
        elif kind == 2:
            b = mutant(rng, spec)
        else:
            b = list(rng.choice(specs))
        if impl.outcome(lambda: mk(b))[0] != 'ok':
            b = list(spec)
        case = {'kind': 'linkpair', 'a': spec, 'b': b}
        ctx.count(case, spec[4] != '*' and spec[4] != str(impl.value_or(lambda: mk(spec).overlap.complement(), '')))
        judge(ctx, case, oracle_linkpair(case))
        cases.append(case)
    if model_ok:
        bad, errs, n = model_disagreements('linkpair', cases)
        for e in errs:
            ctx.broken.append(('correspondence-broken', 'link cases: ' + e))
        for i in bad[:3]:
            ctx.disagree('Model/Link.v and gfapy disagree on from_end/to_end/is_same/is_complement/is_eql/'
                          'complement/is_compatible for this pair of links', cases[i], python=py_of(cases[i]))
        ctx.notes['link_pairs_compared_in_coq'] = n
    # ---- graph level
    names = ['A', 'B', 'C']
    for _ in range(n_graph):
        f, t = rng.choice(names), rng.choice(names)
        fo, to = rng.choice('+-'), rng.choice('+-')
        ov = cig_str(rand_cigar(rng, CODES7, 4)) if rng.random() < 0.7 else '*'
        ltxt = '\t'.join(['L', f, fo, t, to, ov])
        comp_ov = str(g.Alignment(ov, version='gfa1').complement())
        doc = ['S\t%s\t*' % x for x in names] + [ltxt, 'P\tpf\t%s%s,%s%s\t%s' % (f, fo, t, to, ov),
                                                   'P\tpr\t%s%s,%s%s\t%s' % (t, INV[to], f, INV[fo], comp_ov)]
        perms = list(itertools.permutations(range(len(doc))))
        rng.shuffle(perms)
        for perm in perms[:(12 if deep else 6)]:
            case = {'kind': 'graph', 'doc': [doc[i] for i in perm], 'link': ltxt, 'paths': ['pf', 'pr']}
            ctx.count(case, comp_ov != ov)
            fails = oracle_graph(case)
            judge(ctx, case, fails)
            if fails:
                break


def replay(ctx, body):
    case = body.get('case')
    if not case or 'kind' not in case:
        return True
    k = case['kind']
    fails = {'cigar': oracle_cigar, 'linkpair': oracle_linkpair, 'graph': oracle_graph}[k](case)
    if fails:
        return True
    if k in ('cigar', 'linkpair'):
        bad, errs, _ = model_disagreements(k, [case])
        return bool(bad or errs)
    return False
