"""C01 — parse -> write round trip preserves every record, field and tag."""
import os
import shutil
import tempfile

from .. import core, impl, gen, linelab as LL
from ..core import cstr, clist, copt
from ..canon import canon_tag, canon_value

DEPS = ['Tables', 'Regexes', 'K_numarr', 'K_cigar', 'K_fromto']
MODEL_TARGETS = ['Corr/Docc.vo', 'Corr/Linec.vo']
IMPORTS = "From GfaV Require Import Base.Py Model.Codec Model.Line Model.Doc Corr.Docc."
LEVEL_TEXT = ("Theorems in coq/Props/C01.v: the written spelling of an integer reads back to the same value and writing it again "
              "gives the same text (canonical spelling is idempotent); joining fields with a separator and splitting again "
              "returns the fields (for any fields free of the separator); the record grouping of the writer is idempotent and "
              "keeps every record exactly once. One line (Proofs/LineRoundTripP.v, for every text, level and version): if the "
              "constructor accepts the text as a line of a standard record type, the written line is the text field by field - "
              "same record type, same number and order of fields, every tag with its name and datatype - each value replaced by "
              "its canonical spelling; if the values are canonical already the written line IS the text and reading it back gives "
              "the same line (parse(write(parse T)) = parse T per line); a comment is written as read. The line and document writer (Model/Line.v, Model/Doc.v: class dispatch, tag "
              "peeling of custom records, header merge and split, complement-link merge, nested fragment/custom dictionaries) "
              "is a hand model compared inside Coq with str(Gfa(T)) on generated documents, including the model's own fixed "
              "point. Partial: that the canonical spelling of every datatype is accepted again and is itself canonical is proved "
              "for integers only (floats and JSON are Python's, through the oracle record), custom records are compared, not "
              "proved; the oracle decides the full statement on the implementation: every "
              "input record reappears with identical positional fields and the same tag set, nothing is added, dropped or "
              "flagged, writing is a fixed point, for string/list/file entry points, LF/CRLF, levels 0..3. Floats and JSON are "
              "Python's spelling (oracle).")
RULE = ("generated GFA1 and GFA2 documents (3-25 lines, all record types, all tag datatypes, placeholders, several H lines, "
        "comments, custom records, fragments on several externals, complement duplicates of links) x validation levels 0..3 x "
        "explicit/auto version x string/list/file(LF)/file(CRLF)/trailing newline. Non-trivial: >= 3 record types and a tag of "
        "a delayed datatype (J/B/H) or a float.")
ASSUMPTIONS = ["CPython text mode translates CRLF (universal newlines)", "7-bit text",
               "documents without two U/O lines sharing an identifier (multi-line groups are C17)"]

TMP = None


def records_of(lines, version):
    """canonical multiset of records of a document text (independent tokeniser)"""
    recs = []
    for l in lines:
        if l == '':
            continue
        if l.startswith('#'):
            recs.append(('#', l))
            continue
        f = l.split('\t')
        rt = f[0]
        if rt == 'H':
            for t in f[1:]:
                recs.append(('H', canon_tag(t)))
            continue
        npos = {'S': 2 if version == 'gfa1' else 3, 'L': 5, 'C': 6, 'P': 3, 'E': 8, 'G': 5, 'F': 7, 'O': 2, 'U': 2}.get(rt)
        if npos is None:
            # custom record: trailing fields that look like tags are tags
            k = len(f)
            while k > 1 and LL.TAGRE.match(f[k - 1]):
                k -= 1
            npos = k - 1
        pos = f[1:1 + npos]
        pos = [canon_pos(rt, version, i, p) for i, p in enumerate(pos)]
        tags = frozenset(canon_tag(t) for t in f[1 + npos:])
        recs.append((rt, tuple(pos), tags))
    return recs


def canon_pos(rt, version, i, p):
    """canonical spelling of numeric positional fields"""
    try:
        if rt == 'S' and version == 'gfa2' and i == 1:
            return str(int(p))
        if rt == 'C' and i == 4:
            return str(int(p))
        if rt == 'E' and 3 <= i <= 6 or rt == 'F' and 2 <= i <= 5:
            return (str(int(p[:-1])) + '$') if p.endswith('$') else str(int(p))
        if rt == 'G' and i in (3, 4) and p != '*':
            return str(int(p))
    except ValueError:
        return p
    return p


def dedup_links(recs):
    """one representative per link/complement pair"""
    inv = {'+': '-', '-': '+'}
    out, seen = [], []
    for r in recs:
        if r[0] == 'L':
            f, fo, t, to, ov = r[1]
            comp = (t, inv[to], f, inv[fo], gen.complement_cigar(ov))
            if comp in seen:
                continue
            seen.append(r[1])
        out.append(r)
    return out


def oracle_doc(case):
    g = impl.gfapy()
    out = []
    lines, ver, vl = case['doc'], case['version'], case['vlevel']
    entry = case['entry']
    kw = {'vlevel': vl}
    if case['explicit_version']:
        kw['version'] = ver
    if entry == 'string':
        build = lambda: g.Gfa('\n'.join(lines), **kw)
    elif entry == 'string_nl':
        build = lambda: g.Gfa('\n'.join(lines) + '\n', **kw)
    elif entry == 'list':
        build = lambda: g.Gfa(list(lines), **kw)
    else:
        term = {'file_lf': '\n', 'file_crlf': '\r\n', 'file_blank': '\n'}[entry]
        path = os.path.join(TMP, 'doc.gfa')
        body = term.join(lines) + term
        if entry == 'file_blank':
            body = body + '\n'
        with open(path, 'w', newline='') as f:
            f.write(body)
        build = lambda: g.Gfa.from_file(path, **kw)
    r = impl.outcome(build)
    if r[0] != 'ok':
        return [('a valid document was rejected (%s entry)' % entry, 'accepted', impl.outcome_name(r))], None
    G = r[1]
    r = impl.outcome(lambda: str(G))
    if r[0] != 'ok':
        return [('writing a parsed document raised', 'text', impl.outcome_name(r))], None
    text = r[1]
    if 'INVALID' in text or 'GFAPY_virtual_line' in text or 'line_created_by_gfapy' in text:
        out.append(('the written document carries an INVALID/virtual marker', 'clean text', [x for x in text.split('\n') if 'INVALID' in x or 'gfapy' in x.lower()][:2]))
    if G.version != ver:
        out.append(('version', ver, G.version))
    a = sorted(dedup_links(records_of(lines, ver)), key=repr)
    b = sorted(records_of(text.split('\n'), ver), key=repr)
    if a != b:
        missing = [x for x in a if x not in b][:2]
        extra = [x for x in b if x not in a][:2]
        out.append(('records differ between input and output', missing, extra))
    # the parsed lines themselves, not only their text: as many positional fields and the same tag names with the same
    # datatypes as an independent tokeniser finds in the written line (a tag kept as a positional field writes the same text)
    for ln in G.lines:
        if ln.record_type in ('#', 'H') or ln.virtual:
            continue
        rr = impl.outcome(lambda: (str(ln), len(ln.positional_fieldnames), sorted((t, ln.get_datatype(t)) for t in ln.tagnames)))
        if rr[0] != 'ok':
            continue
        txt, npos_got, tags_got = rr[1]
        rec = records_of([txt], ver)[0]
        tags_want = sorted(tuple(t.split(':', 2)[:2]) for t in rec[2])
        if npos_got != len(rec[1]) or tags_got != tags_want:
            out.append(('the parsed line %r has other positional fields / tags than its text' % txt[:60],
                        (len(rec[1]), tags_want), (npos_got, tags_got)))
            break
    r2 = impl.outcome(lambda: str(g.Gfa(text, **kw)))
    if r2[0] != 'ok':
        out.append(('the written document does not parse again', 'accepted', impl.outcome_name(r2)))
    elif r2[1] != text:
        d = [(x, y) for x, y in zip(text.split('\n'), r2[1].split('\n')) if x != y][:2]
        out.append(('writing is not a fixed point', [x for x, _ in d], [y for _, y in d]))
    return out, text


def doc_term(case, written):
    ft, jt = [], []
    for l in case['doc']:
        a, b = LL.tables_for(l)
        ft += a
        jt += b
    fts = clist(['(%s, %s)' % (cstr(a), cstr(b)) for a, b in ft])
    jts = clist(['(%s, %s)' % (cstr(a), copt(cstr(b)) if b is not None else 'None') for a, b in jt])
    # the model needs the spelling of the canonical forms too (for its fixed point)
    ft2, jt2 = [], []
    for l in written:
        a, b = LL.tables_for(l)
        ft2 += a
        jt2 += b
    fts = clist(['(%s, %s)' % (cstr(a), cstr(b)) for a, b in ft + ft2])
    jts = clist(['(%s, %s)' % (cstr(a), copt(cstr(b)) if b is not None else 'None') for a, b in jt + jt2])
    return '(%d, %s, %s, %s, %s, %s)' % (case['vlevel'], cstr(case['version']), clist([cstr(x) for x in case['doc']]),
                                         clist([cstr(x) for x in written]), fts, jts)


# hand-made documents that run first: a path over one segment (no link needed), several paths over one link, a
# link given twice in complement forms, ordered groups of one item, nested sets
CORPUS = [
    # comments without text, of blanks only, and between records of either version
    (['#', 'S\ta\t*', '# ', '#  x ', '#'], 'gfa1'),
    (['H\tVN:Z:2.0', '#', 'S\ta\t10\t*', '#\t', '# #'], 'gfa2'),
    # custom records made of tags only, of one positional field, and of fields that only resemble tags
    (['H\tVN:Z:2.0', 'S\ta\t10\t*', 'Y\txx:i:1\tyy:Z:abc', 'Z\tzz:i:5', 'W\tfield\tab:Z:x', 'V\tx1:i:1\tnot a tag\tab:f:1.5', 'T'], 'gfa2'),
    (['S\ta\t*', 'P\tp\ta+\t*'], 'gfa1'),
    # characters that some text functions take for line ends (form feed, file/group/record separators) inside a comment
    # and inside a field of a custom record: the only line end of a document is LF (or CRLF)
    (['H\tVN:Z:1.0', '# form\x0cfeed and \x1c\x1d\x1e separators', 'S\ta\t*', '#\x0b'], 'gfa1'),
    (['H\tVN:Z:2.0', 'S\ta\t10\t*', 'X\tf\x0cg\th\x1ci\txx:Z:jk', '# c\x1e'], 'gfa2'),
    (['S\ta\tACGT', 'S\tb\t*\tLN:i:6', 'L\ta\t+\tb\t-\t2M', 'P\tp\ta+,b-\t2M', 'P\tq\ta-\t*', 'P\tr\tb+,a-\t*',
      'C\tb\t+\ta\t-\t1\t4M', 'L\tb\t+\ta\t-\t2M'], 'gfa1'),
    (['H\tVN:Z:1.0', 'S\ta\tACGT\tLN:i:4', 'S\tb\tAC\tLN:i:2\tRC:i:0', 'L\ta\t+\ta\t-\t*', 'P\tp\ta+,a-\t*'], 'gfa1'),
    (['H\tVN:Z:2.0', 'S\ta\t10\t*', 'S\tb\t10\t*', 'E\te\ta+\tb-\t6\t10$\t0\t4\t4M', 'O\to\ta+ e+ b-', 'O\to1\ta-',
      'U\tu\ta b e', 'U\tv\tu o1', 'G\tg\ta-\tb+\t5\t*', 'F\ta\tx+\t0\t3\t0\t3\t*'], 'gfa2'),
]


def gen_doc(rng, i):
    if i // 2 < len(CORPUS) and i % 2 == 0:
        lines, ver = CORPUS[i // 2]
        return list(lines), ver
    if i % 2:
        lines, info = gen.gen_gfa1(rng)
        ver = 'gfa1'
        # a link given in both complement forms
        links = [l for l in lines if l.startswith('L\t')]
        if links and rng.random() < 0.3:
            f = rng.choice(links).split('\t')
            inv = {'+': '-', '-': '+'}
            lines.append('\t'.join(['L', f[3], inv[f[4]], f[1], inv[f[2]], gen.complement_cigar(f[5])]))
    else:
        lines, info = gen.gen_gfa2(rng)
        ver = 'gfa2'
    if rng.random() < 0.3:
        lines.append('H\tzz:i:%d' % rng.randint(0, 9))
        lines.append('H\tzz:i:%d\tyy:Z:v' % rng.randint(0, 9))
    if rng.random() < 0.5:
        rng.shuffle(lines)
    return lines, ver


def version_determined(lines, ver):
    """is the version implied by the content alone"""
    for l in lines:
        f = l.split('\t')
        if f[0] == 'H' and any(t.startswith('VN:Z:') for t in f[1:]):
            return True
        if f[0] in 'SLCP' and ver == 'gfa1' or f[0] in 'SEGFOU' and ver == 'gfa2':
            return True
    return False


def py_of(case):
    return "import gfapy\ng=gfapy.Gfa(%r,vlevel=%d%s)\nprint(g)" % (case['doc'], case['vlevel'],
                                                                   ",version=%r" % case['version'] if case['explicit_version'] else '')


def run(ctx, deep, model_ok):
    global TMP
    TMP = tempfile.mkdtemp(prefix='gfapy_c01_')
    try:
        _run(ctx, deep, model_ok)
    finally:
        shutil.rmtree(TMP, ignore_errors=True)


def _run(ctx, deep, model_ok):
    rng = ctx.rng
    n = 400 if deep else 80
    terms, metas = [], []
    entries = ['string', 'list', 'file_lf', 'file_crlf', 'string_nl', 'file_blank']
    for i in range(n):
        lines, ver = gen_doc(rng, i)
        if not lines:
            continue
        det = version_determined(lines, ver)
        from_corpus = i // 2 < len(CORPUS) and i % 2 == 0
        for vl, entry in [(vl, e) for vl in ([0, 1, 2, 3] if deep else [rng.choice([0, 2, 3]), 1])
                          for e in (entries if from_corpus else [rng.choice(entries)])]:
            case = {'kind': 'doc', 'doc': lines, 'version': ver, 'vlevel': vl, 'entry': entry,
                    'explicit_version': (not det) or rng.random() < 0.4}
            rts = set(l.split('\t')[0][:1] for l in lines)
            delayed = any((':J:' in l or ':B:' in l or ':H:' in l or ':f:' in l) for l in lines)
            ctx.count(case, len(rts) >= 3 and delayed)
            fails, text = oracle_doc(case)
            for what, exp, obs in fails[:1]:
                ctx.violation('failing-input', what, case, exp, obs, python=py_of(case))
            if model_ok and text is not None and vl >= 1 and not fails and all(ord(c) < 256 for l in lines for c in l):
                try:
                    terms.append(doc_term(case, text.split('\n') if text else []))
                    metas.append(case)
                except ValueError:
                    pass
    if model_ok:
        failing, errs = core.coq_eval_cases('C01', 'doc', IMPORTS, 'doc_case', 'check_doc', terms, shard=40)
        for e in errs:
            ctx.broken.append(('correspondence-broken', 'documents: ' + e))
        for i in failing[:3]:
            vals, _ = core.coq_eval_strings('C01', 'showdoc', IMPORTS, ['show_doc %s' % terms[i]])
            ctx.disagree('Model/Doc.v and str(Gfa(T)) differ (model writes: %s)' % (vals[0][:300] if vals else '?'),
                          metas[i], python=py_of(metas[i]))
        ctx.notes['documents_compared_in_coq'] = len(terms)


def replay(ctx, body):
    global TMP
    case = body.get('case') or {}
    if 'doc' not in case:
        return True
    TMP = tempfile.mkdtemp(prefix='gfapy_c01_')
    try:
        fails, text = oracle_doc(case)
        if fails:
            return True
        if case['vlevel'] >= 1 and text is not None:
            failing, errs = core.coq_eval_cases('C01', 'replay', IMPORTS, 'doc_case', 'check_doc', [doc_term(case, text.split('\n'))])
            return bool(failing or errs)
        return False
    finally:
        shutil.rmtree(TMP, ignore_errors=True)
