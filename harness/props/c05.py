"""C05 — mutating a Gfa is equivalent to editing its text (exact removal cascade)."""
from .. import impl, gen, graphlab as GL
from . import graphcommon as GC

DEPS = GC.DEPS
MODEL_TARGETS = GC.MODEL_TARGETS
ASSUMPTIONS = GC.ASSUMPTIONS
LEVEL_TEXT = ("Theorems in coq/Props/C05.v over Model/Graph.v (whose states are lists of lines and whose operations are edits of "
              "that list): rm deletes exactly the least set containing the named line and closed under 'mentions a removed "
              "line in a collection its class declares dependent' and keeps every other line untouched and in place; after it no "
              "remaining line mentions a removed one (guard excluding F28); the dependency tables the cascade reads (regenerated "
              "from the record classes on every run) equal the table documented in doc/tutorial/references.rst; a rename edits "
              "the lines as stated (the renamed line carries the new identifier, every other line is rewritten field by field), "
              "the mentions of a rewritten line are exactly the old ones with the old identifier replaced, and a line that "
              "did not mention it keeps its mentions (Proofs/RenameP.v, for identifiers free of the list separators). Tie: histories "
              "run on gfapy and on the model with the full observation compared after every operation (so the implementation's "
              "cascade, rename and tag edits are compared with the text edit step by step). 'Equals a Gfa parsed afresh from the "
              "text': in the reference semantics, reading the records of a state without placeholders into an empty Gfa gives the "
              "same records and the same back-references (Proofs/ReparseP.v); on the implementation it is decided by the oracle "
              "(re-parse of the written non-virtual lines and comparison of the canonical observations).")
RULE = ("histories as in C02, biased to removals: segments with fan-out 2-4 per end, links under paths, edges and groups under "
        "groups (nesting <= 3), plus tag set/delete edits. Non-trivial: an rm whose cascade removes >= 2 further lines, or a "
        "rename of a segment mentioned by >= 2 lines.")

DOC_DEP = {  # doc/tutorial/references.rst
    ('gfa1', 'S'): ['L', 'C', 'P'], ('gfa1', 'L'): ['P'],
    ('gfa2', 'S'): ['E', 'G', 'F', 'U', 'O'], ('gfa2', 'E'): ['U', 'O'], ('gfa2', 'U'): ['U'], ('gfa2', 'O'): ['U', 'O'],
}


def text_mentions(f):
    rt = f[0]
    if rt in ('L', 'C'):
        return [f[1], f[3]]
    if rt == 'P':
        return [x[:-1] for x in f[2].split(',')]
    if rt in ('E', 'G'):
        return [f[2][:-1], f[3][:-1]]
    if rt == 'F':
        return [f[1]]
    if rt == 'O':
        return [x[:-1] for x in f[2].split(' ')]
    if rt == 'U':
        return f[2].split(' ')
    return []


def name_of(f):
    if f[0] in 'SPEGOU' and len(f) > 1 and f[1] != '*':
        return f[1]
    return None


def expected_after_rm(version, lines, name):
    """texts that survive rm(name) according to the documented dependency table (links under paths by step)"""
    fs = [l.split('\t') for l in lines]
    dead = set(i for i, f in enumerate(fs) if name_of(f) == name)
    changed = True
    while changed:
        changed = False
        for i, f in enumerate(fs):
            if i in dead:
                continue
            for j in list(dead):
                d = fs[j]
                deps = DOC_DEP.get((version, d[0]), [])
                n = name_of(d)
                if f[0] in deps and n is not None and n in text_mentions(f):
                    dead.add(i)
                    changed = True
                    break
                if d[0] == 'L' and f[0] == 'P' and 'P' in deps:
                    steps = f[2].split(',')
                    inv = {'+': '-', '-': '+'}
                    for a, b in zip(steps, steps[1:]):
                        if (a, b) == (d[1] + d[2], d[3] + d[4]) or (a, b) == (d[3] + inv[d[4]], d[1] + inv[d[2]]):
                            dead.add(i)
                            changed = True
            
    return sorted(lines[i] for i in range(len(lines)) if i not in dead)


def real_lines(G):
    return [str(x) for x in G.lines if x.record_type != 'H' and not x.virtual]


def step_oracle(G, op, r, ob, oa, removed):
    g = impl.gfapy()
    out = []
    before = sorted(x[4:] for x in ob.split('\n') if x.startswith('L|0|'))
    after = sorted(x[4:] for x in oa.split('\n') if x.startswith('L|0|'))
    if op[0] == 'rm' and r[0] == 'ok':
        if any(x.startswith('G\t') for x in before) and any(x.startswith('U\t') for x in before):
            return out          # F28 domain
        want = expected_after_rm(G.version, before, op[1])
        if op[1] in [name_of(x.split('\t')) for x in before] and want != after:
            out.append(('rm(%r) did not remove exactly the line and its documented dependants' % op[1],
                        [x for x in want if x not in after][:3] or 'nothing more', [x for x in after if x not in want][:3] or 'nothing less'))
    # a stand-in link is made only for a step that no stored link fits: one that repeats the oriented pair of a stored link
    # (in direct or complement form) with an overlap the stored one is compatible with should not exist
    inv = {'+': '-', '-': '+'}
    rows = [x[4:].split('\t') for x in oa.split('\n') if x.startswith('L|')]
    reals = [f for f in rows if f[0] == 'L' and 'co:Z:GFAPY_virtual_line' not in f]
    for v in [f for f in rows if f[0] == 'L' and 'co:Z:GFAPY_virtual_line' in f]:
        for f in reals:
            direct = f[1:5] == v[1:5]
            compl = [f[3], inv.get(f[4]), f[1], inv.get(f[2])] == v[1:5]
            if (direct and (f[5] == '*' or v[5] == '*' or f[5] == v[5])) or \
                    (compl and (f[5] == '*' or v[5] == '*' or gen.complement_cigar(f[5]) == v[5])):
                out.append(('a stand-in link %s was created although the stored link %s fits the step' % (' '.join(v[1:6]), ' '.join(f[1:6])),
                            None, '\t'.join(v)))
    if r[0] == 'ok' and not any('GFAPY_virtual' in x or 'created_by_gfapy' in x for x in oa.split('\n')):
        # equal to a Gfa parsed afresh from the written text
        fresh = impl.outcome(lambda: GL.impl_obs(g.Gfa(after, version=G.version, vlevel=1)))
        if fresh[0] != 'ok':
            out.append(('the text of the mutated Gfa does not parse', 'accepted', impl.outcome_name(fresh)))
        elif fresh[1] != oa:
            a, b = set(oa.split('\n')), set(fresh[1].split('\n'))
            out.append(('the mutated Gfa differs from a Gfa parsed from its text', sorted(b - a)[:3], sorted(a - b)[:3]))
    return out


def nontrivial(ops):
    return sum(1 for o in ops if o[0] == 'rm') >= 1 and len(ops) >= 6


def gen_ops(rng, version):
    ops = GL.gen_history(rng, version, nops=0)
    lines = [o[1] for o in ops]
    named = GL.names_in(lines)
    for _ in range(rng.randint(1, 5)):
        if named and rng.random() < 0.8:
            k, n = rng.choice(named)
            ops.append(('rm', n))
        else:
            segs = [n for k, n in named if k == 'S']
            if segs:
                ops.append(('rename', rng.choice(segs), 'r%d' % rng.randint(0, 99)))
    return ops


def run(ctx, deep, model_ok):
    GC.run_histories(ctx, 'C05', deep, model_ok, 30, 300, step_oracle, nontrivial, gen_ops=gen_ops)
    # tag edits: only the edited line changes
    g = impl.gfapy()
    rng = ctx.rng
    for i in range(20 if not deep else 100):
        ver = 'gfa1' if i % 2 else 'gfa2'
        lines, info = GL.clean_doc(rng, ver)
        G = g.Gfa(lines, version=ver)
        segs = G.segments
        if not segs:
            continue
        s = rng.choice(segs)
        before = real_lines(G)
        old = str(s)
        s.set('zq', 5)
        mid = real_lines(G)
        s.delete('zq')
        after = real_lines(G)
        case = {'kind': 'tagedit', 'doc': lines, 'version': ver, 'segment': s.name}
        ctx.count(case, False)
        if sorted(after) != sorted(before) or sorted(x for x in mid if x != old + '\tzq:i:5') != sorted(x for x in before if x != old):
            ctx.violation('failing-input', 'setting/deleting a tag changed more than the edited line', case, before[:3], mid[:3])
    # histories of tag edits on any line: the text follows an independent model of the tag list (a new tag is appended
    # with the default datatype of its value; a deleted tag leaves nothing behind, so setting it again starts afresh;
    # an existing tag keeps its datatype), every other line is unchanged, and the text parses to the same content
    import re as _re
    TAGRE = _re.compile(r'^[A-Za-z][A-Za-z0-9]:[AifZJHB]:')
    VALUES = [(5, 'i', '5'), (-3, 'i', '-3'), (1.5, 'f', '1.5'), ('abc', 'Z', 'abc'), ('a b', 'Z', 'a b'), (0, 'i', '0')]
    for i in range(20 if not deep else 100):
        ver = 'gfa1' if i % 2 else 'gfa2'
        if i < 2:
            lines = (['S\ta\t*\txx:i:12', 'S\tb\t*', 'L\ta\t+\tb\t-\t*\tzz:Z:k'] if ver == 'gfa1' else
                     ['S\ta\t10\t*\txx:i:12', 'S\tb\t10\t*', 'E\te\ta+\tb-\t6\t10$\t0\t4\t*\tzz:f:1.0'])
        else:
            lines, info = GL.clean_doc(rng, ver)
        G = g.Gfa(lines, version=ver)
        cands = [x for x in G.lines if x.record_type in 'SLCPEGFOU' and not x.virtual]
        if not cands:
            continue
        ln = G.line('a') if i < 2 else rng.choice(cands)
        f = str(ln).split('\t')
        ntag = 0
        while ntag < len(f) - 1 and TAGRE.match(f[len(f) - 1 - ntag]):
            ntag += 1
        pos, tags = f[:len(f) - ntag], [[t[:2], t[3], t[5:]] for t in f[len(f) - ntag:]]
        others = sorted(str(x) for x in G.lines if x is not ln)
        edits = []
        for k in range(rng.randint(3, 7)):
            custom = [t[0] for t in tags if t[0][0].islower()]
            if i < 2 and k < 2:
                op = [('del', 'xx'), ('set', 'xx', VALUES[3 + i])][k]
            elif custom and rng.random() < 0.4:
                op = ('del', rng.choice(custom))
            else:
                op = ('set', rng.choice(['zq', 'zr', 'xx']), rng.choice(VALUES))
            if op[0] == 'set' and any(t[0] == op[1] and t[1] != op[2][1] for t in tags):
                continue          # a value of another type for an existing tag: outside this model
            edits.append(op if op[0] == 'del' else (op[0], op[1], op[2][0]))
            if op[0] == 'del':
                tags = [t for t in tags if t[0] != op[1]]
                r = impl.outcome(lambda: ln.delete(op[1]))
            else:
                v, dt, txt = op[2]
                cur = [t for t in tags if t[0] == op[1]]
                if cur:
                    cur[0][2] = txt
                else:
                    tags.append([op[1], dt, txt])
                r = impl.outcome(lambda: ln.set(op[1], v))
            want = '\t'.join(pos + ['%s:%s:%s' % tuple(t) for t in tags])
            got = impl.outcome(lambda: str(ln))
            case = {'kind': 'tagedits', 'doc': lines, 'version': ver, 'line': '\t'.join(f), 'edits': edits}
            py = ("import gfapy\ng=gfapy.Gfa(%r,version=%r)\nl=[x for x in g.lines if str(x)==%r][0]\nfor e in %r:\n"
                  "  l.delete(e[1]) if e[0]=='del' else l.set(e[1],e[2])\n  print(l)" % (lines, ver, '\t'.join(f), edits))
            if r[0] != 'ok' or got != ('ok', want):
                ctx.violation('failing-input', 'after these tag edits the line is not written as the edited text', case, want,
                              got[1] if got[0] == 'ok' else impl.outcome_name(got), python=py)
                break
            if sorted(str(x) for x in G.lines if x is not ln) != others:
                ctx.violation('failing-input', 'a tag edit changed another line', case, None, None, python=py)
                break
        else:
            ctx.count({'kind': 'tagedits', 'doc': lines, 'version': ver, 'edits': edits}, any(e[0] == 'del' for e in edits))
            text = real_lines(G)
            fresh = impl.outcome(lambda: sorted(real_lines(g.Gfa(text, version=ver))))
            if fresh != ('ok', sorted(text)):
                ctx.violation('failing-input', 'after tag edits the text of the Gfa does not parse to the same content',
                              {'kind': 'tagedits', 'doc': lines, 'version': ver, 'edits': edits}, sorted(text)[:3],
                              fresh[1][:3] if fresh[0] == 'ok' else impl.outcome_name(fresh))
    # known finding F28
    G = g.Gfa(['S\tA\t5\t*', 'S\tB\t5\t*', 'G\tg\tA+\tB+\t5\t*', 'U\tu\tA g'], version='gfa2')
    G.rm('g')
    if 'U\tu\tA g' in str(G):
        ctx.known('F28', "rm of a gap leaves the set that lists it unchanged ('U u A g' still mentions g): Gap declares no "
                         "'sets' collection")


def replay(ctx, body):
    case = body.get('case') or {}
    if case.get('kind') == 'tagedits' and 'line' in case:
        g = impl.gfapy()
        def redo():
            G = g.Gfa(case['doc'], version=case['version'])
            ln = [x for x in G.lines if str(x) == case['line']][0]
            for e in case['edits']:
                ln.delete(e[1]) if e[0] == 'del' else ln.set(e[1], e[2])
            return str(ln)
        return impl.outcome(redo) != ('ok', body.get('expected'))
    return GC.replay_history(ctx, 'C05', body, step_oracle)
