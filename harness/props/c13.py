"""C13 — the GFA version is inferred from content and enforced consistently."""
import itertools

from .. import core, impl
from ..core import cstr, clist, copt, cbool

DEPS = ['Tables']
MODEL_TARGETS = ['Corr/C13c.vo']
IMPORTS = "From GfaV Require Import Base.Py Model.Version Proofs.VersionP Corr.C13c."
LEVEL_TEXT = ("Theorems in coq/Props/C13.v, for documents of any length: the state machine of add_line (unknown-version queue, "
              "version guess, VN headers, segment syntax, version-specific records, final queue processing, rGFA check) "
              "computes exactly the order-free specification Spec/VersionSpec.v; hence the accepted version or the rejection "
              "is the same for every permutation of the lines; every line of an accepted document is added exactly once. "
              "The state machine is a hand model of lines/creators.py and gfa.py (Model/Version.v); it is compared inside "
              "Coq with the implementation on documents assembled from deciding, ambiguous and conflicting lines in every "
              "arrival order, with every setting of the version and dialect parameters. The abstraction of a text line to "
              "its kind (record type, VN value, segment syntax) is done by the harness.")
RULE = ("documents of 1-6 lines drawn from: H with VN 1.0/2.0/3.0, H without VN, S in GFA1/GFA2 syntax, L/C/P, E/F/G/O/U, "
        "comments, custom records; all permutations (<= 5 lines) or 30 shuffles; version in {None, gfa1, gfa2}, dialect in "
        "{standard, rgfa}; vlevel 1..3. Non-trivial: the deciding line is not first, or the document mixes versions.")
ASSUMPTIONS = ["validation level >= 1 (level 0 documents that it skips the VN/content cross-check)",
               "every line is individually well-formed; reference resolution is not part of this property "
               "(documents whose references dangle are built without the final validate())"]

POOL = {
    'VN1': ('H\tVN:Z:1.0', 'KVN (Some V1)'), 'VN2': ('H\tVN:Z:2.0', 'KVN (Some V2)'), 'VN3': ('H\tVN:Z:3.0', 'KVN None'),
    'H': ('H\txx:i:1', 'KH'),
    'S1a': ('S\tA\t*', 'KS V1'), 'S1b': ('S\tB\tACGT\tLN:i:4', 'KS V1'),
    'S2a': ('S\tA\t10\t*', 'KS V2'), 'S2b': ('S\tB\t4\tACGT', 'KS V2'),
    # segments whose syntax must be recognised through their tags (names with a digit, several tags, tag-like sequence)
    'S1c': ('S\tC\t*\tx1:i:3', 'KS V1'), 'S1d': ('S\tD\tACGT\ts2:Z:a\tRC:i:4', 'KS V1'),
    'S2c': ('S\tC\t10\t*\tx1:i:3', 'KS V2'), 'S2d': ('S\tD\t4\tACGT\ts2:Z:a\tz9:f:1.5', 'KS V2'),
    'L': ('L\tA\t+\tB\t+\t*', 'KG V1'), 'C': ('C\tA\t+\tB\t+\t0\t*', 'KG V1'), 'P': ('P\tp\tA+,B+\t*', 'KG V1'),
    'E': ('E\te\tA+\tB+\t0\t2\t0\t2\t*', 'KG V2'), 'G': ('G\tg\tA+\tB+\t5\t*', 'KG V2'), 'F': ('F\tA\tr+\t0\t1\t0\t1\t*', 'KG V2'),
    'O': ('O\to\tA+ B+', 'KG V2'), 'U': ('U\tu\tA B', 'KG V2'),
    '#': ('# comment', 'KComment'), 'X': ('X\tfield\txx:i:1', 'KCustom'), 'Y': ('Y\t1', 'KCustom'),
}
VER = {None: 'None', 'gfa1': '(Some V1)', 'gfa2': '(Some V2)'}


def run_impl(lines, version, dialect, vlevel, full):
    """('gfa1'|'gfa2', n_lines) or ('VersionError',) or ('other', class)"""
    g = impl.gfapy()

    def build():
        if full == 'file':
            # the same document offered as a file, with the same parameters
            import tempfile, os
            fd, path = tempfile.mkstemp(prefix='c13_', suffix='.gfa')
            try:
                with os.fdopen(fd, 'w', newline='') as f:
                    f.write('\n'.join(lines) + '\n')
                G = g.Gfa.from_file(path, version=version, dialect=dialect, vlevel=vlevel)
            finally:
                os.unlink(path)
        elif full:
            G = g.Gfa(list(lines), version=version, dialect=dialect, vlevel=vlevel)
        else:
            G = g.Gfa(version=version, dialect=dialect, vlevel=vlevel)
            for l in lines:
                G.add_line(l)
            G.process_line_queue()
            if dialect == 'rgfa':
                G._validate_rgfa_version()
        return G
    r = impl.outcome(build)
    if r[0] == 'ok':
        G = r[1]
        return (G.version, sorted(str(x) for x in G.lines if not getattr(x, 'virtual', False)))
    if r[1] == ('gfapy', 'VersionError'):
        return ('VersionError',)
    return ('other', r[1])


def complete_refs(names):
    """does the document define the segments its lines mention (A, B)"""
    segs = set()
    for n in names:
        if n in ('S1a', 'S2a'):
            segs.add('A')
        if n in ('S1b', 'S2b'):
            segs.add('B')
    need = set()
    for n in names:
        if n in 'LCPEGOU':
            need |= {'A', 'B'}
        if n == 'F':
            need.add('A')
    if 'P' in names and 'L' not in names:
        return False       # Gfa(text) validates the document: a path needs its links
    return need <= segs


def expected_lines(names, v):
    out = []
    for n in names:
        t = POOL[n][0]
        out.append(t)
    return sorted(out)


def py_of(case):
    if case.get('full') == 'file':
        return ("import gfapy\nfor order in %r:\n  open('/tmp/doc.gfa','w').write('\\n'.join(order)+'\\n')\n  try:\n"
                "    g=gfapy.Gfa.from_file('/tmp/doc.gfa',version=%r,dialect=%r,vlevel=%d); print(g.version)\n"
                "  except gfapy.Error as e: print(type(e).__name__)" % (case['orders'], case['version'], case['dialect'], case['vlevel']))
    return ("import gfapy\nfor order in %r:\n  try:\n    g=gfapy.Gfa(order,version=%r,dialect=%r,vlevel=%d); print(g.version)\n"
            "  except gfapy.Error as e: print(type(e).__name__)" % (case['orders'], case['version'], case['dialect'], case['vlevel']))


def rgfa_documents(ctx):
    """the rGFA dialect is GFA1: a complete rGFA document is accepted as gfa1, the same content with any GFA2 construct, a
    GFA2 header or version=gfa2 is refused with VersionError, in every order of the lines, through the constructor"""
    g = impl.gfapy()
    s1 = ['S\ts1\tACGT\tSN:Z:chr1\tSO:i:0\tSR:i:0', 'S\ts2\tGGTT\tSN:Z:chr1\tSO:i:4\tSR:i:0']
    s2 = ['S\ts1\t4\tACGT\tSN:Z:chr1\tSO:i:0\tSR:i:0', 'S\ts2\t4\tGGTT\tSN:Z:chr1\tSO:i:4\tSR:i:0']
    docs = [('gfa1', s1 + ['L\ts1\t+\ts2\t+\t0M\tSR:i:0'], {}), ('gfa1', s1, {'version': 'gfa1'}),
            ('VersionError', s2, {}), ('VersionError', ['H\tVN:Z:2.0'] + s1, {}), ('VersionError', s1 + ['E\te\ts1+\ts2+\t0\t1\t0\t1\t*'], {}),
            ('VersionError', s1, {'version': 'gfa2'}), ('VersionError', s1 + ['G\tg\ts1+\ts2-\t5\t*'], {}),
            ('VersionError', s1 + ['U\tu\ts1 s2'], {}),
            # a GFA2 document that also contains what rGFA forbids for other reasons (header lines): the version decides
            ('VersionError', ['H\tVN:Z:2.0'] + s2, {}), ('VersionError', ['H\txx:Z:a'] + s2, {}),
            ('VersionError', ['H\tVN:Z:2.0'] + s2, {'version': 'gfa2'}), ('VersionError', ['H\tab:i:1', 'H\tcd:i:2'] + s2[:1], {})]
    for want, doc, kw in docs:
        for order in itertools.permutations(doc):
            r = impl.outcome(lambda: g.Gfa(list(order), dialect='rgfa', **kw).version)
            got = r[1] if r[0] == 'ok' else r[1][1]
            case = {'kind': 'doc', 'orders': [list(order)], 'version': kw.get('version'), 'dialect': 'rgfa', 'vlevel': 1, 'full': True}
            ctx.count(case, want == 'VersionError')
            if got != want:
                ctx.violation('failing-input', 'an rGFA document %s' % ('with a GFA2 construct is not refused with VersionError' if want == 'VersionError'
                                                                         else 'in GFA1 is not accepted as gfa1'), case, want, got, python=py_of(case))
                break


def run(ctx, deep, model_ok):
    rng = ctx.rng
    rgfa_documents(ctx)
    names_all = list(POOL)
    n = 500 if deep else 120
    terms, metas = [], []
    for i in range(n):
        k = rng.choice([1, 2, 2, 3, 3, 4, 5, 6])
        # bias towards consistent documents so that acceptance is exercised as much as rejection
        fam = rng.choice(['gfa1', 'gfa2', 'mixed', 'mixed'])
        pool = names_all if fam == 'mixed' else [x for x in names_all if (
            POOL[x][1] in ('KH', 'KComment') or (fam == 'gfa1' and ('V1' in POOL[x][1])) or
            (fam == 'gfa2' and ('V2' in POOL[x][1] or POOL[x][1] == 'KCustom')))]
        names = []
        for _ in range(k):
            x = rng.choice(pool)
            if x in names and x not in ('#', 'H'):
                continue
            names.append(x)
        if not names:
            continue
        version = rng.choice([None, None, 'gfa1', 'gfa2'])
        dialect = rng.choice(['standard', 'standard', 'rgfa'])
        vlevel = rng.choice([0, 1, 2, 3])
        if vlevel == 0 and (any(x.startswith('VN') for x in names) or dialect != 'standard'):
            vlevel = 1        # the header and dialect cross-checks are validations: level 0 leaves them out by design
        full = complete_refs(names) and dialect == 'standard'
        if full and i % 3 == 0:
            full = 'file'
        perms = list(itertools.permutations(names)) if len(names) <= 5 else None
        if perms is None or len(perms) > 60:
            perms = [tuple(rng.sample(names, len(names))) for _ in range(30)] + [tuple(names)]
        outcomes = {}
        orders = []
        for p in perms:
            lines = [POOL[x][0] for x in p]
            o = run_impl(lines, version, dialect, vlevel, full)
            outcomes.setdefault(repr(o[:1]), []).append((p, o))
            if len(orders) < 3:
                orders.append(lines)
            if model_ok:
                exp = VER.get(o[0]) if o[0] in ('gfa1', 'gfa2') else ('None' if o[0] == 'VersionError' else None)
                if exp is not None:
                    terms.append('(%s, %s, %s, %s)' % (VER[version], cbool(dialect == 'rgfa'), clist([POOL[x][1] for x in p]), exp))
                    metas.append({'kind': 'order', 'orders': [lines], 'version': version, 'dialect': dialect, 'vlevel': vlevel})
        case = {'kind': 'doc', 'names': names, 'orders': orders, 'version': version, 'dialect': dialect, 'vlevel': vlevel, 'full': full}
        decider_first = POOL[names[0]][1].startswith(('KVN', 'KS', 'KG V2'))
        ctx.count(case, (not decider_first) or fam == 'mixed')
        if len(outcomes) > 1:
            a, b = list(outcomes.values())[:2]
            case2 = dict(case, orders=[[POOL[x][0] for x in a[0][0]], [POOL[x][0] for x in b[0][0]]])
            ctx.violation('failing-input', 'the outcome depends on the order of the lines', case2, a[0][1][:1], b[0][1][:1], python=py_of(case2))
            continue
        o = list(outcomes.values())[0][0][1]
        # an explicitly given version is contradicted by any construct of the other version
        other = {'gfa1': 'V2', 'gfa2': 'V1'}.get(version)
        if other and o[0] in ('gfa1', 'gfa2') and any(other in POOL[x][1] for x in names):
            ctx.violation('failing-input', 'a document with a %s-only construct was accepted although version=%r was given (%s entry)'
                          % ('GFA' + other[1], version, 'file' if full == 'file' else 'constructor' if full else 'add_line'),
                          case, 'VersionError', o[0], python=py_of(case))
            continue
        if o[0] == 'other':
            ctx.violation('failing-input', 'a document of individually valid lines raised %s' % (o[1],), case, python=py_of(case))
            continue
        if o[0] in ('gfa1', 'gfa2'):
            # each input line exactly once (H lines are merged: compare the others)
            want = sorted(POOL[x][0] for x in names if not POOL[x][0].startswith('H\t'))
            for p, oo in list(outcomes.values())[0]:
                got = [x for x in oo[1] if not x.startswith('H\t')]
                if got != want:
                    case2 = dict(case, orders=[[POOL[x][0] for x in p]])
                    ctx.violation('failing-input', 'a line was added more or less than once', case2, want, got, python=py_of(case2))
                    break
    if model_ok:
        failing, errs = core.coq_eval_cases('C13', 'ver', IMPORTS, 'ver_case', 'check_ver', terms)
        for e in errs:
            ctx.broken.append(('correspondence-broken', 'version cases: ' + e))
        for i in failing[:3]:
            ctx.disagree('Model/Version.v (proved equal to the order-free specification) and the implementation end with different '
                         'versions/outcomes for this order: %s' % terms[i][:200], metas[i], python=py_of(metas[i]))
        ctx.notes['orders_compared_in_coq'] = len(terms)


def replay(ctx, body):
    case = body.get('case') or {}
    if 'orders' not in case:
        return True
    outs = set()
    for lines in case['orders']:
        o = run_impl(lines, case['version'], case['dialect'], case['vlevel'], case.get('full', False))
        outs.add(repr(o[:1]))
        if o[0] == 'other':
            return True
    return len(outs) > 1
