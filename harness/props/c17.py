"""C17 — GFA2 groups resolve to the paths and sets the specification defines."""
from .. import core, impl, gen, graphlab as GL, linelab as LL, spec_groups as SG
from ..core import cstr, clist, copt
from . import graphcommon as GC

DEPS = GC.DEPS
MODEL_TARGETS = ['Corr/C17c.vo']
IMPORTS = ("From GfaV Require Import Base.Py Model.Codec Model.Graph Model.Groups Proofs.GraphP Corr.C12c Corr.Graphc Corr.C17c.")
ASSUMPTIONS = GC.ASSUMPTIONS + ["groups are acyclic (F24)", "no gap is listed in a group",
                                "for the oracle: a nested ordered group lists its first and last segment explicitly"]
LEVEL_TEXT = ("Theorems in coq/Props/C17.v over Model/Groups.v (captured path and induced set computed on the reference "
              "semantics of the graph): every captured path is an alternating walk that starts and ends with a segment and in "
              "which every edge fits its two neighbours, for groups of any length and nesting depth; the listed items occur in "
              "it in order; an induced edge set is exactly the edges both of whose segments are induced; merging lines with one "
              "identifier concatenates the items in arrival order and unites the tags. Tie: captured_path, captured_segments, "
              "induced_segments_set, induced_edges_set and the merged items/tags of gfapy are compared with the model inside Coq "
              "for every group of generated documents. Oracle: an independent reading of the groups from the text (walk search "
              "over both directions of a leading edge, closure for sets).")
RULE = ("GFA2 documents with 3-6 segments, 3-9 edges (parallel edges, loops, all orientations), ordered groups derived from "
        "random walks with elements dropped (implicit edges/segments), nested groups referenced + and -, multi-line "
        "definitions, shuffled arrival order, mutated (non-contiguous, ambiguous) item lists, unordered groups over segments, "
        "edges, paths and sets. Non-trivial: a group with an implicit element, a nested group or an error.")


# hand-made documents that run first: two indistinguishable unnamed edges between adjacent segments (the step is
# ambiguous), the same with a tag telling them apart, a named and an unnamed parallel edge, a loop listed at both ends
_E = 'E\t%s\t%s\t%s\t0\t5\t2\t7\t*'
FIXED = [
    ['S\tA\t10\t*', 'S\tB\t10\t*', 'S\tC\t10\t*', _E % ('*', 'A+', 'B+'), _E % ('*', 'A+', 'B+'), _E % ('e1', 'B+', 'C+'),
     'O\to1\tA+ B+ C+', 'O\to2\tB+ C+', 'O\to3\tB- A-', 'U\tu1\tA B'],
    ['S\tA\t10\t*', 'S\tB\t10\t*', 'S\tC\t10\t*', _E % ('*', 'A+', 'B+') + '\txx:i:1', _E % ('*', 'A+', 'B+') + '\txx:i:2',
     _E % ('e1', 'B+', 'C-'), 'O\to1\tA+ B+', 'O\to2\tC+ B- A-', 'U\tu1\to2 C'],
    ['S\tA\t10\t*', 'S\tB\t10\t*', _E % ('e1', 'A+', 'B+'), _E % ('*', 'B-', 'A-'), _E % ('e2', 'A+', 'A+'), _E % ('*', 'B+', 'B-'),
     'O\to1\tA+ B+', 'O\to2\tA+ e1+ B+', 'O\to3\tA+ A+ B+', 'O\to4\tA+ B+ B-', 'U\tu1\te1 e2'],
    # groups of a single item: an edge alone implies its two segments, a nested group alone is the group
    ['S\tA\t10\t*', 'S\tB\t10\t*', _E % ('e1', 'A+', 'B+'), 'O\to1\te1+', 'O\to2\te1-', 'O\to3\tA-', 'O\to4\to1+', 'O\to5\to1-',
     'U\tu1\te1', 'U\tu2\tu1', 'U\tu3\to2'],
    # a nested group that ends with an edge, followed in the outer group by the segment the edge leads to
    ['S\tA\t10\t*', 'S\tB\t10\t*', 'S\tC\t10\t*', _E % ('e1', 'A+', 'B+'), _E % ('e2', 'B+', 'C+'), 'O\tinner\tA+ e1+', 'O\touter\tinner+ B+ C+',
     'O\tinner2\te1+', 'O\touter2\tinner2+ e2+', 'O\touter3\tinner2- A-'],
    # groups that contain themselves, directly or through another group: reported as inconsistent (F77)
    ['S\tA\t10\t*', 'S\tB\t10\t*', _E % ('e1', 'A+', 'B+'), 'O\to1\to2+ A+', 'O\to2\to1+ A+', 'O\to3\tA+ B+', 'U\tu1\tu2 A', 'U\tu2\tu1',
     'U\tu3\tu3 B', 'U\tu4\to3 A'],
    # a segment listed after an edge with the orientation the edge does not give it; an edge listed against its direction
    ['S\tA\t10\t*', 'S\tB\t10\t*', 'S\tC\t10\t*', _E % ('e1', 'A+', 'B+'), _E % ('e2', 'B+', 'C+'), 'O\to1\tA+ e1+ B-',
     'O\to2\tA+ e1+ B- C+', 'O\to3\tA+ e1+ B+ e2+ C+', 'O\to4\tA+ e1- B+', 'O\to5\tB- e1- A-', 'O\to6\tB- e1- A+', 'O\to7\te1+ B-',
     'O\to8\tC- e2- B- e1- A-'],
    # groups given in several lines whose tags are of every datatype: the merged group keeps name, datatype and value
    ['S\tA\t10\t*', 'S\tB\t10\t*', _E % ('e1', 'A+', 'B+'), 'U\tu1\tA\taa:A:c\tjj:J:[1,2,3]\thh:H:0A', 'U\tu1\tB\tbb:B:c,1,2\tff:f:1.5',
     'U\tu1\te1\tzz:Z:k', 'O\to1\tA+\taa:A:c\tjj:J:{"a":1}', 'O\to1\tB+\tii:i:3'],
]


def gen_case(rng, i):
    if i < len(FIXED):
        return {'kind': 'groups', 'lines': list(FIXED[i]), 'notes': {'fixed': True, 'implicit': True, 'nested': False, 'mutated': False}}
    nseg = rng.randint(3, 6)
    segs = rng.sample(['A', 'B', 'C', 'D', 'E', 'F', 'G'], nseg)
    lines = ['S\t%s\t10\t*' % s for s in segs]
    edges = []
    for j in range(rng.randint(3, 9)):
        a, b = rng.choice(segs), rng.choice(segs)
        if a == b and rng.random() < 0.8:
            continue
        if edges and rng.random() < 0.12:
            _, (a, oa), (b, ob) = rng.choice(edges)          # a parallel edge
            if rng.random() < 0.5:
                a, oa, b, ob = b, SG.INV[ob], a, SG.INV[oa]
        else:
            oa, ob = rng.choice('+-'), rng.choice('+-')
        eid = 'e%d' % (len(edges) + 1) if rng.random() < 0.9 else '*'
        edges.append((eid, (a, oa), (b, ob)))
        lines.append('E\t%s\t%s%s\t%s%s\t0\t5\t2\t7\t*' % (eid, a, oa, b, ob))
    named = [e for e in edges if e[0] != '*']

    def random_walk(n):
        if not named:
            return None
        e = rng.choice(named)
        o = rng.choice('+-')
        p = [e[1], e[2]] if o == '+' else [(e[1][0], SG.INV[e[1][1]]), (e[2][0], SG.INV[e[2][1]])]
        if rng.random() < 0.5:
            p.reverse()
        w = [('S',) + p[0], ('E', e[0], o), ('S',) + p[1]]
        for _ in range(n - 1):
            cur = w[-1][1:]
            cands = []
            for e in named:
                for o in '+-':
                    p = [e[1], e[2]] if o == '+' else [(e[1][0], SG.INV[e[1][1]]), (e[2][0], SG.INV[e[2][1]])]
                    if p[0] == cur:
                        cands.append((e, o, p[1]))
                    elif p[1] == cur:
                        cands.append((e, o, p[0]))
            if not cands:
                break
            e, o, nx = rng.choice(cands)
            w += [('E', e[0], o), ('S',) + nx]
        return w

    def items_of(w, full_ends=False):
        keep = [True] * len(w)
        for k in range(len(w)):
            if rng.random() < 0.4:
                keep[k] = False
        # a dropped segment needs a kept neighbouring edge; a dropped edge needs both neighbouring segments kept
        for k in range(len(w)):
            if w[k][0] == 'E' and not keep[k] and not (keep[k - 1] and keep[k + 1]):
                keep[k] = True
        for k in range(len(w)):
            if w[k][0] == 'S' and not keep[k]:
                nb = [j for j in (k - 1, k + 1) if 0 <= j < len(w)]
                if not any(keep[j] for j in nb):
                    keep[k] = True
        if full_ends:
            keep[0] = keep[-1] = True
        return ['%s%s' % (x[1], x[2]) for k, x in enumerate(w) if keep[k]]
    groups = []
    notes = {'implicit': False, 'nested': False, 'mutated': False, 'multiline': False}
    for gi in range(rng.randint(1, 3)):
        w = random_walk(rng.randint(1, 5))
        if not w:
            break
        gid = 'o%d' % (gi + 1)
        its = items_of(w)
        if len(its) < len(w):
            notes['implicit'] = True
        # nest a part of the walk as its own group
        if len(w) >= 5 and rng.random() < 0.45:
            a = rng.randrange(0, (len(w) - 3) // 2 + 1) * 2
            if len(w) >= 7 and rng.random() < 0.4:
                a = 2
            b = rng.randrange(a // 2 + 1, len(w) // 2 + 1) * 2
            sub = w[a:b + 1]
            sid = gid + 's'
            so = rng.choice('+-')
            subw = sub if so == '+' else [(k, n, SG.INV[o]) for (k, n, o) in reversed(sub)]
            groups.append((sid, items_of(subw, full_ends=True)))
            # the elements next to the nested group are kept explicit unless they are edges
            pre = ['%s%s' % (x[1], x[2]) for x in w[:a]] if a > 0 else []
            post = ['%s%s' % (x[1], x[2]) for x in w[b + 1:]]
            if len(pre) == 2 and rng.random() < 0.5:
                pre = pre[1:]                     # the group starts with the edge that leads into the nested path
            elif pre and rng.random() < 0.5:
                pre = pre[:-1] if len(pre) >= 2 and rng.random() < 0.5 else pre     # drop the joining edge: the sub path starts with the same segment
            its = pre + [sid + so] + post
            notes['nested'] = True
        if rng.random() < 0.3 and len(its) >= 1:
            notes['mutated'] = True
            m = rng.choice(['swap', 'flip', 'replace', 'dup'])
            k = rng.randrange(len(its))
            if m == 'swap' and len(its) > 1:
                j = rng.randrange(len(its))
                its[k], its[j] = its[j], its[k]
            elif m == 'flip':
                its[k] = its[k][:-1] + SG.INV[its[k][-1]]
            elif m == 'replace':
                its[k] = rng.choice(segs + [e[0] for e in named]) + rng.choice('+-')
            else:
                its.insert(k, its[k])
        groups.append((gid, its))
    for gid, its in groups:
        if len(its) >= 2 and rng.random() < 0.3:
            k = rng.randrange(1, len(its))
            lines.append('O\t%s\t%s%s' % (gid, ' '.join(its[:k]), rng.choice(['', '\txx:i:1', '\taa:A:c\tjj:J:[1,2,3]', '\thh:H:0A\tff:f:1.5'])))
            lines.append('O\t%s\t%s%s' % (gid, ' '.join(its[k:]), rng.choice(['', '\tyy:Z:a', '\txx:i:1', '\tbb:B:c,1,2'])))
            notes['multiline'] = True
        else:
            lines.append('O\t%s\t%s' % (gid, ' '.join(its)))
    # unordered groups
    refs = segs + [e[0] for e in named] + [g for g, _ in groups]
    us = []
    for ui in range(rng.randint(0, 3)):
        uid = 'u%d' % (ui + 1)
        its = rng.sample(refs + us, rng.randint(1, min(4, len(refs))))
        if rng.random() < 0.25 and len(its) >= 2:
            lines.append('U\t%s\t%s%s' % (uid, ' '.join(its[:1]), rng.choice(['', '\taa:A:c', '\tjj:J:[1,2,3]\tbb:B:C,1,2', '\tzz:i:3'])))
            lines.append('U\t%s\t%s\tzz:i:3' % (uid, ' '.join(its[1:])))
        else:
            lines.append('U\t%s\t%s' % (uid, ' '.join(its)))
        us.append(uid)
    if rng.random() < 0.5:
        head = [l for l in lines if l[0] in 'SE']
        tail = [l for l in lines if l[0] not in 'SE']
        if rng.random() < 0.5:
            lines = tail + head
        else:
            rng.shuffle(lines)
    return {'kind': 'groups', 'lines': lines, 'notes': notes}


def py_of(case):
    return ("import gfapy\ng=gfapy.Gfa(version='gfa2')\nfor l in %r: g.add_line(l)\nfor x in g.paths:\n  try: print(x.name, [str(i) for i in x.captured_path])\n"
            "  except Exception as e: print(x.name, type(e).__name__)\nfor x in g.sets:\n  try: print(x.name, [i.name for i in x.induced_segments_set], [str(i) for i in x.induced_edges_set])\n"
            "  except Exception as e: print(x.name, type(e).__name__)" % (case['lines'],))


def el_name(ol):
    ln = ol.line
    if ln.record_type == 'E' and not isinstance(ln.name, str):
        return '*%s%s' % (ln.sid1, ln.sid2) + ol.orient
    return '%s%s' % (ln.name, ol.orient)


def edge_label(ln):
    if not isinstance(ln.name, str):
        return '*%s%s' % (ln.sid1, ln.sid2)
    return ln.name


def observe(case):
    """per group: ('ok', value) or (error class), from the implementation"""
    g = impl.gfapy()
    G = g.Gfa(version='gfa2', vlevel=1)
    for l in case['lines']:
        G.add_line(l)
    out = {}
    for x in G.paths:
        if not isinstance(x.name, str):
            continue
        r = impl.outcome(lambda: [el_name(i) for i in x.captured_path])
        r_again = impl.outcome(lambda: [el_name(i) for i in x.captured_path])
        if r_again != r:
            out.setdefault('__again__', []).append((x.name, r, r_again))
        r2 = impl.outcome(lambda: [el_name(i) for i in x.captured_segments])
        r3 = impl.outcome(lambda: [el_name(i) for i in x.captured_edges])
        out[x.name] = {'kind': 'O', 'path': r, 'segments': r2, 'edges': r3,
                       'items': ' '.join(str(i) for i in x.items), 'tags': sorted(x.tagnames),
                       'tagtexts': impl.value_or(lambda: sorted(x.field_to_s(t, tag=True) for t in x.tagnames), None)}
    for x in G.sets:
        if not isinstance(x.name, str):
            continue
        r = impl.outcome(lambda: [i.name for i in x.induced_segments_set])
        r2 = impl.outcome(lambda: sorted(edge_label(i) for i in x.induced_edges_set))
        r3 = impl.outcome(lambda: len(x.induced_set))
        out[x.name] = {'kind': 'U', 'segments': r, 'edges': r2, 'size': r3,
                       'items': ' '.join(i.name if hasattr(i, 'name') else str(i) for i in x.items), 'tags': sorted(x.tagnames),
                       'tagtexts': impl.value_or(lambda: sorted(x.field_to_s(t, tag=True) for t in x.tagnames), None)}
    return out, G


ERR_OF = {'noncontiguous': ('NotFoundError', 'InconsistencyError'), 'ambiguous': ('NotUniqueError',),
          'unresolved': ('RuntimeError',), 'type': ('TypeError',)}


def lookahead_pattern(doc, gid, seen=()):
    """the group (or a group nested in it) starts with two edges that share both ends: the direction of the walk cannot be
    chosen by looking at one item"""
    its = doc.og.get(gid, [])
    for n, _ in its:
        if n in doc.og and n not in seen and n != gid and lookahead_pattern(doc, n, seen + (gid,)):
            return True
    if len(its) >= 2 and its[0][0] in doc.edge_by_id and its[1][0] in doc.edge_by_id:
        a = SG.ends(doc, doc.edge_by_id[its[0][0]], its[0][1])
        b = SG.ends(doc, doc.edge_by_id[its[1][0]], its[1][1])
        return a[0] in b and a[1] in b and a[0] != a[1]
    return False


def edge_ended(doc, gid, seen=()):
    its = doc.og.get(gid, [])
    if not its:
        return False
    for n in (its[0][0], its[-1][0]):
        if n in doc.edge_by_id:
            return True
        if n in doc.og and n not in seen and n != gid and edge_ended(doc, n, seen + (gid,)):
            return True
    return False


def nested_edge_end(doc, gid, seen=()):
    """a group nested (at any depth) in gid starts or ends with an edge item: whether the segment supplied by that edge
    counts as listed is not settled by the property text"""
    for n, _ in doc.og.get(gid, []):
        if n in doc.og and n not in seen and n != gid:
            if edge_ended(doc, n) or nested_edge_end(doc, n, seen + (gid,)):
                return True
    return False


def u_any(doc, uid, pred, seen=()):
    for n in doc.ug.get(uid, []):
        if n in doc.og and pred(doc, n):
            return True
        if n in doc.ug and n not in seen and n != uid and u_any(doc, n, pred, seen + (uid,)):
            return True
    return False


def u_lookahead(doc, uid, seen=()):
    for n in doc.ug.get(uid, []):
        if n in doc.og and lookahead_pattern(doc, n):
            return True
        if n in doc.ug and n not in seen and n != uid and u_lookahead(doc, n, seen + (uid,)):
            return True
    return False


def want_texts(tags):
    """the tags as written: name and datatype as given, value in canonical spelling"""
    from .. import canon as CN
    out = set()
    for t in tags:
        n, dt, v = t.split(':', 2)
        out.add('%s:%s:%s' % (n, dt, CN.canon_value(dt, v)))
    return sorted(out)


def judge(case):
    obs, G = observe(case)
    doc = SG.Doc(case['lines'])
    out = []
    known = case.setdefault('_known', [])
    del known[:]
    for name, first, second in obs.pop('__again__', []):
        out.append(('asked again, the captured path of %s is answered differently' % name, first, second))
    for gid, its in doc.og.items():
        if gid in doc.tag_clash or gid not in obs:
            continue
        o = obs[gid]
        want_items = ' '.join(n + s for n, s in its)
        if o['items'] != want_items:
            out.append(('the items of group %s are not the concatenation of its lines in arrival order' % gid, want_items, o['items']))
        want_tags = sorted(t[:2] for t in doc.tags.get(gid, []))
        if o['tags'] != want_tags:
            out.append(('the tags of group %s are not the union of the tags of its lines' % gid, want_tags, o['tags']))
        elif o.get('tagtexts') != want_texts(doc.tags.get(gid, [])):
            out.append(('a tag of group %s does not keep its name, datatype and value through the merge' % gid,
                        want_texts(doc.tags.get(gid, [])), o.get('tagtexts')))
        try:
            walks = SG.captured_all(doc, gid)
            err = None
        except SG.Err as e:
            walks, err = None, e.kind
        if err == 'cyclic':
            continue
        r = o['path']
        if nested_edge_end(doc, gid):
            continue        # outside the oracle's domain (see ASSUMPTIONS); still compared with the model
        if lookahead_pattern(doc, gid) and (r[0] != 'ok' or walks is None):
            known.append(('F52', gid))
            continue
        if walks is not None:
            shown = [SG.show_path(doc, p) for p in walks]
            if r[0] != 'ok':
                out.append(('captured_path of %s raises %s although its items imply a walk' % (gid, impl.outcome_name(r)), shown[0], impl.outcome_name(r)))
            elif ' '.join(r[1]) not in shown:
                out.append(('captured_path of %s is not the walk its items imply' % gid, shown, ' '.join(r[1])))
            else:
                p = r[1]
                segs = [x for k, x in enumerate(p) if k % 2 == 0]
                eds = [x for k, x in enumerate(p) if k % 2 == 1]
                if o['segments'] != ('ok', segs) or o['edges'] != ('ok', eds):
                    out.append(('captured_segments/captured_edges of %s are not the segments/edges of its captured path' % gid, (segs, eds), (o['segments'], o['edges'])))
        else:
            if r[0] == 'ok':
                out.append(('captured_path of %s returns a path although its items are %s' % (gid, err), err, ' '.join(r[1])))
            elif r[1][0] != 'gfapy':
                out.append(('captured_path of %s raises a foreign exception' % gid, 'gfapy error (%s)' % err, impl.outcome_name(r)))
            elif r[1][1] not in ERR_OF.get(err, ()) and err in ('ambiguous',) and r[1][1] in ERR_OF['noncontiguous']:
                pass
    for uid, its in doc.ug.items():
        if uid in doc.tag_clash or uid not in obs:
            continue
        o = obs[uid]
        if o['items'] != ' '.join(its):
            out.append(('the items of group %s are not the concatenation of its lines in arrival order' % uid, ' '.join(its), o['items']))
        want_tags = sorted(t[:2] for t in doc.tags.get(uid, []))
        if o['tags'] != want_tags:
            out.append(('the tags of group %s are not the union of the tags of its lines' % uid, want_tags, o['tags']))
        elif o.get('tagtexts') != want_texts(doc.tags.get(uid, [])):
            out.append(('a tag of group %s does not keep its name, datatype and value through the merge' % uid,
                        want_texts(doc.tags.get(uid, [])), o.get('tagtexts')))
        try:
            segs = SG.induced_segments(doc, uid)
            err = None
        except SG.Err as e:
            segs, err = None, e.kind
        if err == 'cyclic':
            continue
        r = o['segments']
        if u_any(doc, uid, nested_edge_end):
            continue
        if u_lookahead(doc, uid) and (r[0] != 'ok' or segs is None):
            known.append(('F52', uid))
            continue
        if segs is not None:
            if r[0] != 'ok':
                out.append(('induced_segments_set of %s raises %s' % (uid, impl.outcome_name(r)), sorted(segs), impl.outcome_name(r)))
            elif sorted(r[1]) != sorted(segs) or len(set(r[1])) != len(r[1]):
                out.append(('induced_segments_set of %s is not the set of segments it mentions directly or through edges, paths and sets' % uid, sorted(segs), sorted(r[1])))
            else:
                want_e = sorted((doc.edges[i][0] or '*%s%s%s%s' % (doc.edges[i][1] + doc.edges[i][2])) for i in SG.induced_edges(doc, segs))
                if o['edges'] != ('ok', want_e):
                    out.append(('induced_edges_set of %s is not the set of edges both of whose segments are induced' % uid, want_e, o['edges']))
                elif o['size'] != ('ok', len(segs) + len(want_e)):
                    out.append(('induced_set of %s is not segments plus edges' % uid, len(segs) + len(want_e), o['size']))
        else:
            if r[0] == 'ok':
                out.append(('induced_segments_set of %s returns a set although an item is %s' % (uid, err), err, r[1]))
            elif r[1][0] != 'gfapy':
                out.append(('induced_segments_set of %s raises a foreign exception' % uid, 'gfapy error (%s)' % err, impl.outcome_name(r)))
    return out, obs


def exn_str(e):
    if e[0] == 'gfapy':
        return e[1]
    return {'TypeError': 'builtins.TypeError', 'ValueError': 'builtins.ValueError'}.get(e[1], e[1])


def answers_of(obs):
    out = []
    for gid in sorted(obs):
        o = obs[gid]
        if o['kind'] == 'O':
            r = o['path']
            out.append((gid, 'ok:' + ' '.join(r[1]) if r[0] == 'ok' else 'err:' + exn_str(r[1])))
        else:
            r, r2 = o['segments'], o['edges']
            if r[0] == 'ok' and r2[0] == 'ok':
                out.append((gid, 'ok:' + ','.join(sorted(r[1])) + '#' + ','.join(sorted(r2[1]))))
            else:
                out.append((gid, 'err:' + exn_str(r[1] if r[0] != 'ok' else r2[1])))
    return out


def case_term(case, obs):
    ft, jt = [], []
    for l in case['lines']:
        a, b = LL.tables_for(l)
        ft += a
        jt += b
    fts = clist(['(%s, %s)' % (cstr(a), cstr(b)) for a, b in ft])
    jts = clist(['(%s, %s)' % (cstr(a), copt(cstr(b)) if b is not None else 'None') for a, b in jt])
    ops = clist([GL.op_term(('add', l)) for l in case['lines']])
    gs = clist(['(%s, %s, %s)' % (cstr(g), cstr(obs[g]['kind']), cstr(a)) for g, a in answers_of(obs)])
    return '(%s, %s, %s, %s)' % (ops, fts, jts, gs)


def run(ctx, deep, model_ok):
    rng = ctx.rng
    n = 400 if deep else 60
    terms, metas = [], []
    probe = {'kind': 'groups', 'lines': ['S\tA\t10\t*', 'S\tC\t10\t*', 'E\te6\tA-\tC+\t0\t5\t2\t7\t*', 'O\to1\te6- e6- A+'],
             'notes': {'implicit': True, 'nested': False, 'mutated': False, 'multiline': False}}
    r = impl.outcome(lambda: judge(probe))
    ctx.count(probe, True)
    if r[0] == 'ok' and probe.get('_known'):
        ctx.known('F52', "'O o1 e6- e6- A+' over the single edge e6 = A- C+ implies the walk A+ e6- C- e6- A+; captured_path raises "
                         "(direction chosen by one item of lookahead); theorem C17_unique_walk_refuted")
    elif r[0] != 'ok' or r[1][0]:
        ctx.violation('failing-input', 'the witness of F52 fails in a new way', probe, python=py_of(probe))
    for i in range(n):
        case = gen_case(rng, i)
        r = impl.outcome(lambda: judge(case))
        if r[0] != 'ok':
            if r[1][0] == 'gfapy':
                ctx.count(case, False)      # the document itself is refused (e.g. conflicting tags): not a group resolution case
                # ... which is right only if the lines of a group give one of its tags two different values, or an
                # identifier is carried by lines of two record types
                doc = SG.Doc(case['lines'])
                ids = {}
                for l in case['lines']:
                    f = l.split('\t')
                    if f[0] in 'SEGOU' and f[1] != '*':
                        ids.setdefault(f[1], set()).add(f[0])
                if r[1][1] == 'NotUniqueError' and not doc.tag_clash and all(len(v) == 1 for v in ids.values()) and \
                        len([l for l in case['lines'] if l[0] in 'SEG' and l.split('\t')[1] != '*']) == \
                        len(set(l.split('\t')[1] for l in case['lines'] if l[0] in 'SEG' and l.split('\t')[1] != '*')):
                    ctx.violation('failing-input', 'a document whose groups give every tag one value is refused with NotUniqueError',
                                  case, 'accepted', 'NotUniqueError', python=py_of(case))
                continue
            ctx.violation('failing-input', 'running the case raised %s' % (r[1],), case, python=py_of(case))
            continue
        fails, obs = r[1]
        nt = case['notes']
        ctx.count(case, nt['implicit'] or nt['nested'] or nt['mutated'])
        for what, exp, ob in fails[:1]:
            ctx.violation('failing-input', what, case, exp, ob, python=py_of(case))
        for fid, gid in case.get('_known', [])[:1]:
            ctx.known(fid, 'the walk of a group that starts with two edges sharing both ends is chosen by one item of lookahead '
                           'and fails although the items imply a walk [generated case]')
        if model_ok and not fails:
            try:
                terms.append(case_term(case, obs))
                metas.append(case)
            except ValueError:
                pass
    if model_ok:
        failing, errs = core.coq_eval_cases('C17', 'groups', IMPORTS, 'group_case', 'check_groups', terms, shard=8)
        for e in errs:
            ctx.broken.append(('correspondence-broken', 'groups: ' + e))
        for i in failing[:3]:
            vals, _ = core.coq_eval_strings('C17', 'showgroups', IMPORTS, ['show_groups %s' % terms[i]])
            mo = (vals[0] if vals else '?').split(';')
            obs = observe(metas[i])[0]
            diffs = [(g, a, m) for (g, a), m in zip(answers_of(obs), mo) if a != m]
            ctx.disagree('Model/Groups.v and gfapy disagree on group %s: impl %r model %r' % (diffs[0] if diffs else ('?', '?', '?')),
                         metas[i], python=py_of(metas[i]))
        ctx.notes['documents_compared_in_coq'] = len(terms)


def replay(ctx, body):
    case = body.get('case') or {}
    if 'lines' not in case:
        return True
    r = impl.outcome(lambda: judge(case))
    return r[0] != 'ok' or bool(r[1][0])
