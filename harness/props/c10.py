"""C10 — read-only operations never modify anything."""
import inspect
from .. import core, impl, gen, graphlab as GL, linelab as LL, canon as CN
from ..core import cstr, clist, copt
from . import graphcommon as GC

DEPS = ['Tables', 'Regexes', 'K_cigar', 'K_numarr']
MODEL_TARGETS = ['Corr/C10c.vo']
IMPORTS = "From GfaV Require Import Base.Py Model.Codec Model.Purity Corr.C10c."
ASSUMPTIONS = ["7-bit text", "fields that are parsed on access (alignments, H, J, B) are spelled canonically whenever the "
               "validation level is 0 (F56)"]
LEVEL_TEXT = ("Theorems in coq/Props/C10.v over Model/Purity.v (the one effect a read has in gfapy: FieldData.get replaces the "
              "stored string of a field parsed on access by the decoded value, later written canonically): on every document "
              "whose fields are settled — always at validation level >= 1 — no sequence of reads, of any length, changes the "
              "written form of any line or any later answer; a repeated read returns the same value in every document; refuted "
              "for unsettled fields (F56). Tie, two parts: the written form of generated lines after each of a sequence of "
              "field reads is compared with the model inside Coq (levels 0-3, canonical and non-canonical spellings); and the "
              "catalogue of every public query of Gfa, lines, alignments, oriented lines and segment ends (enumerated by "
              "introspection minus a list of mutators) is run twice on generated graphs: equal answers, identical document, "
              "identical back-references, identical arguments afterwards.")
RULE = ("GFA1 and GFA2 documents from the shared generators (tags of all types, groups, gaps, fragments, paths, comments, "
        "custom records) at validation levels 0-3; per document 25-120 randomly chosen queries from the catalogue, each "
        "asked twice. Non-trivial: at least one query returned a value (not an exception) on a document with edges.")

GFA_MUTATORS = {'add_line', 'append', 'apply_copy_numbers', 'compute_copy_numbers', 'delete_low_coverage_segments',
                'enable_progress_logging', 'enforce_all_mandatory_links', 'enforce_segment_mandatory_links', 'from_file',
                'multiply', 'merge_linear_path', 'merge_linear_paths', 'process_line_queue', 'randomly_orient_invertible',
                'randomly_orient_invertibles', 'read_file', 'remove_dead_ends', 'remove_p_bubble', 'remove_p_bubbles',
                'remove_self_link', 'remove_self_links', 'remove_small_components', 'rm', 'select', 'set_count_unit_length',
                'set_default_count_tag', 'set_names', 'split_connected_components', 'to_file', 'info',
                'GFA1Specific', 'GFA2Specific', 'vlevel', 'version',
                'unused_name'}     # unused_name is a generator of fresh identifiers, not a query of the state
LINE_MUTATORS = {'connect', 'delete', 'disconnect', 'set', 'set_datatype', 'register_extension', 'canonicize',
                 'append_item', 'prepend_item', 'rm_first_item', 'rm_last_item', 'add_item', 'rm_item', 'add',
                 'validate_rgfa'}
VALUE_MUTATORS = {'append', 'clear', 'extend', 'insert', 'pop', 'remove', 'reverse', 'sort', 'invert', 'Operation'}


def show(v, depth=0):
    try:
        return show_(v, depth)
    except Exception as e:      # an answer that cannot be printed is still compared (by its failure)
        return 'unprintable %s: %s' % (type(v).__name__, type(e).__name__)


def show_(v, depth=0):
    g = impl.gfapy()
    if depth > 4:
        return '...'
    if isinstance(v, g.Gfa):
        return 'Gfa<%s>' % str(v)
    if isinstance(v, g.Line):
        return 'Line<%s>' % str(v)
    if isinstance(v, (g.OrientedLine, g.SegmentEnd)):
        return '%s<%s>' % (type(v).__name__, str(v))
    if isinstance(v, (list, tuple)):
        return '[' + ', '.join(show(x, depth + 1) for x in v) + ']'
    if isinstance(v, set):
        return '{' + ', '.join(sorted(show(x, depth + 1) for x in v)) + '}'
    if isinstance(v, dict):
        return '{' + ', '.join(sorted('%s: %s' % (show(k, depth + 1), show(x, depth + 1)) for k, x in v.items())) + '}'
    if isinstance(v, (str, int, float, bool, type(None))):
        return repr(v)
    return '%s<%s>' % (type(v).__name__, str(v))


def zero_arg_names(obj, deny):
    out = []
    for n in dir(type(obj)):
        if n.startswith('_') or n in deny or n.isupper():
            continue
        a = inspect.getattr_static(type(obj), n, None)
        if isinstance(a, property):
            out.append((n, False))
        elif callable(a) or isinstance(a, (staticmethod, classmethod)):
            try:
                sig = inspect.signature(getattr(obj, n))
            except (TypeError, ValueError):
                continue
            if all(p.default is not p.empty or p.kind in (p.VAR_POSITIONAL, p.VAR_KEYWORD) for p in sig.parameters.values()):
                out.append((n, True))
    return out


def catalogue(G, rng, extra):
    """list of (label, thunk) over the Gfa, its lines and their values"""
    g = impl.gfapy()
    qs = []
    for n, call in zero_arg_names(G, GFA_MUTATORS):
        qs.append(('gfa.%s' % n, (lambda n=n, call=call: getattr(G, n)() if call else getattr(G, n))))
    qs.append(('str(gfa)', lambda: str(G)))
    qs.append(('gfa==gfa', lambda: G == G))
    lines = [l for l in G.lines]
    names = [n for n in G.names] + ['nosuch']
    segs = list(G.segment_names)
    for n in rng.sample(names, min(3, len(names))):
        qs.append(('gfa.line(%r)' % n, lambda n=n: G.line(n)))
        qs.append(('gfa.try_get_line(%r)' % n, lambda n=n: G.try_get_line(n)))
    for n in rng.sample(segs, min(3, len(segs))):
        qs.append(('gfa.segment(%r)' % n, lambda n=n: G.segment(n)))
        qs.append(('gfa.segment_connected_component(%r)' % n, lambda n=n: G.segment_connected_component(n)))
        qs.append(('gfa.is_cut_segment(%r)' % n, lambda n=n: G.is_cut_segment(n)))
        qs.append(('gfa.linear_path(%r)' % n, lambda n=n: G.linear_path(n)))
    # searches: by a dictionary of field values, by a line of the Gfa and by a free-standing line used as a template
    for l in rng.sample(lines, min(4, len(lines))) + extra[:2]:
        if l.record_type in ('H', '#'):
            continue
        t = str(l)[:30]
        nf = [fn for fn in l.positional_fieldnames][:1]
        if nf:
            key = impl.value_or(lambda: str(l.field_to_s(nf[0])), None)
            if key is not None:
                qs.append(('gfa.select({record_type,%s}) %s' % (nf[0], t),
                           lambda l=l, nf=nf, key=key: G.select({'record_type': l.record_type, nf[0]: key})))
        qs.append(('gfa.select(line) %s' % t, lambda l=l: G.select(l)))
        qs.append(('gfa.select({record_type}) %s' % t, lambda l=l: G.select({'record_type': l.record_type})))
    groups = [l for l in lines if l.record_type in ('O', 'U', 'P')]
    others = [l for l in lines if l.record_type not in ('O', 'U', 'P')]
    for l in groups[:6] + rng.sample(others, min(8, len(others))):
        t = str(l) if l.record_type in 'LC' else str(l)[:30]
        for n, call in zero_arg_names(l, LINE_MUTATORS):
            qs.append(('%s .%s' % (t, n), (lambda l=l, n=n, call=call: getattr(l, n)() if call else getattr(l, n))))
        qs.append(('str %s' % t, lambda l=l: str(l)))
        fields = list(l.positional_fieldnames) + list(l.tagnames)
        for f in fields:
            qs.append(('%s .get(%s)' % (t, f), lambda l=l, f=f: l.get(f)))
            qs.append(('%s .try_get(%s)' % (t, f), lambda l=l, f=f: l.try_get(f)))
            qs.append(('%s .field_to_s(%s)' % (t, f), lambda l=l, f=f: l.field_to_s(f)))
            qs.append(('%s .field_to_s(%s,tag)' % (t, f), lambda l=l, f=f: l.field_to_s(f, tag=True)))
            qs.append(('%s .get_datatype(%s)' % (t, f), lambda l=l, f=f: l.get_datatype(f)))
            qs.append(('%s .validate_field(%s)' % (t, f), lambda l=l, f=f: l.validate_field(f)))
            qs.append(('%s .%s' % (t, f), lambda l=l, f=f: getattr(l, f)))
            # the value handed out: its own queries
            def value_queries(l=l, f=f):
                v = l.get(f)
                out = []
                for n, call in zero_arg_names(v, VALUE_MUTATORS) if isinstance(v, (g.CIGAR, g.Trace, g.Placeholder, g.OrientedLine, g.LastPos)) else []:
                    r = impl.outcome(lambda: getattr(v, n)() if call else getattr(v, n))
                    out.append((n, show(r[1]) if r[0] == 'ok' else r[1]))
                if isinstance(v, list):
                    for x in v[:4]:
                        if isinstance(x, (g.CIGAR, g.Trace, g.Placeholder, g.OrientedLine)):
                            for n, call in zero_arg_names(x, VALUE_MUTATORS):
                                r = impl.outcome(lambda: getattr(x, n)() if call else getattr(x, n))
                                out.append((n, show(r[1]) if r[0] == 'ok' else r[1]))
                return out
            qs.append(('%s values of %s' % (t, f), value_queries))
        other = rng.choice(lines + extra)
        qs.append(('%s == other' % t, lambda l=l, o=other: l == o))
        qs.append(('%s .diff(other)' % t, lambda l=l, o=other: l.diff(o)))
        qs.append(('%s .diffscript(other)' % t, lambda l=l, o=other: l.diffscript(o, 'x')))
        for v in ('gfa1', 'gfa2'):
            qs.append(('%s .to_version_s(%s)' % (t, v), lambda l=l, v=v: l.to_version_s(v)))
            qs.append(('%s .to_version(%s)' % (t, v), lambda l=l, v=v: l.to_version(v)))
        rt = l.record_type
        if rt == 'S':
            qs.append(('%s .__str__(without_sequence)' % t, lambda l=l: l.__str__(True)))
            for e in 'LR':
                qs.append(('%s .dovetails_of_end(%s)' % (t, e), lambda l=l, e=e: l.dovetails_of_end(e)))
                qs.append(('%s .neighbours_of_end(%s)' % (t, e), lambda l=l, e=e: l.neighbours_of_end(e)))
                qs.append(('%s .gaps_of_end(%s)' % (t, e), lambda l=l, e=e: l.gaps_of_end(e)))
            if segs:
                o = rng.choice(segs)
                qs.append(('%s .relations_to(%s)' % (t, o), lambda l=l, o=o: l.relations_to(o)))
                qs.append(('%s .end_relations' % t, lambda l=l, o=o: l.end_relations('R', g.SegmentEnd(o, 'L'))))
                qs.append(('%s .oriented_relations' % t, lambda l=l, o=o: l.oriented_relations('+', g.OrientedLine(o, '-'))))
        if rt in 'LCE':
            o2 = rng.choice([x for x in lines + extra if x.record_type == rt] or [l])
            for n in ('is_complement', 'is_eql', 'is_same', 'are_tags_eql', 'is_compatible_direct', 'is_compatible_complement'):
                if hasattr(l, n):
                    if n.startswith('is_compatible'):
                        qs.append(('%s .%s' % (t, n), lambda l=l, o=o2, n=n: getattr(l, n)(o.oriented_from, o.oriented_to, o.overlap)))
                    else:
                        qs.append(('%s .%s' % (t, n), lambda l=l, o=o2, n=n: getattr(l, n)(o)))
            if hasattr(l, 'is_compatible'):
                qs.append(('%s .is_compatible' % t, lambda l=l, o=o2: l.is_compatible(o.oriented_from, o.oriented_to, o.overlap, True)))
            if segs:
                o = rng.choice(segs)
                qs.append(('%s .other(%s)' % (t, o), lambda l=l, o=o: l.other(o)))
                qs.append(('%s .other_end' % t, lambda l=l, o=o: l.other_end(g.SegmentEnd(o, 'R'))))
                qs.append(('%s .other_oriented_segment' % t, lambda l=l, o=o: l.other_oriented_segment(g.OrientedLine(o, '+'))))
            qs.append(('gfa.is_cut_link', lambda l=l: G.is_cut_link(l)))
    return qs


def snapshot(G, extra):
    return (str(G), [str(l) for l in G.lines], GL.impl_obs(G), [str(x) for x in extra],
            [(x.is_connected(), x.virtual) for x in G.lines])


DELAYED_TAGS = ('H', 'J', 'B')


def unsettled(lines, version, vlevel):
    """F56 pattern: at level 0 a field that is parsed on access is not spelled canonically"""
    if vlevel != 0:
        return False
    for l in lines:
        f = l.split('\t')
        for t in f[1:]:
            p = t.split(':', 2)
            if len(p) == 3 and len(p[0]) == 2 and p[1] in DELAYED_TAGS:
                if p[1] == 'H':
                    if p[2] != p[2].upper():
                        return True
                elif CN.canon_value(p[1], p[2]) != p[2]:
                    return True
        # alignments and alignment lists with leading zeros
        import re
        for t in f[1:]:
            if re.fullmatch(r'(\d+[MIDNSHPX=])+', t) and re.search(r'(^|[MIDNSHPX=])0\d', t):
                return True
            if re.fullmatch(r'[-\d,]+', t) and re.search(r'(^|,)-?0\d', t):
                return True
    return False


def gen_case(rng, i):
    version = 'gfa1' if i % 2 else 'gfa2'
    vlevel = rng.choice([0, 1, 1, 2, 3])
    if i == 1:
        # a hand-made GFA1 document: a circular path, a path over one segment, a hairpin, a loop, a containment, paths
        # traversing a link in both directions
        lines = ['H\tVN:Z:1.0', 'S\ta\tACGTACGT', 'S\tb\t*\tLN:i:8', 'S\tc\tACGT', 'L\ta\t+\tb\t-\t2M1D1M', 'L\tb\t-\ta\t+\t1M',
                 'L\tb\t+\tb\t-\t*', 'L\tc\t+\tc\t+\t2M', 'C\ta\t+\tc\t-\t2\t4M', 'P\tpc\ta+,b-\t2M1D1M,1M', 'P\tp1\tc+\t*',
                 'P\tpf\ta+,b-\t2M1D1M', 'P\tpr\tb+,a-\t1M1I2M', 'P\tpl\tc+,c+,c+\t2M,2M']
    elif version == 'gfa1':
        lines, info = gen.gen_gfa1(rng)
    elif i % 3 == 0:
        # documents rich in ordered and unordered groups (edges in both orientations, nested groups, implicit elements)
        from .c17 import gen_case as groups_case
        lines = [l for l in groups_case(rng, i)['lines']]
    else:
        lines, info = gen.gen_gfa2(rng)
    return {'kind': 'queries', 'version': version, 'vlevel': vlevel, 'lines': lines, 'seed': rng.randrange(10 ** 9),
            'nq': rng.randint(25, 120)}


def run_case(case):
    """returns (failures, stats)"""
    import random
    g = impl.gfapy()
    G = g.Gfa(version=case['version'], vlevel=case['vlevel'])
    for l in case['lines']:
        G.add_line(l)
    rng = random.Random(case['seed'])
    # free-standing arguments: lines that are not part of the Gfa
    extra = []
    for l in rng.sample(case['lines'], min(3, len(case['lines']))):
        r = impl.outcome(lambda: g.Line(l, version=case['version'], vlevel=case['vlevel']))
        if r[0] == 'ok':
            extra.append(r[1])
    qs = catalogue(G, rng, extra)
    must = [q for q in qs if any(k in q[0] for k in ('.captured_', '.induced_', '.links', '.items'))]
    searches = [q for q in qs if q[0].startswith('gfa.select(')]
    if case['version'] == 'gfa1':
        # F57: converting a connected L/C line without ID tag to GFA2 stores a generated ID tag on it
        bare = any(l.record_type in 'LC' and l.get('ID') is None for l in G.lines)
        def f57(label):
            if label.startswith('gfa.to_gfa2'):
                return bare
            return label[0] in 'LC' and label[1] == '\t' and ('\tID:Z:' not in label) and \
                (label.endswith('.to_gfa2') or label.endswith('.to_gfa2_s') or label.endswith('(gfa2)'))
        qs = [q for q in qs if not f57(q[0])]
    rng.shuffle(qs)
    qs = must[:30] + searches[:12] + qs[:case['nq']]
    s0 = snapshot(G, extra)
    out = []
    returned = 0
    first = []
    for label, thunk in qs:
        r1 = impl.outcome(thunk)
        a1 = show(r1[1]) if r1[0] == 'ok' else r1[1]
        first.append(a1)
        s1 = snapshot(G, extra)
        if s1 != s0:
            k = [i for i in range(len(s0)) if s0[i] != s1[i]][0]
            out.append(('the query %s changed %s' % (label, ['the written document', 'the written form of a line', 'the back-references',
                        'a line passed as argument', 'the connection state of a line'][k]), diff_of(s0[k], s1[k])[0], diff_of(s0[k], s1[k])[1]))
            break
        r2 = impl.outcome(thunk)
        a2 = show(r2[1]) if r2[0] == 'ok' else r2[1]
        if a1 != a2:
            out.append(('the query %s answers differently when asked again' % label, a1, a2))
            break
        s2 = snapshot(G, extra)
        if s2 != s0:
            k = [i for i in range(len(s0)) if s0[i] != s2[i]][0]
            out.append(('asking %s a second time changed the document' % label, diff_of(s0[k], s2[k])[0], diff_of(s0[k], s2[k])[1]))
            break
        if r1[0] == 'ok':
            returned += 1
    if not out:
        # no later answer changes: every query is asked once more after all the others
        for (label, thunk), a1 in zip(qs, first):
            r3 = impl.outcome(thunk)
            a3 = show(r3[1]) if r3[0] == 'ok' else r3[1]
            if a3 != a1:
                out.append(('the query %s answers differently after the other queries were asked' % label, a1, a3))
                break
    if not out:
        # a search by field value returns the lines that carry that value, whatever was searched before (state kept
        # between calls may have been set by an earlier Gfa of this process)
        for l in [x for x in G.lines if x.record_type in ('S', 'P', 'E', 'G', 'O', 'U', 'F') and not x.virtual][:12]:
            fns = list(l.positional_fieldnames)[:1]
            if not fns:
                continue
            key = impl.value_or(lambda: str(l.field_to_s(fns[0])), None)
            if key is None:
                continue
            got = impl.outcome(lambda: sorted(str(x) for x in G.select({'record_type': l.record_type, fns[0]: key})))
            if key == '*':
                continue
            # a placeholder in the searched field stands for any value
            want = sorted(str(x) for x in G.lines if x.record_type == l.record_type and
                          impl.value_or(lambda: str(x.field_to_s(fns[0])), None) in (key, '*'))
            if got[0] == 'ok' and got[1] != want:
                out.append(('gfa.select({record_type: %r, %s: %r}) does not return the lines with that value'
                            % (l.record_type, fns[0], key), want, got[1]))
                break
    return out, {'queries': len(qs), 'returned': returned, 'labels': [q[0].split(' .')[-1].split('(')[0] for q in qs]}


def diff_of(a, b):
    if isinstance(a, str):
        a, b = a.split('\n'), b.split('\n')
    a, b = list(a), list(b)
    return [x for x in a if x not in b][:3], [x for x in b if x not in a][:3]


def py_of(case):
    return ("# replay with: bin/check C10 quick --replay <this file>\nimport gfapy\ng=gfapy.Gfa(version=%r, vlevel=%d)\nfor l in %r: g.add_line(l)\n"
            % (case['version'], case['vlevel'], case['lines']))


# ---------------------------------------------------------------- lazy decoding against the model
def lazy_case(rng):
    """one line, its cells, a sequence of field reads with the written line after each"""
    g = impl.gfapy()
    version = rng.choice(['gfa1', 'gfa2'])
    vl = rng.choice([0, 0, 1, 3])
    tags = []
    for k in range(rng.randint(1, 4)):
        dt = rng.choice('iJBHZfA')
        v = {'i': rng.choice(['7', '-3', '12']),
             'J': rng.choice(['[1, 2]', '[1,  2]', '{"a":1}', '{"a": [1,2]}', '[]']),
             'B': rng.choice(['C,1,2', 'i,1,2', 'f,1.0,2.5', 'i,+1,02', 'c,-1,1', 'f,1,2e1']),
             'H': rng.choice(['0A1B', 'FF']),
             'Z': rng.choice(['hello', 'a b']), 'f': rng.choice(['1.5', '2.0']), 'A': 'x'}[dt]
        tags.append('t%s:%s:%s' % ('abcdefgh'[k], dt, v))
    if version == 'gfa1':
        text = rng.choice(['S\tA\tACGT', 'L\tA\t+\tB\t-\t3M', 'L\tA\t+\tB\t-\t*', 'C\tA\t+\tB\t+\t2\t4M',
                           'P\tp\tA+,B-\t3M', 'P\tp\tA+,B-,C+\t3M,2M'])
    else:
        text = rng.choice(['S\tA\t10\tACGT', 'E\te\tA+\tB-\t0\t3\t7\t10$\t3M', 'E\te\tA+\tB-\t0\t3\t7\t10$\t1,2',
                           'F\tA\tr+\t0\t3\t0\t3\t*', 'G\tg\tA+\tB-\t10\t*'])
    text = text + '\t' + '\t'.join(tags)
    r = impl.outcome(lambda: g.Line(text, version=version, vlevel=vl))
    if r[0] != 'ok':
        return None
    l = r[1]
    fields = text.split('\t')
    cells = [('', 'Z', fields[0])]
    for n, v in zip(l.positional_fieldnames, fields[1:]):
        cells.append(('', type(l).DATATYPE[n], v))
    names = list(l.positional_fieldnames)
    for t in fields[1 + len(names):]:
        p = t.split(':', 2)
        cells.append((p[0] + ':' + p[1] + ':', p[1], p[2]))
        names.append(p[0])
    steps = []
    w0 = str(l)
    for _ in range(rng.randint(1, 6)):
        j = rng.randrange(len(names))
        rr = impl.outcome(lambda: l.get(names[j]))
        if rr[0] != 'ok':
            return None
        steps.append((j + 1, str(l)))
    return {'kind': 'lazy', 'version': version, 'vlevel': vl, 'text': text, 'cells': cells, 'first': w0, 'steps': steps}


def lazy_term(c):
    ft, jt = LL.tables_for(c['text'])
    fts = clist(['(%s, %s)' % (cstr(a), cstr(b)) for a, b in ft])
    jts = clist(['(%s, %s)' % (cstr(a), copt(cstr(b)) if b is not None else 'None') for a, b in jt])
    cells = clist(['(%s, %s, %s)' % (cstr(a), cstr(b), cstr(v)) for a, b, v in c['cells']])
    steps = clist(['(%d, %s)' % (j, cstr(w)) for j, w in c['steps']])
    return '(%d, %s, %s, %s, %s, %s)' % (c['vlevel'], cells, cstr(c['first']), steps, fts, jts)


def run(ctx, deep, model_ok):
    rng = ctx.rng
    n = 150 if deep else 24
    hist = {}
    # the witness of F56
    g = impl.gfapy()
    G = g.Gfa(version='gfa1', vlevel=0)
    G.add_line('S\tA\t*\txx:J:[1,  2]')
    b = str(G)
    G.lines[0].get('xx')
    if str(G) != b:
        ctx.known('F56', "at validation level 0 reading a tag that is parsed on access re-spells it: 'xx:J:[1,  2]' is written "
                         "'xx:J:[1, 2]' after line.get('xx'); theorem C10_unsettled_read_refuted")
    G = g.Gfa(version='gfa1', vlevel=1)
    for l in ['S\tA\t*\tLN:i:10', 'S\tB\t*\tLN:i:10', 'L\tA\t+\tB\t+\t3M']:
        G.add_line(l)
    b = str(G)
    G.dovetails[0].to_gfa2_s()
    if str(G) != b:
        ctx.known('F57', "converting a connected GFA1 link to GFA2 text stores a generated ID tag on the link: after "
                         "link.to_gfa2_s() the line is written 'L A + B + 3M ID:Z:1'")
    for i in range(n):
        case = gen_case(rng, i)
        if unsettled(case['lines'], case['version'], case['vlevel']):
            case['vlevel'] = 1
        r = impl.outcome(lambda: run_case(case))
        if r[0] != 'ok':
            if r[1][0] == 'gfapy':
                ctx.count(case, False)
                continue
            ctx.violation('failing-input', 'running the case raised %s' % (r[1],), case, python=py_of(case))
            continue
        fails, st = r[1]
        ctx.count(case, st['returned'] > 0)
        for q in st['labels']:
            hist[q] = hist.get(q, 0) + 1
        for what, exp, ob in fails[:1]:
            ctx.violation('failing-input', what, case, exp, ob, python=py_of(case))
    ctx.notes['distinct_queries'] = len(hist)
    ctx.notes['queries_asked'] = sum(hist.values())
    if model_ok:
        terms, metas = [], []
        for _ in range(600 if deep else 120):
            c = lazy_case(rng)
            if c is None:
                continue
            try:
                terms.append(lazy_term(c))
                metas.append(c)
            except ValueError:
                pass
        failing, errs = core.coq_eval_cases('C10', 'lazy', IMPORTS, 'lazy_case', 'check_lazy', terms, shard=60)
        for e in errs:
            ctx.broken.append(('correspondence-broken', 'lazy decoding: ' + e))
        for i in failing[:3]:
            vals, _ = core.coq_eval_strings('C10', 'showlazy', IMPORTS, ['show_lazy %s' % terms[i]])
            ctx.disagree('Model/Purity.v and gfapy disagree on the written form of a line after field reads (model: %s)'
                         % (vals[0][:300] if vals else '?'), metas[i])
        ctx.notes['lazy_cases_compared_in_coq'] = len(terms)


def replay(ctx, body):
    case = body.get('case') or {}
    if case.get('kind') == 'queries':
        r = impl.outcome(lambda: run_case(case))
        return r[0] != 'ok' or bool(r[1][0])
    return True
