"""C11 — segment neighbourhoods match the specification's edge semantics."""
import itertools

from .. import core, impl, gen
from ..core import cstr, cz, cbool, clist, copt
from .. import spec_edge as SE

DEPS = ['K_edge2', 'K_fromto', 'K_togfa1']
MODEL_TARGETS = ['Corr/C11c.vo']
IMPORTS = "From GfaV Require Import Base.Py Spec.EdgeSpec Corr.C11c."
LEVEL_TEXT = ("Theorems in coq/Props/C11.v: for all orientations and all well-formed intervals (unbounded integer positions) "
              "the regenerated kernels _substring_type/_refkey_for_s/_alignment_type/_is_sid1_from (E), _refkey_for_s (G), "
              "from_end/to_end (L) choose exactly the collection and class that Spec/EdgeSpec.v (written from the "
              "specification) assigns. Tie: the kernels are translated from the source on every run and also evaluated in "
              "Coq on the complete interval-kind x orientation table that the implementation ran. The graph-level clause "
              "(collections of every segment of a built Gfa, neighbours/containers/contained/other_end/connectivity) is "
              "decided on the implementation against the Python twin of EdgeSpec.")
RULE = ("complete table: 4 orientation pairs x 7 interval shapes (0..inner, whole, inner..last$, empty at 0, empty at end$, "
        "inner, inner empty) on both sides = 196 E lines (exhaustive), 4 G and 4 L/C orientation pairs; plus generated GFA1 "
        "and GFA2 graphs (self-links, parallel edges). Non-trivial: interval kinds differ or orientations differ.")
ASSUMPTIONS = ["segments of length 0 are outside the domain (wf_interval)", "7-bit identifiers"]

SHAPES = {  # on a segment of length 10
    'pfx': ('0', '4'), 'whole': ('0', '10$'), 'sfx': ('6', '10$'), 'empty0': ('0', '0'),
    'emptyend': ('10$', '10$'), 'inner': ('3', '7'), 'innerempty': ('4', '4')}
COLLS = ['dovetails_L', 'dovetails_R', 'edges_to_contained', 'edges_to_containers', 'internals']


def pos_term(s):
    v, l = SE.parse_pos(s)
    return '(%s, %s)' % (cz(v), cbool(l))


def where(seg, line):
    """names of the collections of seg that hold line (by identity)"""
    out = []
    for k in COLLS + ['gaps_L', 'gaps_R', 'fragments', 'paths', 'sets']:
        for x in getattr(seg, k, []):
            if x is line:
                out.append(k)
    return out


def oracle_E(case):
    g = impl.gfapy()
    o1, o2, k1, k2 = case['o1'], case['o2'], case['k1'], case['k2']
    b1, e1 = SHAPES[k1]
    b2, e2 = SHAPES[k2]
    same = case.get('same', False)
    n2 = 'A' if same else 'B'
    text = ['S\tA\t10\t*', 'S\tB\t10\t*', 'E\te\tA%s\t%s%s\t%s\t%s\t%s\t%s\t*' % (o1, n2, o2, b1, e1, b2, e2)]
    out = []
    G = g.Gfa(text, vlevel=case.get('vlevel', 1))
    e = G.line('e')
    A, B = G.segment('A'), G.segment(n2)
    sk1 = SE.ikind(SE.parse_pos(b1), SE.parse_pos(e1))
    sk2 = SE.ikind(SE.parse_pos(b2), SE.parse_pos(e2))
    exp1 = SE.collection_of_E(o1, o2, 1, sk1, sk2)
    exp2 = SE.collection_of_E(o1, o2, 2, sk1, sk2)
    got1, got2 = where(A, e), where(B, e)
    if same:
        if sorted(got1) != sorted([exp1, exp2]):
            out.append(('self-edge filed in the wrong collections', sorted([exp1, exp2]), sorted(got1)))
    else:
        if got1 != [exp1]:
            out.append(('E line filed in the wrong collection of sid1', [exp1], got1))
        if got2 != [exp2]:
            out.append(('E line filed in the wrong collection of sid2', [exp2], got2))
    cl = SE.edge_class(o1, o2, sk1, sk2)
    flags = (e.is_dovetail(), e.is_containment(), e.is_internal())
    if flags != (cl == 'L', cl == 'C', cl == 'I'):
        out.append(('is_dovetail/is_containment/is_internal disagree with the specification', cl, flags))
    case['_obs'] = (got1, got2, e._alignment_type, impl.outcome(lambda: e._is_sid1_from()))
    # the answers follow the line as it is now: ask the roles of the two segments on a free-standing copy, exchange its two
    # intervals, ask again: the answers are those of a line written with the exchanged intervals
    def roles(x):
        def name(v):
            return getattr(v, 'name', v)
        return tuple(impl.outcome(f) for f in (lambda: str(name(x.from_segment)), lambda: str(name(x.to_segment)), lambda: str(x.from_orient),
                                               lambda: str(x.to_orient), lambda: x.is_dovetail(), lambda: x.is_containment()))
    def norm(t):
        return tuple(v if v[0] == 'ok' else ('err', v[1][1]) for v in t)
    t1 = 'E\te\tA%s\t%s%s\t%s\t%s\t%s\t%s\t*' % (o1, n2, o2, b1, e1, b2, e2)
    t2 = 'E\te\tA%s\t%s%s\t%s\t%s\t%s\t%s\t*' % (o1, n2, o2, b2, e2, b1, e1)
    r = impl.outcome(lambda: g.Line(t1, version='gfa2', vlevel=1))
    r2 = impl.outcome(lambda: g.Line(t2, version='gfa2', vlevel=1))
    if r[0] == 'ok' and r2[0] == 'ok':
        x = r[1]
        roles(x)
        ed = impl.outcome(lambda: (x.set('beg1', r2[1].beg1), x.set('end1', r2[1].end1), x.set('beg2', r2[1].beg2), x.set('end2', r2[1].end2)))
        if ed[0] == 'ok' and str(x) == t2:
            got, want = norm(roles(x)), norm(roles(r2[1]))
            if got != want:
                out.append(('after its two intervals were exchanged the edge answers for its from/to roles as before the edit', want, got))
    return out


def e_term(case):
    got1, got2, cl, fr = case['_obs']
    if case.get('same') or len(got1) != 1 or len(got2) != 1:
        return None
    b1, e1 = SHAPES[case['k1']]
    b2, e2 = SHAPES[case['k2']]
    frt = copt(cbool(fr[1])) if fr[0] == 'ok' else 'None'
    return '(%s, %s, (%s, %s), (%s, %s), (%s, %s, %s, %s))' % (
        cstr(case['o1']), cstr(case['o2']), pos_term(b1), pos_term(e1), pos_term(b2), pos_term(e2),
        cstr(got1[0]), cstr(got2[0]), cstr(cl), frt)


def expected_collections(lines):
    """from the text of a document: {segment: {collection: sorted list of line texts}}"""
    exp = {}

    def add(seg, coll, line):
        exp.setdefault(seg, {}).setdefault(coll, []).append(line)
    seglen = {}
    for l in lines:
        f = l.split('\t')
        if f[0] == 'S':
            exp.setdefault(f[1], {})
    for l in lines:
        f = l.split('\t')
        if f[0] == 'L':
            add(f[1], SE.collection_of_L(f[2], f[4], True), l)
            add(f[3], SE.collection_of_L(f[2], f[4], False), l)
        elif f[0] == 'C':
            add(f[1], SE.collection_of_C(True), l)
            add(f[3], SE.collection_of_C(False), l)
        elif f[0] == 'E':
            s1, o1, s2, o2 = f[2][:-1], f[2][-1], f[3][:-1], f[3][-1]
            k1 = SE.ikind(SE.parse_pos(f[4]), SE.parse_pos(f[5]))
            k2 = SE.ikind(SE.parse_pos(f[6]), SE.parse_pos(f[7]))
            add(s1, SE.collection_of_E(o1, o2, 1, k1, k2), l)
            add(s2, SE.collection_of_E(o1, o2, 2, k1, k2), l)
        elif f[0] == 'G':
            s1, o1, s2, o2 = f[2][:-1], f[2][-1], f[3][:-1], f[3][-1]
            add(s1, SE.collection_of_G(o1, o2, 1), l)
            add(s2, SE.collection_of_G(o1, o2, 2), l)
        elif f[0] == 'F':
            add(f[1], 'fragments', l)
    return exp


def oracle_graph(case):
    g = impl.gfapy()
    out = []
    lines = case['doc']
    G = g.Gfa(lines, vlevel=1)
    exp = expected_collections(lines)
    text_of = {}
    for s in G.segments:
        want = exp.get(s.name, {})
        for k in COLLS + ['gaps_L', 'gaps_R', 'fragments']:
            got = sorted(str(x) for x in getattr(s, k, []))
            w = sorted(want.get(k, []))
            if got != w:
                out.append(('collection %s of segment %s differs from the specification' % (k, s.name), w, got))
                return out
        # derived answers
        dl, dr = want.get('dovetails_L', []), want.get('dovetails_R', [])
        sym = lambda n: 'M' if n > 1 else n
        if s._connectivity() != (sym(len(dl)), sym(len(dr))):
            out.append(('connectivity of %s' % s.name, (sym(len(dl)), sym(len(dr))), s._connectivity()))
        def others(ls):
            r = []
            for l in ls:
                f = l.split('\t')
                if f[0] == 'L':
                    a, b = f[1], f[3]
                else:
                    a, b = f[2][:-1], f[3][:-1]
                r.append(b if a == s.name else a)
            return sorted(set(r))
        if sorted(set(x.name for x in s.neighbours)) != others(dl + dr):
            out.append(('neighbours of %s' % s.name, others(dl + dr), sorted(set(x.name for x in s.neighbours))))
        # one entry per dovetail line (a line from the segment to itself is listed at both ends but counts once)
        def per_line(ls):
            r = []
            for l in sorted(set(ls)):
                f = l.split('\t')
                a, b = (f[1], f[3]) if f[0] == 'L' else (f[2][:-1], f[3][:-1])
                r.append(b if a == s.name else a)
            return sorted(r)
        for what, got, want_l in (('neighbours', s.neighbours, dl + dr), ('neighbours_L', s.neighbours_L, dl), ('neighbours_R', s.neighbours_R, dr)):
            names = sorted(x.name for x in got)
            if names != per_line(want_l):
                out.append(('%s of %s does not list one entry per dovetail line' % (what, s.name), per_line(want_l), names))
        if G.version == 'gfa1':
            cont = sorted(set(l.split('\t')[3] for l in want.get('edges_to_contained', [])))
            ctrs = sorted(set(l.split('\t')[1] for l in want.get('edges_to_containers', [])))
            if sorted(set(x.name for x in s.contained)) != cont:
                out.append(('contained of %s' % s.name, cont, sorted(set(x.name for x in s.contained))))
            if sorted(set(x.name for x in s.containers)) != ctrs:
                out.append(('containers of %s' % s.name, ctrs, sorted(set(x.name for x in s.containers))))
            # other_end of every dovetail from this segment's ends
            for et, ls in (('L', dl), ('R', dr)):
                for l in s.dovetails_of_end(et):
                    f = str(l).split('\t')
                    fe = (f[1], SE.trailing(f[2]))
                    te = (f[3], SE.leading(f[4]))
                    me = (s.name, et)
                    oe = l.other_end(g.SegmentEnd(s, et))
                    want_oe = te if fe == me else fe
                    if fe == me and te == me:
                        want_oe = me
                    if (oe.name, oe.end_type) != want_oe:
                        out.append(('other_end of %s from %s%s' % (str(l), s.name, et), want_oe, (oe.name, oe.end_type)))
    if not out:
        # the collections follow the document: when a gap, an edge, a link or a containment goes, the collections of both
        # its segments are those of the document without it
        for x in [l for l in G.lines if l.record_type in ('G', 'E', 'L', 'C', 'F')]:
            rest = [l for l in lines if l != str(x)]
            if len(rest) != len(lines) - 1:
                continue                      # written differently from the text, or given twice: not used here
            G2 = g.Gfa(lines, vlevel=1)
            y = [l for l in G2.lines if str(l) == str(x)][0]
            r = impl.outcome(lambda: G2.rm(y))
            if r[0] != 'ok':
                continue
            exp2 = expected_collections([str(l) for l in G2.lines if l.record_type != 'H' and not l.virtual])
            for s in G2.segments:
                for k in COLLS + ['gaps_L', 'gaps_R', 'fragments']:
                    got = sorted(str(z) for z in getattr(s, k, []))
                    w = sorted(exp2.get(s.name, {}).get(k, []))
                    if got != w:
                        out.append(('after the removal of %r collection %s of segment %s differs from the specification'
                                    % (str(x)[:40], k, s.name), w, got))
                        return out
    if not out:
        # the removal of a segment takes every record that mentions it: the collections of the other segments are those of
        # the document without these records (expected from the text, not from what the Gfa still lists)
        def mentions(l, n):
            f = l.split('\t')
            if f[0] in ('L', 'C'):
                return n in (f[1], f[3])
            if f[0] in ('E', 'G'):
                return n in (f[2][:-1], f[3][:-1])
            if f[0] == 'F':
                return f[1] == n
            if f[0] == 'S':
                return f[1] == n
            return False
        for sn in [x.name for x in G.segments if not x.virtual][:6]:
            G2 = g.Gfa(lines, vlevel=1)
            r = impl.outcome(lambda: G2.rm(sn))
            if r[0] != 'ok':
                continue
            rest = [l for l in lines if l.split('\t')[0] in ('S', 'L', 'C', 'E', 'G', 'F') and not mentions(l, sn)]
            exp3 = expected_collections(rest)
            for s2 in G2.segments:
                if s2.virtual:
                    continue
                for k in COLLS + ['gaps_L', 'gaps_R', 'fragments']:
                    got = sorted(str(z) for z in getattr(s2, k, []))
                    w = sorted(exp3.get(s2.name, {}).get(k, []))
                    if got != w:
                        out.append(('after the removal of segment %s collection %s of segment %s differs from the specification'
                                    % (sn, k, s2.name), w, got))
                        return out
    if not out:
        # the same collections when every record that mentions segments arrives before the S lines (stand-ins replaced later)
        late = [l for l in lines if not l.startswith('S\t')] + [l for l in lines if l.startswith('S\t')]
        r = impl.outcome(lambda: g.Gfa(late, vlevel=1))
        if r[0] == 'ok':
            G3 = r[1]
            for s3 in G3.segments:
                if s3.virtual:
                    continue
                for k in COLLS + ['gaps_L', 'gaps_R', 'fragments']:
                    got = sorted(str(z) for z in getattr(s3, k, []))
                    w = sorted(exp.get(s3.name, {}).get(k, []))
                    if got != w:
                        out.append(('with the S lines last, collection %s of segment %s differs from the specification' % (k, s3.name), w, got))
                        return out
                rn = impl.outcome(lambda: sorted(x.name for x in s3.neighbours))
                if rn[0] != 'ok':
                    out.append(('with the S lines last, neighbours of segment %s raises' % s3.name, 'a list of segments', impl.outcome_name(rn)))
                    return out
                for d in s3.dovetails:
                    for side in ('from_segment', 'to_segment'):
                        x = getattr(d, side, None)
                        if x is not None and hasattr(x, 'virtual') and (x.virtual or G3.segment(x.name) is not x):
                            out.append(('with the S lines last, %s of %r is not the segment of the Gfa' % (side, str(d)[:40]), 'the real segment', 'a stand-in'))
                            return out
    return out


def py_of(case):
    if case['kind'] == 'E':
        b1, e1 = SHAPES[case['k1']]
        b2, e2 = SHAPES[case['k2']]
        n2 = 'A' if case.get('same') else 'B'
        return ("import gfapy\ng=gfapy.Gfa(['S\\tA\\t10\\t*','S\\tB\\t10\\t*','E\\te\\tA%s\\t%s%s\\t%s\\t%s\\t%s\\t%s\\t*'])\n"
                "for s in g.segments:\n  print(s.name, {k:[str(x) for x in getattr(s,k)] for k in %r if getattr(s,k)})"
                % (case['o1'], n2, case['o2'], b1, e1, b2, e2, COLLS))
    return ("import gfapy\ng=gfapy.Gfa(%r)\nfor s in g.segments:\n  print(s.name, {k:[str(x) for x in v] for k,v in s._refs.items() if v})"
            % case['doc'])


def judge(ctx, case, fails):
    for what, exp, obs in fails[:1]:
        c = {k: v for k, v in case.items() if not k.startswith('_')}
        ctx.violation('failing-input', what, c, exp, obs, python=py_of(case))


def run(ctx, deep, model_ok):
    g = impl.gfapy()
    rng = ctx.rng
    # complete E table
    cases = []
    for o1, o2 in itertools.product('+-', repeat=2):
        for k1, k2 in itertools.product(SHAPES, repeat=2):
            for same in ((False, True) if deep else (False,)):
                case = {'kind': 'E', 'o1': o1, 'o2': o2, 'k1': k1, 'k2': k2, 'same': same}
                ctx.count({k: v for k, v in case.items()}, k1 != k2 or o1 != o2)
                r = impl.outcome(lambda: oracle_E(case))
                if r[0] != 'ok':
                    ctx.violation('failing-input', 'a well-formed E line was rejected: %s' % (r[1],), case, python=py_of(case))
                    continue
                judge(ctx, case, r[1])
                cases.append(case)
    ctx.coverage['exhaustive'] = True
    if model_ok:
        terms, idx = [], []
        for i, c in enumerate(cases):
            t = e_term(c)
            if t:
                terms.append(t)
                idx.append(i)
        failing, errs = core.coq_eval_cases('C11', 'E', IMPORTS, 'e_case', 'check_E', terms)
        for e in errs:
            ctx.broken.append(('correspondence-broken', 'E table: ' + e))
        for i in failing[:3]:
            c = {k: v for k, v in cases[idx[i]].items() if not k.startswith('_')}
            ctx.disagree('the kernels translated from edge/gfa2/{alignment_type,references,to_gfa1}.py '
                          '(about which Props/C11.v is proved) and the running implementation file this E line differently',
                          c, python=py_of(cases[idx[i]]))
        ctx.notes['E_cases_compared_in_coq'] = len(terms)
        # gaps and links: 4 orientation pairs each
        gt, lt = [], []
        for o1, o2 in itertools.product('+-', repeat=2):
            G = g.Gfa(['S\tA\t10\t*', 'S\tB\t10\t*', 'G\tg\tA%s\tB%s\t5\t*' % (o1, o2)])
            k1, k2 = where(G.segment('A'), G.line('g')), where(G.segment('B'), G.line('g'))
            exp = [SE.collection_of_G(o1, o2, 1)], [SE.collection_of_G(o1, o2, 2)]
            case = {'kind': 'G', 'o1': o1, 'o2': o2}
            ctx.count(case, o1 != o2)
            if (k1, k2) != exp:
                ctx.violation('failing-input', 'gap filed on the wrong segment ends', case, exp, (k1, k2))
            else:
                gt.append('(%s, %s, (%s, %s))' % (cstr(o1), cstr(o2), cstr(k1[0]), cstr(k2[0])))
            G = g.Gfa(['S\tA\t*', 'S\tB\t*', 'L\tA\t%s\tB\t%s\t*' % (o1, o2), 'C\tA\t%s\tB\t%s\t0\t*' % (o1, o2)])
            l, c = G.dovetails[0], G.containments[0]
            k1, k2 = where(G.segment('A'), l), where(G.segment('B'), l)
            exp = [SE.collection_of_L(o1, o2, True)], [SE.collection_of_L(o1, o2, False)]
            case = {'kind': 'L', 'o1': o1, 'o2': o2}
            ctx.count(case, o1 != o2)
            if (k1, k2) != exp:
                ctx.violation('failing-input', 'link filed on the wrong segment ends', case, exp, (k1, k2))
            else:
                lt.append('(%s, %s, (%s, %s))' % (cstr(o1), cstr(o2), cstr(k1[0]), cstr(k2[0])))
            if (where(G.segment('A'), c), where(G.segment('B'), c)) != (['edges_to_contained'], ['edges_to_containers']):
                ctx.violation('failing-input', 'containment filed in the wrong collections', {'kind': 'C', 'o1': o1, 'o2': o2})
        for name, ty, chk, terms in (('G', 'g_case', 'check_G', gt), ('L', 'l_case', 'check_L', lt)):
            failing, errs = core.coq_eval_cases('C11', name, IMPORTS, ty, chk, terms)
            for e in errs:
                ctx.broken.append(('correspondence-broken', name + ' table: ' + e))
            for i in failing[:2]:
                ctx.disagree('generated %s kernel and implementation disagree' % name, {'kind': name, 'term': terms[i]})
    # generated graphs
    n = 400 if deep else 80
    for i in range(n):
        if i % 2:
            lines, info = gen.gen_gfa1(rng, tags=False, with_paths=False, headers=False, comments=False)
        else:
            lines, info = gen.gen_gfa2(rng, tags=False, groups=False, custom=False, headers=False, comments=False)
        case = {'kind': 'graph', 'doc': lines}
        nontriv = sum(1 for l in lines if l[0] in 'LCEG') >= 2
        ctx.count(case, nontriv)
        r = impl.outcome(lambda: oracle_graph(case))
        if r[0] != 'ok':
            ctx.violation('failing-input', 'valid document rejected: %s' % (r[1],), case, python=py_of(case))
        else:
            judge(ctx, case, r[1])


def replay(ctx, body):
    case = body.get('case') or {}
    k = case.get('kind')
    if k == 'E':
        r = impl.outcome(lambda: oracle_E(case))
        if r[0] != 'ok' or r[1]:
            return True
        t = e_term(case)
        if t:
            failing, errs = core.coq_eval_cases('C11', 'E', IMPORTS, 'e_case', 'check_E', [t])
            return bool(failing or errs)
        return False
    if k == 'graph':
        r = impl.outcome(lambda: oracle_graph(case))
        return r[0] != 'ok' or bool(r[1])
    return True
