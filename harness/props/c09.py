"""C09 — identifiers are unique; lookup and renaming stay coherent."""
from .. import impl, gen, graphlab as GL, graph_oracle as GO
from . import graphcommon as GC

DEPS = GC.DEPS
MODEL_TARGETS = GC.MODEL_TARGETS
ASSUMPTIONS = GC.ASSUMPTIONS
LEVEL_TEXT = ("Theorems in coq/Props/C09.v over Model/Graph.v: the identifiers of the shared namespace are pairwise distinct in "
              "every state reached by any finite history of add/rm/rename (failed operations included), lookup returns "
              "exactly the line that carries an identifier and nothing for an unused one; adding a line or renaming to an "
              "identifier in use raises NotUniqueError except the documented merges (same-class U/O group, complement of a "
              "stored link); a self-mentioning line is exhibited as a refutation outside the guard. F17 (ID-tagged L/C lines "
              "are outside the namespace) is a known finding. Tie and oracle as in C02, with histories biased to identifier "
              "collisions; the oracle checks uniqueness of Gfa.names, lookup against a scan of Gfa.lines, the NotUniqueError "
              "cases and that a rename changes the identifier everywhere it is written and nothing else.")
RULE = ("histories adding/renaming every identified record type to every kind of identifier: fresh, in use by the same type, in "
        "use by another type, in use by a placeholder, '*', integer-looking names (unused_name). Non-trivial: a collision with "
        "an identifier in use, or '*'/integer-looking.")


def gen_ops(rng, version):
    ops = GL.gen_history(rng, version, nops=0)
    names = [n for _, n in GL.names_in([o[1] for o in ops if o[0] == 'add'])]
    segs = [n for k, n in GL.names_in([o[1] for o in ops if o[0] == 'add']) if k == 'S']
    pool = names + ['7', '12', 'zz']
    if rng.random() < 0.5:
        # identifiers that look like integers and are mentioned before they are defined: the placeholders carrying them
        # are in use as far as unused_name() is concerned
        a0 = rng.choice(segs) if segs else 'A'
        for k in rng.sample(['1', '2', '3', '4', '5', '6'], 3):
            fwd = ('L\t%s\t+\t%s\t+\t*' % (a0, k)) if version == 'gfa1' else rng.choice(
                ['E\t*\t%s+\t%s+\t0\t1\t0\t1\t*' % (a0, k), 'U\t*\t%s %s' % (a0, k), 'O\t*\t%s+' % k])
            ops.insert(rng.randint(0, min(3, len(ops))), ('add', fwd))
    for _ in range(rng.randint(2, 8)):
        n = rng.choice(pool)
        a = rng.choice(segs) if segs else 'A'
        if version == 'gfa1':
            new = rng.choice(['S\t%s\t*' % n, 'P\t%s\t%s+\t*' % (n, a), 'L\t%s\t+\t%s\t-\t9M' % (a, n)])
        else:
            new = rng.choice(['S\t%s\t5\t*' % n, 'E\t%s\t%s+\t%s-\t0\t1\t0\t1\t*' % (n, a, a), 'G\t%s\t%s+\t%s+\t1\t*' % (n, a, a),
                              'U\t%s\t%s' % (n, a), 'O\t%s\t%s+' % (n, a)])
        r = rng.random()
        if r < 0.6:
            ops.append(('add', new))
        elif r < 0.85 and segs:
            # segments mostly; also edges, gaps, groups and paths, which may give their identifier up for the placeholder
            old = rng.choice(segs) if rng.random() < 0.5 or not names else rng.choice(names)
            # giving up the identifier of a line that a group lists has no meaning in the text: not asked
            listed = set()
            for o in ops:
                if o[0] == 'add' and o[1][:1] in 'OU':
                    f = o[1].split('\t')
                    listed |= set(x.rstrip('+-') if f[0] == 'O' else x for x in (f[2].split(' ') if len(f) > 2 else []))
            kinds = dict((nm, k) for k, nm in GL.names_in([o[1] for o in ops if o[0] == 'add']))
            star_ok = kinds.get(old) in ('E', 'G', 'O', 'U') and old not in listed
            ops.append(('rename', old, rng.choice([n, n, '*']) if star_ok else n))
        else:
            ops.append(('rm', n))
    return ops


def step_oracle(G, op, r, ob, oa, removed):
    g = impl.gfapy()
    out = []
    names = G.names
    if len(names) != len(set(names)):
        out.append(('identifiers are not pairwise distinct', None, sorted(n for n in set(names) if names.count(n) > 1)))
    # unused_name() must hand out an identifier that nothing carries, placeholders included
    u = impl.outcome(lambda: G.unused_name())
    if u[0] == 'ok':
        if u[1] in names or G.line(u[1]) is not None:
            out.append(('unused_name() returned an identifier that is in use', None, u[1]))
    scan = {}
    for ln in G.lines:
        n = getattr(ln, 'name', None)
        if ln.record_type in ('S', 'E', 'G', 'P', 'O', 'U', '\n') and isinstance(n, str) and n != '*':
            scan.setdefault(n, []).append(ln)
    for n, ls in scan.items():
        if len(ls) > 1:
            out.append(('two lines carry the identifier %r' % n, 1, [str(x) for x in ls]))
        elif G.line(n) is not ls[0]:
            out.append(('lookup of %r does not return the line that carries it' % n, str(ls[0]), str(G.line(n))))
    for n in ('nosuchname', 'zz9'):
        if n not in scan and G.line(n) is not None:
            out.append(('lookup of an unused identifier returns a line', None, str(G.line(n))))
    if op[0] == 'add' and r[0] != 'ok' and op[1].startswith('L\t') and r[1] == ('gfapy', 'NotUniqueError'):
        # the complement of a stored link (segments exchanged, orientations inverted, overlap complemented) is the same
        # edge: adding it raises nothing
        f = op[1].split('\t')
        inv = {'+': '-', '-': '+'}
        if len(f) >= 6 and f[2] in inv and f[4] in inv and not any(t.startswith('ID:') for t in f[6:]):
            comp = [f[3], inv[f[4]], f[1], inv[f[2]], gen.complement_cigar(f[5])]
            for row in ob.split('\n'):
                if row.startswith('L|0|L\t') and row[4:].split('\t')[1:6] == comp and comp != f[1:6]:
                    out.append(('adding the complement of the stored link %s raised NotUniqueError' % ' '.join(comp), 'accepted, nothing added', 'NotUniqueError'))
    if op[0] == 'add' and r[0] == 'ok':
        # an identifier carried by a line of another record type is in use: only U+U and O+O merge
        f = op[1].split('\t')
        n = GL.text_name(f) if f[0] in ('S', 'E', 'G', 'P', 'O', 'U') else None
        if n not in (None, '*'):
            for row in ob.split('\n'):
                if row.startswith('L|0|'):
                    g0 = row[4:].split('\t')
                    if g0[0] in ('S', 'E', 'G', 'P', 'O', 'U') and g0[0] != f[0] and GL.text_name(g0) == n:
                        out.append(('a %s line was accepted under the identifier %r carried by a %s line' % (f[0], n, g0[0]),
                                    'NotUniqueError', 'accepted'))
    if op[0] == 'rename' and r[0] == 'ok' and op[1] != op[2]:
        # the line is found under the new identifier only, and the number of lines is unchanged
        if G.line(op[1]) is not None or (op[2] != '*' and G.line(op[2]) is None) or op[1] in G.names:
            out.append(('after a successful rename the line is not found under the new identifier only', op[2],
                        [str(G.line(op[1])), str(impl.value_or(lambda: G.line(op[2]), None))]))
        a = [x for x in ob.split('\n') if x.startswith('L|')]
        b = [x for x in oa.split('\n') if x.startswith('L|')]
        if len(a) != len(b):
            out.append(('a rename changed the number of lines', len(a), len(b)))
    return out


def known(case, fail):
    return None


def nontrivial(ops):
    names = set()
    for o in ops:
        if o[0] == 'add':
            f = o[1].split('\t')
            if len(f) > 1 and f[0] in 'SEGPOU':
                if f[1] in names or f[1] == '*' or f[1].isdigit():
                    return True
                names.add(f[1])
        if o[0] == 'rename' and (o[2] in names or o[2] == '*' or o[2].isdigit()):
            return True
    return False


def run(ctx, deep, model_ok):
    GC.run_histories(ctx, 'C09', deep, model_ok, 30, 300, step_oracle, nontrivial, gen_ops=gen_ops)
    # unused_name() asked ONCE, after a history that was not interrupted by queries (asking moves the counter it is drawn
    # from, so the per-step query above never sees the counter as the history alone leaves it): every prefix of the
    # hand-made histories and of some generated ones is replayed on a fresh Gfa and asked at its end
    g = impl.gfapy()
    hs = [(h[0], h[1], h[2] if len(h) > 2 else 1) for h in GC.CORPUS]
    for i in range(40 if deep else 10):
        ver = 'gfa1' if i % 2 else 'gfa2'
        hs.append((ver, gen_ops(ctx.rng, ver), 1))
    for ver, ops, vl in hs:
        for k in range(1, len(ops) + 1):
            if ops[k - 1][0] == 'add':
                continue                       # the counter can fall behind only when a line goes or changes its identifier
            G = g.Gfa(version=ver, vlevel=vl)
            for op in ops[:k]:
                GL.apply_op(G, op)
            u = impl.outcome(lambda: G.unused_name())
            case = {'kind': 'history', 'version': ver, 'vlevel': vl, 'ops': [list(o) for o in ops[:k]]}
            ctx.count(case, True)
            if u[0] == 'ok' and (u[1] in G.names or G.line(u[1]) is not None):
                ctx.violation('failing-input', 'unused_name() asked once after the history returned an identifier that is in use',
                              case, 'an identifier nothing carries', u[1], python=GC.py_of(case) + "\nprint(g.unused_name(), g.names)")
                break
    # unused_name() is fresh
    g = impl.gfapy()
    G = g.Gfa(['S\t7\t*', 'S\t12\t*', 'S\tA\t*'])
    for _ in range(3):
        n = G.unused_name()
        if n in G.names:
            ctx.violation('failing-input', 'unused_name() returned an identifier in use', {'kind': 'unused', 'names': G.names}, None, n)
        G.add_line('S\t%s\t*' % n)
    # an identifier carried by a line that is not a segment, mentioned where a segment is required: the addition is refused
    # (how much it leaves behind is the recorded finding F51); the identifiers stay unique and the lookup keeps answering
    # with the line that carries the identifier
    holders = {'gfa1': ['P\tn\tA+,B+\t*'],
               'gfa2': ['E\tn\tA+\tB+\t7\t10$\t0\t3\t*', 'G\tn\tA+\tB-\t5\t*', 'U\tn\tA B', 'O\tn\tA+ B+']}
    users = {'gfa1': ['L\tA\t+\tn\t-\t*', 'L\tn\t+\tB\t-\t*', 'C\tA\t+\tn\t+\t0\t*', 'C\tn\t+\tB\t+\t0\t*', 'P\tq\tA+,n+\t*'],
             'gfa2': ['E\t*\tA+\tn+\t7\t10$\t0\t3\t*', 'E\t*\tn-\tB+\t0\t3\t0\t3\t*', 'G\t*\tA+\tn-\t5\t*', 'G\t*\tn+\tB-\t5\t*',
                      'F\tn\tr+\t0\t3\t0\t3\t*', 'E\tq\tA+\tn+\t7\t10$\t0\t3\t*', 'G\tq\tn+\tB-\t5\t*']}
    # the refused line may carry an identifier of its own: it stays free, and a corrected line takes it afterwards
    corrected = {'P': 'P\tq\tA+,B+\t*', 'E': 'E\tq\tA+\tB+\t7\t10$\t0\t3\t*', 'G': 'G\tq\tA+\tB-\t5\t*'}
    for ver in ('gfa1', 'gfa2'):
        for h in holders[ver]:
            for u in users[ver]:
                segs = ['S\tA\t*', 'S\tB\t*', 'L\tA\t+\tB\t+\t*'] if ver == 'gfa1' else ['S\tA\t10\t*', 'S\tB\t10\t*']
                G = g.Gfa(version=ver, vlevel=1)
                for l in segs + [h]:
                    G.add_line(l)
                holder = G.line('n')
                r = impl.outcome(lambda: G.add_line(u))
                case = {'kind': 'history', 'version': ver, 'vlevel': 1, 'ops': [('add', l) for l in segs + [h, u]]}
                ctx.count(case, True)
                names = impl.value_or(lambda: list(G.names), [])
                what = None
                if r[0] == 'ok':
                    what = 'a line naming, where a segment is required, the identifier of a %s line was accepted' % h[0]
                elif r[1][0] != 'gfapy':
                    what = 'adding such a line raised a foreign exception'
                elif len(names) != len(set(names)):
                    what = 'identifiers are not pairwise distinct after the refusal'
                elif impl.value_or(lambda: G.line('n'), None) is not holder:
                    what = 'the identifier no longer leads to the line that carries it'
                elif u.split('\t')[1] == 'q' and (impl.value_or(lambda: G.line('q'), 0) is not None or 'q' in names):
                    what = 'the identifier of the refused line is in use after the refusal'
                elif u.split('\t')[1] == 'q':
                    r2 = impl.outcome(lambda: G.add_line(corrected[u[0]]))
                    if r2[0] != 'ok' or str(impl.value_or(lambda: G.line('q'), None)) != corrected[u[0]]:
                        what = 'after the refusal a corrected line cannot take the identifier'
                if what:
                    ctx.violation('failing-input', what, case, 'NotUniqueError, identifiers unchanged', impl.outcome_name(r), python=GC.py_of(case))
    # known finding F17
    G = g.Gfa(['S\tA\t*', 'S\tB\t*', 'L\tA\t+\tB\t+\t1M\tID:Z:x'])
    r = impl.outcome(lambda: G.add_line('L\tB\t+\tA\t+\t2M\tID:Z:x'))
    if r[0] == 'ok' and len(G.dovetails) != 2:
        ctx.known('F17', "ID-tagged L/C lines are outside the duplicate search: a second link with ID:Z:x replaces the first in "
                         "the collection; a link may take a segment's identifier")


def replay(ctx, body):
    return GC.replay_history(ctx, 'C09', body, step_oracle)
