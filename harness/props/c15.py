"""C15 — segment multiplication makes faithful copies and splits the counts."""
import re
from .. import core, impl, gen, graphlab as GL, linelab as LL
from ..core import cstr, clist, copt
from . import graphcommon as GC

DEPS = GC.DEPS + ['K_mult']
MODEL_TARGETS = ['Corr/C15c.vo']
IMPORTS = ("From GfaV Require Import Base.Py Model.Codec Model.Graph Model.Multiply Proofs.GraphP Corr.C12c Corr.Graphc Corr.C15c.")
ASSUMPTIONS = GC.ASSUMPTIONS + ["the multiplied segment has no self-link (F19)", "GFA2 edges carry no identifier (F20)",
                                "requested copy names are fresh, distinct and factor-1 many"]
LEVEL_TEXT = ("Theorems in coq/Props/C15.v over Model/Multiply.v (multiplication on the reference semantics of the graph) and the "
              "GENERATED kernel _auto_select_distribute_end: automatic copy names are fresh, pairwise distinct and factor-1 many "
              "for every set of identifiers in use; the distribution windows cover every link of the distributed end and never "
              "index outside it, for every number of links and every factor; the 'equal' policy selects an end only when its "
              "link count equals the factor, 'auto' only an end with that count or with at least two links; count division is "
              "floor division on exactly the RC/FC/KC integer tags; factor 1 is the identity, factor 0 is rm, negative factors "
              "are refused without change. Tie: Gfa.multiply is run on generated GFA1 graphs x segments x factors x policies x "
              "given/automatic names and its outcome and the full observation of the graph are compared with the model inside "
              "Coq. Without distribution every line that is not the multiplied segment or one of its dovetails/containments is "
              "in the graph afterwards exactly as it was (Proofs/FrameP.v), and the records afterwards are the divided ones followed, "
              "per copy name, by the segment and each edge with the name substituted (Proofs/MultiplyRecordsP.v). PARTIAL: copies and "
              "untouched rest under distribution are decided per generated case by the "
              "independent oracle and by correspondence with the model, not proved for the model. Oracle: expected document "
              "recomputed from the text (GFA1 and GFA2 with unnamed edges).")
RULE = ("graphs of 2-6 segments with count tags on segments and edges, parallel links, containments, paths, names ending in *n, "
        "identifiers of the form base*i already in use; factors -1..4; policies none/off/auto/equal/L/R/unknown; given or "
        "automatic names. Non-trivial: factor >= 2 on a segment with at least one edge.")

COUNT = ('RC', 'FC', 'KC')


def gen_graph(rng, version):
    nseg = rng.randint(2, 6)
    pool = ['A', 'B', 'C', 'D', 'E', 'F', 'A*2', 'A*3', 'B*2', 'x*7', 's1', 'A*b', 'C*02']
    names = rng.sample(pool, nseg)
    lines = []

    def ctags(p=0.5):
        out = []
        for t in COUNT:
            if rng.random() < p:
                out.append('%s:i:%d' % (t, rng.choice([0, 1, 2, 3, 7, 10, 11, 100, 12345])))
        if rng.random() < 0.3:
            out.append(rng.choice(['xx:Z:hello', 'ab:i:-5', 'cn:f:1.5', 'RC:Z:notint'][:3]))
        return out
    for n in names:
        if version == 'gfa1':
            lines.append('\t'.join(['S', n, rng.choice(['*', 'ACGTACGTAC'])] + ctags()))
        else:
            lines.append('\t'.join(['S', n, '10', rng.choice(['*', 'ACGTACGTAC'])] + ctags()))
    seen = set()
    star = set()
    for _ in range(rng.randint(0, nseg + 3)):
        a, b = rng.choice(names), rng.choice(names)
        if a == b and rng.random() < 0.75:
            continue
        oa, ob = rng.choice('+-'), rng.choice('+-')
        inv = {'+': '-', '-': '+'}
        key, ckey = (a, oa, b, ob), (b, inv[ob], a, inv[oa])
        par = key in seen or ckey in seen
        if par and (rng.random() < 0.7 or version != 'gfa1' or key in star):
            continue
        seen.add(key)
        if version == 'gfa1':
            ov = rng.choice(['3M', '4M', '2M1D1M', '*']) if not par else '%dM' % (5 + len(lines))   # distinct from every other
            if ov == '*':
                star.add(key)
                star.add(ckey)
            lines.append('\t'.join(['L', a, oa, b, ob, ov] + ctags(0.4)))
        else:
            e1 = ('7', '10$') if oa == '+' else ('0', '3')
            e2 = ('0', '3') if ob == '+' else ('7', '10$')
            lines.append('\t'.join(['E', '*', a + oa, b + ob, e1[0], e1[1], e2[0], e2[1], '*'] + ctags(0.4)))
    for _ in range(rng.randint(0, 2)):
        a, b = rng.sample(names, 2)
        if version == 'gfa1':
            lines.append('\t'.join(['C', a, rng.choice('+-'), b, rng.choice('+-'), '2', '4M'] + ctags(0.4)))
        else:
            lines.append('\t'.join(['E', '*', a + '+', b + rng.choice('+-'), '2', '6', '0', '4$'.replace('4$', '10$'), '*'] + ctags(0.4))
                         if False else '\t'.join(['E', '*', a + '+', b + '+', '0', '10$', '2', '6', '*']))
    if version == 'gfa1' and rng.random() < 0.4:
        ls = [l.split('\t') for l in lines if l.startswith('L\t')]
        if ls:
            f = rng.choice(ls)
            lines.append('\t'.join(['P', 'p1', '%s%s,%s%s' % (f[1], f[2], f[3], f[4]), '*']))
    return lines, names


def gen_case(rng, i):
    version = 'gfa1' if i % 4 else 'gfa2'
    lines, names = gen_graph(rng, version)
    seg = rng.choice(names)
    factor = rng.choice([-1, 0, 1, 2, 2, 3, 3, 4])
    if version == 'gfa1' and rng.random() < 0.2 and not any(l.startswith('L\t%s\t' % seg) and l.split('\t')[3] == seg for l in lines):
        # a hairpin on the multiplied segment, with counts (listed once per end of the link)
        o = rng.choice('+-')
        lines.append('L\t%s\t%s\t%s\t%s\t4M\tRC:i:%d\tKC:i:%d' % (seg, o, seg, '-' if o == '+' else '+', rng.choice([40, 9, 7]), rng.choice([12, 100])))
    if rng.random() < 0.3:
        # identifiers of the form base*i already in use, consecutive runs included
        m = re.match(r'^(.*)\*(\d+)$', seg)
        base = m.group(1) if m else seg
        for j in rng.choice([[2], [2, 3], [3], [2, 3, 4], [2, 4], [3, 4, 5]]):
            n = '%s*%d' % (base, j)
            if n not in names:
                names.append(n)
                lines.append('S\t%s\t*' % n if version == 'gfa1' else 'S\t%s\t10\t*' % n)
    policy = rng.choice([None, None, 'off', 'auto', 'equal', 'L', 'R', 'auto', 'equal', 'bogus'])
    given = None
    if factor >= 2 and rng.random() < 0.35:
        given = ['%s_c%d' % (rng.choice(['cp', 'Z', seg]), j) for j in range(factor - 1)]
    case = {'kind': 'multiply', 'version': version, 'lines': lines, 'segment': seg, 'factor': factor, 'policy': policy, 'names': given}
    if rng.random() < 0.3:
        # the options that record where a copy came from
        case['opts'] = rng.choice([{'track_origin': True}, {'track_origin': True, 'origin_tag': 'oo'}, {'extended': True},
                                   {'extended': True, 'origin_tag': 'zz'}])
    return case


def py_of(case):
    return ("import gfapy\ng=gfapy.Gfa(version=%r)\nfor l in %r: g.add_line(l)\ntry: g.multiply(%r, %d, copy_names=%r, distribute=%r, **%r)\n"
            "except Exception as e: print(type(e).__name__, e)\nprint(g)"
            % (case['version'], case['lines'], case['segment'], case['factor'], case['names'], case['policy'], case.get('opts') or {}))


def build(case):
    g = impl.gfapy()
    G = g.Gfa(version=case['version'], vlevel=1)
    for l in case['lines']:
        G.add_line(l)
    return G


def has_selflink(case):
    """the recorded finding F19: a loop (both ends of the segment), a self-containment, or a hairpin together with link
    distribution or with an overlap that is not its own complement; a hairpin with a symmetric overlap and without
    distribution is multiplied correctly and stays inside the domain"""
    s = case['segment']
    for l in case['lines']:
        f = l.split('\t')
        if f[0] == 'C' and f[1] == s and f[3] == s:
            return True
        if f[0] == 'L' and f[1] == s and f[3] == s:
            if f[2] == f[4] or case['policy'] not in (None, 'off') or (case.get('opts') or {}).get('extended'):
                return True
            if f[5] != gen.complement_cigar(f[5]):
                # a hairpin whose overlap is not its own complement is cloned twice, like a loop
                return True
        if f[0] == 'E' and f[2][:-1] == s and f[3][:-1] == s:
            return True
    return False


# ------------------------------------------------------------------ the oracle (text level)
def div_tags(fields, k):
    out = []
    for t in fields:
        m = re.match(r'^(RC|FC|KC):i:(-?\d+)$', t)
        out.append('%s:i:%d' % (m.group(1), int(m.group(2)) // k) if m else t)
    return out


def edge_ends(f, version):
    """[(segment, end)] of a dovetail; None for containments/internals"""
    if version == 'gfa1':
        if f[0] != 'L':
            return None
        return [(f[1], 'R' if f[2] == '+' else 'L'), (f[3], 'L' if f[4] == '+' else 'R')]
    if f[0] != 'E':
        return None
    from .. import spec_edge as SE
    k1 = SE.ikind(SE.parse_pos(f[4]), SE.parse_pos(f[5]))
    k2 = SE.ikind(SE.parse_pos(f[6]), SE.parse_pos(f[7]))
    if SE.edge_class(f[2][-1], f[3][-1], k1, k2) != 'L':
        return None
    return [(f[2][:-1], SE.end_of(k1)), (f[3][:-1], SE.end_of(k2))]


def seg_cols(version):
    return (1, 3) if version == 'gfa1' else (2, 3)


def edge_mentions(f, version, s):
    if version == 'gfa1':
        return f[0] in 'LC' and s in (f[1], f[3])
    return f[0] == 'E' and s in (f[2][:-1], f[3][:-1])


def subst(f, version, s, c):
    f = list(f)
    if version == 'gfa1':
        for i in (1, 3):
            if f[i] == s:
                f[i] = c
    else:
        for i in (2, 3):
            if f[i][:-1] == s:
                f[i] = c + f[i][-1]
    return f


def judge(case):
    """returns (failures, info)"""
    g = impl.gfapy()
    G = build(case)
    before = [str(x) for x in G.lines]
    names_before = set(G.names)
    s, k, pol = case['segment'], case['factor'], case['policy']
    opts = case.get('opts') or {}
    r = impl.outcome(lambda: G.multiply(s, k, copy_names=case['names'], distribute=pol, **opts))
    if opts.get('extended') and pol is None:
        pol = 'auto'
    after = [str(x) for x in G.lines]
    ob = impl.outcome(lambda: GL.impl_obs(G))
    out = []
    info = {'outcome': r, 'obs': ob[1] if ob[0] == 'ok' else None}
    if ob[0] != 'ok':
        return [('reading the graph after multiply raised %s' % (ob[1],), None, None)], info
    from .. import graph_oracle as GO
    inv = GO.check(G)
    if inv:
        out.append(('after multiply: ' + inv[0][0], inv[0][1], inv[0][2]))
    if k < 0:
        if r[0] == 'ok' or r[1][1] != 'ArgumentError':
            out.append(('a negative factor is not refused with ArgumentError', 'ArgumentError', impl.outcome_name(r)))
        if sorted(after) != sorted(before):
            out.append(('a refused multiplication changed the graph', sorted(before), sorted(after)))
        return out, info
    if k >= 2 and pol == 'bogus':
        if r[0] == 'ok' or r[1][0] != 'gfapy':
            out.append(('an unknown distribution policy is not refused with a gfapy error', 'ArgumentError', impl.outcome_name(r)))
        return out, info
    if r[0] != 'ok':
        out.append(('multiply raised %s' % impl.outcome_name(r), 'no exception', impl.outcome_name(r)))
        return out, info
    if k == 1:
        if sorted(after) != sorted(before):
            out.append(('factor 1 changed the graph', sorted(before), sorted(after)))
        return out, info
    v = case['version']
    bf = [l.split('\t') for l in before]
    if k == 0:
        want = []
        for f in bf:
            if f[0] == 'S' and f[1] == s:
                continue
            if edge_mentions(f, v, s):
                continue
            if f[0] == 'P' and s in [x[:-1] for x in f[2].split(',')]:
                continue
            want.append('\t'.join(f))
        # paths over removed links go as well
        gone_links = [f for f in bf if edge_mentions(f, v, s)]
        want2 = []
        for l in want:
            f = l.split('\t')
            if f[0] == 'P':
                steps = f[2].split(',')
                pairs = set(zip(steps, steps[1:]))
                if any(True for e in gone_links if e[0] == 'L' and ((e[1] + e[2], e[3] + e[4]) in pairs)):
                    continue
            want2.append(l)
        if sorted(after) != sorted(want2):
            out.append(('factor 0 is not the removal of the segment with its dependants', sorted(want2), sorted(after)))
        return out, info
    # k >= 2
    seg_before = [f for f in bf if f[0] == 'S' and f[1] == s][0]
    seg_after = div_tags(seg_before, k)
    if opts.get('track_origin') or opts.get('extended'):
        # the original records its own name as the origin unless it carries an origin already; the copies inherit it
        ot = opts.get('origin_tag', 'or')
        if not any(t.startswith(ot + ':') for t in seg_after[(3 if v == 'gfa1' else 4):]):
            seg_after = seg_after + ['%s:Z:%s' % (ot, s)]
    af = [l.split('\t') for l in after]
    segs_after = [f[1] for f in af if f[0] == 'S']
    segs_before = [f[1] for f in bf if f[0] == 'S']
    new = [n for n in segs_after if n not in segs_before]
    info['copies'] = new
    if len(new) != k - 1 or len(set(segs_after)) != len(segs_after) or set(segs_before) - set(segs_after):
        out.append(('multiplying by %d does not leave the original and %d new segments' % (k, k - 1), k - 1, new))
        return out, info
    if any(n in names_before for n in new):
        out.append(('a copy received an identifier already in use', None, new))
    if case['names'] is not None and new != case['names']:
        out.append(('the copies do not carry the requested identifiers', case['names'], new))
    for c in [s] + new:
        got = [f for f in af if f[0] == 'S' and f[1] == c][0]
        want = [seg_after[0], c] + seg_after[2:]
        if got != want:
            out.append(('copy %r is not the original with its counts divided by %d' % (c, k), '\t'.join(want), '\t'.join(got)))
    edges = [f for f in bf if edge_mentions(f, v, s)]
    def path_over(f):
        # a path through the multiplied segment depends on its links: it is not part of the untouched rest
        return f[0] == 'P' and s in [x[:-1] for x in f[2].split(',')]
    rest_before = sorted('\t'.join(f) for f in bf if not edge_mentions(f, v, s) and not (f[0] == 'S' and f[1] == s) and not path_over(f))
    rest_after = sorted('\t'.join(f) for f in af if not any(edge_mentions(f, v, c) for c in [s] + new) and not (f[0] == 'S' and f[1] in [s] + new)
                        and not path_over(f))
    if rest_before != rest_after:
        out.append(('multiplication changed lines that do not touch the segment', rest_before, rest_after))
    full = []
    for c in [s] + new:
        for e in edges:
            full.append('\t'.join(subst(div_tags(e, k), v, s, c)))
    got_edges = sorted('\t'.join(f) for f in af if any(edge_mentions(f, v, c) for c in [s] + new))
    dist_on = pol not in (None, 'off')
    if not dist_on:
        if got_edges != sorted(full):
            out.append(('the copies do not carry exactly the edges of the original (counts divided by %d)' % k, sorted(full), got_edges))
        return out, info
    # with distribution: nothing invented, only dovetails of one end removed, every neighbour still reached
    pool = list(full)
    for e in got_edges:
        if e in pool:
            pool.remove(e)
        else:
            out.append(('distribution invented an edge', None, e))
    missing = pool
    ends_hit = set()
    for e in missing:
        f = e.split('\t')
        ee = edge_ends(f, v)
        if ee is None:
            out.append(('distribution removed a containment', None, e))
            continue
        for (n, end) in ee:
            if n in [s] + new:
                ends_hit.add(end)
    if len(ends_hit) > 1:
        out.append(('distribution removed links of both ends', None, sorted(missing)))
    if pol in ('L', 'R') and ends_hit - {pol}:
        out.append(('distribution on end %s removed links of the other end' % pol, None, sorted(missing)))
    nb = {'L': 0, 'R': 0}
    for e in edges:
        for (n, end) in (edge_ends(e, v) or []):
            if n == s:
                nb[end] += 1
    if pol == 'equal' and ends_hit and nb[list(ends_hit)[0]] != k:
        out.append(("policy 'equal' distributed an end whose number of links differs from the factor", k, nb))
    # every former neighbour end stays linked to at least one copy
    for e in edges:
        ee = edge_ends(e, v)
        if ee is None:
            continue
        variants = ['\t'.join(subst(div_tags(e, k), v, s, c)) for c in [s] + new]
        if not any(x in got_edges for x in variants):
            out.append(('a former neighbour is no longer linked to any copy', '\t'.join(e), None))
    info['distributed'] = sorted(ends_hit)
    return out, info


def case_term(case, info):
    ft, jt = [], []
    for l in case['lines']:
        a, b = LL.tables_for(l)
        ft += a
        jt += b
    fts = clist(['(%s, %s)' % (cstr(a), cstr(b)) for a, b in ft])
    jts = clist(['(%s, %s)' % (cstr(a), copt(cstr(b)) if b is not None else 'None') for a, b in jt])
    ops = clist([GL.op_term(('add', l)) for l in case['lines']])
    r = info['outcome']
    e = 'None' if r[0] == 'ok' else '(Some %s)' % impl.exn_term(r[1])
    names = 'None' if case['names'] is None else '(Some %s)' % clist([cstr(x) for x in case['names']])
    pol = 'None' if case['policy'] is None else '(Some %s)' % cstr(case['policy'])
    return '(%s, %s, %s, (%d)%%Z, %s, %s, %s, %s, %s, %s)' % (cstr(case['version']), ops, cstr(case['segment']), case['factor'],
                                                            names, pol, e, cstr(info['obs']), fts, jts)


def run(ctx, deep, model_ok):
    rng = ctx.rng
    n = 400 if deep else 60
    terms, metas = [], []
    dist = {}
    probes = [
        ('F19', {'kind': 'multiply', 'version': 'gfa1', 'lines': ['S\tA\t*\tRC:i:10', 'S\tB\t*', 'L\tA\t+\tA\t+\t3M'],
                 'segment': 'A', 'factor': 2, 'policy': None, 'names': None}),
        ('F19', {'kind': 'multiply', 'version': 'gfa1', 'lines': ['S\tA\t*', 'S\tB\t*', 'L\tA\t+\tA\t-\t3M', 'L\tA\t+\tB\t+\t4M'],
                 'segment': 'A', 'factor': 2, 'policy': 'R', 'names': None}),
        ('F19', {'kind': 'multiply', 'version': 'gfa1', 'lines': ['S\tA\t*', 'C\tA\t+\tA\t-\t0\t4M'],
                 'segment': 'A', 'factor': 2, 'policy': None, 'names': None}),
        ('F20', {'kind': 'multiply', 'version': 'gfa2', 'lines': ['S\tA\t10\t*', 'S\tB\t10\t*', 'E\te1\tA+\tB+\t8\t10$\t0\t2\t*'],
                 'segment': 'A', 'factor': 2, 'policy': None, 'names': None}),
    ]
    text = {'F19': 'a segment with a self-link is not multiplied faithfully (loop cloned twice, hairpin disconnected twice, '
                   'self-containment unhashable)',
            'F20': 'GFA2 edges with an identifier are cloned under the same identifier (NotUniqueError)'}
    for fid, case in probes:
        r = impl.outcome(lambda: judge(case))
        ctx.count(case, True)
        if r[0] != 'ok' or r[1][0]:
            ctx.known(fid, text[fid] + ': ' + (r[1][0][0][0] if r[0] == 'ok' else str(r[1])))
    fixed = []
    base = ['S\tA\t*\tRC:i:9', 'S\tB\t*', 'S\tC\t*\tor:Z:x', 'L\tA\t+\tB\t+\t3M\tKC:i:7', 'L\tA\t-\tC\t+\t*', 'L\tA\t+\tC\t-\t2M']
    for opts in ({'track_origin': True}, {'extended': True}, {'track_origin': True, 'origin_tag': 'oo'}, {}):
        for k in (1, 0, -1, 2, 3):
            for sg in ('A', 'C'):
                fixed.append(dict({'kind': 'multiply', 'version': 'gfa1', 'lines': base, 'segment': sg, 'factor': k, 'policy': None,
                                   'names': None}, **({'opts': opts} if opts else {})))
    # an identifier that is only mentioned (a link or a path over a segment without S line) is in use as well: the copies
    # get other names and the mention keeps standing for the undefined segment
    for extra in (['L\tB\t+\tA*2\t+\t1M'], ['L\tA*3\t-\tC\t+\t*', 'L\tB\t+\tA*2\t-\t1M'], ['P\tp\tB+,A*2+\t*']):
        for k in (2, 3):
            fixed.append({'kind': 'multiply', 'version': 'gfa1', 'lines': base + extra, 'segment': 'A', 'factor': k,
                          'policy': None, 'names': None})
    # tags of every datatype on the multiplied segment and on its links: the copies carry them with the same datatype
    typed = ['S\tA\t*\tRC:i:9\tst:A:c\tjj:J:{"a":1}\thh:H:0A\tbb:B:c,1,2\tff:f:1.5', 'S\tB\t*\tsb:A:y',
             'L\tA\t+\tB\t+\t3M\tKC:i:7\tsa:A:x\thl:H:FF', 'C\tA\t+\tB\t-\t0\t*\tsc:A:z']
    for k in (2, 3):
        fixed.append({'kind': 'multiply', 'version': 'gfa1', 'lines': typed, 'segment': 'A', 'factor': k, 'policy': None, 'names': None})
    for i in range(-len(fixed), n):
        case = fixed[i + len(fixed)] if i < 0 else gen_case(rng, i)
        r = impl.outcome(lambda: judge(case))
        if r[0] != 'ok':
            ctx.violation('failing-input', 'running the case raised %s' % (r[1],), case, python=py_of(case))
            continue
        fails, info = r[1]
        if fails and has_selflink(case):
            ctx.known('F19', text['F19'] + ' [generated case]')
            continue
        nontriv = case['factor'] >= 2 and any(edge_mentions(l.split('\t'), case['version'], case['segment']) for l in case['lines'])
        ctx.count(case, nontriv)
        key = '%s/%s' % ('k>=2' if case['factor'] >= 2 else 'k=%d' % case['factor'], case['policy'])
        dist[key] = dist.get(key, 0) + 1
        for what, exp, obs in fails[:1]:
            ctx.violation('failing-input', what, case, exp, obs, python=py_of(case))
        if model_ok and not fails and case['version'] == 'gfa1' and info.get('obs') is not None and not case.get('opts'):
            try:
                terms.append(case_term(case, info))
                metas.append(case)
            except ValueError:
                pass
    ctx.notes['case_distribution'] = dist
    if model_ok:
        failing, errs = core.coq_eval_cases('C15', 'mult', IMPORTS, 'mult_case', 'check_mult', terms, shard=8)
        for e in errs:
            ctx.broken.append(('correspondence-broken', 'multiply: ' + e))
        for i in failing[:3]:
            vals, _ = core.coq_eval_strings('C15', 'showmult', IMPORTS, ['show_mult %s' % terms[i]])
            mo = vals[0] if vals else '?'
            G = build(metas[i])
            impl.outcome(lambda: G.multiply(metas[i]['segment'], metas[i]['factor'], copy_names=metas[i]['names'], distribute=metas[i]['policy']))
            io = GL.impl_obs(G)
            a, b = set(io.split('\n')), set(mo.split('@@', 1)[-1].split('\n'))
            ctx.disagree('Model/Multiply.v and Gfa.multiply disagree (model outcome %s; rows only in impl %r; only in model %r)'
                         % (mo.split('@@')[0], sorted(a - b)[:3], sorted(b - a)[:3]), metas[i], python=py_of(metas[i]))
        ctx.notes['cases_compared_in_coq'] = len(terms)


def replay(ctx, body):
    case = body.get('case') or {}
    if 'lines' not in case:
        return True
    r = impl.outcome(lambda: judge(case))
    return r[0] != 'ok' or bool(r[1][0])
