"""C03 — the graph does not depend on the order of the lines."""
import itertools

from .. import core, impl, gen, graphlab as GL
from . import graphcommon as GC
from .. import graph_oracle as GO

DEPS = GC.DEPS
MODEL_TARGETS = GC.MODEL_TARGETS
ASSUMPTIONS = GC.ASSUMPTIONS + ["two O lines sharing an identifier keep their relative order (their concatenation order is content, C17)",
                                "every step of every P line is compatible with exactly one link of the document (F30)"]
LEVEL_TEXT = ("PARTIAL. Theorems in coq/Props/C03.v: in every state reached by any history (so for every arrival order) "
              "identifiers are unique, hence no placeholder coexists with a definition of its identifier, and the graph is "
              "closed (C02); the version clause is the theorem C13_order_independent; the records of the Gfa that are not "
              "placeholders are exactly the added lines in arrival order (an accepted addition that meets no stored record of its "
              "identifier appends the added line and changes no other record), so two arrival orders of the same lines, both read "
              "completely, hold the same records (Proofs/RealsP.v; documents without group merges and complement duplicates). "
              "Back-references and resolution are functions of the records, so two orders that leave no placeholder have the same "
              "back-reference multisets and resolve the same mentions (Proofs/OrdersBackrefsP.v). All of this is about the "
              "reference semantics; for the implementation the clause is decided (i) by the correspondence: every "
              "explored order is run on gfapy and on Model/Graph.v and compared after every line, and (ii) by the oracle: all "
              "permutations of documents of <= 6 lines and 30 shuffles of larger ones must give one canonical observation "
              "(version, written records with a link identified with its complement, identifiers, reference targets, "
              "back-reference collections, path link directions) without any placeholder for a defined identifier.")
RULE = ("valid GFA1/GFA2 documents (3-20 lines) with every referencing record type; all permutations when <= 6 lines, else 30 "
        "seeded shuffles. Non-trivial: in at least one explored order a referencing line precedes a line it mentions.")


def canon_obs(G):
    """observation with a link identified with its complement and U item lists as multisets"""
    rows = GL.impl_obs(G).split('\n')
    return '\n'.join(sorted(rows))


def link_canon(text):
    f = text.split('\t')
    if f[0] != 'L':
        return text
    inv = {'+': '-', '-': '+'}
    comp = ['L', f[3], inv[f[4]], f[1], inv[f[2]], gen.complement_cigar(f[5])] + f[6:]
    return min(text, '\t'.join(comp))


def build(lines, version):
    g = impl.gfapy()
    return g.Gfa(list(lines), version=version, vlevel=1)


def has_forward_ref(order):
    seen = set()
    for l in order:
        f = l.split('\t')
        for t, _ in GL.text_mentions(f):
            if t not in seen:
                return True
        n = GL.text_name(f)
        if n:
            seen.add(n)
    return False


# hand-made documents that run first: a path and the link it walks disagree on `*` versus a CIGAR, in direct and in
# complement direction, hairpins, a path over two parallel-looking links, groups before their members
CORPUS = [
    ('gfa1', ['S\ta\t*', 'S\tb\t*', 'L\tb\t-\ta\t-\t5M', 'P\tp\ta+,b+\t*']),
    ('gfa1', ['S\ta\t*', 'S\tb\t*', 'L\tb\t-\ta\t-\t*', 'P\tp\ta+,b+\t5M']),
    ('gfa1', ['S\ta\t*', 'S\tb\t*', 'L\ta\t+\tb\t+\t*', 'P\tp\ta+,b+\t4M']),
    ('gfa1', ['S\ta\t*', 'S\tb\t*', 'L\ta\t+\tb\t+\t3M1I', 'P\tp\tb-,a-\t*']),
    ('gfa1', ['S\ta\t*', 'S\tb\t*', 'S\tc\t*', 'L\ta\t+\tb\t+\t2M', 'L\tc\t-\tb\t-\t*', 'P\tp\ta+,b+,c+\t2M,3M']),
    ('gfa1', ['S\ta\t*', 'L\ta\t+\ta\t-\t3M1I', 'P\tp\ta+,a-\t1D3M']),
    ('gfa1', ['S\ta\t*', 'S\tb\t*', 'L\ta\t+\ta\t-\t4M', 'L\ta\t-\tb\t+\t*', 'P\tp\ta+,a-,b+\t4M,*']),
    ('gfa1', ['S\ta\t*', 'L\ta\t-\ta\t+\t*', 'P\tp\ta-,a+\t*']),
    ('gfa2', ['S\ta\t10\t*', 'S\tb\t10\t*', 'E\te1\ta+\tb+\t7\t10$\t0\t3\t*', 'O\to1\ta+ b+', 'U\tu1\to1 e1']),
    # every class of edge on one pair of segments: the first segment contained, the second contained, both whole, an
    # internal alignment, a dovetail, a gap and a fragment
    ('gfa2', ['S\ta\t10\t*', 'S\tb\t4\t*', 'E\tc1\tb+\ta+\t0\t4$\t3\t7\t*', 'E\tc2\ta-\tb+\t2\t6\t0\t4$\t4M',
              'E\ti1\ta+\tb-\t2\t5\t1\t3\t*', 'G\tg1\ta+\tb-\t3\t*']),
    # groups given in several lines, tagged and untagged, in both arrangements
    ('gfa2', ['S\ta\t10\t*', 'S\tb\t10\t*', 'U\tu1\ta', 'U\tu1\tb\txx:i:1', 'O\to1\ta+\tyy:Z:k', 'O\to1\tb-']),
    ('gfa2', ['S\ta\t10\t*', 'S\tb\t10\t*', 'U\tu1\ta\txx:i:1\tzz:A:c', 'U\tu1\tb', 'U\tu1\tb\txx:i:1']),
    # two paths over one hairpin step whose overlap is not its own complement (F71)
    ('gfa1', ['S\tx\t*', 'L\tx\t+\tx\t-\t1I1D5I', 'P\tp1\tx+,x-\t*', 'P\tp0\tx+,x-\t5D1I1D']),
    # gaps listed by a set and by an ordered group
    ('gfa2', ['S\ta\t10\t*', 'S\tb\t10\t*', 'G\tg1\ta+\tb-\t5\t*', 'U\tu1\ta g1', 'O\to1\ta+ g1+ b-']),
    ('gfa2', ['S\ta\t10\t*', 'S\tb\t10\t*', 'E\tw\ta+\tb-\t0\t10$\t0\t10$\t*', 'E\td\tb+\ta+\t8\t10$\t0\t2\t2M',
              'F\ta\tx-\t0\t3\t0\t3\t*', 'U\tu\tw d a']),
]


def run(ctx, deep, model_ok):
    g = impl.gfapy()
    rng = ctx.rng
    n = 120 if deep else 25
    terms, metas = [], []
    for i in range(-len(CORPUS), n):
        if i < 0:
            ver, lines = CORPUS[i + len(CORPUS)]
            lines = list(lines)
        else:
            ver = 'gfa1' if i % 2 else 'gfa2'
            lines, info = GL.clean_doc(rng, ver)
        kp = GL.known_pattern([('add', l) for l in lines])
        if kp and kp[0] != 'F28':      # F28 is about removals; a gap listed by a group is an ordinary document here
            continue
        if len(lines) > 6 and rng.random() < 0.5:
            lines = lines[:6] if has_forward_ref(list(reversed(lines[:6]))) else lines
        # links given in one form only (the complement form of a stored link is the same edge: C12)
        if len(lines) <= 6:
            orders = list(itertools.permutations(lines))
            if len(orders) > 120:
                orders = rng.sample(orders, 120)
        else:
            orders = [tuple(rng.sample(lines, len(lines))) for _ in range(30 if deep else 12)] + [tuple(lines)]
        # U/O same-id lines keep their relative order (the order of their concatenation is content)
        def group_seq(o):
            seq = {}
            for l in o:
                f = l.split('\t')
                if f[0] in 'OU' and len(f) > 1 and f[1] != '*':
                    seq.setdefault((f[0], f[1]), []).append(l)
            return seq
        orders = [o for o in orders if group_seq(o) == group_seq(lines)]
        ref = None
        fwd = False
        for order in orders:
            fwd = fwd or has_forward_ref(order)
            r = impl.outcome(lambda: build(order, ver))
            case = {'kind': 'orders', 'version': ver, 'orders': [list(order), list(lines)]}
            if r[0] != 'ok':
                if i < 0 and (list(order) == list(lines) or impl.outcome(lambda: build(lines, ver))[0] != 'ok'):
                    ctx.violation('failing-input', 'a valid hand-made document is rejected in the order it is written in (%s)' % impl.outcome_name(r),
                                  case, 'accepted', impl.outcome_name(r),
                                  python="import gfapy\nprint(gfapy.Gfa(%r,version=%r))" % (list(lines), ver))
                    break
                # a document valid in one order must be valid in all
                r0 = impl.outcome(lambda: build(lines, ver))
                if r0[0] == 'ok':
                    ctx.violation('failing-input', 'a valid document is rejected in another order of its lines (%s)' % impl.outcome_name(r),
                                  case, 'accepted', impl.outcome_name(r),
                                  python="import gfapy\nfor o in %r:\n  try: print(gfapy.Gfa(o,version=%r))\n  except gfapy.Error as e: print(type(e).__name__)" % (case['orders'], ver))
                break
            G = r[1]
            ob = canon_obs(G)
            if any(x.startswith('L|1|') for x in ob.split('\n')):
                virt = [x for x in ob.split('\n') if x.startswith('L|1|')]
                defined = set(GL.text_name(l.split('\t')) for l in lines)
                # a placeholder for an identifier the document defines
                bad = [x for x in virt if x.split('\t')[1] in defined and x.split('|')[2].startswith(('S\t', '?'))]
                if bad:
                    ctx.violation('failing-input', 'a placeholder remains for an identifier the document defines', case, None, bad[:2])
                    break
            # all references re-pointed: every reference is to a line the Gfa holds, and the back-references mirror them
            inv = GO.check(G)
            if inv:
                ctx.violation('failing-input', 'after reading the whole document in this order: %s' % inv[0][0],
                              {'kind': 'orders', 'version': ver, 'orders': [list(order)]}, inv[0][1], inv[0][2],
                              python="import gfapy\ng=gfapy.Gfa(%r,version=%r)\nfor e in g.lines: print(e, [getattr(getattr(e,f,None),'line',getattr(e,f,None)) for f in e.REFERENCE_FIELDS])" % (list(order), ver))
                break
            if ref is None:
                ref = (order, ob)
            elif ob != ref[1]:
                a, b = set(ref[1].split('\n')), set(ob.split('\n'))
                case = {'kind': 'orders', 'version': ver, 'orders': [list(ref[0]), list(order)]}
                ctx.violation('failing-input', 'two orders of the lines of one document build different graphs', case,
                              sorted(a - b)[:3], sorted(b - a)[:3],
                              python="import gfapy\nfor o in %r:\n  print(gfapy.Gfa(o,version=%r)); print('--')" % (case['orders'], ver))
                break
        ctx.count({'kind': 'doc', 'version': ver, 'doc': lines, 'orders': len(orders)}, fwd)
        ctx.coverage['evaluations'] += len(orders) - 1
        if model_ok:
            for order in orders[:(6 if deep else 3)]:
                trace, G = GL.run_history(ver, 1, [('add', l) for l in order])
                try:
                    terms.append(GL.hist_term(ver, 1, trace))
                    metas.append(({'kind': 'history', 'version': ver, 'vlevel': 1, 'ops': [('add', l) for l in order]}, trace))
                except ValueError:
                    pass
    if model_ok:
        failing, errs = core.coq_eval_cases('C03', 'hist', GL.IMPORTS, 'hist_case', 'check_hist', terms, shard=4)
        for e in errs:
            ctx.broken.append(('correspondence-broken', 'orders: ' + e))
        for i in failing[:3]:
            case, trace = metas[i]
            model, err = GL.show_model('C03', terms[i])
            if model is None:
                ctx.disagree('Model/Graph.v and the implementation disagree on this arrival order (%s)' % err, case, python=GC.py_of(case))
                continue
            k, op, io, mo, a, b = GL.first_difference(trace, model)
            ctx.disagree('Model/Graph.v and the implementation differ after line %d %r of this arrival order: only in impl %r, '
                         'only in model %r' % (k, op, a[:2], b[:2]), dict(case, ops=case['ops'][:k + 1]), python=GC.py_of(case))
        ctx.notes['orders_compared_in_coq'] = len(terms)


def replay(ctx, body):
    case = body.get('case') or {}
    if case.get('kind') == 'orders':
        obs = []
        for o in case['orders']:
            r = impl.outcome(lambda: canon_obs(build(o, case['version'])))
            obs.append(r)
        inv = []
        for o in case['orders']:
            r = impl.outcome(lambda: GO.check(build(o, case['version'])))
            inv += r[1] if r[0] == 'ok' else []
        return len(set(repr(x) for x in obs)) > 1 or any(x[0] != 'ok' for x in obs) or bool(inv)
    return GC.replay_history(ctx, 'C03', body, lambda *a: [])
