"""C16 — connected components and topology counts agree with the graph."""
from .. import core, impl, gen, graphlab as GL, spec_edge as SE
from ..core import cstr, clist, copt
from . import graphcommon as GC

DEPS = GC.DEPS
MODEL_TARGETS = ['Corr/C16c.vo']
IMPORTS = ("From GfaV Require Import Base.Py Model.Codec Model.Graph Model.Topology Proofs.GraphP Corr.Graphc Corr.C16c.")
ASSUMPTIONS = GC.ASSUMPTIONS
LEVEL_TEXT = ("Theorems in coq/Props/C16.v over Model/Topology.v (components and counters computed on the reference semantics of the "
              "graph): the component of a segment is exactly the set of segments joined to it by a chain of dovetail adjacencies; "
              "components are equivalence classes; connected_components covers every segment and its components are pairwise "
              "disjoint; in every state with unique identifiers, resolved mentions and oriented links — in particular every state "
              "reachable inside the guards of C02 — n_dovetails, n_containments and n_internals are the numbers of records of "
              "their class (each record is filed exactly twice; proved through the regenerated collection kernels) — for graphs "
              "of any size. Tie: after every generated history the components, segment_connected_component of a sampled segment "
              "and the four counters of gfapy are compared with the model inside Coq. n_dead_ends is compared, not characterised. "
              "Oracle: union-find over the text of the document, record counts.")
RULE = ("GFA1 and GFA2 graphs: isolated segments, trees, cycles, self-links, hairpins, parallel links, containment-only and "
        "internal-only relations; observed after the document is built and again after 1-4 removals/renames. Non-trivial: >= 2 "
        "components or a cycle/self-link/parallel edge.")


def uf_components(lines):
    parent = {}

    def find(x):
        while parent[x] != x:
            parent[x] = parent[parent[x]]
            x = parent[x]
        return x
    nd = nc = ni = 0
    ends = {}
    for l in lines:
        f = l.split('\t')
        if f[0] == 'S':
            parent[f[1]] = f[1]
            ends[f[1]] = {'L': 0, 'R': 0}
    for l in lines:
        f = l.split('\t')
        pair = None
        if f[0] == 'L':
            pair = (f[1], f[3])
            nd += 1
            ends[f[1]][SE.trailing(f[2])] += 1
            ends[f[3]][SE.leading(f[4])] += 1
        elif f[0] == 'C':
            nc += 1
        elif f[0] == 'E':
            k1 = SE.ikind(SE.parse_pos(f[4]), SE.parse_pos(f[5]))
            k2 = SE.ikind(SE.parse_pos(f[6]), SE.parse_pos(f[7]))
            c = SE.edge_class(f[2][-1], f[3][-1], k1, k2)
            if c == 'L':
                pair = (f[2][:-1], f[3][:-1])
                nd += 1
                ends[f[2][:-1]][SE.end_of(k1)] += 1
                ends[f[3][:-1]][SE.end_of(k2)] += 1
            elif c == 'C':
                nc += 1
            else:
                ni += 1
        if pair and pair[0] in parent and pair[1] in parent:
            a, b = find(pair[0]), find(pair[1])
            parent[a] = b
    comps = {}
    for x in parent:
        comps.setdefault(find(x), []).append(x)
    dead = sum(1 for s in ends for e in 'LR' if ends[s][e] == 0)
    return sorted(sorted(c) for c in comps.values()), nd, nc, ni, dead


def observe(G):
    comps = sorted(sorted(s.name for s in c) for c in G.connected_components())
    return comps, G.n_dovetails, G.n_containments, G.n_internals, G.n_dead_ends


def canon(comps):
    return '|'.join(sorted(','.join(c) for c in comps))


def py_of(case):
    return GC.py_of(case) + "\nprint(sorted(sorted(s.name for s in c) for c in g.connected_components()), g.n_dovetails, g.n_containments, g.n_internals, g.n_dead_ends)"


def gen_case(rng, i):
    ver = 'gfa1' if i % 2 else 'gfa2'
    if ver == 'gfa1':
        lines, info = gen.gen_gfa1(rng, nseg=rng.randint(2, 7), headers=False, comments=False, tags=False, with_paths=i % 4 == 1)
        if i == 1 and not any(l.startswith('P\t') and ',' not in l.split('\t')[2] for l in lines):
            lines.append('P\tp1s\t%s+\t*' % [l.split('\t')[1] for l in lines if l.startswith('S\t')][0])
        lines = [l for l in lines if 'ID:Z:' not in l]
    else:
        kinds = rng.choice([None, ['pfx', 'sfx'], ['whole', 'pfx', 'sfx'], ['inner', 'pfx']])
        lines, info = gen.gen_gfa2(rng, nseg=rng.randint(2, 7), headers=False, comments=False, tags=False, groups=False,
                                   gaps=False, fragments=False, custom=False, edge_kinds=kinds)
    ops = [('add', l) for l in lines]
    segs = [l.split('\t')[1] for l in lines if l.startswith('S\t')]
    for _ in range(rng.choice([0, 0, 1, 2, 4])):
        if segs and rng.random() < 0.7:
            ops.append(('rm', rng.choice(segs)))
        elif segs:
            ops.append(('rename', rng.choice(segs), 'r%d' % rng.randint(0, 50)))
    return {'kind': 'history', 'version': ver, 'vlevel': 1, 'ops': ops}


def judge(case):
    g = impl.gfapy()
    trace, G = GL.run_history(case['version'], 1, case['ops'])
    out = []
    r = impl.outcome(lambda: observe(G))
    if r[0] != 'ok':
        return [('topology queries raised %s' % (r[1],), None, None)], None
    comps, nd, nc, ni, dead = r[1]
    # the records of the document: what was added and not removed.  Placeholders for segments are nodes of the graph; a
    # link that no line of the document states is not a record (the generated documents give every path its links)
    real = [str(x) for x in G.lines if x.record_type != 'H' and not (x.virtual and x.record_type != 'S')]
    text = [t.replace('\tco:Z:GFAPY_virtual_line', '') for t in real]
    want = uf_components(text)
    if comps != want[0]:
        out.append(('connected_components differs from the classes of "joined by a chain of dovetails"', want[0], comps))
    if (nd, nc, ni, dead) != want[1:]:
        out.append(('n_dovetails/n_containments/n_internals/n_dead_ends differ from the record counts', want[1:], (nd, nc, ni, dead)))
    # every segment: its class
    for c in comps:
        for n in c[:2]:
            got = sorted(s.name for s in G.segment_connected_component(n))
            if got != c:
                out.append(('segment_connected_component(%r) is not the class of its argument' % n, c, got))
    return out, (comps, nd, nc, ni, dead)


def run(ctx, deep, model_ok):
    rng = ctx.rng
    n = 250 if deep else 50
    terms, metas = [], []
    for i in range(n):
        case = gen_case(rng, i)
        if GL.known_pattern(case['ops']):
            continue
        r = impl.outcome(lambda: judge(case))
        if r[0] != 'ok':
            ctx.violation('failing-input', 'building the graph / topology queries raised %s' % (r[1],), case, python=py_of(case))
            continue
        fails, ob = r[1]
        nontriv = ob is not None and (len(ob[0]) >= 2 or any(o[0] == 'add' and o[1][0] == 'L' and o[1].split('\t')[1] == o[1].split('\t')[3] for o in case['ops']))
        ctx.count(case, nontriv)
        for what, exp, obs in fails[:1]:
            ctx.violation('failing-input', what, case, exp, obs, python=py_of(case))
        if model_ok and ob is not None and not fails:
            ft, jt = [], []
            ops_t = clist([GL.op_term(o) for o in case['ops']])
            terms.append('(%s, %s, %s, (%d, %d, %d, %d), [], [])' % (cstr(case['version']), ops_t, cstr(canon(ob[0])), ob[1], ob[2], ob[3], ob[4]))
            metas.append(case)
    if model_ok:
        failing, errs = core.coq_eval_cases('C16', 'topo', IMPORTS, 'topo_case', 'check_topo', terms, shard=8)
        for e in errs:
            ctx.broken.append(('correspondence-broken', 'topology: ' + e))
        for i in failing[:3]:
            vals, _ = core.coq_eval_strings('C16', 'showtopo', IMPORTS, ['show_topo %s' % terms[i]])
            ctx.disagree('Model/Topology.v and the implementation disagree on components/counters (model: %s)' % (vals[0][:200] if vals else '?'),
                         metas[i], python=py_of(metas[i]))
        ctx.notes['states_compared_in_coq'] = len(terms)


def replay(ctx, body):
    case = body.get('case') or {}
    if 'ops' not in case:
        return True
    r = impl.outcome(lambda: judge(case))
    return r[0] != 'ok' or bool(r[1][0])
