"""C14 — linear-path merging spells the right sequence and keeps the rest intact."""
import re
from .. import core, impl, gen, graphlab as GL, linelab as LL, spec_linear as SL, graph_oracle as GO
from ..core import cstr, clist, copt
from . import graphcommon as GC

DEPS = GC.DEPS
MODEL_TARGETS = ['Corr/C14c.vo']
IMPORTS = ("From GfaV Require Import Base.Py Model.Codec Model.Graph Model.Linear Proofs.GraphP Corr.C12c Corr.Graphc Corr.C14c.")
ASSUMPTIONS = GC.ASSUMPTIONS + ["GFA1 graphs", "overlaps of chain links are match-only or unspecified", "no hairpin on a chain end (F18)",
                                "LN tags agree with the sequences", "segment names contain no underscore"]
LEVEL_TEXT = ("Theorems in coq/Props/C14.v over Model/Linear.v (chain detection and merged-segment construction on the reference "
              "semantics of the graph; complement table regenerated from gfapy.sequence.WCC and proved equal to an independently stated IUPAC table): what a traversal returns is a chain of "
              "segment ends joined by dovetails that are the only dovetail on both joined ends; its members were unassigned before, "
              "pairwise different and assigned afterwards; the path of a segment is two such chains glued at the segment; the merged "
              "segment is named after the members in order and its LN is the length of its sequence; reverse complement keeps the "
              "length and is an involution on the nucleotide alphabet — for graphs and chains of any size. Tie: linear_paths(), "
              "the merged segment of every returned path (name, sequence, LN, error class) and the whole graph after "
              "merge_linear_paths() (merged segments with their tags, re-attached dovetails, cascade over the members; "
              "merge_path on the reference semantics of the graph) are compared with the model inside Coq. "
              "Every segment that is not a member of the merged chain is in the graph afterwards as it was "
              "(Proofs/MergeFrameP.v: a segment never depends on another line); the dovetails of the chain's two outward ends arrive on "
              "the L and R ends of the merged segment for every orientation (Proofs/RelinkP.v). "
              "PARTIAL: maximality of the chains, re-attachment of the outward dovetails, the other untouched lines, preserved "
              "components and idempotence are decided per generated graph by the independent oracle (spec_linear.py), not proved.")
RULE = ("GFA1 graphs of 3-9 segments built from 1-3 chain blueprints with mixed orientations and link directions, closed into "
        "cycles, with branching and dead-end junctions, extra random links, containments, hairpins; sequences or placeholders "
        "with LN. Non-trivial: at least one chain of two or more segments.")

NAMES = ['A', 'B', 'C', 'D', 'E', 'F', 'G', 'H', 'I']


# hand-made graphs that run first: hairpins on chain ends traversed forwards and in reverse, a cycle with a closing link,
# two chains sharing a junction, members with several dependants
CORPUS = [
    # overlaps whose first operation is not M: every CIGAR letter of GFA1 opens an overlap of a chain
    ['S\tA\tAACCGG', 'S\tB\tCGGTTA', 'S\tC\tTTACC', 'S\tD\tACCAA', 'L\tA\t+\tB\t+\t3=', 'L\tB\t+\tC\t+\t1X2=', 'L\tC\t+\tD\t+\t1I2M1D'],
    ['S\tA\tAACCGG', 'S\tB\tCGGTTA', 'S\tC\tTTACC', 'L\tB\t-\tA\t-\t1D2=1I', 'L\tC\t-\tB\t-\t1S2M', 'L\tC\t+\tC\t-\t2=1X'],
    # ambiguity codes in members traversed in reverse: S and W are their own complements, R/Y, K/M, B/V, D/H swap
    ['S\tA\tASWRK', 'S\tB\tBDNsw', 'S\tC\tMYVHC', 'L\tB\t-\tA\t-\t1M', 'L\tB\t+\tC\t-\t*'],
    # members with and without sequence in one chain (F78): the merged segment has no sequence
    ['S\tA\t*\tLN:i:4', 'S\tB\tGGTT', 'L\tA\t+\tB\t+\t1M'],
    ['S\tA\tAACC', 'S\tB\t*\tLN:i:5', 'S\tC\tACGTA', 'L\tA\t+\tB\t+\t1M', 'L\tC\t-\tB\t-\t2M'],
    ['S\tA\tAACC', 'S\tB\tGGTT', 'L\tB\t+\tA\t-\t2M', 'L\tA\t-\tA\t+\t*'],
    ['S\tA\tAACC', 'S\tB\tGGTT', 'L\tA\t+\tB\t+\t2M', 'L\tB\t+\tB\t-\t1M'],
    ['S\tA\t*\tLN:i:4', 'S\tB\t*\tLN:i:5', 'S\tC\t*\tLN:i:6', 'L\tA\t-\tB\t+\t*', 'L\tC\t-\tB\t-\t2M', 'L\tA\t+\tA\t-\t3M', 'L\tC\t+\tC\t-\t*'],
    ['S\tA\tAACC', 'S\tB\tGGTT', 'S\tC\tACGTA', 'L\tA\t+\tB\t+\t1M', 'L\tB\t+\tC\t+\t1M', 'L\tC\t+\tA\t+\t*'],
    ['S\tA\t*', 'S\tB\t*', 'S\tJ\t*', 'S\tC\t*', 'S\tD\t*', 'L\tA\t+\tB\t+\t*', 'L\tB\t+\tJ\t+\t*', 'L\tC\t-\tD\t-\t*', 'L\tD\t-\tJ\t+\t*'],
    ['S\tA\tAACC', 'S\tB\tGGTT', 'S\tX\t*', 'L\tA\t+\tB\t+\t2M', 'C\tA\t+\tX\t+\t0\t*', 'C\tA\t+\tX\t-\t1\t*', 'C\tX\t+\tB\t+\t0\t*',
     'P\tp\tA+,B+\t2M', 'P\tq\tA+,B+\t*'],
]


def gen_case(rng, i):
    if i < len(CORPUS):
        return {'kind': 'linear', 'version': 'gfa1', 'lines': list(CORPUS[i]),
                'notes': {'chains': 1, 'cycle': False, 'hairpin': True, 'badcigar': False}}
    nseg = rng.randint(3, 9)
    names = rng.sample(NAMES, nseg)
    mode = rng.choice(['seq', 'seq', 'seq', 'none', 'mixed'])      # mixed: members with and without sequence in one graph
    lines = []
    length = {}
    for n in names:
        ln = rng.randint(6, 12)
        length[n] = ln
        withseq = mode == 'seq' or (mode == 'mixed' and rng.random() < 0.6)
        if withseq:
            s = ''.join(rng.choice('ACGT' if rng.random() < 0.7 else 'ACGTNRYKMSWBVDHacgtnswry') for _ in range(ln))
            lines.append('S\t%s\t%s%s' % (n, s, rng.choice(['', '\tLN:i:%d' % ln])))
        else:
            lines.append('S\t%s\t*%s' % (n, rng.choice(['', '\tLN:i:%d' % ln, '\tLN:i:%d' % ln])))
    pool = list(names)
    rng.shuffle(pool)
    links = []
    seen = set()

    def add_link(a, oa, b, ob, ov=None):
        key = (a, oa, b, ob)
        ckey = (b, SL.INV[ob], a, SL.INV[oa])
        if key in seen or ckey in seen:
            return
        seen.add(key)
        if ov is None:
            ov = rng.choice(['*', '%dM' % rng.randint(1, 5), '%dM' % rng.randint(1, 5), '2M1=', '3M'])
        if rng.random() < 0.5:
            links.append('L\t%s\t%s\t%s\t%s\t%s' % (a, oa, b, ob, ov))
        else:
            links.append('L\t%s\t%s\t%s\t%s\t%s' % (b, SL.INV[ob], a, SL.INV[oa], ov))
    notes = {'chains': 0, 'cycle': False, 'hairpin': False, 'badcigar': False}
    ends_used = []
    while len(pool) >= 2 and rng.random() < 0.85:
        k = rng.randint(2, min(5, len(pool)))
        members = [pool.pop() for _ in range(k)]
        orients = [rng.choice('+-') for _ in members]
        for j in range(k - 1):
            add_link(members[j], orients[j], members[j + 1], orients[j + 1])
        notes['chains'] += 1
        r = rng.random()
        if r < 0.15:
            add_link(members[-1], orients[-1], members[0], orients[0])
            notes['cycle'] = True
        elif r < 0.22:
            add_link(members[-1], orients[-1], members[-1], SL.INV[orients[-1]])
            notes['hairpin'] = True
        ends_used.append((members, orients))
    # junctions and extra links
    for _ in range(rng.randint(0, 4)):
        a, b = rng.choice(names), rng.choice(names)
        if a == b and rng.random() < 0.7:
            continue
        add_link(a, rng.choice('+-'), b, rng.choice('+-'))
    if rng.random() < 0.08 and links:
        k = rng.randrange(len(links))
        f = links[k].split('\t')
        f[5] = rng.choice(['2M1D1M', '1I2M'])
        links[k] = '\t'.join(f)
        notes['badcigar'] = True
    lines += links
    for _ in range(rng.randint(0, 4)):
        a, b = rng.sample(names, 2)
        c = 'C\t%s\t+\t%s\t%s\t%d\t3M' % (a, b, rng.choice('+-'), rng.choice([0, 1, 2]))
        if c not in lines:
            lines.append(c)
    # paths over links (several per link): they depend on the links and go when a member goes
    ls = [l.split('\t') for l in links]
    for k in range(rng.randint(0, 3)):
        if ls:
            f = rng.choice(ls)
            lines.append('P\tp%d\t%s%s,%s%s\t%s' % (k, f[1], f[2], f[3], f[4], rng.choice(['*', f[5]])))
    if rng.random() < 0.4:
        head = lines[:nseg]
        tail = lines[nseg:]
        rng.shuffle(tail)
        lines = head + tail
    return {'kind': 'linear', 'version': 'gfa1', 'lines': lines, 'notes': notes}


def py_of(case):
    return ("import gfapy\ng=gfapy.Gfa(version='gfa1')\nfor l in %r: g.add_line(l)\nprint([[str(x) for x in p] for p in g.linear_paths()])\n"
            "try: g.merge_linear_paths()\nexcept Exception as e: print(type(e).__name__, e)\nprint(g)" % (case['lines'],))


def build(case):
    g = impl.gfapy()
    G = g.Gfa(version=case['version'], vlevel=1)
    for l in case['lines']:
        G.add_line(l)
    return G


def ends_of_link(f):
    return (f[1], 'R' if f[2] == '+' else 'L'), (f[3], 'L' if f[4] == '+' else 'R')


def norm_link(e1, e2, ov):
    a, b = sorted([e1, e2])
    return (a, b, ov)


def hairpin_on_chain(doc, chains):
    for chain, cyc in chains:
        members = {n for n, _ in chain}
        for _, e1, e2, _ in doc.links:
            if e1[0] == e2[0] and e1[0] in members:
                return True
    return False


def judge(case):
    """returns (failures, info); info['known'] lists recorded findings met"""
    info = {'known': []}
    out = []
    G = build(case)
    doc = SL.Doc(case['lines'])
    chains = doc.chains()
    info['chains'] = len(chains)
    r = impl.outcome(lambda: [[(x.name, x.end_type) for x in p] for p in G.linear_paths()])
    if r[0] != 'ok':
        return [('linear_paths raised %s' % impl.outcome_name(r), None, None)], info
    got = sorted(SL.canon_chain([n for n, _ in p], False) if True else None for p in r[1])
    want_c = [(SL.canon_chain([n for n, _ in c], cyc), cyc) for c, cyc in chains]
    got_c = []
    for p in r[1]:
        names = [n for n, _ in p]
        cyc = any(set(names) == set(n for n, _ in c) and cy for c, cy in chains)
        got_c.append(SL.canon_chain(names, cyc))
    info['paths'] = r[1]
    if sorted(got_c) != sorted(w for w, _ in want_c):
        out.append(('linear_paths does not return the maximal chains of segments joined by dovetails that are alone on both ends',
                    sorted(w for w, _ in want_c), sorted(got_c)))
        return out, info
    # every returned path must follow the links: consecutive ends joined by the single dovetail
    for p in r[1]:
        for (a, ea), (b, eb) in zip(p, p[1:]):
            if doc.deg.get((a, ea), 0) != 1 or doc.deg.get((b, SL.OTHER[eb]), 0) != 1:
                out.append(('a linear path joins ends that carry more than one dovetail', None, p))
    # the path of one segment, asked directly (several in a row on one Gfa): the chain that holds the segment
    for c, cyc in chains:
        members = set(n for n, _ in c)
        for n in sorted(members)[:3]:
            rp = impl.outcome(lambda: [x.name for x in G.linear_path(n)])
            if rp[0] != 'ok':
                out.append(('linear_path(%r) raised %s' % (n, impl.outcome_name(rp)), sorted(members), None))
            elif set(rp[1]) != members:
                out.append(('linear_path(%r) is not the maximal chain through that segment' % n, sorted(members), rp[1]))
    if out:
        return out, info
    before_comp = impl.outcome(lambda: sorted(sorted(s.name for s in c) for c in G.connected_components()))
    before = [str(x) for x in G.lines]
    bad_cigar = any(SL.cut_of(lk[3]) is None for lk in doc.links if doc.simple(lk))
    m = impl.outcome(lambda: G.merge_linear_paths())
    if m[0] != 'ok':
        if bad_cigar and m[1] == ('gfapy', 'ValueError'):
            return out, info
        if hairpin_on_chain(doc, chains):
            info['known'].append('F18')
            return out, info
        out.append(('merge_linear_paths raised %s' % impl.outcome_name(m), 'no exception', impl.outcome_name(m)))
        return out, info
    inv = GO.check(G)
    if inv:
        out.append(('after merging: ' + inv[0][0], inv[0][1], inv[0][2]))
    after = [str(x) for x in G.lines]
    af = [l.split('\t') for l in after]
    segs_after = {f[1]: f for f in af if f[0] == 'S'}
    member_of = {}
    endmap = {}
    merged_names = []
    chain_links = set()
    for chain, cyc in chains:
        cands = []
        fw = list(chain)
        bw = [(n, SL.OTHER[e]) for n, e in reversed(chain)]
        for seq in (fw, bw):
            rots = range(len(seq)) if cyc else [0]
            for k in rots:
                cands.append(seq[k:] + seq[:k])
        hit = None
        for c in cands:
            nm = '_'.join(n for n, _ in c)
            if nm in segs_after:
                hit = (nm, c)
                break
        if hit is None:
            out.append(('no merged segment named after the chain was created', ['_'.join(n for n, _ in c) for c in cands[:2]],
                        sorted(segs_after)))
            continue
        nm, c = hit
        merged_names.append(nm)
        for n, _ in c:
            member_of[n] = nm
            if n in segs_after:
                out.append(('member %s of a merged chain is still in the graph' % n, None, None))
        for (x, ex), (y, ey) in zip(c, c[1:]):
            chain_links.add(frozenset([(x, ex), (y, SL.OTHER[ey])]))
        endmap[(c[0][0], SL.OTHER[c[0][1]])] = (nm, 'L')
        endmap[(c[-1][0], c[-1][1])] = (nm, 'R')
        sp = SL.spell(doc, c)
        f = segs_after[nm]
        ln = [int(t[5:]) for t in f[3:] if t.startswith('LN:i:')]
        if sp is None:
            out.append(('a chain link with a non-match overlap was merged', 'ValueError', 'no exception'))
        else:
            if f[2] != sp[0]:
                out.append(('the sequence of merged segment %s is not the spelled sequence of the chain' % nm, sp[0], f[2]))
            elif sp[0] != '*' and ln and ln[0] != len(sp[0]):
                out.append(('the LN of merged segment %s disagrees with its sequence' % nm, len(sp[0]), ln[0]))
            elif sp[0] == '*' and sp[1] is not None and ln and ln != [sp[1]]:      # a length, if claimed, is the summed one
                out.append(('the LN of merged segment %s is not the summed length minus the overlaps' % nm, sp[1], ln))
    if out:
        return out, info
    # links: outward links re-attached, chain links gone, everything else as before
    want_links = []
    for lk in doc.links:
        _, e1, e2, ov = lk
        if frozenset([e1, e2]) in chain_links:
            continue
        m1, m2 = endmap.get(e1), endmap.get(e2)
        if (e1[0] in member_of and m1 is None) or (e2[0] in member_of and m2 is None):
            out.append(('a dovetail sits on an inner end of a chain', None, case['lines'][lk[0]]))
            continue
        want_links.append(norm_link(m1 or e1, m2 or e2, ov))
    got_links = [norm_link(*ends_of_link(f), f[5]) for f in af if f[0] == 'L']
    if sorted(want_links) != sorted(got_links):
        out.append(('the dovetails after merging are not the outward dovetails of the chains re-attached to the merged segments plus the untouched ones',
                    sorted(want_links), sorted(got_links)))
    for l in after:
        f = l.split('\t')
        ment = [f[1], f[3]] if f[0] in 'LC' else ([x[:-1] for x in f[2].split(',')] if f[0] == 'P' else [])
        gone = [x for x in ment if x in member_of]
        if gone:
            out.append(('after merging a line still mentions the removed member %s' % gone[0], None, l))
            break
    keep = sorted(l for l in before if l.split('\t')[0] in 'SC' and not any(x in member_of for x in
                  ([l.split('\t')[1]] if l[0] == 'S' else [l.split('\t')[1], l.split('\t')[3]])))
    rest = sorted(l for l in after if l.split('\t')[0] in 'SC' and l.split('\t')[1] not in merged_names)
    if keep != rest:
        out.append(('lines that do not touch a chain changed', keep, rest))
    comp = impl.outcome(lambda: sorted(sorted(s.name for s in c) for c in G.connected_components()))
    if before_comp[0] == 'ok' and comp[0] == 'ok':
        mapped = sorted(sorted(set(member_of.get(n, n) for n in c)) for c in before_comp[1])
        if mapped != comp[1]:
            out.append(('connected components are not preserved by merging', mapped, comp[1]))
    again = impl.outcome(lambda: G.merge_linear_paths())
    if again[0] != 'ok' or sorted(str(x) for x in G.lines) != sorted(after):
        out.append(('merging a second time changes the graph', sorted(after), impl.outcome_name(again) if again[0] != 'ok' else sorted(str(x) for x in G.lines)))
    info['after'] = after
    return out, info


def probe_gfa2():
    """the witness of F55: True when the outward dovetails are lost"""
    g = impl.gfapy()
    G = g.Gfa(version='gfa2', vlevel=1)
    for l in ["S\tA\t8\tACGTACGT", "S\tB\t8\tGGGGCCCC", "S\tC\t8\tTTTTAAAA", "S\tD\t8\t*",
              "E\t*\tA+\tB+\t5\t8$\t0\t3\t3M", "E\t*\tB+\tC-\t6\t8$\t6\t8$\t2M", "E\t*\tC-\tD+\t0\t2\t0\t2\t2M",
              "E\t*\tC-\tA+\t0\t2\t0\t2\t2M"]:
        G.add_line(l)
    G.merge_linear_paths()
    m = G.segment('A_B_C')
    return len(m.dovetails_of_end('R')) != 2


def exn_str(e):
    if e[0] == 'gfapy':
        return e[1]
    return {'TypeError': 'builtins.TypeError', 'ValueError': 'builtins.ValueError'}.get(e[1], e[1])


def case_term(case, paths):
    g = impl.gfapy()
    ms = []
    for p in paths:
        G = build(case)
        before = set(G.segment_names)
        r = impl.outcome(lambda: G.merge_linear_path([g.SegmentEnd(n, e) for n, e in p]))
        if r[0] != 'ok':
            ans = 'err:' + exn_str(r[1])
        else:
            new = [x for x in G.segment_names if x not in before]
            sg = G.segment(new[0])
            ln = sg.get('LN')
            ans = '%s|%s|%s' % (sg.name, sg.sequence, '-' if ln is None else ln)
        ms.append('(%s, %s)' % (clist(['(%s, %s)' % (cstr(n), cstr(e)) for n, e in p]), cstr(ans)))
    ft, jt = [], []
    for l in case['lines']:
        a, b = LL.tables_for(l)
        ft += a
        jt += b
    fts = clist(['(%s, %s)' % (cstr(a), cstr(b)) for a, b in ft])
    jts = clist(['(%s, %s)' % (cstr(a), copt(cstr(b)) if b is not None else 'None') for a, b in jt])
    ops = clist([GL.op_term(('add', l)) for l in case['lines']])
    shown = ';'.join(' '.join('%s:%s' % (n, e) for n, e in p) for p in paths)
    return '(%s, %s, %s, %s, %s, %s)' % (cstr(case['version']), ops, fts, jts, cstr(shown), clist(ms))


def merge_term(case):
    G = build(case)
    paths = [[(x.name, x.end_type) for x in p] for p in G.linear_paths()]
    r = impl.outcome(lambda: G.merge_linear_paths())
    if r[0] != 'ok':
        after = 'err:' + exn_str(r[1])
    else:
        after = GL.impl_obs(G)
    ft, jt = [], []
    for l in case['lines']:
        a, b = LL.tables_for(l)
        ft += a
        jt += b
    fts = clist(['(%s, %s)' % (cstr(a), cstr(b)) for a, b in ft])
    jts = clist(['(%s, %s)' % (cstr(a), copt(cstr(b)) if b is not None else 'None') for a, b in jt])
    ops = clist([GL.op_term(('add', l)) for l in case['lines']])
    ps = clist([clist(['(%s, %s)' % (cstr(n), cstr(e)) for n, e in p]) for p in paths])
    return '(%s, %s, %s, %s, %s, %s)' % (cstr(case['version']), ops, fts, jts, ps, cstr(after))


def run(ctx, deep, model_ok):
    rng = ctx.rng
    n = 400 if deep else 60
    terms, metas = [], []
    r = impl.outcome(probe_gfa2)
    if r[0] != 'ok' or r[1]:
        ctx.known('F55', 'merging a linear path of a GFA2 graph keeps the coordinates of the old segment on the re-attached edges: '
                         'E * C- D+ 0 2 0 2 becomes E * A_B_C+ D+ 0 2 0 2 (a prefix of the merged segment) and the merged segment '
                         'loses its outward dovetails')
    for i in range(n):
        case = gen_case(rng, i)
        r = impl.outcome(lambda: judge(case))
        if r[0] != 'ok':
            ctx.violation('failing-input', 'running the case raised %s' % (r[1],), case, python=py_of(case))
            continue
        fails, info = r[1]
        ctx.count(case, info.get('chains', 0) > 0)
        for what, exp, ob in fails[:1]:
            ctx.violation('failing-input', what, case, exp, ob, python=py_of(case))
        for k in info['known'][:1]:
            ctx.known(k, 'recorded finding met in a generated case')
        if model_ok and not fails and 'paths' in info:
            try:
                terms.append(case_term(case, info['paths']))
                metas.append(case)
            except ValueError:
                pass
    if model_ok:
        failing, errs = core.coq_eval_cases('C14', 'lin', IMPORTS, 'lin_case', 'check_lin', terms, shard=8)
        for e in errs:
            ctx.broken.append(('correspondence-broken', 'linear paths: ' + e))
        for i in failing[:3]:
            vals, _ = core.coq_eval_strings('C14', 'showlin', IMPORTS, ['show_lin %s' % terms[i]])
            ctx.disagree('Model/Linear.v and gfapy disagree on linear_paths or on a merged segment (model: %s)' % (vals[0][:300] if vals else '?'),
                         metas[i], python=py_of(metas[i]))
        ctx.notes['graphs_compared_in_coq'] = len(terms)
        # the whole graph after merging
        mterms, mmetas = [], []
        for case in metas:
            try:
                t = merge_term(case)
            except ValueError:
                continue
            if t is not None:
                mterms.append(t)
                mmetas.append(case)
        failing, errs = core.coq_eval_cases('C14', 'merge', IMPORTS, 'merge_case', 'check_merge', mterms, shard=8)
        for e in errs:
            ctx.broken.append(('correspondence-broken', 'merged graphs: ' + e))
        for i in failing[:3]:
            vals, _ = core.coq_eval_strings('C14', 'showmerge', IMPORTS, ['show_merge %s' % mterms[i]])
            G = build(mmetas[i])
            impl.outcome(lambda: G.merge_linear_paths())
            a, b = set(GL.impl_obs(G).split('\n')), set((vals[0] if vals else '').split('\n'))
            ctx.disagree('Model/Linear.v (merge_path) and merge_linear_paths() build different graphs: rows only in impl %r, only in model %r'
                         % (sorted(a - b)[:3], sorted(b - a)[:3]), mmetas[i], python=py_of(mmetas[i]))
        ctx.notes['merged_graphs_compared_in_coq'] = len(mterms)


def replay(ctx, body):
    case = body.get('case') or {}
    if 'lines' not in case:
        return True
    r = impl.outcome(lambda: judge(case))
    return r[0] != 'ok' or bool(r[1][0])
