"""Shared driver of the history-based properties (C02, C05, C08, C09): run generated histories on the
implementation, judge every step with the property's oracle, and compare the whole trace with Model/Graph.v."""
from .. import core, impl, gen, graphlab as GL, graph_oracle as GO

DEPS = ['Tables', 'Regexes', 'K_cigar', 'K_edge2', 'K_fromto', 'K_numarr']
MODEL_TARGETS = ['Corr/Graphc.vo']
ASSUMPTIONS = ["explicit version (the unknown-version queue is C13)", "7-bit text",
               "domain guards of the theorems: no L/C line carries an ID tag (F17), no gap is listed in a set (F28), "
               "a placeholder standing for a segment is not replaced by another record type (F49), no line mentions its "
               "own identifier, path steps are unambiguous (F30)"]


KNOWN_TEXT = {
    'F17': 'an L/C line carrying an ID tag is outside the duplicate search',
    'F28': 'a gap listed in a set is not a dependant of the gap',
    'F49': 'an identifier mentioned as a segment is defined by a line of another record type, which replaces the segment placeholder',
    'F50': 'a line mentions its own identifier: a placeholder and the line end up under one identifier',
    'F51': 'a line mentions, where a segment is required, the identifier of a non-segment line: the addition raises '
           'NotUniqueError after back-references were stored',
}


def py_of(case):
    return ("import gfapy\ng=gfapy.Gfa(version=%r,vlevel=%d)\nfor op in %r:\n  try:\n    if op[0]=='add': g.add_line(op[1])\n"
            "    elif op[0]=='rm': g.rm(op[1])\n    elif op[0]=='rmline': g.rm([x for x in g.lines if str(x)==op[1]][0])\n    elif op[0]=='rmlast': g.rm([x for x in g.lines if str(x)==op[1]][-1])\n    else: g.try_get_line(op[1]).name=op[2]\n"
            "  except gfapy.Error as e: print(op, type(e).__name__)\nprint(g)" % (case['version'], case['vlevel'], case['ops']))


def shrink(case, fails_fn):
    """delta debugging over the operations (keeps the last one)"""
    ops = list(case['ops'])
    i = 0
    while i < len(ops) - 1 and len(ops) > 1:
        trial = ops[:i] + ops[i + 1:]
        c2 = dict(case, ops=trial)
        if fails_fn(c2):
            ops = trial
        else:
            i += 1
    return dict(case, ops=ops)


def _adds(lines):
    return [('add', l) for l in lines]


# hand-made histories that run first on every check: shapes in which one removal deletes several entries of one
# back-reference list (hairpins next to other links, an item listed twice, nested sets, a segment visited twice by a path)
CORPUS = [
    ('gfa1', _adds(['S\tA\t*', 'S\tB\t*', 'L\tA\t+\tB\t+\t*', 'L\tA\t+\tA\t-\t*']) + [('rm', 'A')]),
    ('gfa1', _adds(['S\tA\t*', 'S\tB\t*', 'L\tA\t+\tA\t-\t*', 'L\tA\t+\tB\t+\t*', 'L\tB\t-\tA\t-\t3M']) + [('rm', 'A')]),
    ('gfa1', _adds(['S\tA\t*', 'S\tB\t*', 'L\tA\t+\tB\t+\t*', 'L\tB\t+\tA\t+\t*', 'P\tp\tA+,B+,A+\t*,*']) + [('rm', 'A')]),
    ('gfa1', _adds(['S\tA\t*', 'S\tB\t*', 'L\tA\t+\tB\t+\t*', 'P\tp\tA+,B+\t*', 'P\tq\tA+,B+\t*', 'C\tA\t+\tB\t+\t0\t*']) + [('rm', 'B'), ('rm', 'A')]),
    ('gfa2', _adds(['S\tA\t10\t*', 'S\tB\t10\t*', 'U\tu1\tA A B']) + [('rm', 'A')]),
    ('gfa2', _adds(['S\tA\t10\t*', 'U\tu2\tu1 A', 'U\tu1\tA']) + [('rm', 'A')]),
    ('gfa2', _adds(['S\tA\t10\t*', 'U\tu1\tA', 'U\tu2\tu1 A', 'U\tu3\tu2 u1 A']) + [('rm', 'A')]),
    ('gfa2', _adds(['S\tA\t10\t*', 'S\tB\t10\t*', 'E\te1\tA+\tB+\t7\t10$\t0\t3\t*', 'E\te2\tA+\tA-\t7\t10$\t7\t10$\t*',
                    'O\to1\tA+ e1+ B+', 'U\tu1\te1 e2 o1']) + [('rm', 'A')]),
    ('gfa2', _adds(['S\tA\t10\t*', 'S\tB\t10\t*', 'G\tg1\tA+\tA-\t5\t*', 'G\tg2\tA+\tB+\t5\t*', 'F\tA\tr1+\t0\t3\t0\t3\t*',
                    'F\tA\tr1+\t5\t8\t0\t3\t*']) + [('rm', 'A')]),
    ('gfa2', _adds(['S\tA\t10\t*', 'S\tB\t10\t*', 'E\te1\tA+\tB+\t7\t10$\t0\t3\t*', 'O\to1\te1+ B+ e1- A+']) + [('rm', 'e1')]),
    # edges, gaps and groups give their identifier up for the placeholder; the identifier is free afterwards
    ('gfa2', _adds(['S\tA\t10\t*', 'S\tB\t10\t*', 'E\te1\tA+\tB+\t7\t10$\t0\t3\t*', 'G\tg1\tA+\tB-\t5\t*', 'U\tu1\tA B', 'O\to1\tA+ B+'])
     + [('rename', 'e1', '*'), ('rename', 'g1', '*'), ('rename', 'u1', '*'), ('rename', 'o1', '*'),
        ('add', 'G\te1\tB+\tA-\t1\t*'), ('add', 'U\tg1\tA'), ('rename', 'A', 'u1')]),
    # the complement of a stored link whose overlap is not its own complement adds nothing and raises nothing
    ('gfa1', _adds(['S\tA\t*', 'S\tB\t*', 'L\tA\t+\tB\t+\t3M1I2M', 'L\tB\t-\tA\t-\t2M1D3M', 'L\tA\t-\tA\t+\t1M1D', 'L\tA\t-\tA\t+\t1I1M',
                    'L\tB\t-\tA\t-\t2M1D3M', 'L\tA\t+\tB\t+\t3M1I2M'])),
    # a link with an unspecified overlap under paths that quote an overlap, along and against the link; the link goes
    ('gfa1', _adds(['S\ta\t*', 'S\tb\t*', 'L\ta\t+\tb\t+\t*', 'P\tfwd\ta+,b+\t4M', 'P\trev\tb-,a-\t4M', 'P\tany\tb-,a-\t*'])
     + [('rmline', 'L\ta\t+\tb\t+\t*'), ('add', 'L\tb\t-\ta\t-\t4M')]),
    # lines without identifier that say the same twice: both are records, both go with their segment
    ('gfa2', _adds(['S\tA\t10\t*', 'S\tB\t10\t*', 'E\t*\tA+\tB+\t7\t10$\t0\t3\t*', 'E\t*\tA+\tB+\t7\t10$\t0\t3\t*', 'G\t*\tA+\tB-\t5\t*', 'G\t*\tA+\tB-\t5\t*',
                    'F\tA\tr+\t0\t3\t0\t3\t*', 'F\tA\tr+\t0\t3\t0\t3\t*', 'E\t*\tB+\tB-\t7\t10$\t7\t10$\t*'])
     + [('rm', 'A'), ('rm', 'B')]),
    ('gfa1', _adds(['S\tA\t*', 'S\tB\t*', 'C\tA\t+\tB\t+\t0\t*', 'C\tA\t+\tB\t+\t0\t*', 'L\tA\t+\tA\t-\t*', 'L\tB\t-\tB\t-\t*']) + [('rm', 'B'), ('rm', 'A')]),
    # two paths over one hairpin step, read before the link; the second quotes the complement overlap (F71)
    ('gfa1', _adds(['P\tp1\tx+,x-\t*', 'S\tx\t*', 'P\tp0\tx+,x-\t5D1I1D', 'L\tx\t+\tx\t-\t1I1D5I'])),
    ('gfa1', _adds(['P\tp1\tx-,x+\t3I5I3P', 'P\tp0\tx-,x+\t*', 'S\tx\t*\tLN:i:20', 'L\tx\t-\tx\t+\t3P5D3D'])),
    # groups of the two kinds do not merge with each other; groups of one kind do
    ('gfa2', _adds(['S\tA\t10\t*', 'S\tB\t10\t*', 'U\tg\tA B', 'O\tg\tA+', 'O\to\tA+', 'U\to\tA', 'U\tg\tB\txx:i:1', 'O\to\tA-',
                    'E\tg\tA+\tB+\t7\t10$\t0\t3\t*', 'S\to\t5\t*'])),
    # a name first met in a group, then a fragment on it, then the segment itself; fragments go by instance
    ('gfa2', _adds(['U\tu1\tx y', 'F\tx\tr1+\t0\t3\t0\t3\t*', 'F\tx\tr2-\t0\t3\t0\t3\t*', 'S\tx\t10\t*', 'F\ty\tr1+\t0\t3\t0\t3\t*'])
     + [('rmline', 'F\tx\tr1+\t0\t3\t0\t3\t*'), ('rm', 'x'), ('rmline', 'F\ty\tr1+\t0\t3\t0\t3\t*'), ('add', 'S\ty\t10\t*')]),
    ('gfa2', _adds(['S\tA\t10\t*', 'S\tB\t10\t*', 'F\tA\tr1+\t0\t3\t0\t3\t*', 'F\tB\tr1-\t0\t3\t0\t3\t*', 'F\tA\tr2+\t0\t3\t0\t3\t*',
                    'E\t*\tA+\tB+\t7\t10$\t0\t3\t*', 'G\t*\tA+\tB-\t5\t*'])
     + [('rmline', 'F\tA\tr1+\t0\t3\t0\t3\t*'), ('rmline', 'E\t*\tA+\tB+\t7\t10$\t0\t3\t*'), ('rmline', 'G\t*\tA+\tB-\t5\t*'),
        ('rmline', 'nothing like this'), ('rm', 'B')]),
    ('gfa1', _adds(['S\tA\t*', 'S\tB\t*', 'L\tA\t+\tB\t-\t*', 'C\tA\t+\tB\t+\t0\t*', 'P\tp\tA+,B-\t*'])
     + [('rmline', 'C\tA\t+\tB\t+\t0\t*'), ('rmline', 'L\tA\t+\tB\t-\t*'), ('rmline', 'L\tA\t+\tB\t-\t*')]),
    # two records written alike: the later one is removed by instance, then the segment; nothing that mentions it stays
    ('gfa1', _adds(['S\tA\t*', 'S\tB\t*', 'C\tA\t+\tB\t+\t0\t*', 'C\tA\t+\tB\t+\t0\t*', 'L\tA\t+\tB\t+\t*'])
     + [('rmlast', 'C\tA\t+\tB\t+\t0\t*'), ('rm', 'B')]),
    ('gfa2', _adds(['S\tA\t10\t*', 'S\tB\t10\t*', 'F\tA\tr1+\t0\t3\t0\t3\t*', 'F\tA\tr1+\t0\t3\t0\t3\t*',
                    'E\t*\tA+\tB+\t7\t10$\t0\t3\t*', 'E\t*\tA+\tB+\t7\t10$\t0\t3\t*', 'G\t*\tA+\tB-\t5\t*', 'G\t*\tA+\tB-\t5\t*'])
     + [('rmlast', 'F\tA\tr1+\t0\t3\t0\t3\t*'), ('rmlast', 'E\t*\tA+\tB+\t7\t10$\t0\t3\t*'), ('rmlast', 'G\t*\tA+\tB-\t5\t*'), ('rm', 'A')]),
    # two spellings of the same largest integer as identifiers: one of them goes (removed, renamed); an identifier handed
    # out afterwards is still not in use
    ('gfa1', _adds(['S\ta\t*', 'S\t7\t*', 'S\t07\t*', 'L\ta\t+\t7\t+\t*']) + [('rm', '07'), ('add', 'S\t007\t*'), ('rename', '007', 'x'), ('rm', '7')]),
    ('gfa2', _adds(['S\t3\t10\t*', 'S\tb\t10\t*', 'E\t03\t3+\tb+\t7\t10$\t0\t3\t*'])
     + [('rename', '03', 'e'), ('add', 'G\t003\t3+\tb-\t5\t*'), ('rm', '003'), ('add', 'U\t03\t3 b'), ('rename', '3', 'c')]),
    # a gap named by groups before its G line arrives: the groups refer to the gap afterwards, not to the stand-in
    # (the gap is not removed here: what a removed gap leaves in a set is the recorded finding F28)
    ('gfa2', _adds(['S\tA\t5\t*', 'S\tB\t5\t*', 'U\tu\tA g', 'G\tg\tA+\tB+\t5\t*', 'U\tv\tg u']) + [('rename', 'A', 'n1'), ('rename', 'g', 'g2'), ('rm', 'v')]),
    ('gfa2', _adds(['U\tu\tA g', 'O\to\tA+ g+ B+', 'G\tg\tA+\tB+\t5\t*', 'S\tA\t5\t*', 'S\tB\t5\t*']) + [('rename', 'B', 'n2'), ('rename', 'g', 'h'), ('rm', 'u')]),
    # lines that arrive before the segments they mention, then a rename of such a segment
    ('gfa1', _adds(['C\tA\t+\tB\t+\t0\t*', 'L\tA\t+\tB\t-\t*', 'P\tp\tA+,B-\t*', 'S\tA\t*', 'S\tB\t*']) + [('rename', 'A', 'n1'), ('rename', 'B', 'n2')]),
    ('gfa1', _adds(['C\tA\t-\tB\t+\t2\t3M', 'S\tB\t*', 'S\tA\t*']) + [('rename', 'B', 'n1'), ('rm', 'A')]),
    ('gfa2', _adds(['E\te1\tA+\tB+\t7\t10$\t0\t3\t*', 'G\tg1\tA+\tB-\t5\t*', 'F\tA\tr1+\t0\t3\t0\t3\t*', 'U\tu1\tA e1', 'O\to1\tA+ B+',
                    'S\tA\t10\t*', 'S\tB\t10\t*']) + [('rename', 'A', 'n1'), ('rename', 'e1', 'n2'), ('rename', 'B', 'n3')]),
    ('gfa1', _adds(['S\tA\t*', 'S\tB\t*', 'L\tA\t+\tB\t+\t*', 'P\tp\tA+,B+\t*']) + [('rename', 'A', 'a b'), ('rename', 'B', 'A'), ('rename', 'B', 'y+,z')], 3),
    ('gfa2', _adds(['S\tA\t10\t*', 'S\tB\t10\t*', 'E\te1\tA+\tB+\t7\t10$\t0\t3\t*', 'U\tu1\tA e1']) + [('rename', 'A', 'a b'), ('rename', 'e1', 'A'), ('rename', 'u1', '')], 3),
]


def run_histories(ctx, prop, deep, model_ok, n_quick, n_deep, step_oracle, nontrivial, gen_ops=None, known=None):
    """step_oracle(G, op, outcome, obs_before, obs_after, removed) -> list of (what, expected, observed)"""
    g = impl.gfapy()
    rng = ctx.rng
    n = n_deep if deep else n_quick
    terms, metas = [], []
    for i in range(-len(CORPUS), n):
        if i < 0:
            entry = CORPUS[i + len(CORPUS)]
            ver, ops = entry[0], entry[1]
            vl = entry[2] if len(entry) > 2 else 1
        else:
            ver = 'gfa1' if i % 2 else 'gfa2'
            vl = rng.choice([1, 1, 2, 3])
            ops = (gen_ops or GL.gen_history)(rng, ver)
        case = {'kind': 'history', 'version': ver, 'vlevel': vl, 'ops': ops}
        ctx.count(case, nontrivial(ops))
        kp = GL.known_pattern(ops)
        if kp is not None:
            # outside the domain of the theorems in a recorded way: witnessed, not re-reported
            ctx.known(kp[0], KNOWN_TEXT.get(kp[0], kp[0]) + ' [pattern met in a generated history; such histories are outside the guards]')
            continue
        fails = judge_history(case, step_oracle)
        if fails:
            def still(c):
                return bool(judge_history(c, step_oracle))
            small = shrink(dict(case, ops=case['ops'][:fails[0][3] + 1]), still)
            f2 = judge_history(small, step_oracle) or fails
            ctx.violation('failing-input', f2[0][0], small, f2[0][1], f2[0][2], python=py_of(small))
            continue
        if model_ok:
            trace, G = GL.run_history(ver, vl, ops)
            try:
                terms.append(GL.hist_term(ver, vl, trace))
                metas.append((case, trace))
            except ValueError:
                pass
    if model_ok:
        failing, errs = core.coq_eval_cases(prop, 'hist', GL.IMPORTS, 'hist_case', 'check_hist', terms, shard=4)
        for e in errs:
            ctx.broken.append(('correspondence-broken', 'histories: ' + e))
        for i in failing[:3]:
            case, trace = metas[i]
            model, err = GL.show_model(prop, terms[i])
            if model is None:
                ctx.disagree('Model/Graph.v and the implementation disagree on this history (%s)' % err, case, python=py_of(case))
                continue
            k, op, io, mo, a, b = GL.first_difference(trace, model)
            c2 = dict(case, ops=case['ops'][:k + 1])
            ctx.disagree('Model/Graph.v (reference semantics, about which Props/%s.v is proved) and the implementation differ '
                         'after operation %d %r: outcome impl=%s model=%s; observation rows only in impl %r, only in model %r'
                         % (prop, k, op, io, mo, a[:2], b[:2]), c2, python=py_of(c2))
        ctx.notes['histories_compared_in_coq'] = len(terms)
        ctx.notes['operations_compared_in_coq'] = sum(len(m[0]['ops']) for m in metas)


def judge_history(case, step_oracle):
    """returns [(what, expected, observed, step index)]"""
    g = impl.gfapy()
    G = g.Gfa(version=case['version'], vlevel=case['vlevel'])
    removed = []
    for k, op in enumerate(case['ops']):
        before_lines = list(G.lines)
        ob = impl.value_or(lambda: GL.impl_obs(G), 'OBS-ERROR')
        r = GL.apply_op(G, op)
        oa = impl.outcome(lambda: GL.impl_obs(G))
        if oa[0] != 'ok':
            return [('reading the Gfa after %r raised %s' % (op, oa[1]), None, None, k)]
        now = {id(x) for x in G.lines}
        removed += [x for x in before_lines if id(x) not in now]
        if r[0] != 'ok' and r[1][0] != 'gfapy':
            return [('operation %r raised a foreign exception' % (op,), 'gfapy.Error', impl.outcome_name(r), k)]
        fails = step_oracle(G, op, r, ob, oa[1], removed)
        if fails:
            return [(w, e, o, k) for (w, e, o) in fails[:1]]
    return []


def replay_history(ctx, prop, body, step_oracle):
    case = body.get('case') or {}
    if 'ops' not in case:
        return True
    if judge_history(case, step_oracle):
        return True
    trace, G = GL.run_history(case['version'], case['vlevel'], case['ops'])
    failing, errs = core.coq_eval_cases(prop, 'replay', GL.IMPORTS, 'hist_case', 'check_hist',
                                        [GL.hist_term(case['version'], case['vlevel'], trace)])
    return bool(failing or errs)
