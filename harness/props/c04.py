"""C04 — validation accepts exactly the documents the GFA grammar allows."""
import itertools

from .. import core, impl, gen, fieldlab as FL, linelab as LL, grammar as GR
from ..core import cstr

DEPS = ['Regexes', 'Tables', 'K_numarr', 'K_cigar', 'K_narange']
MODEL_TARGETS = ['Corr/Codecc.vo', 'Corr/Linec.vo']
LEVEL_TEXT = ("Theorems in coq/Props/C04.v: every regular expression read from gfapy's re.* call sites (regenerated on every "
              "run) equals, term for term, the grammar written from the specification (34 expressions); for the 15 "
              "datatypes whose grammar is a regular expression with side conditions the safe decoder accepts s iff s is in "
              "the grammar, for all strings of any length; F23 (`$` accepts a trailing newline) is exhibited as a refutation "
              "outside the guard. Partial: the procedural decoders (alignments, numeric arrays, oriented identifiers) and "
              "the line/document rules are not proved equal to the grammar; they are modelled (Model/Codec.v, Model/Line.v) "
              "and compared with the implementation inside Coq — acceptance of every string up to length 3/4 over "
              "per-datatype alphabets (complete), generated lines and their single-point mutants — and decided on the "
              "implementation against an independent recogniser (harness/grammar.py), including cross-field rules, "
              "undefined references and rGFA restrictions.")
RULE = ("exhaustive: all strings up to length 3 (quick) / 4 (thorough) over a 5-11 character alphabet per datatype, for all "
        "27 datatypes; generated GFA1/GFA2 lines x validation levels 1..3 x explicit/implicit version and three "
        "single-point mutants (delete/insert/replace a character) of each; documents with one undefined reference; rGFA "
        "documents and mutants. Non-trivial: rejected by the recogniser, or one edit away from a valid input.")
ASSUMPTIONS = ["7-bit characters", "JSON well-formedness is Python's json module on both sides (oracle)",
               "line-level acceptance = Line(text, vlevel>=1) succeeds, validate() succeeds and str() carries no INVALID marker"]

F23_WITNESS = ('i', '5\n')


def impl_line_ok(text, vlevel, version):
    g = impl.gfapy()

    def build():
        x = g.Line(text, vlevel=vlevel, version=version)
        x.validate()
        s = str(x)
        if 'INVALID' in s:
            raise g.FormatError('flagged invalid when written')
        return s
    return impl.outcome(build)


def mutants(rng, l, k=3):
    out = []
    f = l.split('\t')
    if len(f) > 1 and not l.startswith('#'):
        m = rng.choice(['dup', 'drop', 'swap', 'trunc', 'retype', 'rt', 'duptagname'])
        i = rng.randrange(1, len(f))
        if m == 'dup':
            out.append('\t'.join(f[:i + 1] + [f[i]] + f[i + 1:]))
            out.append('\t'.join(f + [f[-1]]))
        elif m == 'drop':
            out.append('\t'.join(f[:i] + f[i + 1:]))
        elif m == 'swap' and len(f) > 2:
            j = rng.randrange(1, len(f))
            g2 = list(f)
            g2[i], g2[j] = g2[j], g2[i]
            out.append('\t'.join(g2))
        elif m == 'trunc':
            out.append('\t'.join(f[:i]))
        elif m == 'retype':
            tags = [x for x in range(1, len(f)) if len(f[x]) > 4 and f[x][2] == ':' and f[x][4] == ':']
            if tags:
                x = rng.choice(tags)
                g2 = list(f)
                g2[x] = f[x][:3] + rng.choice('AifZJHB') + f[x][4:]
                out.append('\t'.join(g2))
        elif m == 'rt':
            out.append('\t'.join([rng.choice('SLCPEGFOUHX')] + f[1:]))
        else:
            tags = [x for x in range(1, len(f)) if len(f[x]) > 4 and f[x][2] == ':' and f[x][4] == ':']
            if tags:
                x = rng.choice(tags)
                out.append('\t'.join(f + [f[x][:2] + ':i:1']))
    for _ in range(k):
        if not l:
            break
        i = rng.randrange(len(l))
        m = rng.choice(['del', 'ins', 'rep'])
        c = rng.choice('\t:*+-,A1 $xZ=.')
        out.append(l[:i] + l[i + 1:] if m == 'del' else (l[:i] + c + l[i:] if m == 'ins' else l[:i] + c + l[i + 1:]))
    return out


def cross_mutants(l, ver):
    """variants of a valid line that touch one cross-field rule each: LN against the sequence, the number of overlaps
    of a path against its segments, begin/end order and `$` of intervals"""
    f = l.split('\t')
    out = []
    if f[0] == 'S' and ver == 'gfa1' and len(f) >= 3:
        rest = [t for t in f[3:] if not t.startswith('LN:')]
        n = len(f[2]) if f[2] != '*' else 7
        for v in (0, n, n + 1, max(n - 1, 0)):
            out.append('\t'.join(f[:3] + ['LN:i:%d' % v] + rest))
    if f[0] == 'P' and len(f) >= 4:
        n = len(f[2].split(','))
        for k in (n - 2, n - 1, n, n + 1):
            if k >= 1:
                out.append('\t'.join(f[:3] + [','.join(['*'] * k)] + f[4:]))
                out.append('\t'.join(f[:3] + [','.join(['1M'] * k)] + f[4:]))
    if f[0] in ('E', 'F') and len(f) >= 8:
        i0 = 4 if f[0] == 'E' else 3
        for i in (i0, i0 + 2):
            b, e = f[i], f[i + 1]
            out.append('\t'.join(f[:i] + [e.rstrip('$'), b.rstrip('$')] + f[i + 2:]))          # swapped
            out.append('\t'.join(f[:i] + [b.rstrip('$') + '$', e.rstrip('$')] + f[i + 2:]))    # `$` on begin only
            out.append('\t'.join(f[:i] + [e.rstrip('$') + '$', e.rstrip('$') + '$'] + f[i + 2:]))
    # alignments: operations of the other version after a first operation both versions share; traces; leading zeros
    ai = {'L': 5, 'C': 6, 'E': 8, 'F': 7}.get(f[0])
    if ai is not None and len(f) > ai:
        for a in ('8M2S', '4M2=4M', '3M1X', '2M1N1M', '1M1H', '2M1P', '2M1D1I', '1,2,3', '12', '0M', 'M', '1M,2M', '*'):
            out.append('\t'.join(f[:ai] + [a] + f[ai + 1:]))
    return [x for x in out if x != l]


def oracle_line(case):
    """line-level: gfapy accepts iff the independent recogniser does"""
    t, ver, vl = case['text'], case['version'], case['vlevel']
    ok, why = GR.valid_line(t, ver)
    r = impl_line_ok(t, vl, ver)
    acc = r[0] == 'ok'
    out = []
    if acc != ok:
        # begin/end order of E lines is checked when the line joins a Gfa (decided in oracle_doc)
        if acc and t.startswith('E\t') and why in ('begin > end', '$ on begin only'):
            return out
        out.append(('gfapy %s a line the grammar %s (%s)' % ('accepts' if acc else 'rejects', 'rejects' if acc else 'accepts', why or impl.outcome_name(r)),
                    'accepted' if ok else 'rejected', 'accepted' if acc else impl.outcome_name(r)))
    if not acc and r[1][0] != 'gfapy':
        out.append(('a malformed line raised a foreign exception', 'gfapy.Error', impl.outcome_name(r)))
    return out


def oracle_doc(case):
    """document-level rules: undefined references, position order of E lines, rGFA"""
    g = impl.gfapy()
    out = []
    kw = {'vlevel': case.get('vlevel', 1)}
    if case.get('dialect'):
        kw['dialect'] = case['dialect']
    r = impl.outcome(lambda: (lambda G: (G.validate(), str(G))[1])(g.Gfa(case['doc'], **kw)))
    acc = r[0] == 'ok' and 'INVALID' not in r[1]
    if acc != case['valid']:
        out.append(('document %s although it is %s: %s' % ('accepted' if acc else 'rejected (%s)' % impl.outcome_name(r),
                                                              'valid' if case['valid'] else 'invalid', case['why']),
                    'accepted' if case['valid'] else 'rejected', 'accepted' if acc else impl.outcome_name(r)))
    if not acc and r[0] != 'ok' and r[1][0] != 'gfapy':
        out.append(('an invalid document raised a foreign exception', 'gfapy.Error', impl.outcome_name(r)))
    return out


def py_of(case):
    if case['kind'] == 'line':
        return ("import gfapy\nl=gfapy.Line(%r,vlevel=%d,version=%r); l.validate(); print(str(l))"
                % (case['text'], case['vlevel'], case['version']))
    if case['kind'] == 'doc':
        return ("import gfapy\ng=gfapy.Gfa(%r,vlevel=%d%s); g.validate(); print(g)"
                % (case['doc'], case.get('vlevel', 1), (",dialect=%r" % case['dialect']) if case.get('dialect') else ''))
    return "import gfapy\nprint(gfapy.Field._parse_gfa_field(%r,%r))" % (case.get('string'), case.get('datatype'))


def judge(ctx, case, fails):
    for what, exp, obs in fails[:1]:
        ctx.violation('failing-input', what, case, exp, obs, python=py_of(case))


def rgfa_doc(rng):
    n = rng.randint(1, 4)
    names = ['s%d' % i for i in range(n)]
    lines = ['S\t%s\t%s\tSN:Z:chr1\tSO:i:%d\tSR:i:0' % (x, gen.rand_seq(rng, 5), 5 * i) for i, x in enumerate(names)]
    for i in range(n - 1):
        l = 'L\t%s\t+\t%s\t%s\t0M' % (names[i], names[i + 1], rng.choice('+-'))
        if rng.random() < 0.5:
            l += '\tSR:i:1\tL1:i:3\tL2:i:4'
        lines.append(l)
    return lines


def rgfa_mutations(lines):
    """(document, valid?, why)"""
    out = [(lines, True, 'valid rGFA')]
    out.append((['H\tVN:Z:1.0'] + lines, False, 'rGFA does not allow header lines'))
    out.append((lines + ['P\tp\t%s+\t*' % lines[0].split('\t')[1]], False, 'rGFA does not allow paths'))
    if len(lines) > 1 and any(l.startswith('L') for l in lines):
        a = lines[0].split('\t')[1]
        b = [l for l in lines if l.startswith('S')][1].split('\t')[1]
        out.append((lines + ['C\t%s\t+\t%s\t+\t0\t*' % (a, b)], False, 'rGFA does not allow containments'))
        out.append(([l.replace('\t0M', '\t1M') if l.startswith('L') else l for l in lines], False, 'rGFA overlaps must be 0M'))
        out.append(([l.replace('SR:i:1', 'SR:Z:1') if l.startswith('L') else l for l in lines],
                    not any('SR:i:1' in l for l in lines if l.startswith('L')), 'rGFA link tag SR must be an integer'))
    out.append(([lines[0].replace('\tSO:i:0', '')] + lines[1:], False, 'rGFA segments need an SO tag'))
    out.append(([lines[0].replace('SN:Z:chr1', 'SN:i:1')] + lines[1:], False, 'rGFA SN must be a string'))
    return out


def run(ctx, deep, model_ok):
    g = impl.gfapy()
    rng = ctx.rng
    # ---- 1. exhaustive short strings per datatype: model vs implementation inside Coq
    n = 4 if deep else 3
    terms, meta = [], []
    for dt in FL.MODULES:
        alpha = FL.ALPHABETS[dt]
        k = n if len(alpha) ** n < 70000 else n - 1
        t, ws, bits = FL.enum_case_term(dt, alpha, k)
        terms.append(t)
        meta.append((dt, alpha, ws, bits, k))
        for w, b in zip(ws, bits):
            ctx.coverage['evaluations'] += 1
        ctx.nontrivial.update(core.sha([dt, w]) for w, b in zip(ws, bits) if b == '0')
        ctx.seen.update(core.sha([dt, w]) for w in ws)
    ctx.coverage['exhaustive'] = True
    ctx.notes['enumeration'] = {m[0]: {'alphabet': m[1], 'max_len': m[4], 'strings': len(m[2]), 'accepted': m[3].count('1')} for m in meta}
    ctx.coverage['samples'].append({'kind': 'field', 'datatype': 'float', 'strings': ['1e', '.5', '-1.5e+3', '1.']})
    if model_ok:
        failing, errs = core.coq_eval_cases('C04', 'enum', FL.IMPORTS, 'enum_case', 'check_enum', terms, shard=2)
        for e in errs:
            ctx.broken.append(('correspondence-broken', 'enumeration: ' + e))
        for i in failing[:3]:
            dt, alpha, ws, bits, k = meta[i]
            jok = [w for w in ws if FL.json_ok(w) is not None] if dt == 'json' else []
            mb, err = FL.model_bits('C04', dt, alpha, k, jok)
            diff = [(w, bits[j], mb[j]) for j, w in enumerate(ws) if mb and bits[j] != mb[j]][:3]
            for w, b_impl, b_model in diff[:1]:
                # which side is wrong? the independent recogniser decides
                tag = {v: k_ for k_, v in FL.TAGS.items()}.get(dt)
                case = {'kind': 'field', 'datatype': dt, 'string': w, 'impl_accepts': b_impl == '1', 'model_accepts': b_model == '1'}
                ctx.disagree('the safe decoder of %s %s %r while the model (proved equal to the grammar for the '
                              'regular datatypes) %s it' % (dt, 'accepts' if b_impl == '1' else 'rejects', w,
                                                            'accepts' if b_model == '1' else 'rejects'), case, python=py_of(case))
            if not diff:
                ctx.broken.append(('correspondence-broken', 'enumeration mismatch for %s could not be located: %s' % (dt, err)))
    # the independent recogniser on the same enumerations (tag datatypes only: it knows their grammar)
    for tag, md in FL.TAGS.items():
        dtm = [m for m in meta if m[0] == md][0]
        for w, b in zip(dtm[2], dtm[3]):
            if '\n' in w:
                continue
            if GR.valid_value(tag, w) != (b == '1'):
                case = {'kind': 'field', 'datatype': tag, 'string': w}
                ctx.violation('failing-input', 'tag value %r of type %s: grammar says %s, gfapy says %s' % (
                    w, tag, GR.valid_value(tag, w), b == '1'), case, python=py_of(case))
                break
    # ---- 1b. values on the boundary of each numeric array subtype (and one step outside), as tags of a line
    RANGES = {'c': (-128, 127), 'C': (0, 255), 's': (-32768, 32767), 'S': (0, 65535), 'i': (-2147483648, 2147483647), 'I': (0, 4294967295)}
    for sub, (lo, hi) in RANGES.items():
        for v in (lo, lo - 1, hi, hi + 1):
            for val in ('%s,%d' % (sub, v), '%s,1,%d' % (sub, v), '%s,%d,0' % (sub, v)):
                for ver, text in (('gfa1', 'S\tA\t*\txx:B:' + val), ('gfa2', 'S\tA\t5\t*\txx:B:' + val)):
                    case = {'kind': 'line', 'text': text, 'version': ver, 'vlevel': rng.choice([1, 2, 3])}
                    ctx.count(case, not (lo <= v <= hi))
                    judge(ctx, case, oracle_line(case))
    # ---- 2. lines and mutants
    ndoc = 150 if deep else 40
    lterms, lmeta = [], []
    for i in range(ndoc):
        ver = 'gfa1' if i % 2 else 'gfa2'
        lines, info = (gen.gen_gfa1 if i % 2 else gen.gen_gfa2)(rng)
        for l in lines:
            for t in [l] + mutants(rng, l) + cross_mutants(l, ver):
                vl = rng.choice([1, 1, 2, 3])
                case = {'kind': 'line', 'text': t, 'version': ver, 'vlevel': vl}
                ok, _ = GR.valid_line(t, ver) if '\n' not in t else (False, '')
                ctx.count(case, (not ok) or t != l)
                judge(ctx, case, oracle_line(case))
                if model_ok and all(ord(c) < 256 for c in t):
                    term, r = LL.case_term(t, vl, rng.choice([None, ver]))
                    lterms.append(term)
                    lmeta.append(case)
    if model_ok:
        failing, errs = core.coq_eval_cases('C04', 'line', LL.IMPORTS, 'line_case', 'check_line_accept', lterms)
        for e in errs:
            ctx.broken.append(('correspondence-broken', 'lines: ' + e))
        for i in failing[:3]:
            vals, _ = LL.show_model('C04', [lterms[i]])
            ctx.disagree('Model/Line.v and gfapy.Line() disagree on this line (model: %s)' % (vals[0][:80] if vals else '?'),
                          lmeta[i], python=py_of(lmeta[i]))
        ctx.notes['lines_compared_in_coq'] = len(lterms)
    # ---- 3. documents: undefined references, E position order, rGFA
    for i in range(60 if deep else 20):
        ver = 'gfa1' if i % 2 else 'gfa2'
        lines, info = (gen.gen_gfa1 if i % 2 else gen.gen_gfa2)(rng, tags=False)
        case = {'kind': 'doc', 'doc': lines, 'valid': True, 'why': 'generated valid document', 'vlevel': rng.choice([1, 2, 3])}
        ctx.count(case, False)
        judge(ctx, case, oracle_doc(case))
        segs = [l.split('\t')[1] for l in lines if l.startswith('S\t')]
        refs = [l for l in lines if l[0] in 'LCPEGFOU']
        if segs and refs:
            victim = rng.choice(segs)
            used = any(victim in l for l in refs)
            d2 = [l for l in lines if not (l.startswith('S\t') and l.split('\t')[1] == victim)]
            mentions = []
            for l in refs:
                f = l.split('\t')
                if f[0] in 'LC':
                    mentions += [f[1], f[3]]
                elif f[0] == 'P':
                    mentions += [x[:-1] for x in f[2].split(',')]
                elif f[0] in 'EG':
                    mentions += [f[2][:-1], f[3][:-1]]
                elif f[0] == 'F':
                    mentions += [f[1]]
                elif f[0] == 'O':
                    mentions += [x[:-1] for x in f[2].split(' ')]
                elif f[0] == 'U':
                    mentions += f[2].split(' ')
            if victim in mentions:
                case = {'kind': 'doc', 'doc': d2, 'valid': False, 'why': 'segment %s is referenced but not defined' % victim, 'vlevel': 1}
                ctx.count(case, True)
                judge(ctx, case, oracle_doc(case))
        if ver == 'gfa2':
            case = {'kind': 'doc', 'doc': ['S\tA\t20\t*', 'S\tB\t20\t*', 'E\te\tA+\tB+\t%d\t%d\t0\t5\t*' % (7, 3)], 'valid': False,
                    'why': 'begin > end on an E line', 'vlevel': 1}
            ctx.count(case, True)
            judge(ctx, case, oracle_doc(case))
    # `$` only on the last position of a segment (judged where the sequence of the segment is known: F70)
    for i in range(48 if deep else 16):
        la, lb = rng.choice([8, 10, 12]), rng.choice([8, 10, 12])
        sa = ''.join(rng.choice('ACGT') for _ in range(la))
        sb = ''.join(rng.choice('ACGT') for _ in range(lb))
        combo = i % 16
        known_a, known_b = bool(combo & 1), bool(combo & 2)
        segs = ['S\ta\t%d\t%s' % (la, sa if known_a else '*'), 'S\tb\t%d\t%s' % (lb, sb if known_b else '*')]
        which = ['none', 'a', 'b', 'f'][(combo >> 2) & 3]
        a_int = ['%d' % (la - 3), '%d$' % la]
        b_int = ['0', '3']
        if which == 'a':
            a_int = ['0', '%d$' % rng.randint(1, la - 1)]
        elif which == 'b':
            b_int = ['0', '%d$' % rng.randint(1, lb - 1)]
        doc = segs + ['E\te\ta+\tb+\t%s\t%s\t%s\t%s\t*' % (a_int[0], a_int[1], b_int[0], b_int[1])]
        bad = (which == 'a' and known_a) or (which == 'b' and known_b)
        if which == 'f':
            k = rng.randint(1, la - 1)
            doc = segs + ['F\ta\tr1+\t0\t%d$\t0\t%d\t*' % (k, k)]
            bad = known_a
        if (which == 'a' and not known_a) or (which == 'b' and not known_b) or (which == 'f' and not known_a):
            continue        # the recorded finding F70: not checked against the declared length
        case = {'kind': 'doc', 'doc': doc, 'valid': not bad, 'why': '`$` on a position that is not the last one of the segment' if bad
                else 'positions consistent with the segments', 'vlevel': rng.choice([1, 2, 3])}
        ctx.count(case, bad)
        judge(ctx, case, oracle_doc(case))
    probe = {'kind': 'doc', 'doc': ['S\ta\t10\tACGTACGTAC', 'S\tb\t10\t*', 'E\te\ta+\tb+\t6\t10$\t0\t4$\t*'], 'valid': False,
             'why': '`$` on position 4 of a segment of declared length 10', 'vlevel': 1}
    if oracle_doc(probe):
        ctx.known('F70', "`$` is only checked against the length of a known sequence: 'E e a+ b+ 6 10$ 0 4$ *' is accepted when "
                         "segment b (declared length 10) has a placeholder sequence")
    for i in range(20 if deep else 6):
        for doc, valid, why in rgfa_mutations(rgfa_doc(rng)):
            case = {'kind': 'doc', 'doc': doc, 'valid': valid, 'why': why, 'dialect': 'rgfa', 'vlevel': 1}
            ctx.count(case, not valid)
            judge(ctx, case, oracle_doc(case))
    # ---- known finding F23
    r = FL.impl_accepts(*F23_WITNESS)
    if r[0]:
        ctx.known('F23', "a value followed by a newline passes the `$`-anchored validators (only reachable through the API; "
                         "witness datatype i, string '5\\n'); theorem C04_trailing_newline_refuted")


def replay(ctx, body):
    case = body.get('case') or {}
    k = case.get('kind')
    if k == 'line':
        if oracle_line(case):
            return True
        term, r = LL.case_term(case['text'], case['vlevel'], case['version'])
        failing, errs = core.coq_eval_cases('C04', 'replay', LL.IMPORTS, 'line_case', 'check_line_accept', [term])
        return bool(failing or errs)
    if k == 'doc':
        return bool(oracle_doc(case))
    if k == 'field':
        dt, s = case['datatype'], case['string']
        md = FL.TAGS.get(dt, dt)
        t, ws, bits = FL.enum_case_term(md, s, 0)
        term, acc, w = FL.canon_case_term(md, s)
        failing, errs = core.coq_eval_cases('C04', 'replayf', FL.IMPORTS, 'canon_case', 'check_canon', [term])
        return bool(failing or errs) or (dt in FL.TAGS and '\n' not in s and GR.valid_value(dt, s) != acc)
    return True
