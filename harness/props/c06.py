"""C06 — GFA1 <-> GFA2 conversion preserves the graph and emits valid output."""
import re

from .. import core, impl, gen
from ..core import cstr, cz, cbool, clist, copt
from .. import spec_edge as SE
from .c12 import cig_term
from ..canon import canon_tag

DEPS = ['K_cigar', 'K_edge2', 'K_togfa1']
MODEL_TARGETS = ['Corr/C06c.vo']
IMPORTS = "From GfaV Require Import Base.Py Model.Align Model.Link Model.Convert Corr.C12c Corr.C06c."
LEVEL_TEXT = ("Theorems in coq/Props/C06.v: for every orientation pair and every CIGAR over M I D P, a proper dovetail link "
              "converts to an E line with the same oriented pair, the same alignment, intervals of the CIGAR's reference/query "
              "length inside the segments and `$` exactly at a segment's end, and converts back to the same link; the same "
              "for containments at any offset; internal edges are refused and whatever is produced is classified as what "
              "it is; F25 (overlap spanning a whole segment) is exhibited as a refutation outside the guard. The coordinate "
              "arithmetic is the hand model Model/Convert.v, compared in Coq with the implementation's to_gfa2()/to_gfa1() of "
              "generated links, containments and edges; classification/roles/CIGAR functions are regenerated from the source. "
              "Whole-document clauses (segments, paths, tags, validity at level 3, there-and-back) are decided by the oracle "
              "on the implementation.")
RULE = ("GFA1 graphs with lengths and specified M/I/D/P overlaps (all orientation pairs, self-links, parallel links, "
        "containments at offset 0/inner/end, linear and single-segment paths, forwards and reversed) and GFA2 graphs "
        "(dovetails, containments, internal edges, traces, gaps, fragments, groups, named and unnamed edges). Non-trivial: "
        "an overlap contains I or D, or a containment is not at offset 0, or the orientations differ.")
ASSUMPTIONS = ["proper dovetails: the overlap is shorter than both segments (F25 is format-inherent)",
               "7-bit identifiers"]

INV = {'+': '-', '-': '+'}


def pos_term(s):
    v, l = SE.parse_pos(s)
    return '(%s, %s)' % (cz(v), cbool(l))


def aln_term_s(s):
    if s == '*':
        return 'APlaceholder'
    if ',' in s or s.isdigit():
        return '(ATrace %s)' % clist([cz(int(x)) for x in s.split(',')])
    ops = [(int(n), c) for n, c in re.findall(r'(\d+)([MIDNSHPX=])', s)]
    return '(ACigar %s)' % cig_term(ops)


def edge2_term(fields):
    """fields of an E line: [E, eid, sid1, sid2, b1, e1, b2, e2, aln, ...]"""
    eid = None if fields[1] == '*' else fields[1]
    return '(mkE %s %s %s %s %s %s %s %s %s %s)' % (
        copt(cstr(eid)) if eid else 'None', cstr(fields[2][:-1]), cstr(fields[2][-1]), cstr(fields[3][:-1]),
        cstr(fields[3][-1]), pos_term(fields[4]), pos_term(fields[5]), pos_term(fields[6]), pos_term(fields[7]),
        aln_term_s(fields[8]))


def link_term_f(f):
    return '(mkLink %s %s %s %s %s)' % (cstr(f[1]), cstr(f[2]), cstr(f[3]), cstr(f[4]), aln_term_s(f[5]))


def cont_term_f(f):
    return '(mkC %s %s %s %s %s %s)' % (cstr(f[1]), cstr(f[2]), cstr(f[3]), cstr(f[4]), pos_term(f[5]), aln_term_s(f[6]))


def seg_len(G, name):
    s = G.segment(name)
    l = s.length
    return l


def res_edge2(f):
    r = impl.outcome(f)
    if r[0] == 'ok':
        return '(Ok %s)' % edge2_term(r[1].split('\t'))
    return '(Err %s)' % impl.exn_term(r[1])


# ---------------------------------------------------------------- model terms for one document
def model_terms(lines):
    """build the doc, convert every L/C (GFA1) or E (GFA2) with the implementation and pair it with the model input"""
    g = impl.gfapy()
    G = g.Gfa(lines, vlevel=1)
    l2e, c2e, e2g = [], [], []
    if G.version == 'gfa1':
        for l in G.dovetails + G.containments:
            f = str(l).split('\t')
            lf, lt = seg_len(G, f[1]), seg_len(G, f[3])
            out = impl.outcome(lambda: l.to_gfa2_s())
            if out[0] == 'ok':
                eid = out[1].split('\t')[1]
                exp = '(Ok %s)' % edge2_term(out[1].split('\t'))
            else:
                eid = l.get('ID')
                exp = '(Err %s)' % impl.exn_term(out[1])
            eidt = 'None' if (eid is None or eid == '*') else copt(cstr(eid))
            lens = '%s, %s' % (copt(cz(lf)) if lf is not None else 'None', copt(cz(lt)) if lt is not None else 'None')
            if f[0] == 'L':
                l2e.append('(%s, %s, %s, %s)' % (link_term_f(f), eidt, lens, exp))
            else:
                c2e.append('(%s, %s, %s, %s)' % (cont_term_f(f), eidt, lens, exp))
    else:
        for e in G.edges:
            f = str(e).split('\t')
            out = impl.outcome(lambda: e.to_gfa1_s())
            if out[0] == 'ok':
                o = out[1].split('\t')
                exp = '(Ok (GL %s))' % link_term_f(o) if o[0] == 'L' else '(Ok (GC %s))' % cont_term_f(o)
            else:
                exp = '(Err %s)' % impl.exn_term(out[1])
            e2g.append('(%s, %s)' % (edge2_term(f), exp))
    return l2e, c2e, e2g


# ---------------------------------------------------------------- oracle
def tagset(fields, drop=()):
    return sorted(canon_tag(t) for t in fields if t.split(':')[0] not in drop)


def expected_E_of_link(f, lens):
    fo, to, ov = f[2], f[4], f[5]
    r, q = gen.cigar_lengths(ov)
    lf, lt = lens[f[1]], lens[f[3]]
    b1, e1 = (lf - r, lf) if fo == '+' else (0, r)
    b2, e2 = (0, q) if to == '+' else (lt - q, lt)
    return [f[1] + fo, f[3] + to, gen.pos_s(b1, lf), gen.pos_s(e1, lf), gen.pos_s(b2, lt), gen.pos_s(e2, lt), ov]


def expected_E_of_cont(f, lens):
    r, q = gen.cigar_lengths(f[6])
    lf, lt = lens[f[1]], lens[f[3]]
    p = int(f[5])
    return [f[1] + f[2], f[3] + f[4], gen.pos_s(p, lf) if p == lf else str(p), gen.pos_s(p + r, lf), '0', '%d$' % lt, f[6]]


def oracle_gfa1(case):
    g = impl.gfapy()
    out = []
    lines = case['doc']
    G = g.Gfa(lines, vlevel=1)
    lens = {}
    for l in lines:
        f = l.split('\t')
        if f[0] == 'S':
            ln = [t for t in f[3:] if t.startswith('LN:i:')]
            lens[f[1]] = int(ln[0][5:]) if ln else len(f[2])
    try:
        G2 = G.to_gfa2()
        s2 = str(G2)
        s2b = G.to_gfa2_s()
    except g.Error as e:
        return [('conversion of a convertible GFA1 graph failed', 'GFA2 document', type(e).__name__)]
    try:
        R = g.Gfa(s2, vlevel=3)
        R.validate()
        if R.version != 'gfa2':
            out.append(('converted document is not GFA2', 'gfa2', R.version))
    except g.Error as e:
        return [('converted document is not valid GFA2 at level 3: %s' % str(e)[:120], 'valid', type(e).__name__)]
    l2 = s2.split('\n')
    if sorted(l2) != sorted(s2b.split('\n')):
        out.append(('to_gfa2_s() and str(to_gfa2()) differ', sorted(l2), sorted(s2b.split('\n'))))
    S2 = {l.split('\t')[1]: l.split('\t') for l in l2 if l.startswith('S\t')}
    E2 = [l.split('\t') for l in l2 if l.startswith('E\t')]
    for l in lines:
        f = l.split('\t')
        if f[0] == 'S':
            s = S2.get(f[1])
            if s is None or int(s[2]) != lens[f[1]] or s[3] != f[2] or tagset(s[4:]) != tagset(f[3:], ('LN',)):
                out.append(('segment not preserved (identifier, length, sequence, tags)', l, s))
        elif f[0] in 'LC':
            want = expected_E_of_link(f, lens) if f[0] == 'L' else expected_E_of_cont(f, lens)
            ntag = 6 if f[0] == 'L' else 7
            cands = [e for e in E2 if e[2:9] == want and tagset(e[9:]) == tagset(f[ntag:], ('ID',))]
            if not cands:
                out.append(('no E line with the oriented pair, intervals, alignment and tags of %r' % l, want,
                            [e for e in E2 if e[2][:-1] in (f[1], f[3])]))
    # paths: same oriented segments, through edges that connect them
    Eid = {e[1]: e for e in E2}
    O2 = {l.split('\t')[1]: l.split('\t') for l in l2 if l.startswith('O\t')}
    for l in lines:
        f = l.split('\t')
        if f[0] == 'P':
            o = O2.get(f[1])
            if o is None:
                out.append(('path dropped by the conversion', l, None))
                continue
            items = o[2].split(' ')
            segs = [it for i, it in enumerate(items) if i % 2 == 0]
            eds = [it for i, it in enumerate(items) if i % 2 == 1]
            want_segs = f[2].split(',')
            if f[3] != '*' and len(f[3].split(',')) == len(want_segs):
                want_segs = want_segs + want_segs[:1]          # a circular path comes back to its first segment
            if segs != want_segs:
                out.append(('converted path visits other oriented segments', want_segs, segs))
                continue
            for i, ed in enumerate(eds):
                e = Eid.get(ed[:-1])
                a, b = segs[i], segs[i + 1]
                if e is None:
                    out.append(('converted path names an unknown edge', ed, None))
                    continue
                fwd = (e[2], e[3]) == (a, b)
                rev = (e[2], e[3]) == (b[:-1] + INV[b[-1]], a[:-1] + INV[a[-1]])
                ok = (ed[-1] == '+' and fwd) or (ed[-1] == '-' and rev)
                if not ok:
                    out.append(('converted path step %s %s %s does not traverse that edge in that direction' % (a, ed, b), None, e[:4]))
                elif fwd and rev and f[3] != '*' and len(e) > 8 and e[8] != '*' and i < len(f[3].split(',')):
                    # an edge from a segment end to itself fits both ways as far as the oriented segments go: the overlap
                    # quoted by the path decides (as written: along the edge; its complement: against it)
                    ov = f[3].split(',')[i]
                    cp = impl.outcome(lambda: str(g.Alignment(ov, version='gfa1').complement()))
                    if ov != '*' and cp[0] == 'ok' and cp[1] != ov:
                        want = '+' if e[8] == ov else ('-' if e[8] == cp[1] else None)
                        if want is not None and ed[-1] != want:
                            out.append(('converted path step %s %s %s over an edge of a segment end with itself reads the alignment %s in the wrong direction'
                                        % (a, ed, b, ov), want, ed[-1]))
            if tagset(o[3:]) != tagset(f[4:]):
                out.append(('path tags not carried over', tagset(f[4:]), tagset(o[3:])))
    if out:
        return out
    # conversion follows the line as it is now: after an overlap was edited in place (one more matched base) the intervals of
    # the E line are those of the edited alignment, as a Gfa read from the written text gives them
    edited = False
    for l in list(G.dovetails) + list(G.containments):
        ov = l.overlap
        if isinstance(ov, g.CIGAR) and len(ov) > 0 and ov[0].code == 'M':
            r0 = impl.outcome(lambda: l.to_gfa2_s())           # a first conversion, so that anything remembered is remembered
            ov[0].length = ov[0].length + 1
            if impl.outcome(lambda: g.Gfa(str(G), vlevel=1))[0] != 'ok':
                ov[0].length = ov[0].length - 1                # the longer overlap does not fit: leave this line alone
                continue
            edited = True
    if edited:
        a = impl.outcome(lambda: sorted(x for x in str(G.to_gfa2()).split('\n') if x.startswith('E\t')))
        b = impl.outcome(lambda: sorted(x for x in str(g.Gfa(str(G), vlevel=1).to_gfa2()).split('\n') if x.startswith('E\t')))
        def noid(ls):
            return sorted('\t'.join(x.split('\t')[2:]) for x in ls)
        if a[0] == 'ok' and b[0] == 'ok' and noid(a[1]) != noid(b[1]):
            out.append(('after an overlap was edited in place the conversion differs from the conversion of the written text',
                        [x for x in noid(b[1]) if x not in noid(a[1])][:2], [x for x in noid(a[1]) if x not in noid(b[1])][:2]))
            return out
    # there and back
    try:
        B = G2.to_gfa1()
        sb = str(B)
        g.Gfa(sb, vlevel=3)
    except g.Error as e:
        return [('converting back to GFA1 failed or is invalid: %s' % str(e)[:100], None, type(e).__name__)]
    def canon1(ls):
        r = []
        for l in ls:
            f = l.split('\t')
            if f[0] == 'S':
                ln = [t for t in f[3:] if t.startswith('LN:i:')]
                r.append(('S', f[1], f[2], int(ln[0][5:]) if ln else len(f[2]), tuple(tagset(f[3:], ('LN',)))))
            elif f[0] == 'L':
                r.append(('L',) + tuple(f[1:6]) + (tuple(tagset(f[6:], ('ID',))),))
            elif f[0] == 'C':
                r.append(('C',) + tuple(f[1:7]) + (tuple(tagset(f[7:], ('ID',))),))
            elif f[0] == 'P':
                # a circular path is written with as many overlaps as segments, or with its first segment repeated
                segs = f[2].split(',')
                if f[3] != '*' and len(f[3].split(',')) == len(segs):
                    segs = segs + segs[:1]
                r.append(('P', f[1], ','.join(segs), tuple(tagset(f[4:]))))
            elif f[0] == 'H':
                for t in f[1:]:
                    r.append(('H', canon_tag(t)))
            else:
                r.append((l,))
        return sorted(r, key=repr)
    c0, c1 = canon1(lines), canon1(sb.split('\n'))
    if c0 != c1:
        d = [x for x in c0 if x not in c1][:3], [x for x in c1 if x not in c0][:3]
        out.append(('GFA1 -> GFA2 -> GFA1 is not an equivalent document', d[0], d[1]))
    return out


def oracle_gfa2(case):
    g = impl.gfapy()
    out = []
    lines = case['doc']
    G = g.Gfa(lines, vlevel=1)
    unconv = []
    expected = []
    for l in lines:
        f = l.split('\t')
        if f[0] == 'E':
            o1, o2 = f[2][-1], f[3][-1]
            k1 = SE.ikind(SE.parse_pos(f[4]), SE.parse_pos(f[5]))
            k2 = SE.ikind(SE.parse_pos(f[6]), SE.parse_pos(f[7]))
            cl = SE.edge_class(o1, o2, k1, k2)
            istrace = ',' in f[8] or f[8].isdigit()
            if cl == 'I':
                unconv.append(l)
                continue
            if cl == 'C':
                s1from = (k2 == 'whole')
            else:
                s1from = SE.eff(o1, k1) == 'sfx'
            if istrace and s1from:
                unconv.append(l)
                continue
            a, b = (f[2], f[3]) if s1from else (f[3], f[2])
            ov = f[8] if s1from else ('*' if istrace else gen.complement_cigar(f[8]))
            tags = ([] if f[1] == '*' else ['ID:Z:' + f[1]]) + f[9:]
            if cl == 'L':
                expected.append(['L', a[:-1], a[-1], b[:-1], b[-1], ov] + tags)
            else:
                # position of the contained segment on the container
                (bc, ec) = (f[4], f[5]) if s1from else (f[6], f[7])
                p = SE.parse_pos(bc)[0]
                expected.append(['C', a[:-1], a[-1], b[:-1], b[-1], str(p), ov] + tags)
    r = impl.outcome(lambda: str(G.to_gfa1()))
    if unconv:
        if r[0] == 'ok':
            l1 = r[1].split('\n')
            bad = [x for x in l1 if x[0] in 'LC' and not any(_same_edge(x.split('\t'), e) for e in expected)]
            if bad:
                out.append(('an edge without GFA1 counterpart was translated instead of dropped/refused', unconv[:2], bad[:2]))
        elif r[1][0] != 'gfapy':
            out.append(('conversion raised a foreign exception', 'gfapy.Error', r[1]))
        return out
    if r[0] != 'ok':
        return [('conversion of a convertible GFA2 graph failed', 'GFA1 document', r[1])]
    l1 = r[1].split('\n')
    for rt in 'GFU':
        if any(x.startswith(rt + '\t') for x in l1):
            out.append(('a %s record survived the conversion to GFA1' % rt, None, None))
    try:
        R = g.Gfa(r[1], vlevel=3)
        if R.version not in ('gfa1', None) and l1 != ['']:
            out.append(('converted document is not GFA1', 'gfa1', R.version))
    except g.Error as e:
        return [('converted document is not valid GFA1 at level 3: %s' % str(e)[:120], 'valid', type(e).__name__)]
    got = [x.split('\t') for x in l1 if x[:1] in ('L', 'C')]
    for e in expected:
        if not any(_same_edge(x, e) for x in got):
            out.append(('E line has no correct L/C counterpart', e, [x for x in got if x[1] in (e[1], e[3])][:3]))
    if len(got) != len(expected):
        out.append(('number of converted edges', len(expected), len(got)))
    # an ordered group over segments becomes the path over the same oriented segments
    P1 = {x.split('\t')[1]: x.split('\t') for x in l1 if x.startswith('P\t')}
    for l in lines:
        f = l.split('\t')
        if f[0] == 'O' and f[1] != '*':
            p = P1.get(f[1])
            if p is None or p[2].split(',') != f[2].split(' '):
                out.append(('ordered group not converted to the path over the same oriented segments', l, p))
    S1 = {x.split('\t')[1]: x.split('\t') for x in l1 if x.startswith('S\t')}
    for l in lines:
        f = l.split('\t')
        if f[0] == 'S':
            s = S1.get(f[1])
            if s is None or s[2] != f[3] or ('LN:i:' + f[2]) not in s[3:] or tagset(s[3:], ('LN',)) != tagset(f[4:]):
                out.append(('segment not preserved', l, s))
    return out


def _same_edge(x, e):
    n = 6 if e[0] == 'L' else 7
    return x[:n] == e[:n] and tagset(x[n:]) == tagset(e[n:])


def oracle_line(case):
    """records without counterpart are refused with a gfapy error by the line-level conversion"""
    g = impl.gfapy()
    out = []
    G = g.Gfa(case['doc'], vlevel=1)
    for ln in G.lines:
        rt = ln.record_type
        if rt in 'GFU' or (rt not in 'HSEO#' and G.version == 'gfa2'):
            r = impl.outcome(lambda: ln.to_gfa1())
            if r[0] == 'ok' or r[1][0] != 'gfapy':
                out.append(('%s record was not refused by to_gfa1()' % rt, 'gfapy.Error', impl.outcome_name(r)))
    return out


def py_of(case):
    return "import gfapy\ng=gfapy.Gfa(%r)\nprint(g.to_%s())" % (case['doc'], 'gfa2' if case['kind'] == 'gfa1' else 'gfa1')


def judge(ctx, case, fails):
    for what, exp, obs in fails[:1]:
        ctx.violation('failing-input', what, case, exp, obs, python=py_of(case))


# hand-made documents that run first
FIXED = [
    # a link from a segment end to itself (A+ to A-): only the alignment tells in which direction a path reads it
    {'kind': 'gfa1', 'doc': ['H\tVN:Z:1.0', 'S\tA\t*\tLN:i:100', 'S\tB\t*\tLN:i:50', 'L\tA\t+\tA\t-\t3M1D2M\tID:Z:aa', 'L\tB\t-\tB\t+\t1I4M\tID:Z:bb',
                             'P\tp\tA+,A-\t2M1I3M', 'P\tq\tA+,A-\t3M1D2M', 'P\tr\tB-,B+\t4M1D', 'P\tt\tB-,B+\t1I4M']},
    # ordered groups over dovetails whose alignment is not its own complement, walked along and against the edge, with the
    # first segment of the edge on either side of the GFA1 link
    {'kind': 'gfa2', 'doc': ['S\ta\t10\t*', 'S\tb\t10\t*', 'S\tc\t10\t*', 'E\te1\ta+\tb+\t0\t3\t7\t10$\t2M1D1M', 'E\te2\tb+\tc-\t0\t4\t0\t3\t1M1I2M',
                             'O\to1\tb+ a+', 'O\to2\ta- b-', 'O\to3\tc- b+', 'O\to4\tb- c+', 'O\to5\tc- b+ a+', 'O\to6\ta- b- c+']},
    # a circular path, a path over one segment, a path against a link with insertions
    {'kind': 'gfa1', 'doc': ['S\ta\tACGTACGTAC', 'S\tb\tACGTACGTAC', 'L\ta\t+\tb\t-\t2M1I1M', 'L\tb\t-\ta\t+\t1M1D2M', 'P\tpc\ta+,b-\t2M1I1M,1M1D2M',
                             'P\tp1\ta-\t*', 'P\tpr\tb+,a-\t1M1D2M', 'C\ta\t-\tb\t+\t2\t3M1D2M']},
]


def gen_case(rng, i):
    if i < len(FIXED):
        return dict(FIXED[i])
    if i % 3 != 2:
        lines, info = gen.gen_gfa1(rng, seqs=rng.choice(['seq', 'ln', 'both']), cigar_codes='MIDP', lengths=True)
        # domain of the property: specified overlaps, proper dovetails
        keep = []
        lens = {n: d['len'] for n, d in info['segments'].items()}
        for l in lines:
            f = l.split('\t')
            if f[0] == 'L':
                if f[5] == '*':
                    continue
                r, q = gen.cigar_lengths(f[5])
                if r >= lens[f[1]] or q >= lens[f[3]]:
                    continue
            if f[0] == 'C' and f[6] == '*':
                continue
            keep.append(l)
        # paths must still be resolvable
        links = [l.split('\t') for l in keep if l.startswith('L\t')]
        linfo = [{'from': f[1], 'fo': f[2], 'to': f[3], 'to_o': f[4], 'ov': f[5]} for f in links]
        final = []
        for l in keep:
            f = l.split('\t')
            if f[0] == 'P':
                steps = [(s[:-1], s[-1]) for s in f[2].split(',')]
                ovs = f[3].split(',') if f[3] != '*' else ['*'] * (len(steps) - 1)
                if not all(gen.unambiguous(linfo, steps[k], steps[k + 1], ovs[k]) for k in range(len(steps) - 1)):
                    continue
            final.append(l)
        if rng.random() < 0.3 and lens:
            final.append('P\tsingle\t%s+\t*' % sorted(lens)[0])
        if rng.random() < 0.4 and len(lens) >= 2:
            # a circular path (as many overlaps as segments) over two links added for it between an unlinked pair
            names = sorted(lens)
            pairs = [(a, b) for a in names for b in names if a < b and
                     not any(l.startswith('L\t') and set([l.split('\t')[1], l.split('\t')[3]]) == set([a, b]) for l in final)]
            if pairs:
                a, b = rng.choice(pairs)
                oa, ob = rng.choice('+-'), rng.choice('+-')
                o1, o2 = rng.choice(['1M', '2M', '1M1I1M']), rng.choice(['1M', '1M1D1M', '2M'])
                final.append('L\t%s\t%s\t%s\t%s\t%s' % (a, oa, b, ob, o1))
                final.append('L\t%s\t%s\t%s\t%s\t%s' % (b, ob, a, oa, o2))
                final.append('P\tcirc\t%s%s,%s%s\t%s,%s' % (a, oa, b, ob, o1, o2))
        return {'kind': 'gfa1', 'doc': final}
    kinds = ['whole', 'pfx', 'sfx', 'pfx', 'sfx', 'emptyend', 'empty0'] + (['inner'] if rng.random() < 0.3 else [])
    lines, info = gen.gen_gfa2(rng, edge_kinds=kinds, groups=rng.random() < 0.5)
    lines = [l for l in lines if not l.startswith('O\t')]
    # a containment whose container interval is empty (and may start with `$`) is not a consistent alignment
    def degenerate(l):
        f = l.split('\t')
        if f[0] != 'E':
            return False
        k1 = (f[4], f[5]); k2 = (f[6], f[7])
        whole = lambda k: k[0] == '0' and k[1].endswith('$')
        empty = lambda k: k[0].rstrip('$') == k[1].rstrip('$')
        return (whole(k1) and empty(k2) and not whole(k2)) or (whole(k2) and empty(k1) and not whole(k1))
    # GFA1 (as gfapy reads it) cannot hold two links over one oriented pair unless both overlaps are specified
    # and differ: keep one E line per oriented pair
    seen = set()
    def parallel(l):
        f = l.split('\t')
        if f[0] != 'E':
            return False
        a, b = f[2], f[3]
        key = frozenset([(a, b), (b[:-1] + INV[b[-1]], a[:-1] + INV[a[-1]]), (b, a), (a[:-1] + INV[a[-1]], b[:-1] + INV[b[-1]])])
        if key in seen:
            return True
        seen.add(key)
        return False
    par = [l for l in lines if parallel(l)]
    dropped = set(l.split('\t')[1] for l in lines if degenerate(l) or l in par)
    lines = [l for l in lines if not degenerate(l) and l not in par]
    # sets listing a dropped line go too, and so do the sets listing those, until nothing changes
    while True:
        gone = [l for l in lines if l[0] == 'U' and set(l.split('\t')[2].split(' ')) & dropped]
        if not gone:
            break
        dropped |= set(l.split('\t')[1] for l in gone)
        lines = [l for l in lines if l not in gone]
    # ordered groups over dovetail edges, walked in both directions, some of the edges with an alignment that is not its
    # own complement: the P line of the converted document must quote the overlap its L line carries
    out = []
    k = 0
    for l in lines:
        f = l.split('\t')
        if f[0] == 'E' and f[2][:-1] != f[3][:-1]:
            k1 = SE.ikind(SE.parse_pos(f[4]), SE.parse_pos(f[5]))
            k2 = SE.ikind(SE.parse_pos(f[6]), SE.parse_pos(f[7]))
            istrace = ',' in f[8] or f[8].isdigit()
            if SE.edge_class(f[2][-1], f[3][-1], k1, k2) == 'L' and not istrace:
                if rng.random() < 0.5:
                    f[8] = rng.choice(['2M1D1M', '1M1I2M', '3M2D', '1I3M'])
                    l = '\t'.join(f)
                if rng.random() < 0.7:
                    k += 1
                    s1from = SE.eff(f[2][-1], k1) == 'sfx'
                    a, b = (f[2], f[3]) if s1from else (f[3], f[2])
                    fwd = [a, b]
                    rev = [b[:-1] + INV[b[-1]], a[:-1] + INV[a[-1]]]
                    items = rng.choice([fwd, rev])
                    out.append(l)
                    out.append('O\tow%d\t%s' % (k, ' '.join(items)))
                    continue
        out.append(l)
    return {'kind': 'gfa2', 'doc': out}


def nontrivial(case):
    for l in case['doc']:
        f = l.split('\t')
        if f[0] == 'L' and (('I' in f[5] or 'D' in f[5]) or f[2] != f[4]):
            return True
        if f[0] == 'C' and f[5] != '0':
            return True
        if f[0] == 'E' and f[2][-1] != f[3][-1]:
            return True
    return False


def refusals(ctx):
    """records without a counterpart in the other version: refused or dropped, never written as text that the other version
    does not accept"""
    g = impl.gfapy()
    from .. import grammar as GR
    docs = [
        # overlaps with operations that GFA2 does not have
        ('gfa1', ['S\ta\tACGTACGTAC', 'S\tb\tACGTACGTAC', 'L\ta\t+\tb\t-\t2M2X', 'L\tb\t+\ta\t+\t3M']),
        ('gfa1', ['S\ta\tACGTACGTAC', 'S\tb\tACGTACGTAC', 'C\ta\t+\tb\t+\t1\t3=1S', 'L\tb\t+\ta\t+\t3M']),
        ('gfa1', ['S\ta\tACGTACGTAC', 'S\tb\tACGTACGTAC', 'L\ta\t+\tb\t-\t1H2M1N']),
        # a trace and an internal alignment have no GFA1 form
        ('gfa2', ['S\ta\t10\t*', 'S\tb\t10\t*', 'E\te\ta+\tb+\t7\t10$\t0\t3\t1,2', 'E\ti\ta+\tb-\t2\t5\t1\t3\t*', 'G\tg\ta+\tb-\t3\t*',
                  'F\ta\tr+\t0\t3\t0\t3\t*', 'U\tu\ta b']),
    ]
    for ver, doc in docs:
        other = 'gfa2' if ver == 'gfa1' else 'gfa1'
        for vl in (0, 1, 3):
            G = g.Gfa(doc, vlevel=vl)
            calls = [('Gfa.to_%s()' % other, lambda: str(getattr(G, 'to_' + other)())),
                     ('Gfa.to_%s_s()' % other, lambda: getattr(G, 'to_%s_s' % other)())]
            for l in G.lines:
                if l.record_type in 'LCEGFU':
                    calls.append(('%s .to_%s_s()' % (str(l)[:30], other), (lambda l=l: getattr(l, 'to_%s_s' % other)())))
            for label, f in calls:
                r = impl.outcome(f)
                case = {'kind': 'refusal', 'doc': doc, 'version': ver, 'vlevel': vl, 'call': label}
                ctx.count(case, True)
                if r[0] != 'ok':
                    if r[1][0] != 'gfapy':
                        ctx.violation('failing-input', '%s raised a foreign exception' % label, case, 'gfapy.Error or valid text', impl.outcome_name(r))
                    continue
                bad = [t for t in str(r[1]).split('\n') if t and not GR.valid_line(t, other)[0]]
                if bad:
                    ctx.violation('failing-input', '%s wrote a line that is not valid %s instead of refusing or dropping the record'
                                  % (label, other.upper()), case, 'gfapy.Error or valid text', bad[0],
                                  python="import gfapy\ng=gfapy.Gfa(%r,vlevel=%d)\nprint(g.to_%s_s())" % (doc, vl, other))


def run(ctx, deep, model_ok):
    g = impl.gfapy()
    rng = ctx.rng
    refusals(ctx)
    n = 600 if deep else 120
    L2E, C2E, E2G, metas = [], [], [], {'l2e': [], 'c2e': [], 'e2g': []}
    for i in range(n):
        case = gen_case(rng, i)
        ctx.count(case, nontrivial(case))
        orc = oracle_gfa1 if case['kind'] == 'gfa1' else oracle_gfa2
        r = impl.outcome(lambda: orc(case))
        if r[0] != 'ok':
            ctx.violation('failing-input', 'conversion check raised %s' % (r[1],), case, python=py_of(case))
            continue
        judge(ctx, case, r[1])
        r = impl.outcome(lambda: oracle_line(case))
        if r[0] == 'ok':
            judge(ctx, case, r[1])
        if model_ok:
            t = impl.outcome(lambda: model_terms(case['doc']))
            if t[0] == 'ok':
                for name, acc, terms in (('l2e', L2E, t[1][0]), ('c2e', C2E, t[1][1]), ('e2g', E2G, t[1][2])):
                    for x in terms:
                        acc.append(x)
                        metas[name].append(case)
    if model_ok:
        for name, ty, chk, terms in (('l2e', 'l2e_case', 'check_l2e', L2E), ('c2e', 'c2e_case', 'check_c2e', C2E),
                                     ('e2g', 'e2g_case', 'check_e2g', E2G)):
            failing, errs = core.coq_eval_cases('C06', name, IMPORTS, ty, chk, terms)
            for e in errs:
                ctx.broken.append(('correspondence-broken', name + ': ' + e))
            for k in failing[:2]:
                ctx.disagree('Model/Convert.v (about which Props/C06.v is proved) and the implementation convert '
                              'an edge of this document differently (%s)' % name, dict(metas[name][k], term=terms[k]),
                              python=py_of(metas[name][k]))
            ctx.notes['%s_compared_in_coq' % name] = len(terms)
    # F25 witness (known finding)
    fd = ['S\tA\t*\tLN:i:4', 'S\tB\t*\tLN:i:9', 'L\tA\t+\tB\t+\t4M']
    try:
        back = str(g.Gfa(fd).to_gfa2().to_gfa1())
        if 'C\t' in back and 'L\t' not in back:
            ctx.known('F25', 'a link whose overlap spans a whole segment becomes a GFA2 containment and comes back as a C line '
                             '(format-inherent; outside proper_link): %r' % fd[2])
    except g.Error:
        pass


def replay(ctx, body):
    case = body.get('case') or {}
    if 'doc' not in case:
        return True
    orc = oracle_gfa1 if case.get('kind') == 'gfa1' else oracle_gfa2
    r = impl.outcome(lambda: orc(case))
    if r[0] != 'ok' or r[1]:
        return True
    t = impl.outcome(lambda: model_terms(case['doc']))
    if t[0] != 'ok':
        return True
    for name, ty, chk, terms in (('l2e', 'l2e_case', 'check_l2e', t[1][0]), ('c2e', 'c2e_case', 'check_c2e', t[1][1]),
                                 ('e2g', 'e2g_case', 'check_e2g', t[1][2])):
        failing, errs = core.coq_eval_cases('C06', 'replay_' + name, IMPORTS, ty, chk, terms)
        if failing or errs:
            return True
    return False
