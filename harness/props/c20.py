"""C20 — tag values set through the API are written and read back unchanged."""
import json
import math

from .. import core, impl, fieldlab as FL, grammar as GR
from ..core import cstr, cz, copt, clist

DEPS = ['Tables', 'K_numarr', 'Regexes', 'K_narange']
MODEL_TARGETS = ['Corr/Codecc.vo', 'Corr/C20c.vo']
IMPORTS = "From GfaV Require Import Base.Py Gen.K_numarr Model.Codec Model.TagValue Proofs.NumArrP Corr.C20c."
LEVEL_TEXT = ("Theorems in coq/Props/C20.v: the decimal spelling of every integer reads back to the same value; the "
              "regenerated NumericArray.integer_type over the regenerated SUBTYPE_RANGE table is the documented rule, picks "
              "the smallest subtype that holds all elements (signed iff the minimum is negative) and fails exactly when no "
              "32-bit subtype holds them; the default datatype dispatch over the regenerated table gives i f Z J B H. "
              "Tie: integer_type, the decimal printer and the default datatype are evaluated in Coq on the values the "
              "implementation was given; the written form of every accepted value is compared with Model/Codec.v. The "
              "set -> write -> parse -> compare clause, datatype stability and the reporting of unrepresentable values are "
              "decided on the implementation (oracle); float and JSON spellings are Python's (oracle tables).")
RULE = ("per datatype: values in and just outside the range (+-1 at 2^7, 2^8, 2^15, 2^16, 2^31, 2^32 for arrays; empty and "
        "odd-length hex; non-finite floats; nested JSON; strings with tab/newline/DEL/non-ASCII), assigned to a new tag "
        "(default datatype) and to a tag with a declared datatype, at validation levels 0..3. Non-trivial: the value lies on "
        "or next to a subtype/syntax boundary.")
ASSUMPTIONS = ["float and JSON canonical spelling are CPython's (oracle)", "7-bit strings in the model"]

BOUND = [0, 1, -1, 127, 128, -128, -129, 255, 256, 32767, 32768, -32768, -32769, 65535, 65536, 2 ** 31 - 1, 2 ** 31,
         -2 ** 31, -2 ** 31 - 1, 2 ** 32 - 1, 2 ** 32, 10 ** 12]


def kind_term(v):
    g = impl.gfapy()
    if isinstance(v, bool):
        return 'KBool'
    if isinstance(v, g.NumericArray):
        return 'KNumericArray'
    if isinstance(v, g.ByteArray):
        return 'KByteArray'
    if isinstance(v, int):
        return 'KInt'
    if isinstance(v, float):
        return 'KFloat'
    if isinstance(v, str):
        return 'KStr'
    if isinstance(v, dict):
        return 'KDict'
    if isinstance(v, list):
        if not v:
            return 'KListEmpty'
        if all(isinstance(x, int) for x in v):
            return 'KListInts'
        if all(isinstance(x, float) for x in v):
            return 'KListFloats'
        return 'KListOther'
    return None


def values(rng, deep):
    g = impl.gfapy()
    vals = []
    for b in BOUND:
        vals.append(('int', b))
    for f in [0.0, 1.5, -0.25, 1e-05, 2.5e+20, 1e308, 5e-324, 0.1, 3.0, float('inf'), float('-inf'), float('nan')]:
        vals.append(('float', f))
    for s in ['hello', 'a b', '*', ' x ', '', 'tab\there', 'nl\nhere', 'end\n', '\x7f', 'café', '!~', 'x:y:z']:
        vals.append(('str', s))
    for j in [[1, 2, 3], {'a': 1}, [], {}, {'k': [1, {'z': None}], 'b': True}, ['x y', 1.5], [1, 'a'], {'t': 'tab\tx'},
              [[1, 2], [3]], {'a': {'b': {'c': []}}}]:
        vals.append(('json', j))
    for b in BOUND:
        vals.append(('intarray', [b]))
        vals.append(('intarray', [0, b]))
        vals.append(('intarray', [-1, b]))
        vals.append(('numarray', g.NumericArray([b, 1])))
    vals.append(('mixed', [1, 2.5]))
    vals.append(('mixed', g.NumericArray([1, 2.5])))
    vals.append(('floatarray', [1.5, 2.0]))
    vals.append(('floatarray', [0.1]))
    vals.append(('floatarray', [1.5, float('inf')]))
    for h in ['00', 'FF', '1A2B', '0123456789ABCDEF']:
        vals.append(('bytes', g.ByteArray(h)))
    vals.append(('bytes', g.ByteArray([0, 255, 16])))
    for c in ['a', '!', '~', ' ', 'ab', '', '\t']:
        vals.append(('char', c))
    return vals


def same_value(a, b):
    if isinstance(a, float) or isinstance(b, float):
        if isinstance(a, (int, float)) and isinstance(b, (int, float)):
            return float(a) == float(b)
        return False
    if isinstance(a, (list, tuple)) and isinstance(b, (list, tuple)):
        return len(a) == len(b) and all(same_value(x, y) for x, y in zip(a, b))
    if isinstance(a, bytes) and isinstance(b, bytes):
        return bytes(a) == bytes(b)
    return a == b and type(a) == type(b) or (a == b and isinstance(a, (int, str, dict)) and isinstance(b, (int, str, dict)))


def representable(kind, v, dt):
    """does datatype dt have a spelling for the value (specification, independent of gfapy)"""
    if dt == 'i':
        return isinstance(v, int) and not isinstance(v, bool) or isinstance(v, bool)
    if dt == 'f':
        return isinstance(v, (int, float)) and math.isfinite(float(v))
    if dt == 'Z':
        return isinstance(v, str) and v != '' and all(32 <= ord(c) <= 126 for c in v)
    if dt == 'A':
        return isinstance(v, str) and len(v) == 1 and 33 <= ord(v) <= 126
    if dt == 'J':
        if not isinstance(v, (list, dict)):
            return False
        try:
            return all(32 <= ord(c) <= 126 for c in json.dumps(v))
        except Exception:
            return False
    if dt == 'H':
        # the API documents ByteArray; a list of byte values is converted by the encoder
        if isinstance(v, list):
            return len(v) > 0 and all(isinstance(x, int) and not isinstance(x, bool) and 0 <= x <= 255 for x in v)
        return isinstance(v, bytes) and len(v) > 0
    if dt == 'B':
        if not isinstance(v, list) or not v:
            return False
        if all(isinstance(x, float) for x in v):
            return all(math.isfinite(x) for x in v)
        if all(isinstance(x, int) and not isinstance(x, bool) for x in v):
            lo, hi = min(v), max(v)
            return (lo < 0 and -2 ** 31 <= lo and hi < 2 ** 31) or (lo >= 0 and hi < 2 ** 32)
        return False
    return False


DOC_DEFAULT = {'KInt': 'i', 'KBool': 'i', 'KFloat': 'f', 'KStr': 'Z', 'KDict': 'J', 'KListOther': 'J', 'KListInts': 'B',
               'KListFloats': 'B', 'KListEmpty': 'J', 'KNumericArray': 'B', 'KByteArray': 'H'}


def oracle_value(case_kind, v, vlevel, declared, prior=None):
    """set the value on a fresh line, write, parse back.  returns (fails, observation for the model)"""
    g = impl.gfapy()
    out = []
    obs = {}
    l = g.Line('S\tA\t*', vlevel=vlevel, version='gfa1')
    name = 'xy'
    if declared:
        r = impl.outcome(lambda: l.set_datatype(name, declared))
        if r[0] != 'ok':
            return [('set_datatype of a tag datatype raised', 'ok', impl.outcome_name(r))], obs
    if prior is not None and not declared:
        # the tag existed before with a value of another kind and was deleted: the new assignment starts afresh
        r0 = impl.outcome(lambda: (l.set(name, prior), l.delete(name)))
        if r0[0] != 'ok':
            return [('assigning and deleting a tag raised', 'ok', impl.outcome_name(r0))], obs
        # ... and a copy of the line was given a tag of that name with that other kind of value: the copy is another line
        r0 = impl.outcome(lambda: l.clone().set(name, prior))
        if r0[0] != 'ok':
            return [('assigning a tag on a copy raised', 'ok', impl.outcome_name(r0))], obs
    kt = kind_term(v)
    dt_expected = declared or DOC_DEFAULT.get(kt)
    ok_repr = representable(case_kind, v, dt_expected)
    r_set = impl.outcome(lambda: l.set(name, v))
    if r_set[0] != 'ok':
        if r_set[1][0] != 'gfapy':
            out.append(('assignment raised a foreign exception', 'gfapy.Error or success', impl.outcome_name(r_set)))
        elif ok_repr:
            out.append(('a valid assignment was rejected', 'accepted', impl.outcome_name(r_set)))
        return out, obs
    f23 = isinstance(v, str) and v.endswith('\n') and '\n' not in v[:-1] and dt_expected in ('Z', 'A') and \
        representable(case_kind, v[:-1], dt_expected)
    if vlevel >= 3 and not ok_repr and not f23:
        out.append(('an unrepresentable value was accepted by the assignment at level 3', 'error', 'accepted'))
    dt = impl.value_or(lambda: l.get_datatype(name), None)
    obs['datatype'] = dt
    if not declared and dt != dt_expected:
        out.append(('default datatype of a %s value' % kt, dt_expected, dt))
    r_val = impl.outcome(lambda: l.validate_field(name))
    r_str = impl.outcome(lambda: str(l))
    flagged = r_str[0] != 'ok' or 'INVALID' in r_str[1]
    for r in (r_val, r_str):
        if r[0] != 'ok' and r[1][0] != 'gfapy':
            out.append(('validation/writing raised a foreign exception', 'gfapy.Error or success', impl.outcome_name(r)))
            return out, obs
    if ok_repr:
        if r_val[0] != 'ok':
            out.append(('validate_field rejects a representable value', 'ok', impl.outcome_name(r_val)))
            return out, obs
        if flagged:
            out.append(('writing a representable value is flagged/raises', 'clean line', r_str[1] if r_str[0] == 'ok' else impl.outcome_name(r_str)))
            return out, obs
        text = r_str[1]
        tag = text.split('\t')[-1]
        obs['written'] = tag
        m = GR.TAG.fullmatch(tag)
        if not m or m.group(1) != name or m.group(2) != dt_expected or not GR.valid_value(m.group(2), m.group(3)):
            out.append(('the written tag does not match the grammar of its datatype', '%s:%s:<%s value>' % (name, dt_expected, dt_expected), tag))
            return out, obs
        r_back = impl.outcome(lambda: g.Line(text, vlevel=max(vlevel, 1), version='gfa1'))
        if r_back[0] != 'ok':
            out.append(('the written line does not parse', 'ok', impl.outcome_name(r_back)))
            return out, obs
        l2 = r_back[1]
        v2 = l2.get(name)
        if l2.get_datatype(name) != dt_expected:
            out.append(('datatype changed by write/parse', dt_expected, l2.get_datatype(name)))
        cmp_v = list(v) if isinstance(v, list) else v
        cmp_2 = list(v2) if isinstance(v2, list) else v2
        if isinstance(v, bool):
            cmp_v = int(v)
        if dt_expected == 'H':
            cmp_v, cmp_2 = list(bytes(v)), list(bytes(v2))
        if dt_expected == 'f' and isinstance(v, int):
            cmp_v = float(v)
        if not same_value(cmp_v, cmp_2):
            out.append(('value read back differs from the value assigned', repr(cmp_v), repr(cmp_2)))
        if str(l2) != text and not (dt_expected == 'f' and isinstance(v, int)):
            # an int stored in an f tag is written '5' and, once read as a float, '5.0' (canonical spelling)
            out.append(('writing the parsed line again gives another text', text, str(l2)))
    else:
        if r_val[0] == 'ok':
            if f23:
                obs['F23'] = True
            else:
                out.append(('validate_field accepts a value the datatype cannot represent', 'error', 'ok'))
        if vlevel >= 2 and not flagged and not obs.get('F23'):
            out.append(('an unrepresentable value is written without error or marker at level >= 2', 'error or INVALID marker', r_str[1]))
    return out, obs


def py_of(case):
    return ("import gfapy\nl=gfapy.Line('S\\tA\\t*',vlevel=%d,version='gfa1')\n%s%sl.set('xy',%s)\nprint(l.get_datatype('xy')); print(str(l)); l.validate_field('xy')"
            % (case['vlevel'], ("l.set_datatype('xy',%r)\n" % case['declared']) if case['declared'] else '',
               ("l.set('xy',%r); l.delete('xy')\n" % (case['prior'],)) if case.get('prior') is not None else '', case['value_repr']))


def header_tags(ctx):
    """tags of the header given a datatype through the API: the Gfa writes them with that datatype, one H line per tag"""
    g = impl.gfapy()
    for name, v, dt, text in [('xc', 'c', 'A', 'xc:A:c'), ('xj', [1, 2, 3], 'J', 'xj:J:[1, 2, 3]'), ('xf', 3, 'f', 'xf:f:3'),
                              ('xh', 'hello', 'Z', 'xh:Z:hello'), ('xb', [1, 2, 300], 'B', 'xb:B:S,1,2,300'), ('xk', {'a': 1}, 'J', 'xk:J:{"a": 1}')]:
        G = g.Gfa(version='gfa1')
        r = impl.outcome(lambda: G.header.add(name, v, dt))
        w = impl.outcome(lambda: (str(G).split('\n'), [str(x) for x in G.headers], str(G.header)))
        case = {'kind': 'header', 'tag': name, 'value_repr': repr(v), 'declared': dt, 'vlevel': 1}
        ctx.count(case, True)
        if r[0] != 'ok' or w[0] != 'ok':
            ctx.violation('failing-input', 'adding a header tag with a declared datatype raised', case, text, impl.outcome_name(r if r[0] != 'ok' else w))
        elif w[1][0] != ['H\t' + text] or w[1][1] != ['H\t' + text] or w[1][2] != 'H\t' + text:
            ctx.violation('failing-input', 'a header tag is not written with its declared datatype', case, 'H\t' + text, w[1],
                          python="import gfapy\ng=gfapy.Gfa(version='gfa1')\ng.header.add(%r,%r,%r)\nprint(g); print(g.header)" % (name, v, dt))
        else:
            back = impl.outcome(lambda: g.Gfa(str(G)).header.get_datatype(name))
            if back != ('ok', dt):
                ctx.violation('failing-input', 'the written header tag reads back with another datatype', case, dt, back[1])


def run(ctx, deep, model_ok):
    header_tags(ctx)
    g = impl.gfapy()
    rng = ctx.rng
    vals = values(rng, deep)
    it_terms, it_meta, dd_terms, cn_terms, cn_meta = [], [], [], [], []
    f23 = False
    for kind, v in vals:
        decls = [None]
        kt = kind_term(v)
        natural = DOC_DEFAULT.get(kt)
        if deep:
            decls += [d for d in 'ifZAJHB' if d != natural][:3] + [natural]
        else:
            decls += [natural, rng.choice('ifZAJHB')]
        for declared in decls:
            for vlevel in ([0, 1, 2, 3] if deep else [1, rng.choice([0, 2, 3])]):
                vr = 'gfapy.%r' % (v,) if isinstance(v, (g.NumericArray,)) else repr(v)
                if isinstance(v, g.NumericArray):
                    vr = 'gfapy.NumericArray(%r)' % list(v)
                if isinstance(v, g.ByteArray):
                    vr = 'gfapy.ByteArray(%r)' % list(v)
                vr = vr.replace('inf', "float('inf')").replace('nan', "float('nan')")
                case = {'kind': kind, 'value_repr': vr, 'vlevel': vlevel, 'declared': declared}
                prior = None
                if declared is None and rng.random() < 0.4:
                    prior = rng.choice([5, 2.5, 'abc', [1, 2], {'a': 1}])
                    case['prior'] = prior
                bnd = kind in ('intarray', 'numarray', 'int') or kind in ('mixed', 'char', 'str', 'float')
                ctx.count(case, bnd)
                r = impl.outcome(lambda: oracle_value(kind, v, vlevel, declared, prior))
                if r[0] != 'ok':
                    ctx.violation('failing-input', 'the tag API raised a foreign exception: %s' % (r[1],), case, python=py_of(case))
                    continue
                fails, obs = r[1]
                if obs.get('F23'):
                    f23 = True
                for what, exp, ob in fails[:1]:
                    ctx.violation('failing-input', what, case, exp, ob, python=py_of(case))
                # model terms
                if declared is None and kt and 'datatype' in obs and obs['datatype']:
                    dd_terms.append('(%s, %s)' % (kt, cstr(obs['datatype'])))
                if kind in ('intarray', 'numarray') and 'written' in obs and declared in (None, 'B'):
                    lo, hi = min(v), max(v)
                    st = obs['written'].split(':', 2)[2].split(',')[0]
                    it_terms.append('(%s, %s, (Some %s))' % (cz(lo), cz(hi), cstr(st)))
                    it_meta.append(case)
                if 'written' in obs and all(ord(c) < 256 for c in obs['written']):
                    t = obs['written'].split(':', 2)
                    term, acc, w = FL.canon_case_term(t[1], t[2])
                    cn_terms.append(term)
                    cn_meta.append(case)
    for b in BOUND:       # arrays no subtype holds: the kernel must fail too
        for lo, hi in ((min(0, b), max(0, b)), (-1, b)):
            if not ((lo < 0 and -2 ** 31 <= lo and hi < 2 ** 31) or (lo >= 0 and hi < 2 ** 32)) and lo <= hi:
                it_terms.append('(%s, %s, None)' % (cz(lo), cz(hi)))
                it_meta.append({'kind': 'range', 'lo': lo, 'hi': hi})
    if model_ok:
        for name, ty, chk, terms, meta in (('itype', 'itype_case', 'check_itype', it_terms, it_meta),
                                           ('ddt', 'ddt_case', 'check_ddt', dd_terms, None),
                                           ('canon', 'canon_case', 'check_canon', cn_terms, cn_meta)):
            imp = IMPORTS if name != 'canon' else FL.IMPORTS
            failing, errs = core.coq_eval_cases('C20', name, imp, ty, chk, terms)
            for e in errs:
                ctx.broken.append(('correspondence-broken', name + ': ' + e))
            for i in failing[:2]:
                case = meta[i] if meta else {'kind': 'default-datatype', 'term': terms[i]}
                ctx.disagree('model and implementation disagree (%s): %s' % (name, terms[i][:160]), case,
                              python=py_of(case) if 'value_repr' in case else None)
            ctx.notes[name + '_compared_in_coq'] = len(terms)
    if f23:
        ctx.known('F23', "a string value ending in a newline passes validate_field (`$` semantics) and is written as a broken "
                         "line: set('xy', 'end\\n')")


def replay(ctx, body):
    case = body.get('case') or {}
    if 'value_repr' not in case:
        return True
    g = impl.gfapy()
    v = eval(case['value_repr'], {'gfapy': g, 'float': float})
    r = impl.outcome(lambda: oracle_value(case['kind'], v, case['vlevel'], case['declared'], case.get('prior')))
    return r[0] != 'ok' or bool(r[1][0])
