"""Helpers for running the implementation (gfapy from /repo) and classifying outcomes."""
import os
import sys

from . import core

if core.REPO not in sys.path:
    sys.path.insert(0, core.REPO)

GERR = {'Error': 'EError', 'VersionError': 'EVersion', 'RuntimeError': 'ERuntime',
        'ValueError': 'EValue', 'FormatError': 'EFormat', 'TypeError': 'EType',
        'ArgumentError': 'EArgument', 'NotUniqueError': 'ENotUnique',
        'InconsistencyError': 'EInconsistency', 'NotFoundError': 'ENotFound',
        'AssertionError': 'EAssertion'}
FOREIGN = {'IndexError': 'IndexError', 'KeyError': 'KeyError', 'AttributeError': 'AttributeError',
           'TypeError': 'PyTypeError', 'ValueError': 'PyValueError', 'RecursionError': 'RecursionError'}


def gfapy():
    import gfapy as g
    here = os.path.realpath(os.path.dirname(os.path.dirname(g.__file__)))
    if here != os.path.realpath(core.REPO):
        raise RuntimeError("gfapy imported from %s instead of %s" % (here, core.REPO))
    return g


def exn_class(e):
    """('gfapy', 'FormatError') or ('foreign', 'IndexError')"""
    g = gfapy()
    if isinstance(e, g.Error):
        return ('gfapy', type(e).__name__)
    return ('foreign', type(e).__name__)


def exn_term(cls):
    kind, name = cls
    if kind == 'gfapy':
        return '(G %s)' % GERR.get(name, 'EError')
    return '(Foreign %s)' % FOREIGN.get(name, 'OtherExn')


def outcome(f):
    """('ok', value) | ('err', (kind, classname))"""
    try:
        return ('ok', f())
    except RecursionError as e:
        return ('err', ('foreign', 'RecursionError'))
    except Exception as e:
        return ('err', exn_class(e))


def outcome_name(o):
    return 'ok' if o[0] == 'ok' else '%s.%s' % o[1]


def value_or(f, default):
    try:
        return f()
    except Exception:
        return default
