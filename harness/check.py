"""./bin/check Cnn quick|thorough [--replay FILE]"""
import importlib
import json
import os
import sys
import time
import traceback

from . import core


def main(argv):
    if len(argv) < 2:
        print("usage: check Cnn quick|thorough [--replay FILE]")
        return 2
    prop = argv[0]
    replay = None
    if '--replay' in argv:
        replay = argv[argv.index('--replay') + 1]
        tier = 'quick'
    else:
        tier = argv[1]
    if tier not in ('quick', 'thorough'):
        tier = os.environ.get('VERIF_TIER', 'quick')
    sys.path.insert(0, core.REPO)
    mod = importlib.import_module('harness.props.' + prop.lower())
    ctx = core.Ctx(prop, tier)
    if replay:
        body = json.load(open(replay if os.path.isabs(replay) else os.path.join(core.VERIF, replay)))
        still = mod.replay(ctx, body)
        print("REPLAY property=%s still_fails=%s" % (prop, still))
        return 1 if still else 0

    # 1-3: translate, build, prove (serialised: the build tree is shared by all checks)
    with core.Lock():
        gs = core.translate()
        ctx.gen_status = gs
        for unit, items in gs.get('broken', {}).items():
            if unit in mod.DEPS or unit in ('translator', 'Tables', 'Kernels'):
                for where, why in items:
                    ctx.broken.append(('translation-broken', '%s %s: %s' % (unit, where, why)))
        bad = core.scan_forbidden()
        if bad:
            ctx.broken.append(('proof-broken', 'forbidden constructs in the development: %s' % bad[:5]))
        ctx.proof = core.prove(prop)
        if ctx.proof.get('error'):
            ctx.broken.append(('proof-broken', ctx.proof['error']))
        model_ok = True
        if hasattr(mod, 'MODEL_TARGETS'):
            rc, out, err, _ = core.make(mod.MODEL_TARGETS)
            if rc != 0:
                model_ok = False
                ctx.broken.append(('correspondence-broken', 'model does not build: ' + (err or out)[-400:]))
    # 4-5: correspondence and property oracle (the search); deep when anything above broke
    deep = (tier == 'thorough') or bool(ctx.broken)
    try:
        mod.run(ctx, deep=deep, model_ok=model_ok)
    except Exception:
        ctx.broken.append(('correspondence-broken', 'harness exception: ' + traceback.format_exc()[-1500:]))
    have_input = any(v['kind'] == 'failing-input' for v in ctx.violations)
    if not have_input and not deep and any(v['kind'] == 'correspondence-broken' for v in ctx.violations):
        # model and implementation disagree: search the implementation with the thorough budget for an input on
        # which the property itself fails (oracle only)
        try:
            mod.run(ctx, deep=True, model_ok=False)
        except Exception:
            ctx.broken.append(('correspondence-broken', 'harness exception in the deep search: ' + traceback.format_exc()[-800:]))
    for kind, detail in ctx.broken:
        thm = None
        if kind == 'proof-broken':
            thm = detail
        ctx.violation(kind, detail, theorem=thm)
    return core.finish(ctx, mod.LEVEL_TEXT, mod.RULE, mod.ASSUMPTIONS)


if __name__ == '__main__':
    sys.exit(main(sys.argv[1:]))
