"""Shared machinery of the checks: translation, Coq build, proof-obligation accounting,
in-Coq evaluation of correspondence cases, evidence, replay files, verdicts."""
import fcntl
import hashlib
import json
import os
import random
import re
import shutil
import subprocess
import sys
import time

VERIF = os.path.dirname(os.path.dirname(os.path.abspath(__file__)))
REPO = os.environ.get('GFAPY_REPO', '/repo')
COQ = os.path.join(VERIF, 'coq')
BUILD = os.path.join(VERIF, 'build')
PY = '/venv/bin/python'
NPROC = min(16, os.cpu_count() or 4)

FORBIDDEN = re.compile(r'\b(Admitted|admit|Axiom|Axioms|Parameter|Parameters|Conjecture|Hypothesis|Variable|'
                       r'Admit Obligations|bypass_check)\b|Unset Guard Checking|Unset Positivity|'
                       r'Unset Universe Checking|type-in-type|impredicative-set|native_compute')

TRUSTED_BASE = [
    "Coq 8.16.1 kernel (coqc), vm_compute for finite sweeps, refutation witnesses and in-Coq "
    "evaluation of correspondence cases; no native_compute",
    "no axioms: every property theorem must print 'Closed under the global context' (parsed on every run)",
    "translator/gen.py + kernels.py + pyregex.py: the Python-ast/regex -> Gallina rules (Tie A)",
    "hand-written Gallina model of the imperative parts, tied to /repo by the correspondence run (Tie B) "
    "over generated cases only",
    "harness: generators, canonical observation, independent oracles, printing of cases as Coq terms",
]


def log(*a):
    print(*a, file=sys.stderr, flush=True)


class Lock:
    def __init__(self, name='build'):
        os.makedirs(BUILD, exist_ok=True)
        self.path = os.path.join(BUILD, '.%s.lock' % name)

    def __enter__(self):
        self.f = open(self.path, 'w')
        fcntl.flock(self.f, fcntl.LOCK_EX)
        return self

    def __exit__(self, *a):
        fcntl.flock(self.f, fcntl.LOCK_UN)
        self.f.close()


def run(cmd, timeout, cwd=None, env=None, inp=None):
    t0 = time.time()
    try:
        p = subprocess.run(cmd, cwd=cwd, env=env, input=inp, capture_output=True, text=True, timeout=timeout)
        return p.returncode, p.stdout, p.stderr, time.time() - t0
    except subprocess.TimeoutExpired as e:
        out = e.stdout.decode() if isinstance(e.stdout, bytes) else (e.stdout or '')
        err = e.stderr.decode() if isinstance(e.stderr, bytes) else (e.stderr or '')
        return 124, out, err + '\nTIMEOUT after %ss' % timeout, time.time() - t0


# ----------------------------------------------------------------------------------------
# Tie A: translate + build
# ----------------------------------------------------------------------------------------
def translate():
    """regenerate coq/Gen from the working tree; returns the status dict of gen.py"""
    os.makedirs(BUILD, exist_ok=True)
    status_file = os.path.join(BUILD, 'gen_status.json')
    env = dict(os.environ, PYTHONPATH=REPO, PYTHONHASHSEED='0')
    rc, out, err, _ = run([PY, os.path.join(VERIF, 'translator', 'gen.py'), REPO,
                           os.path.join(COQ, 'Gen'), status_file], 120, env=env)
    if rc != 0 or not os.path.exists(status_file):
        return {'broken': {'translator': [["gen.py", "exit %s: %s" % (rc, (err or out)[-400:])]]},
                'changed': [], 'units': {}, 'regex_listing': []}
    return json.load(open(status_file))


def ensure_makefile():
    mk = os.path.join(COQ, 'Makefile')
    cp = os.path.join(COQ, '_CoqProject')
    if not os.path.exists(mk) or os.path.getmtime(mk) < os.path.getmtime(cp):
        rc, out, err, _ = run(['coq_makefile', '-f', '_CoqProject', '-o', 'Makefile'], 60, cwd=COQ)
        if rc != 0:
            raise RuntimeError("coq_makefile failed: " + err)


def make(targets, timeout=900, jobs=NPROC):
    ensure_makefile()
    return run(['make', '-j%d' % jobs, '-k'] + targets, timeout, cwd=COQ,
               env=dict(os.environ, TIMED=''))


def scan_forbidden():
    bad = []
    for d, _, fs in os.walk(COQ):
        for f in fs:
            if f.endswith('.v'):
                p = os.path.join(d, f)
                txt = open(p).read()
                # comments may talk about axioms; strip them
                txt = re.sub(r'\(\*.*?\*\)', '', txt, flags=re.S)
                for m in FORBIDDEN.finditer(txt):
                    bad.append("%s: %s" % (os.path.relpath(p, VERIF), m.group(0)))
    return bad


def theorems_in(vfile):
    txt = re.sub(r'\(\*.*?\*\)', '', open(vfile).read(), flags=re.S)
    thms = re.findall(r'^\s*(?:Theorem|Lemma)\s+([A-Za-z0-9_\']+)', txt, flags=re.M)
    examples = re.findall(r'^\s*Example\s+([A-Za-z0-9_\']+)', txt, flags=re.M)
    prints = re.findall(r'Print Assumptions\s+([A-Za-z0-9_\']+)', txt)
    return thms, examples, prints


def prove(prop):
    """(re)compile Props/<prop>.v and everything it needs; return obligations record"""
    rel = 'Props/%s.v' % prop
    vfile = os.path.join(COQ, rel)
    rec = {'file': rel, 'obligations': 0, 'discharged': 0, 'theorems': [], 'assumptions': {},
           'error': None, 'wall_s': 0.0}
    if not os.path.exists(vfile):
        rec['error'] = 'missing ' + rel
        return rec
    thms, examples, prints = theorems_in(vfile)
    rec['theorems'] = thms
    rec['examples'] = examples
    rec['obligations'] = len(thms) + len(examples)
    vo = vfile + 'o'
    if os.path.exists(vo):
        os.remove(vo)
    rc, out, err, wall = make([rel + 'o'])
    rec['wall_s'] = round(wall, 2)
    if rc != 0:
        m = re.search(r'File "([^"]+)", line (\d+), characters [\d-]+:\s*\nError:?\s*(.*?)(?:\n\n|\nmake)', err + out, flags=re.S)
        rec['error'] = ("%s:%s %s" % (m.group(1), m.group(2), m.group(3).strip()[:400])) if m else (err or out)[-600:]
        return rec
    closed = out.count('Closed under the global context')
    axioms = re.findall(r'Axioms:\s*\n((?:.+\n)+?)(?=\S|\Z)', out)
    if axioms or closed != len(prints):
        rec['error'] = 'Print Assumptions: %d closed of %d; axioms: %s' % (closed, len(prints), axioms)
        rec['assumptions'] = {'closed': closed, 'expected': len(prints), 'axioms': axioms}
        return rec
    missing = [t for t in thms if t not in prints]
    rec['assumptions'] = {'closed': closed, 'expected': len(prints), 'axioms': [], 'not_printed': missing}
    if missing:
        rec['error'] = 'theorems without Print Assumptions: %s' % missing
        return rec
    rec['discharged'] = rec['obligations']
    return rec


# ----------------------------------------------------------------------------------------
# terms
# ----------------------------------------------------------------------------------------
def cstr(s):
    """Python str -> Coq term of type string"""
    if all(32 <= ord(c) <= 126 for c in s):
        return '"' + s.replace('"', '""') + '"'
    parts = []
    cur = ''
    for c in s:
        o = ord(c)
        if o > 255:
            raise ValueError("non 8-bit character in a model case")
        if 32 <= o <= 126:
            cur += c
        else:
            if cur:
                parts.append('"' + cur.replace('"', '""') + '"')
                cur = ''
            parts.append('(String (ascii_of_nat %d) EmptyString)' % o)
    if cur:
        parts.append('"' + cur.replace('"', '""') + '"')
    return '(' + ' ++ '.join(parts) + ')%string'


def cz(n):
    return '(%d)%%Z' % n


def cbool(b):
    return 'true' if b else 'false'


def clist(xs):
    return '[' + '; '.join(xs) + ']'


def copt(x):
    return 'None' if x is None else '(Some %s)' % x


def cpair(*xs):
    return '(' + ', '.join(xs) + ')'


# ----------------------------------------------------------------------------------------
# Tie B: evaluate cases inside Coq
# ----------------------------------------------------------------------------------------
def coq_eval_cases(prop, name, imports, case_type, checker, cases, shard=400, timeout=600):
    """cases: list of Coq terms of type case_type.  `checker : case_type -> bool` is a Coq
    expression.  Returns (list of failing case indices, errors).  Each shard is one coqc run
    that prints the indices (within the shard) on which checker returned false."""
    d = os.path.join(BUILD, 'cases', prop)
    os.makedirs(d, exist_ok=True)
    for f in os.listdir(d):
        if f.startswith(name + '_'):
            os.remove(os.path.join(d, f))
    files = []
    for k in range(0, len(cases), shard):
        part = cases[k:k + shard]
        fn = os.path.join(d, '%s_%d.v' % (name, k // shard))
        with open(fn, 'w') as f:
            f.write("From Coq Require Import List String Ascii ZArith Bool.\n")
            f.write(imports + "\nImport ListNotations.\nOpen Scope string_scope.\nOpen Scope list_scope.\n")
            f.write("Definition cases : list (%s) := [\n  %s\n].\n" % (case_type, ';\n  '.join(part)))
            f.write("Fixpoint failing (i : nat) (l : list (%s)) : list nat :=\n"
                    "  match l with [] => [] | c :: r => if (%s) c then failing (S i) r else i :: failing (S i) r end.\n"
                    % (case_type, checker))
            f.write("Eval vm_compute in (failing 0 cases).\n")
        files.append((k, fn))
    failing, errors = [], []
    procs = []
    for k, fn in files:
        procs.append((k, fn, subprocess.Popen(
            ['timeout', str(timeout), 'coqc', '-Q', COQ, 'GfaV', '-w', '-notation-overridden', fn],
            stdout=subprocess.PIPE, stderr=subprocess.PIPE, text=True, cwd=d)))
        while sum(1 for _, _, p in procs if p.poll() is None) >= NPROC:
            time.sleep(0.05)
    for k, fn, p in procs:
        out, err = p.communicate()
        if p.returncode != 0:
            errors.append("%s: exit %s: %s" % (os.path.basename(fn), p.returncode, (err or out)[-500:]))
            continue
        m = re.search(r'=\s*\[(.*?)\]\s*:\s*list nat', out, flags=re.S)
        if not m:
            errors.append("%s: unparsable output %r" % (os.path.basename(fn), out[-300:]))
            continue
        body = m.group(1).strip()
        if body:
            for x in body.split(';'):
                failing.append(k + int(x.strip()))
    return sorted(failing), errors


def coq_eval_strings(prop, name, imports, exprs, timeout=300):
    """evaluate a list of Coq expressions of type string, return the Python strings
    (used by the search to show what the model answers on a disagreement)"""
    d = os.path.join(BUILD, 'cases', prop)
    os.makedirs(d, exist_ok=True)
    fn = os.path.join(d, name + '_show.v')
    with open(fn, 'w') as f:
        f.write("From Coq Require Import List String Ascii ZArith Bool.\n" + imports +
                "\nImport ListNotations.\nOpen Scope string_scope.\nOpen Scope list_scope.\n")
        f.write("Definition hexd (n : nat) : ascii := nth n (list_ascii_of_string \"0123456789abcdef\") \"0\"%char.\n"
                "Fixpoint hex (s : string) : string := match s with EmptyString => EmptyString | String c r => "
                "String (hexd (Nat.div (nat_of_ascii c) 16)) (String (hexd (Nat.modulo (nat_of_ascii c) 16)) (hex r)) end.\n")
        for e in exprs:
            f.write("Eval vm_compute in (hex (%s)).\n" % e)
    rc, out, err, _ = run(['coqc', '-Q', COQ, 'GfaV', '-w', '-notation-overridden', fn], timeout, cwd=d)
    if rc != 0:
        return None, (err or out)[-500:]
    vals = re.findall(r'=\s*"([0-9a-f\s]*)"\s*:\s*string', out)
    return [bytes.fromhex(re.sub(r'\s', '', v)).decode('latin-1') for v in vals], None


# ----------------------------------------------------------------------------------------
# evidence / verdict
# ----------------------------------------------------------------------------------------
def sha(obj):
    return hashlib.sha1(json.dumps(obj, sort_keys=True, default=str).encode()).hexdigest()


def load_known():
    p = os.path.join(VERIF, 'known_findings.json')
    return json.load(open(p))['findings'] if os.path.exists(p) else []


class Ctx:
    def __init__(self, prop, tier):
        self.prop = prop
        self.tier = tier
        self.seed = int(os.environ.get('VERIF_SEED', '0') or 0)
        self.t0 = time.time()
        self.rng = random.Random(self.seed * 1000003 + int(prop[1:]))
        self.violations = []        # dicts: kind, what, case, expected, observed, python
        self.known_hits = {}        # finding id -> count
        self.known_lines = []
        self.coverage = {'evaluations': 0, 'distinct_nontrivial': 0, 'samples': []}
        self.seen = set()
        self.nontrivial = set()
        self.notes = {}
        self.gen_status = None
        self.proof = None
        self.broken = []            # (kind, detail) from steps 1-4

    def quick(self):
        return self.tier == 'quick'

    def count(self, case, nontrivial):
        """account one evaluated case (JSON-able); returns True when new"""
        self.coverage['evaluations'] += 1
        h = sha(case)
        new = h not in self.seen
        self.seen.add(h)
        if nontrivial and h not in self.nontrivial:
            self.nontrivial.add(h)
        if new and len(self.coverage['samples']) < 6 and (nontrivial or len(self.seen) < 3):
            self.coverage['samples'].append(case)
        return new

    def violation(self, kind, what, case=None, expected=None, observed=None, python=None, theorem=None):
        self.violations.append({'kind': kind, 'what': what, 'case': case, 'expected': expected,
                                'observed': observed, 'python': python, 'theorem': theorem})

    def disagree(self, what, case=None, python=None):
        """model and implementation differ on a case: the correspondence is broken (not by itself a failing
        input of the property; the oracle decides that)"""
        self.violations.append({'kind': 'correspondence-broken', 'what': what, 'case': case, 'expected': None,
                                'observed': None, 'python': python, 'theorem': None})

    def known(self, fid, what):
        if not any(f.get('id') == fid and (f.get('property') == self.prop or self.prop in f.get('also_affects', [])) and f.get('status') == 'known' for f in load_known()):
            # only findings listed in the committed file are suppressed
            self.violation('failing-input', 'finding %s is not listed for %s in known_findings.json: %s' % (fid, self.prop, what))
            return
        self.known_hits[fid] = self.known_hits.get(fid, 0) + 1
        line = "KNOWN-FINDING: property=%s %s %s" % (self.prop, fid, what)
        if line not in self.known_lines:
            self.known_lines.append(line)


def write_replay(prop, v):
    d = os.path.join(VERIF, 'replays')
    os.makedirs(d, exist_ok=True)
    body = dict(v, property=prop)
    p = os.path.join(d, '%s-%s.json' % (prop, sha(body)[:12]))
    with open(p, 'w') as f:
        json.dump(body, f, indent=1, default=str)
    return os.path.relpath(p, VERIF)


def finish(ctx, level_text, rule, assumptions, extra=None):
    """write evidence, print verdict lines, return exit code"""
    cov = ctx.coverage
    cov['distinct_nontrivial'] = len(ctx.nontrivial)
    cov['distinct'] = len(ctx.seen)
    cov['rule'] = rule
    pr = ctx.proof or {}
    cov['obligations'] = pr.get('obligations', 0)
    cov['discharged'] = pr.get('discharged', 0)
    cov['checker_cmd'] = "make -C coq Props/%s.vo  (coqc 8.16.1; Print Assumptions parsed)" % ctx.prop
    cov['trusted_base'] = TRUSTED_BASE
    cov['theorems'] = pr.get('theorems', [])
    cov['examples'] = pr.get('examples', [])
    cov['print_assumptions'] = pr.get('assumptions', {})
    cov['proof_error'] = pr.get('error')
    gs = ctx.gen_status or {}
    cov['generated_units'] = gs.get('units', {})
    cov['translation_broken'] = gs.get('broken', {})
    cov['known_findings_reproduced'] = ctx.known_hits
    cov['explanation'] = level_text
    if extra:
        cov.update(extra)
    cov.update(ctx.notes)
    nviol = len(ctx.violations)
    ev = {'property_id': ctx.prop, 'tier': ctx.tier, 'seed': ctx.seed, 'level': 'proof',
          'coverage': cov, 'assumptions': assumptions, 'wall_s': round(time.time() - ctx.t0, 2),
          'violations': nviol}
    os.makedirs(os.path.join(VERIF, 'evidence'), exist_ok=True)
    with open(os.path.join(VERIF, 'evidence', ctx.prop + '.json'), 'w') as f:
        json.dump(ev, f, indent=1, default=str)
    for line in ctx.known_lines:
        print(line)
    if not ctx.violations:
        print("OK property=%s tier=%s obligations=%d/%d evaluations=%d nontrivial=%d wall=%.1fs" % (
            ctx.prop, ctx.tier, cov['discharged'], cov['obligations'], cov['evaluations'],
            cov['distinct_nontrivial'], time.time() - ctx.t0))
        return 0
    # one VIOLATION line per distinct violation, failing inputs first
    ctx.violations.sort(key=lambda v: 0 if v['kind'] == 'failing-input' else 1)
    have_input = any(v['kind'] == 'failing-input' for v in ctx.violations)
    printed = 0
    for v in ctx.violations:
        if have_input and v['kind'] != 'failing-input':
            # the broken obligation is explained by the failing input; keep it in that replay
            continue
        if printed >= 5:
            break
        if v['kind'] == 'failing-input':
            v = dict(v, also_broken=[b for b in ctx.broken])
        path = write_replay(ctx.prop, v)
        suffix = '' if v['kind'] == 'failing-input' else ' no-failing-input-found'
        print("VIOLATION property=%s replay=%s%s" % (ctx.prop, path, suffix))
        log("  " + v['kind'] + ": " + str(v['what'])[:300])
        printed += 1
    return 1
