"""Python twin of coq/Spec/EdgeSpec.v — the specification's edge semantics, independent of gfapy."""


def parse_pos(s):
    return (int(s[:-1]), True) if s.endswith('$') else (int(s), False)


def ikind(b, e):
    (bv, bl), (ev, el) = b, e
    if bv == 0:
        return 'whole' if el else 'pfx'
    return 'sfx' if el else 'internal'


def eff(o, k):
    if o == '+':
        return k
    return {'pfx': 'sfx', 'sfx': 'pfx'}.get(k, k)


def edge_class(o1, o2, k1, k2):
    if k1 == 'whole' or k2 == 'whole':
        return 'C'
    if {eff(o1, k1), eff(o2, k2)} == {'sfx', 'pfx'}:
        return 'L'
    return 'I'


def end_of(k):
    return 'L' if k == 'pfx' else 'R'


def collection_of_E(o1, o2, snum, k1, k2):
    c = edge_class(o1, o2, k1, k2)
    if c == 'C':
        sid1_container = (k2 == 'whole')
        return 'edges_to_contained' if (snum == 1) == sid1_container else 'edges_to_containers'
    if c == 'L':
        return 'dovetails_' + end_of(k1 if snum == 1 else k2)
    return 'internals'


def trailing(o):
    return 'R' if o == '+' else 'L'


def leading(o):
    return 'L' if o == '+' else 'R'


def collection_of_L(fo, to, is_from):
    return 'dovetails_' + (trailing(fo) if is_from else leading(to))


def collection_of_C(is_from):
    return 'edges_to_contained' if is_from else 'edges_to_containers'


def collection_of_G(o1, o2, snum):
    return 'gaps_' + (trailing(o1) if snum == 1 else leading(o2))
