"""Histories of public mutations on a Gfa: canonical observation of the implementation, generators,
Coq case terms for Corr/Graphc.v.  Shared by C02, C03, C05, C08, C09."""
from . import core, impl, gen, linelab as LL
from .core import cstr, clist, copt

IMPORTS = ("From GfaV Require Import Base.Py Base.Regex Model.Align Model.Link Model.Codec Model.Line Model.Graph "
           "Corr.C12c Corr.Graphc.")
ALL_COLLS = ["dovetails_L", "dovetails_R", "edges_to_contained", "edges_to_containers", "paths", "sets",
             "gaps_L", "gaps_R", "fragments", "internals"]
WITH_NAME = ['E', 'S', 'P', 'U', 'G', 'O', '\n']


def line_text(x):
    return str(x)


def impl_obs(G):
    rows = []
    for ln in G.lines:
        rt = ln.record_type
        if rt == 'H':
            continue
        t = line_text(ln)
        rows.append('|'.join(['L', '1' if ln.virtual else '0', t]))
        cls = ln.__class__
        colls = list(cls.DEPENDENT_LINES) + list(cls.OTHER_REFERENCES)
        name = ln.name if hasattr(ln, 'name') else None
        if rt in WITH_NAME and isinstance(name, str) and (name != '*' or rt == 'S'):
            for c in ALL_COLLS:
                if c in colls:
                    rows.append('|'.join(['B', t, c, ';'.join(sorted(line_text(m) for m in getattr(ln, c)))]))
        if rt == 'L':
            rows.append('|'.join(['B', t, 'paths', ';'.join(sorted(line_text(m) for m in ln.paths))]))
        if rt == 'P':
            rows.append('|'.join(['P', t, ';'.join('%s:%s' % (line_text(ol.line), ol.orient) for ol in ln.links)]))
    return '\n'.join(sorted(rows))


def apply_op(G, op):
    g = impl.gfapy()
    k = op[0]
    if k == 'add':
        return impl.outcome(lambda: G.add_line(op[1]))
    if k == 'rm':
        return impl.outcome(lambda: G.rm(op[1]))
    if k == 'rename':
        def f():
            l = G.try_get_line(op[1])
            l.name = op[2]
        return impl.outcome(f)
    if k == 'rmline':
        # removal by instance: the first line that is not a placeholder and is written as the given text
        def f():
            for x in G.lines:
                if x.record_type != 'H' and not x.virtual and str(x) == op[1]:
                    # Gfa.rm(line) and line.disconnect() are the two public ways; which one is used depends on the text only
                    return G.rm(x) if sum(map(ord, op[1])) % 2 else x.disconnect()
            raise g.NotFoundError('no line is written as %r' % op[1])
        return impl.outcome(f)
    if k == 'rmlast':
        # removal by instance of the LAST line written as the given text (two records may be written alike: containments,
        # fragments, edges and gaps without identifier); for the text-level model it is the same step as 'rmline'
        def f2():
            m = [x for x in G.lines if x.record_type != 'H' and not x.virtual and str(x) == op[1]]
            if not m:
                raise g.NotFoundError('no line is written as %r' % op[1])
            return G.rm(m[-1]) if sum(map(ord, op[1])) % 2 else m[-1].disconnect()
        return impl.outcome(f2)
    raise ValueError(k)


def op_term(op):
    if op[0] == 'add':
        return '(OAdd %s)' % cstr(op[1])
    if op[0] == 'rm':
        return '(ORm %s)' % cstr(op[1])
    if op[0] in ('rmline', 'rmlast'):
        return '(ORmLine %s)' % cstr(op[1])
    return '(ORename %s %s)' % (cstr(op[1]), cstr(op[2]))


def run_history(version, vlevel, ops):
    """returns list of (op, outcome, obs) and the Gfa"""
    g = impl.gfapy()
    G = g.Gfa(version=version, vlevel=vlevel)
    trace = []
    for op in ops:
        r = apply_op(G, op)
        o = impl.outcome(lambda: impl_obs(G))
        trace.append((op, r, o[1] if o[0] == 'ok' else 'OBS-ERROR:%s' % (o[1],)))
    return trace, G


def hist_term(version, vlevel, trace):
    ft, jt = [], []
    items = []
    for op, r, ob in trace:
        if op[0] == 'add':
            a, b = LL.tables_for(op[1])
            ft += a
            jt += b
        e = 'None' if r[0] == 'ok' else '(Some %s)' % impl.exn_term(r[1])
        items.append('(%s, %s, %s)' % (op_term(op), e, cstr(ob)))
    fts = clist(['(%s, %s)' % (cstr(a), cstr(b)) for a, b in ft])
    jts = clist(['(%s, %s)' % (cstr(a), copt(cstr(b)) if b is not None else 'None') for a, b in jt])
    return '(%s, %d, %s, %s, %s)' % (cstr(version), vlevel, clist(items), fts, jts)


def show_model(prop, term):
    """(step index, model outcome, model observation) of the first differing operation"""
    vals, err = core.coq_eval_strings(prop, 'showhist', IMPORTS, ['first_diff %s' % term])
    if not vals or vals[0] == 'none':
        return None, err or 'no difference found by the model run'
    i, out, ob = vals[0].split('@@', 2)
    return (int(i), out, ob), None


def first_difference(trace, model):
    i, mo, mob = model
    op, r, ob = trace[i]
    io = 'ok' if r[0] == 'ok' else r[1][1]
    a, b = set(ob.split('\n')), set(mob.split('\n'))
    return i, op, io, mo, sorted(a - b)[:4], sorted(b - a)[:4]


# ------------------------------------------------------------------ generators
def clean_doc(rng, version):
    """a valid document inside the modelled domain: no ID tags on L/C, no gaps in sets, unambiguous paths,
    no header lines"""
    if version == 'gfa1':
        lines, info = gen.gen_gfa1(rng, headers=False, tags=rng.random() < 0.5)
        lines = [l for l in lines if 'ID:Z:' not in l]
    else:
        lines, info = gen.gen_gfa2(rng, headers=False, tags=rng.random() < 0.5)
        gone = set(x['id'] for x in info['gaps'])
        while True:
            keep = []
            for l in lines:
                f = l.split('\t')
                if f[0] == 'U' and set(f[2].split(' ')) & gone:
                    gone.add(f[1])          # groups that list a dropped group are dropped as well
                    continue
                if f[0] == 'O' and set(x[:-1] for x in f[2].split(' ')) & gone:
                    gone.add(f[1])
                    continue
                keep.append(l)
            if len(keep) == len(lines):
                break
            lines = keep
    return lines, info


def names_in(lines):
    out = []
    for l in lines:
        f = l.split('\t')
        if f[0] in 'SPEGOU' and len(f) > 1 and f[1] != '*':
            out.append((f[0], f[1]))
    return out


def gen_history(rng, version, nops=None, fail_rate=0.25):
    lines, info = clean_doc(rng, version)
    order = list(lines)
    if rng.random() < 0.7:
        rng.shuffle(order)
    ops = [('add', l) for l in order]
    named = names_in(lines)
    segs = [n for k, n in named if k == 'S']
    nops = nops if nops is not None else rng.randint(1, 8)
    fresh_i = [0]

    def fresh():
        fresh_i[0] += 1
        return 'n%d' % fresh_i[0]
    for _ in range(nops):
        r = rng.random()
        if r < 0.35 and named:
            k, n = rng.choice(named)
            ops.append(('rm', n))
        elif r < 0.5 and segs:
            old = rng.choice(segs)
            new = fresh() if rng.random() > fail_rate else rng.choice([n for _, n in named] + ['a b', 'x\ty', '', 'q+,'])
            ops.append(('rename', old, new))
            if new not in [n for _, n in named]:
                segs = [new if x == old else x for x in segs]
                named = [(k, new if (x == old and k == 'S') else x) for k, x in named]
        elif r < 0.6:
            ops.append(('rm', rng.choice(['nosuch', '*', fresh()])))
        elif r < 0.7:
            # removal by instance of a line without identifier (fragments, links, containments, unnamed edges and gaps)
            anon = [l for l in lines if l[:1] in 'LCF' or l.startswith(('E\t*\t', 'G\t*\t'))]
            if anon:
                ops.append(('rmline', rng.choice(anon)))
        else:
            # add: a line of the document again (duplicate / complement / merge), a new valid one, or a malformed one
            c = rng.random()
            if c < 0.35 and lines:
                ops.append(('add', rng.choice(lines)))
            elif c < 0.7:
                a = rng.choice(segs) if segs else 'A'
                b = rng.choice(segs) if segs else 'B'
                if version == 'gfa1':
                    new = rng.choice(['S\t%s\t*' % fresh(), 'L\t%s\t+\t%s\t-\t%s' % (a, b, rng.choice(['7M', '1M2D'])),
                                      'C\t%s\t+\t%s\t+\t0\t*' % (a, b), 'P\t%s\t%s+\t*' % (fresh(), a),
                                      'L\t%s\t+\t%s\t+\t2M' % (a, fresh())])
                else:
                    new = rng.choice(['S\t%s\t10\t*' % fresh(), 'E\t%s\t%s+\t%s-\t0\t2\t0\t2\t*' % (fresh(), a, b),
                                      'G\t%s\t%s+\t%s+\t5\t*' % (fresh(), a, b), 'F\t%s\tr9+\t0\t1\t0\t1\t*' % a,
                                      'U\t%s\t%s %s' % (fresh(), a, b), 'O\t%s\t%s+' % (fresh(), a),
                                      'E\t*\t%s+\t%s+\t8\t10$\t0\t2\t*' % (a, fresh()), 'X\tfield\tzz:i:1'])
                ops.append(('add', new))
            else:
                base = rng.choice(lines) if lines else 'S\tA\t*'
                i = rng.randrange(len(base))
                ops.append(('add', base[:i] + rng.choice('\t:* +') + base[i + 1:]))
    return ops


# ------------------------------------------------------------------ known-finding patterns (structural)
def text_mentions(f):
    """(identifier, must be a segment) pairs mentioned by a line given as its fields"""
    rt = f[0]
    try:
        if rt in ('L', 'C'):
            return [(f[1], True), (f[3], True)]
        if rt == 'P':
            return [(x[:-1], True) for x in f[2].split(',')]
        if rt in ('E', 'G'):
            return [(f[2][:-1], True), (f[3][:-1], True)]
        if rt == 'F':
            return [(f[1], True)]
        if rt == 'O':
            return [(x[:-1], False) for x in f[2].split(' ')]
        if rt == 'U':
            return [(x, False) for x in f[2].split(' ')]
    except IndexError:
        return []
    return []


def text_name(f):
    if f[0] in 'SPEGOU' and len(f) > 1 and f[1] != '*':
        return f[1]
    return None


def known_pattern(ops):
    """(finding id, description) if the history leaves the domain of the theorems in one of the recorded ways"""
    defined = {}      # identifier -> record type of the line that carries it
    seg_mentioned = set()
    gaps, sets_with_gap = set(), False
    for op in ops:
        if op[0] == 'rename':
            if op[2] == '*':
                # only edges, gaps and groups may give their identifier up; for the others the rename fails
                if defined.get(op[1]) in ('E', 'G', 'O', 'U'):
                    defined.pop(op[1])
            elif op[1] in defined and op[2] not in defined:
                defined[op[2]] = defined.pop(op[1])
            continue
        if op[0] != 'add':
            if op[0] == 'rm' and op[1] in defined:
                defined.pop(op[1], None)
            continue
        f = op[1].split('\t')
        if f[0] in ('L', 'C') and any(t.startswith('ID:Z:') for t in f):
            return ('F17', 'an L/C line carries an ID tag (outside the duplicate search)')
        n = text_name(f)
        ms = text_mentions(f)
        if n is not None and any(t == n for t, _ in ms):
            return ('F50', 'a line mentions its own identifier (%r): gfapy files a placeholder and the line under one identifier' % n)
        for t, seg in ms:
            if seg and t in defined and defined[t] != 'S':
                return ('F51', 'a line mentions, where a segment is required, the identifier %r of a %s line: the addition raises '
                               'NotUniqueError after back-references were already stored' % (t, defined[t]))
            if seg:
                seg_mentioned.add(t)
        if n is not None and f[0] != 'S' and n in seg_mentioned and n not in defined:
            return ('F49', 'the identifier %r, mentioned as a segment, is defined by a %s line that replaces the segment placeholder' % (n, f[0]))
        if f[0] == 'G' and n:
            gaps.add(n)
        if f[0] == 'U' and any(t in gaps for t, _ in ms):
            return ('F28', 'a gap is listed in a set (Gap declares no sets collection)')
        if n is not None and n not in defined:
            defined[n] = f[0]
    return None
