import gfapy, traceback
def t(label, f):
    try:
        r = f()
        print(label, "->", repr(r)[:400])
    except Exception as e:
        print(label, "RAISED", type(e).__module__+"."+type(e).__name__, str(e)[:150].replace("\n"," | "))

# C08
def c08a():
    g = gfapy.Gfa("S\tA\t10\t*\nS\tB\t10\t*\nE\te\tA+\tB+\t0\t5\t5\t10$\t*")
    before = str(g)
    try:
        g.add_line("U\tA\tB e")
    except Exception as e:
        err = type(e).__name__
    else: err=None
    return err, before, str(g), g.names
t("C08 U named like segment", c08a)
def c08b():
    g = gfapy.Gfa("H\tVN:Z:1.0\tTS:i:5")
    before=str(g)
    try: g.add_line("H\txx:i:1\tTS:i:6")
    except Exception as e: err=type(e).__name__
    else: err=None
    return err,before,str(g)
t("C08 header half merged", c08b)
def c08c():
    g = gfapy.Gfa()
    try: g.add_line("H\tVN:Z:3.0")
    except Exception as e: err=type(e).__name__
    else: err=None
    return err, str(g), g.version
t("C08 unsupported VN", c08c)
def c08d():
    g = gfapy.Gfa("S\tA\t*")
    before=str(g)
    try: g.add_line("L\tA\t+\tB\t+\t*\txx:i:a")
    except Exception as e: err=type(e).__name__
    else: err=None
    return err,before,str(g)
t("C08 bad link", c08d)
def c08e():
    g = gfapy.Gfa("S\tA\t*\nL\tA\t+\tB\t+\t*\tID:Z:x", vlevel=0)
    before=str(g); n=g.names
    try: g.add_line("L\tC\t+\tD\t+\t*\tID:Z:A")
    except Exception as e: err=type(e).__name__
    else: err=None
    return err,before,str(g), n, g.names
t("C08 link ID clash", c08e)
# C09
def c09a():
    g = gfapy.Gfa("S\tA\t*\nS\tB\t*\nL\tA\t+\tB\t+\t*")
    try:
        g.segment("A").name = "B"; err=None
    except Exception as e: err=type(e).__name__
    return err, str(g), g.names
t("C09 rename A->B", c09a)
def c09b():
    g = gfapy.Gfa("S\tA\t*\nP\tA\tA+\t*")
    return str(g)
t("C09 path named like segment", c09b)
def c09c():
    g = gfapy.Gfa("S\tA\t*\nS\tB\t*\nL\tA\t+\tB\t+\t*\tID:Z:A")
    return str(g), g.names
t("C09 link ID like segment", c09c)
def c09d():
    g = gfapy.Gfa("S\tA\t*\nS\tB\t*\nL\tA\t+\tB\t+\t*\tID:Z:x\nL\tB\t+\tA\t+\t*\tID:Z:x")
    return str(g), g.names
t("C09 two links same ID", c09d)
# C10 / C12
def c10a():
    g = gfapy.Gfa("S\tA\t*\nS\tB\t*\nL\tA\t+\tB\t+\t2M1D3M")
    l = g.dovetails[0]
    before = str(g)
    c = l.overlap.complement()
    return before, str(g), str(c)
t("C10 complement mutates", c10a)
def c12a():
    g = gfapy.Gfa("S\tA\t*\nS\tB\t*\nL\tA\t+\tB\t+\t2M1D3M")
    try: g.add_line("L\tB\t-\tA\t-\t3M1I2M"); err=None
    except Exception as e: err=type(e).__name__
    return err, str(g)
t("C12 add complement", c12a)
def c12b():
    l = gfapy.Line("L\tA\t+\tB\t-\t2M1D3M")
    c = l.complement()
    cc = c.complement()
    return str(l), str(c), str(cc)
t("C12 complement twice", c12b)
