import gfapy
g=gfapy.Gfa()
for l in ['S\tD\t*\tLN:i:20','S\tB\t*\tLN:i:20','P\tp1\tD+,B-\t1I2M','L\tD\t+\tB\t-\t1I2M']:
    g.add_line(l)
print(repr(str(g)))
p=g.paths[0]; l=g.dovetails[0]
print("path.links", [(str(x.line), x.orient, x.line.virtual) for x in p.links])
print("link.paths", [str(x) for x in l.paths])
l.disconnect()
print(repr(str(g)))
print("---- real link arrives with the complement form")
g=gfapy.Gfa()
for l in ['S\tD\t*\tLN:i:20','S\tB\t*\tLN:i:20','P\tp1\tD+,B-\t1I2M','L\tB\t+\tD\t-\t2M1D']:
    g.add_line(l)
print(repr(str(g)))
p=g.paths[0]
print("path.links", [(str(x.line), x.orient, x.line.virtual) for x in p.links])
print([ (str(l), [str(x) for x in l.paths]) for l in g.dovetails])
