import gfapy, traceback
def t(label, f):
    try:
        r = f()
        print(label, "->", repr(r)[:600])
    except Exception as e:
        print(label, "RAISED", type(e).__module__+"."+type(e).__name__, str(e)[:200].replace("\n"," | "))
        #traceback.print_exc()

# C06
def c06a():
    g = gfapy.Gfa("S\tA\t*\tLN:i:10\nS\tB\t*\tLN:i:10\nL\tA\t+\tB\t+\t1M1D2M")
    g2 = g.to_gfa2()
    g1 = g2.to_gfa1()
    return str(g2), str(g1)
t("C06 asym cigar", c06a)
def c06b():
    g = gfapy.Gfa("S\tA\t*\tLN:i:10\nS\tB\t*\tLN:i:10\nL\tA\t+\tB\t+\t1M1D2M")
    return g.to_gfa2_s(), str(g)
t("C06 to_gfa2_s", c06b)
def c06c():
    g = gfapy.Gfa("S\tA\t*\tLN:i:10\nS\tB\t*\tLN:i:4\nC\tA\t+\tB\t+\t2\t4M\nC\tA\t-\tB\t+\t2\t4M\nC\tA\t+\tB\t-\t6\t4M")
    g2s = g.to_gfa2_s()
    g2 = gfapy.Gfa(g2s, vlevel=3)
    return g2s, g2.to_gfa1_s()
t("C06 containment", c06c)
def c06d():
    g = gfapy.Gfa("S\tA\t*\tLN:i:10\nS\tB\t*\tLN:i:10\nS\tC\t*\tLN:i:10\nL\tA\t+\tB\t-\t3M\nL\tB\t-\tC\t+\t4M\nP\tp\tA+,B-,C+\t3M,4M")
    g2s = g.to_gfa2_s()
    g2 = gfapy.Gfa(g2s, vlevel=3)
    return g2s, g2.to_gfa1_s()
t("C06 path", c06d)
def c06e():
    l = gfapy.Line("L\tA\t+\tB\t+\t3M")
    return l.to_gfa2_s()
t("C06 unconnected link", c06e)
def c06f():
    g = gfapy.Gfa("S\tA\t10\t*\nS\tB\t10\t*\nE\t*\tA+\tB+\t7\t10$\t0\t3\t1M1D2M\nE\te2\tA-\tB+\t0\t3\t0\t3\t*\nG\tg\tA+\tB-\t10\t*\nF\tA\tx+\t0\t1\t0\t1\t*\nU\tu\tA B\nO\to\tA+ B+")
    return g.to_gfa1_s()
t("C06 gfa2->1", c06f)
# C13
t("C13 mixed", lambda: gfapy.Gfa("S\tA\t*\nE\te\tA+\tA+\t0\t1\t0\t1\t*").version)
t("C13 L then S gfa2", lambda: gfapy.Gfa("L\tA\t+\tB\t+\t*\nS\tA\t10\t*\nS\tB\t10\t*").version)
t("C13 VN1 + S gfa2", lambda: gfapy.Gfa("H\tVN:Z:1.0\nS\tA\t10\t*").version)
t("C13 S gfa2 + VN1", lambda: gfapy.Gfa("S\tA\t10\t*\nH\tVN:Z:1.0").version)
t("C13 S gfa2 + VN1 lvl0", lambda: gfapy.Gfa("S\tA\t10\t*\nH\tVN:Z:1.0",vlevel=0).version)
t("C13 L only", lambda: gfapy.Gfa("L\tA\t+\tB\t+\t*\nS\tA\t*\nS\tB\t*").version)
t("C13 custom + S gfa1", lambda: gfapy.Gfa("X\tabc\nS\tA\t*").version)
t("C13 custom only", lambda: (gfapy.Gfa("X\tabc").version))
t("C13 L only no S", lambda: (lambda g:(g.version,str(g)))(gfapy.Gfa("L\tA\t+\tB\t+\t*",vlevel=0)))
t("C13 explicit gfa1 + E", lambda: gfapy.Gfa("E\te\tA+\tA+\t0\t1\t0\t1\t*", version="gfa1").version)
t("C13 explicit gfa2 + VN1", lambda: gfapy.Gfa("H\tVN:Z:1.0", version="gfa2").version)
t("C13 queue dup", lambda: str(gfapy.Gfa("L\tA\t+\tB\t+\t*\nH\tVN:Z:1.0\nS\tA\t*\nS\tB\t*")))
t("C13 comment first then L S2", lambda: gfapy.Gfa("# x\nL\tA\t+\tB\t+\t*\nS\tA\t1\t*").version)
t("C13 H no VN, then L, S", lambda: gfapy.Gfa("H\txx:i:1\nL\tA\t+\tB\t+\t*\nS\tA\t*\nS\tB\t*").version)
t("C13 rgfa gfa2", lambda: gfapy.Gfa("S\tA\t10\t*", dialect="rgfa").version)
