import gfapy
def t(label,f):
    try: print(label,"->",repr(f())[:200])
    except Exception as e: print(label,"RAISED",type(e).__module__+"."+type(e).__name__,str(e)[:100].replace("\n"," | "))
t("F with VN tag", lambda: str(gfapy.Line("F\tA\tx+\t0\t1\t0\t1\t*\tVN:Z:1")))
t("F with VN tag lvl0 validate", lambda: gfapy.Line("F\tA\tx+\t0\t1\t0\t1\t*\tVN:Z:1",vlevel=0).validate())
for c in [gfapy.line.Gap, gfapy.line.Fragment, gfapy.line.group.Ordered, gfapy.line.group.Unordered, gfapy.line.group.Path, gfapy.line.Comment, gfapy.line.CustomRecord, gfapy.line.Unknown, gfapy.line.edge.Containment]:
    print(c.__name__, c.PREDEFINED_TAGS, c.STORAGE_KEY, c.FIELD_ALIAS)
