import gfapy
for doc in (['S\tB\t*','S\tA\t*','P\tp0\tB-,A-\t*','L\tA\t+\tB\t+\t1I2M'], ['S\tA\t*','S\tB\t*','L\tA\t+\tB\t+\t1I2M','P\tp0\tB-,A-\t*'],
            ['S\tB\t*','S\tA\t*','P\tp0\tB-,A-\t2M1D','L\tA\t+\tB\t+\t1I2M'], ['S\tA\t*','S\tB\t*','L\tA\t+\tB\t+\t1I2M','P\tp0\tB-,A-\t2M1D'],
            ['S\tB\t*','S\tA\t*','P\tp0\tB-,A-\t*','L\tA\t+\tB\t+\t*'], ['S\tA\t*','S\tB\t*','L\tA\t+\tB\t+\t*','P\tp0\tB-,A-\t*']):
    g=gfapy.Gfa(doc)
    p=g.paths[0]
    print([x.replace("\t"," ") for x in doc][2:], "->", [(str(x.line).replace("\t"," "), x.orient) for x in p.links])
