import gfapy, traceback
def t(label, f):
    try:
        r = f()
        print(label, "->", repr(r)[:300])
    except Exception as e:
        print(label, "RAISED", type(e).__module__+"."+type(e).__name__, str(e)[:150].replace("\n"," | "))

# C02/C05: two links on one end, rm segment
def c02():
    g = gfapy.Gfa("S\tA\t*\nS\tB\t*\nS\tC\t*\nL\tA\t+\tB\t+\t*\nL\tA\t+\tC\t+\t*")
    g.rm("A")
    s = str(g)
    try:
        g.validate(); v="validate ok"
    except Exception as e: v="validate raised "+type(e).__name__
    try:
        gfapy.Gfa(s); p="reparse ok"
    except Exception as e: p="reparse raised "+type(e).__name__+str(e)[:80]
    return s, v, p
t("C02 rm fanout", c02)
# C07
t("C07 empty line", lambda: str(gfapy.Gfa("S\tA\t*\n")))
t("C07 Line('')", lambda: gfapy.Line(""))
t("C07 bad json", lambda: gfapy.Line("S\tA\t*\txx:J:{"))
t("C07 lone $", lambda: gfapy.Line("E\t*\tA+\tB+\t$\t1\t0\t1\t*"))
t("C07 1-seg path undefined", lambda: gfapy.Gfa("P\tp\tA+\t*"))
t("C07 rep header tags lvl2", lambda: str(gfapy.Gfa("H\txx:i:1\nH\txx:i:2\nH\txx:i:3", vlevel=2)))
t("C07 rep header tags lvl1", lambda: str(gfapy.Gfa("H\txx:i:1\nH\txx:i:2\nH\txx:i:3", vlevel=1)))
# C04
for s in ["1_0"," 5","5 ","+5","٣"]:
    t("C04 int tag %r"%s, lambda s=s: gfapy.Line("S\tA\t*\txx:i:"+s).xx)
for s in ["inf","nan","1e400","-inf","1_0.5", ".5", "5.", "1e5"]:
    t("C04 float tag %r"%s, lambda s=s: gfapy.Line("S\tA\t*\txx:f:"+s).xx)
for s in ["ab","AB","A","ABC"]:
    t("C04 hex %r"%s, lambda s=s: str(gfapy.Line("S\tA\t*\txx:H:"+s).xx))
for s in ["1","\"a\"","null","[1]","{}", "true"]:
    t("C04 json %r"%s, lambda s=s: gfapy.Line("S\tA\t*\txx:J:"+s).xx)
t("C04 G var * validate", lambda: gfapy.Line("G\t*\tA+\tB-\t100\t*").validate())
t("C04 G var * construct", lambda: str(gfapy.Line("G\t*\tA+\tB-\t100\t*")))
