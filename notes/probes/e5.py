import gfapy, traceback, itertools
def t(label, f, tb=False):
    try:
        r = f()
        print(label, "->", repr(r)[:900])
    except Exception as e:
        print(label, "RAISED", type(e).__module__+"."+type(e).__name__, str(e)[:200].replace("\n"," | "))
        if tb: traceback.print_exc()
# C19
def c19a():
    g = gfapy.Gfa("S\tA\t10\t*\nF\tA\tx+\t0\t1\t0\t1\t*")
    f = g.fragments[0]
    c = f.clone()
    c.external.orient = "-"
    return str(f), str(c), c.external is f.external
t("C19 fragment external shared", c19a)
def c19b():
    g = gfapy.Gfa("H\txx:i:1\nH\txx:i:2")
    h = g.header
    c = h.clone()
    c.xx.append(3)
    return str(g), str(c)
t("C19 header fieldarray shared", c19b)
def c19c():
    l = gfapy.Line("S\tA\t*\txx:B:c,1,2\tyy:J:[1,[2]]\tzz:H:AB")
    c = l.clone()
    c.xx.append(5); c.yy[1].append(3)
    return str(l), str(c), l==c
t("C19 B/J", c19c)
def c19d():
    g = gfapy.Gfa("S\tA\t10\t*\nS\tB\t10\t*\nE\te\tA+\tB+\t5\t10$\t0\t5\t2M1I2M\nO\to\tA+ e+ B+\nU\tu\tA e o\nG\tg\tA+\tB-\t5\t*")
    out=[]
    for l in g.lines:
        c = l.clone()
        out.append((str(l)==str(c), l==c, c.is_connected()))
    e = g.edges[0]; c = e.clone()
    c.alignment[0].length = 99
    c.beg1 = 1
    out.append((str(e), str(c)))
    return out
t("C19 gfa2 lines", c19d)
def c19e():
    g = gfapy.Gfa("S\tA\t*\nS\tB\t*\nL\tA\t+\tB\t+\t2M\nP\tp\tA+,B+\t2M")
    p = g.paths[0]; c = p.clone()
    c.overlaps[0][0].length = 7
    c.segment_names
    return str(p), str(c), p==c
t("C19 path", c19e)
# C20
def c20(v, dt=None):
    l = gfapy.Line("S\tA\t*")
    if dt: l.set_datatype("xx", dt)
    l.set("xx", v)
    s = str(l)
    l2 = gfapy.Line(s)
    return s, l.get_datatype("xx"), l2.get_datatype("xx"), repr(l2.xx), l2.xx == v
for v in [0, -1, 2**70, 1.5, 1e300, float("inf"), float("nan"), -0.0, 1e-7, "abc", "a\tb", "a\nb", "", "é", "x", [1,2,3], [255], [256], [-128], [-129], [65535],[65536],[2**32-1],[2**32],[-2**31],[-2**31-1], [1.5,2.5], [1,2.5], [], {"a":[1,2]}, [[1]], ["a"], True, None, gfapy.ByteArray([1,2]), gfapy.ByteArray([]), gfapy.NumericArray([1,-1]), {"a":"\t"}, {"a":"é"}]:
    t("C20 %r"%(v,), lambda v=v: c20(v))
for dt, v in [("A","x"),("A","xy"),("A"," "),("H","AB"),("H","ab"),("H","ABC"),("H",[1,255]),("H",[256]),("i","12"),("i",1.5),("f",1),("f","1e5"),("Z",5),("J","[1]"),("J",5),("B","c,1"),("B","c,200"),("B",[200]), ("i", True)]:
    t("C20 %s %r"%(dt,v), lambda v=v,dt=dt: c20(v,dt))
