import gfapy
g = gfapy.Gfa("S\tA\t10\t*\nS\tB\t10\t*\nG\tg\tA+\tB+\t5\t*\nU\tu\tA g")
print(repr(str(g)))
g.rm("g")
print(repr(str(g)))
try:
    g.validate(); print("validate ok")
except Exception as e: print("validate:", type(e).__name__, str(e)[:100])
try:
    gfapy.Gfa(str(g)); print("reparse ok")
except Exception as e: print("reparse:", type(e).__name__, str(e)[:100])
u = g.sets[0]
print([ (type(i).__name__, i.is_connected()) for i in u.items])
# fragment removal; edge in set removal
g = gfapy.Gfa("S\tA\t10\t*\nS\tB\t10\t*\nE\te\tA+\tB+\t5\t10$\t0\t5\t*\nU\tu\tA e\nO\to\tA+ e+ B+\nU\tv\tu o")
g.rm("e")
print(repr(str(g)))
g = gfapy.Gfa("S\tA\t10\t*\nS\tB\t10\t*\nE\te\tA+\tB+\t5\t10$\t0\t5\t*\nU\tu\tA e\nO\to\tA+ e+ B+\nU\tv\tu o")
g.rm("o")
print(repr(str(g)))
