import gfapy
l = gfapy.Line("S\tA\t*", vlevel=3)
l.set("zz","abc\n")
print(repr(str(l)))
try:
    l.validate(); print("validate ok")
except Exception as e: print("validate raised", type(e).__name__)
# cyclic groups
g = gfapy.Gfa("S\tA\t1\t*\nO\ta\tb+ A+\nO\tb\ta+ A+")
print("built", g.version)
import sys
try:
    print(g.paths[0].captured_path)
except BaseException as e: print("captured raised", type(e).__name__)
g = gfapy.Gfa("S\tA\t1\t*\nU\ta\tb A\nU\tb\ta A")
try:
    print(g.sets[0].induced_set)
except BaseException as e: print("induced raised", type(e).__name__)
g = gfapy.Gfa("S\tA\t1\t*\nU\ta\ta A")
print(str(g))
