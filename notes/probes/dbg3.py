import gfapy, itertools
doc=['S\tB\t*','S\tD\t*','P\tp0\tB+,D-\t*','P\tp1\tD+,B-\t1I2M','L\tB\t+\tD\t-\t3M','L\tD\t+\tB\t-\t1I2M']
res={}
for perm in itertools.permutations(doc):
    try:
        g=gfapy.Gfa(list(perm))
        o=tuple(sorted((p.name, tuple((str(x.line),x.orient) for x in p.links)) for p in g.paths))
    except Exception as e:
        o=("ERR",type(e).__name__)
    res.setdefault(o,[]).append(perm)
for k,v in res.items(): print(len(v), k, "\n    e.g.", [x.replace("\t"," ") for x in v[0]])
