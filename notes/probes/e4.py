import gfapy, traceback
def t(label, f, tb=False):
    try:
        r = f()
        print(label, "->", repr(r)[:700])
    except Exception as e:
        print(label, "RAISED", type(e).__module__+"."+type(e).__name__, str(e)[:200].replace("\n"," | "))
        if tb: traceback.print_exc()

# C14
def c14a():
    g = gfapy.Gfa("S\tA\tACGT\nS\tB\tGTAA\nS\tC\tAATT\nL\tA\t+\tB\t+\t2M\nL\tB\t+\tC\t+\t2M\nL\tC\t+\tC\t-\t1M")
    lp = g.linear_paths()
    g.merge_linear_paths()
    return [[str(x) for x in p] for p in lp], str(g)
t("C14 hairpin at chain end", c14a)
def c14b():
    g = gfapy.Gfa("S\tA\tACGT\nS\tB\tGTAA\nS\tC\tAATT\nS\tD\tCCAC\nS\tE\tGGAC\nL\tA\t+\tB\t+\t2M\nL\tB\t+\tC\t+\t2M\nL\tD\t+\tA\t+\t2M\nL\tE\t+\tA\t+\t2M")
    lp = g.linear_paths()
    g.merge_linear_paths()
    return [[str(x) for x in p] for p in lp], str(g)
t("C14 two inward links", c14b)
def c14c():
    g = gfapy.Gfa("S\tA\tACGT\nS\tB\tTTAC\nL\tA\t+\tB\t-\t2M")
    lp = g.linear_paths()
    g.merge_linear_paths()
    return [[str(x) for x in p] for p in lp], str(g)
t("C14 reversed", c14c)
def c14d():
    g = gfapy.Gfa("S\tA\tACGT\nS\tB\tGTAC\nL\tA\t+\tB\t+\t2M\nL\tB\t+\tA\t+\t2M")
    lp = g.linear_paths()
    g.merge_linear_paths()
    return [[str(x) for x in p] for p in lp], str(g)
t("C14 cycle", c14d)
# C15
def c15a():
    g = gfapy.Gfa("S\tA\t*\tRC:i:10\nS\tB\t*\nL\tA\t+\tA\t+\t*\nL\tA\t+\tB\t+\t*\tRC:i:4")
    g.multiply("A", 2)
    return str(g)
t("C15 self-link", c15a)
def c15b():
    g = gfapy.Gfa("S\tA\t*\tRC:i:10\nS\tB\t*\nS\tC\t*\nL\tA\t+\tB\t+\t*\tRC:i:4\nL\tA\t+\tC\t+\t*\nC\tA\t+\tB\t+\t0\t*")
    g.multiply("A", 3, distribute="R")
    return str(g)
t("C15 distribute", c15b)
def c15c():
    g = gfapy.Gfa("S\tA\t*\nS\tA*2\t*")
    g.multiply("A", 3)
    return g.segment_names
t("C15 names", c15c)
def c15d():
    g = gfapy.Gfa("S\tA*2\t*")
    g.multiply("A*2", 3)
    return g.segment_names
t("C15 names *n", c15d)
def c15e():
    g = gfapy.Gfa("S\tA\t10\t*\nS\tB\t10\t*\nE\te\tA+\tB+\t5\t10$\t0\t5\t*")
    g.multiply("A", 2)
    return str(g)
t("C15 gfa2", c15e)
t("C15 factor 0", lambda: (lambda g: (g.multiply("A",0), str(g))[1])(gfapy.Gfa("S\tA\t*\nS\tB\t*\nL\tA\t+\tB\t+\t*")))
t("C15 factor -1", lambda: gfapy.Gfa("S\tA\t*").multiply("A",-1))
# C18
def c18a():
    l = gfapy.Line("S\tA\t*\txx:i:1", vlevel=3)
    l.xx = "a"
    return str(l)
t("C18 lvl3 set invalid", c18a)
def c18b():
    l = gfapy.Line("S\tA\t*\txx:i:1", vlevel=2)
    l.xx = "a"
    return str(l)
t("C18 lvl2 set invalid then write", c18b)
def c18c():
    l = gfapy.Line("S\tA\t*\txx:i:1", vlevel=1)
    l.xx = "a"
    s = str(l)
    try: l.validate(); v="ok"
    except Exception as e: v=type(e).__name__
    return s, v
t("C18 lvl1", c18c)
def c18d():
    l = gfapy.Line("S\tA\t*\txx:i:1", vlevel=2)
    l.xx = "a"
    return l.field_to_s("xx")
t("C18 lvl2 field_to_s", c18d)
def c18e():
    l = gfapy.Line("S\tA\t*", vlevel=3)
    l.name = "a b"
    return str(l)
t("C18 lvl3 bad name", c18e)
def c18f():
    l = gfapy.Line("S\tA\t*", vlevel=3)
    l.LN = 3
    l.sequence="ACG"
    l.xx = [1,2,3]
    l.yy = {"a":1}
    l.zz = 1.5
    return str(l)
t("C18 lvl3 valid", c18f)
