import gfapy, traceback, itertools
def t(label, f, tb=False):
    try:
        r = f()
        print(label, "->", repr(r)[:1200])
    except Exception as e:
        print(label, "RAISED", type(e).__module__+"."+type(e).__name__, str(e)[:300].replace("\n"," | "))
        if tb: traceback.print_exc()
# C01
t("C01 trailing newline", lambda: str(gfapy.Gfa("S\tA\t*\n")))
t("C01 crlf string", lambda: str(gfapy.Gfa("S\tA\t*\r\nS\tB\t*")))
t("C01 f big", lambda: str(gfapy.Gfa("S\tA\t*\txx:f:1e400", vlevel=2)))
t("C01 H two tags", lambda: str(gfapy.Gfa("H\tVN:Z:1.0\txx:i:1")))
t("C01 comment tab", lambda: str(gfapy.Gfa("#\ta\tb\nS\tA\t*")))
t("C01 comment nospace", lambda: str(gfapy.Gfa("#abc\n#  x")))
t("C01 custom", lambda: str(gfapy.Gfa("X\ta b\tc\txx:i:1\nS\tA\t1\t*")))
t("C01 custom taglike mid", lambda: str(gfapy.Gfa("X\txx:i:1\tc\txx:i:1\nS\tA\t1\t*")))
t("C01 J spacing", lambda: str(gfapy.Gfa('S\tA\t*\txx:J:{"a":1}')))
t("C01 J spacing lvl0", lambda: str(gfapy.Gfa('S\tA\t*\txx:J:{"a":1}', vlevel=0)))
t("C01 i +5", lambda: str(gfapy.Gfa('S\tA\t*\txx:i:+5')))
t("C01 B", lambda: str(gfapy.Gfa('S\tA\t*\txx:B:i,1,2')))
t("C01 B f", lambda: str(gfapy.Gfa('S\tA\t*\txx:B:f,1,2.50')))
t("C01 H", lambda: str(gfapy.Gfa('S\tA\t*\txx:H:0AFF')))
t("C01 all gfa2", lambda: str(gfapy.Gfa("H\tVN:Z:2.0\nS\tA\t10\t*\nS\tB\t10\tACGTACGTAC\nE\t*\tA+\tB-\t0\t5\t5\t10$\t1,2\tTS:i:3\nF\tA\tr-\t0\t10$\t0\t10\t*\nG\t*\tA+\tB+\t5\t*\nO\t*\tA+ B-\nU\tu\tA B\nU\t*\tu")))
def c01file():
    import tempfile, os
    d = tempfile.mkdtemp()
    p = os.path.join(d,"a.gfa")
    open(p,"w", newline="").write("S\tA\t*\r\nS\tB\t*\r\n\r\n")
    g = gfapy.Gfa.from_file(p)
    return str(g)
t("C01 file crlf blank", c01file)
# C03
def obs(g):
    out = []
    for l in g.lines:
        out.append((str(l), l.virtual, sorted((k, sorted(str(x) for x in v)) for k,v in l._refs.items() if v)))
    return sorted(out)
def c03(doc):
    lines = doc.split("\n")
    res = {}
    for perm in itertools.permutations(lines):
        try:
            g = gfapy.Gfa(list(perm))
            o = (g.version, tuple(map(repr,obs(g))))
        except Exception as e:
            o = ("ERR", type(e).__name__, str(e)[:80])
        res.setdefault(o, []).append(perm)
    return len(res), [ (k[0], v[0]) for k,v in res.items()][:4]
t("C03 gfa1", lambda: c03("S\tA\t*\nS\tB\t*\nL\tA\t+\tB\t-\t3M1D\nP\tp\tB+,A-\t1I3M\nC\tA\t+\tB\t+\t0\t*"))
t("C03 gfa2", lambda: c03("S\tA\t10\t*\nS\tB\t10\t*\nE\te\tA+\tB-\t0\t5\t5\t10$\t*\nO\to\tA+ B-\nU\tu\to e\nG\tg\tA+\tB+\t1\t*"))
t("C03 gfa2 groups", lambda: c03("S\tA\t10\t*\nU\tu\tA\nU\tu\tv\nU\tv\tA\nO\to\tA+"))
