"""Fail-closed reader for the subset of Python `re` syntax gfapy uses.

parse(pattern) -> (kind, tree) where kind is
  'full'    every top-level alternative is ^...$        (re.match("^..$") / "^a$|^b$")
  'search'  no anchors at all                            (re.search("[+-],"))
  'prefix'  ^ at the start only / none, used with re.match  (not used by gfapy; rejected)
tree: ('void',) ('eps',) ('cls', [(lo,hi),...]) ('cat',a,b) ('alt',a,b) ('star',a)
Character classes are normalised to sorted, merged inclusive ranges so that two spellings of
one set generate the same Coq term.  Anything unsupported raises RegexUnsupported.
Groups are treated as non-capturing: the translator is used only where the code tests for a
match (or uses finditer on a pattern this module is not asked about).
"""


class RegexUnsupported(Exception):
    pass


def _norm(ranges):
    ranges = sorted(ranges)
    out = []
    for lo, hi in ranges:
        if lo > hi:
            raise RegexUnsupported("bad range")
        if out and lo <= out[-1][1] + 1:
            out[-1] = (out[-1][0], max(out[-1][1], hi))
        else:
            out.append((lo, hi))
    return out


DOT = ('cls', [(0, 9), (11, 255)])
ESC_CLASS = {
    'd': [(48, 57)],
    's': [(9, 13), (32, 32)],   # \t \n \v \f \r and space (ASCII part of Python's \s;
                                # \x1c-\x1f are also whitespace for str patterns)
    'w': [(48, 57), (65, 90), (95, 95), (97, 122)],
}
ESC_CLASS['s'] = [(9, 13), (28, 32)]


class _P:
    def __init__(self, s):
        self.s = s
        self.i = 0

    def peek(self):
        return self.s[self.i] if self.i < len(self.s) else None

    def take(self):
        c = self.peek()
        if c is None:
            raise RegexUnsupported("unexpected end")
        self.i += 1
        return c

    def alt(self):
        a = self.cat()
        while self.peek() == '|':
            self.take()
            b = self.cat()
            a = ('alt', a, b)
        return a

    def cat(self):
        items = []
        while self.peek() is not None and self.peek() not in '|)':
            items.append(self.rep())
        if not items:
            return ('eps',)
        r = items[-1]
        for x in reversed(items[:-1]):
            r = ('cat', x, r)
        return r

    def rep(self):
        a = self.atom()
        while self.peek() in ('*', '+', '?'):
            q = self.take()
            if self.peek() in ('?', '+'):
                raise RegexUnsupported("lazy/possessive quantifier")
            if q == '*':
                a = ('star', a)
            elif q == '+':
                a = ('cat', a, ('star', a))
            else:
                a = ('alt', ('eps',), a)
        if self.peek() == '{':
            raise RegexUnsupported("counted repetition")
        return a

    def esc(self):
        c = self.take()
        if c in ESC_CLASS:
            return list(ESC_CLASS[c])
        if c in 'DSWbBAZ0123456789':
            raise RegexUnsupported("escape \\" + c)
        if c == 'n':
            return [(10, 10)]
        if c == 't':
            return [(9, 9)]
        if c == 'r':
            return [(13, 13)]
        if c == 'x':
            h = self.take() + self.take()
            v = int(h, 16)
            return [(v, v)]
        if c.isalnum():
            raise RegexUnsupported("escape \\" + c)
        return [(ord(c), ord(c))]

    def atom(self):
        c = self.take()
        if c == '(':
            if self.peek() == '?':
                raise RegexUnsupported("group extension")
            a = self.alt()
            if self.take() != ')':
                raise RegexUnsupported("unbalanced group")
            return a
        if c == '[':
            return self.cls()
        if c == '.':
            return DOT
        if c == '\\':
            return ('cls', _norm(self.esc()))
        if c in '^$':
            raise RegexUnsupported("anchor inside pattern")
        if c in '*+?{}':
            raise RegexUnsupported("dangling quantifier")
        if ord(c) > 255:
            raise RegexUnsupported("non 8-bit literal")
        return ('cls', [(ord(c), ord(c))])

    def cls(self):
        if self.peek() == '^':
            raise RegexUnsupported("negated class")
        ranges = []
        first = True
        while True:
            c = self.take()
            if c == ']' and not first:
                break
            first = False
            if c == '\\':
                r = self.esc()
                if len(r) != 1 or r[0][0] != r[0][1]:
                    ranges += r
                    continue
                lo = r[0][0]
            else:
                lo = ord(c)
            if self.peek() == '-' and self.i + 1 < len(self.s) and self.s[self.i + 1] != ']':
                self.take()
                d = self.take()
                if d == '\\':
                    r = self.esc()
                    if len(r) != 1 or r[0][0] != r[0][1]:
                        raise RegexUnsupported("class escape as range end")
                    hi = r[0][0]
                else:
                    hi = ord(d)
                ranges.append((lo, hi))
            else:
                ranges.append((lo, lo))
        return ('cls', _norm(ranges))


def _split_top(p):
    parts, depth, cur, i, incls = [], 0, '', 0, False
    while i < len(p):
        c = p[i]
        if c == '\\':
            cur += p[i:i + 2]
            i += 2
            continue
        if incls:
            if c == ']':
                incls = False
        elif c == '[':
            incls = True
            # a ']' right after '[' is a literal
            if i + 1 < len(p) and p[i + 1] == ']':
                cur += '[]'
                i += 2
                continue
        elif c == '(':
            depth += 1
        elif c == ')':
            depth -= 1
        elif c == '|' and depth == 0:
            parts.append(cur)
            cur = ''
            i += 1
            continue
        cur += c
        i += 1
    parts.append(cur)
    return parts


def parse(pattern):
    parts = _split_top(pattern)
    anch = [(p.startswith('^'), p.endswith('$') and not p.endswith('\\$')) for p in parts]
    if all(a and b for a, b in anch):
        kind = 'full'
        bodies = [p[1:-1] for p in parts]
    elif not any(a or b for a, b in anch):
        kind = 'search'
        bodies = parts
    else:
        raise RegexUnsupported("mixed anchoring: %r" % pattern)
    trees = []
    for b in bodies:
        ps = _P(b)
        t = ps.alt()
        if ps.i != len(b):
            raise RegexUnsupported("trailing input in %r" % b)
        trees.append(t)
    t = trees[-1]
    for x in reversed(trees[:-1]):
        t = ('alt', x, t)
    return kind, t


def to_coq(t):
    k = t[0]
    if k == 'void':
        return 'Void'
    if k == 'eps':
        return 'Eps'
    if k == 'cls':
        return '(Cls [%s]%%N)' % '; '.join('(%d, %d)' % r for r in t[1])
    if k == 'star':
        return '(Star %s)' % to_coq(t[1])
    if k in ('cat', 'alt'):
        return '(%s %s %s)' % (k.capitalize(), to_coq(t[1]), to_coq(t[2]))
    raise RegexUnsupported(k)


def to_python(t):
    """Independent rendering back to a Python pattern (used to self-check the reader)."""
    k = t[0]
    if k == 'eps':
        return ''
    if k == 'cls':
        return '[' + ''.join('\\x%02x-\\x%02x' % r for r in t[1]) + ']'
    if k == 'star':
        return '(?:%s)*' % to_python(t[1])
    if k == 'cat':
        return '(?:%s)(?:%s)' % (to_python(t[1]), to_python(t[2]))
    if k == 'alt':
        return '(?:%s|%s)' % (to_python(t[1]), to_python(t[2]))
    raise RegexUnsupported(k)
