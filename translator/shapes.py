"""Special-purpose, fail-closed readers of two code shapes that the typed kernel translator does not cover:
the per-value copy rule of Cloning.clone (an if/elif chain over the stored value) and the validation-level
thresholds (comparisons of self.vlevel with integer literals) of the functions that implement the levels."""
import ast
import os


class Unsupported(Exception):
    def __init__(self, msg, lineno=0):
        Exception.__init__(self, msg)
        self.lineno = lineno


def _find_method(tree, cls, func):
    for node in ast.walk(tree):
        if isinstance(node, ast.ClassDef) and node.name == cls:
            for f in node.body:
                if isinstance(f, ast.FunctionDef) and f.name == func:
                    return f
    raise Unsupported('%s.%s not found' % (cls, func))


def _src(node):
    return ast.unparse(node)


# ------------------------------------------------------------------ Cloning.clone
COND = {
    "k in self.__class__.REFERENCE_FIELDS": 'ref',
    "self._field_datatype(k) == 'J'": 'json',
    "isinstance(v, list) or isinstance(v, str)": 'list_or_str',
    "isinstance(v, list)": 'list',
    "isinstance(v, str)": 'str',
    "isinstance(v, gfapy.OrientedLine)": 'oriented',
    "isinstance(v, gfapy.FieldArray)": 'fieldarray',
}
RHS = {
    "self.field_to_s(k)": 'render',
    "json.loads(json.dumps(v))": 'deep',
    "deepcopy(v)": 'deep',
    "gfapy.OrientedLine(v.line, v.orient)": 'deep',
    "gfapy.FieldArray(v.datatype, deepcopy(list(v)))": 'deep',
    "v": 'share',
}
TEST = {'ref': 'r', 'json': 'j', 'list_or_str': '(is_list || is_str)', 'list': 'is_list', 'str': 'is_str',
        'oriented': 'is_oriented', 'fieldarray': 'is_fieldarray'}


def gen_clone(repo):
    path = os.path.join(repo, 'gfapy/line/common/cloning.py')
    tree = ast.parse(open(path).read())
    f = _find_method(tree, 'Cloning', 'clone')
    loop = None
    for st in f.body:
        if isinstance(st, ast.For) and _src(st.iter) == 'self._data.items()':
            loop = st
    if loop is None or _src(loop.target) != '(k, v)' or len(loop.body) != 1 or not isinstance(loop.body[0], ast.If):
        raise Unsupported('the loop over self._data.items() with one if/elif chain was not found', f.lineno)
    branches = []
    node = loop.body[0]
    while True:
        cond = COND.get(_src(node.test))
        if cond is None:
            raise Unsupported('condition not understood: %s' % _src(node.test), node.lineno)
        branches.append((cond, _assign(node.body)))
        if len(node.orelse) == 1 and isinstance(node.orelse[0], ast.If):
            node = node.orelse[0]
        else:
            default = _assign(node.orelse)
            break
    expr = '"%s"%%string' % default
    for cond, mode in reversed(branches):
        expr = '(if %s then "%s"%%string else %s)' % (TEST[cond], mode, expr)
    # the rest of the method: the copy is built from data_cpy and gets its own datatype table
    tail = [_src(s) for s in f.body if not isinstance(s, (ast.For, ast.Expr))]
    copies_dt = any(s == 'cpy._datatype = self._datatype.copy()' for s in tail)
    built = any(s.startswith('cpy = self.__class__(data_cpy') for s in tail)
    fresh = any(s == 'data_cpy = {}' for s in tail)
    # the constructor call: the copy is given the level, the placeholder flag and the version of the original
    kw = {}
    for st in f.body:
        if isinstance(st, ast.Assign) and _src(st.targets[0]) == 'cpy' and isinstance(st.value, ast.Call):
            kw = dict((k.arg, _src(k.value)) for k in st.value.keywords)
    keeps = dict((n, kw.get(n) == 'self.' + n) for n in ('vlevel', 'virtual', 'version'))
    text = ("(* gfapy/line/common/cloning.py Cloning.clone: how each stored value is copied *)\n"
            "Definition k_clone_mode (r j is_list is_str is_oriented is_fieldarray : bool) : string :=\n  %s.\n\n"
            "(* the copy has its own table of tag datatypes / is built from the copied values in a fresh dictionary *)\n"
            "Definition k_clone_copies_datatypes : bool := %s.\n"
            "Definition k_clone_built_from_copies : bool := %s.\n"
            "(* the copy is constructed with the validation level / placeholder flag / version of the original *)\n"
            "Definition k_clone_keeps_vlevel : bool := %s.\n"
            "Definition k_clone_keeps_virtual : bool := %s.\n"
            "Definition k_clone_keeps_version : bool := %s.\n"
            % (expr, 'true' if copies_dt else 'false', 'true' if (built and fresh) else 'false',
               'true' if keeps['vlevel'] else 'false', 'true' if keeps['virtual'] else 'false', 'true' if keeps['version'] else 'false'))
    return text


def _assign(body):
    if len(body) != 1 or not isinstance(body[0], ast.Assign) or _src(body[0].targets[0]) != 'data_cpy[k]':
        raise Unsupported('a branch does not consist of one assignment to data_cpy[k]', body[0].lineno if body else 0)
    mode = RHS.get(_src(body[0].value))
    if mode is None:
        raise Unsupported('copy expression not understood: %s' % _src(body[0].value), body[0].lineno)
    return mode


# ------------------------------------------------------------------ validation-level thresholds
LEVEL_FUNCS = [
    ('init_field_value', 'gfapy/line/common/construction.py', 'Construction', '_init_field_value'),
    ('get', 'gfapy/line/common/field_data.py', 'FieldData', 'get'),
    ('set', 'gfapy/line/common/field_data.py', 'FieldData', 'set'),
    ('set_existing_field', 'gfapy/line/common/field_data.py', 'FieldData', '_set_existing_field'),
    ('field_to_s', 'gfapy/line/common/writer.py', 'Writer', 'field_to_s'),
    ('initialize_tag', 'gfapy/line/common/construction.py', 'Construction', '_initialize_tag'),
    ('validate', 'gfapy/line/common/validate.py', 'Validate', 'validate'),
]
OPS = {ast.GtE: '>=', ast.Gt: '>', ast.Eq: '==', ast.LtE: '<=', ast.Lt: '<', ast.NotEq: '!='}


def gen_levels(repo):
    out = []
    for name, rel, cls, func in LEVEL_FUNCS:
        tree = ast.parse(open(os.path.join(repo, rel)).read())
        f = _find_method(tree, cls, func)
        found = []
        for node in ast.walk(f):
            if isinstance(node, ast.Compare) and _src(node.left) in ('self.vlevel', 'self._vlevel'):
                if len(node.ops) != 1 or not isinstance(node.comparators[0], ast.Constant) or \
                        not isinstance(node.comparators[0].value, int) or type(node.ops[0]) not in OPS:
                    raise Unsupported('comparison of the validation level not understood: %s' % _src(node), node.lineno)
                found.append((node.lineno, node.col_offset, OPS[type(node.ops[0])], node.comparators[0].value))
        found.sort()
        items = '; '.join('("%s"%%string, %d%%Z)' % (op, v) for _, _, op, v in found)
        out.append("(* %s %s.%s: comparisons of the validation level, in source order *)\n"
                   "Definition T_VLEVELS_%s : list (string * Z) := [%s].\n" % (rel, cls, func, name, items))
    return '\n'.join(out)


# ------------------------------------------------------------------ NumericArray.from_string: the range test of an element
CMP = {ast.GtE: 'Z.geb', ast.Gt: 'Z.gtb', ast.LtE: 'Z.leb', ast.Lt: 'Z.ltb', ast.Eq: 'Z.eqb'}


def _zexpr(node):
    s = _src(node)
    if s == 'e':
        return 'e'
    if s == 'range[0]':
        return 'lo'
    if s == 'range[1]':
        return 'hi'
    if isinstance(node, ast.Constant) and isinstance(node.value, int) and not isinstance(node.value, bool):
        return '(%d)%%Z' % node.value
    raise Unsupported('operand of the range test not understood: %s' % s, getattr(node, 'lineno', 0))


def _bexpr(node):
    if isinstance(node, ast.BoolOp):
        op = 'andb' if isinstance(node.op, ast.And) else 'orb'
        out = _bexpr(node.values[0])
        for v in node.values[1:]:
            out = '(%s %s %s)' % (op, out, _bexpr(v))
        return out
    if isinstance(node, ast.UnaryOp) and isinstance(node.op, ast.Not):
        return '(negb %s)' % _bexpr(node.operand)
    if isinstance(node, ast.Compare) and len(node.ops) == 1 and type(node.ops[0]) in CMP:
        return '(%s %s %s)' % (CMP[type(node.ops[0])], _zexpr(node.left), _zexpr(node.comparators[0]))
    raise Unsupported('range test not understood: %s' % _src(node), getattr(node, 'lineno', 0))


def gen_narange(repo):
    """the condition under which from_string(valid=False) accepts an integer element e of a subtype with range (lo, hi):
    the test `if not valid and not (COND): raise ValueError` inside the element loop"""
    path = os.path.join(repo, 'gfapy/numeric_array.py')
    tree = ast.parse(open(path).read())
    f = _find_method(tree, 'NumericArray', 'from_string')
    found = []
    for node in ast.walk(f):
        if isinstance(node, ast.If) and isinstance(node.test, ast.BoolOp) and isinstance(node.test.op, ast.And) \
                and len(node.test.values) == 2 and _src(node.test.values[0]) == 'not valid' \
                and isinstance(node.test.values[1], ast.UnaryOp) and isinstance(node.test.values[1].op, ast.Not) \
                and 'range' in _src(node.test.values[1]):
            if not (len(node.body) == 1 and isinstance(node.body[0], ast.Raise) and 'ValueError' in _src(node.body[0])):
                raise Unsupported('the range test does not raise ValueError', node.lineno)
            found.append(node.test.values[1].operand)
    if len(found) != 1:
        raise Unsupported('expected exactly one test `not valid and not (<range condition>)` in from_string, found %d' % len(found), f.lineno)
    return ("(* gfapy/numeric_array.py NumericArray.from_string: an integer element e is accepted for the range (lo, hi) *)\n"
            "Definition k_na_in_range (e lo hi : Z) : bool := %s.\n" % _bexpr(found[0]))
