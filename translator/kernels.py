"""Fail-closed translation of side-effect-free gfapy functions (Python ast) into Gallina.

Every kernel is described by a spec (file, class, function, typed parameters, how attribute
reads map to parameters).  The body is translated by the rules below; any construct outside
the subset raises Unsupported, and the caller reports TRANSLATION-BROKEN for that kernel.

Types: 'Z' 'string' 'bool' ('list',T) ('prod',T1,T2) ('option',T); 'pos' = (value, is_last).
A kernel whose body contains `raise` (or calls one that does) returns `res T`.
"""
import ast


class Unsupported(Exception):
    def __init__(self, node, why):
        self.lineno = getattr(node, 'lineno', 0)
        super().__init__("line %s: %s" % (self.lineno, why))


POS = ('prod', 'Z', 'bool')
CIGOP = ('prod', 'Z', 'string')
CIGAR = ('list', CIGOP)
SEGEND = ('prod', 'string', 'string')

GERR = {'Error': 'EError', 'VersionError': 'EVersion', 'RuntimeError': 'ERuntime',
        'ValueError': 'EValue', 'FormatError': 'EFormat', 'TypeError': 'EType',
        'ArgumentError': 'EArgument', 'NotUniqueError': 'ENotUnique',
        'InconsistencyError': 'EInconsistency', 'NotFoundError': 'ENotFound',
        'AssertionError': 'EAssertion'}


def coq_type(t):
    if isinstance(t, str):
        return t
    if t[0] == 'list':
        return '(list %s)' % coq_type(t[1])
    if t[0] == 'prod':
        return '(%s)' % ' * '.join(coq_type(x) for x in t[1:])
    if t[0] == 'option':
        return '(option %s)' % coq_type(t[1])
    raise ValueError(t)


def coq_str(s):
    for ch in s:
        if ord(ch) < 32 or ord(ch) > 126:
            raise ValueError("non printable string constant")
    return '"' + s.replace('"', '""') + '"%string'


def eqb(t, a, b):
    if t == 'string':
        return '(String.eqb %s %s)' % (a, b)
    if t == 'Z':
        return '(Z.eqb %s %s)' % (a, b)
    if t == 'bool':
        return '(Bool.eqb %s %s)' % (a, b)
    if isinstance(t, tuple) and t[0] == 'list' and t[1] == 'string':
        return '(list_str_eqb %s %s)' % (a, b)
    raise ValueError("no equality at type %r" % (t,))


class Kernel:
    def __init__(self, spec, table_types, kernel_sigs):
        self.spec = spec
        self.tables = table_types      # python dotted name -> (coq name, type)
        self.sigs = kernel_sigs        # python callee text -> (coq name, [argtypes], rettype, raises)
        self.raises = False

    # ---------- expressions ----------
    def expr(self, n, env, want=None):
        """returns (coq, type)"""
        src = ast.unparse(n)
        if src in self.spec.get('attrs', {}):
            p = self.spec['attrs'][src]
            return p, env[p]
        if isinstance(n, ast.Constant):
            v = n.value
            if isinstance(v, bool):
                return ('true' if v else 'false'), 'bool'
            if isinstance(v, int):
                return '(%d)%%Z' % v, 'Z'
            if isinstance(v, str):
                return coq_str(v), 'string'
            if v is None:
                if want and want[0] == 'option':
                    return 'None', want
                raise Unsupported(n, "None outside option context")
            raise Unsupported(n, "constant %r" % (v,))
        if isinstance(n, ast.Name):
            if n.id in env:
                return n.id, env[n.id]
            raise Unsupported(n, "unknown name %s" % n.id)
        if isinstance(n, ast.Attribute):
            # op.code / op.length on cigar operations
            base, bt = self.expr(n.value, env)
            if bt == CIGOP and n.attr == 'code':
                return '(snd %s)' % base, 'string'
            if bt == CIGOP and n.attr == 'length':
                return '(fst %s)' % base, 'Z'
            raise Unsupported(n, "attribute %s" % src)
        if isinstance(n, ast.Compare):
            if len(n.ops) != 1:
                raise Unsupported(n, "chained comparison")
            op = n.ops[0]
            l, lt = self.expr(n.left, env)
            r_node = n.comparators[0]
            if isinstance(op, (ast.In, ast.NotIn)):
                r, rt = self.expr(r_node, env)
                if rt != ('list', 'string') or lt != 'string':
                    raise Unsupported(n, "`in` only on string lists")
                c = '(in_strs %s %s)' % (l, r)
                return (c if isinstance(op, ast.In) else '(negb %s)' % c), 'bool'
            r, rt = self.expr(r_node, env, want=lt)
            if lt != rt:
                raise Unsupported(n, "comparison of %r with %r" % (lt, rt))
            if isinstance(op, ast.Eq):
                return eqb(lt, l, r), 'bool'
            if isinstance(op, ast.NotEq):
                return '(negb %s)' % eqb(lt, l, r), 'bool'
            if lt == 'Z':
                f = {ast.Lt: 'Z.ltb', ast.LtE: 'Z.leb', ast.Gt: 'Z.gtb', ast.GtE: 'Z.geb'}.get(type(op))
                if f:
                    return '(%s %s %s)' % (f, l, r), 'bool'
            if lt == 'string':
                f = {ast.Lt: 'str_ltb', ast.Gt: 'str_gtb'}.get(type(op))
                if f:
                    return '(%s %s %s)' % (f, l, r), 'bool'
            raise Unsupported(n, "comparison operator")
        if isinstance(n, ast.BoolOp):
            parts = []
            for v in n.values:
                c, t = self.expr(v, env)
                if t != 'bool':
                    raise Unsupported(v, "non-boolean operand of and/or (%r)" % (t,))
                parts.append(c)
            f = 'andb' if isinstance(n.op, ast.And) else 'orb'
            c = parts[-1]
            for p in reversed(parts[:-1]):
                c = '(%s %s %s)' % (f, p, c)
            return c, 'bool'
        if isinstance(n, ast.UnaryOp):
            if isinstance(n.op, ast.Not):
                c, t = self.expr(n.operand, env)
                if t != 'bool':
                    raise Unsupported(n, "not on %r" % (t,))
                return '(negb %s)' % c, 'bool'
            if isinstance(n.op, ast.USub):
                c, t = self.expr(n.operand, env)
                if t == 'Z':
                    return '(Z.opp %s)' % c, 'Z'
            raise Unsupported(n, "unary operator")
        if isinstance(n, ast.IfExp):
            c, ct = self.expr(n.test, env)
            if ct != 'bool':
                raise Unsupported(n, "non-boolean condition")
            a, at = self.expr(n.body, env, want)
            b, bt = self.expr(n.orelse, env, want or at)
            if at != bt:
                raise Unsupported(n, "branches of different type %r %r" % (at, bt))
            return '(if %s then %s else %s)' % (c, a, b), at
        if isinstance(n, ast.BinOp):
            l, lt = self.expr(n.left, env)
            r, rt = self.expr(n.right, env)
            if lt == rt == 'Z':
                f = {ast.Add: 'Z.add', ast.Sub: 'Z.sub', ast.Mult: 'Z.mul',
                     ast.FloorDiv: 'Z.div', ast.Pow: 'Z.pow'}.get(type(n.op))
                if f:
                    return '(%s %s %s)' % (f, l, r), 'Z'
            if lt == rt and isinstance(lt, tuple) and lt[0] == 'list' and isinstance(n.op, ast.Add):
                return '(%s ++ %s)' % (l, r), lt
            raise Unsupported(n, "binary operator on %r, %r" % (lt, rt))
        if isinstance(n, (ast.Tuple, ast.List)):
            elts = [self.expr(e, env) for e in n.elts]
            if isinstance(n, ast.Tuple) or (want and want[0] == 'prod'):
                return '(%s)' % ', '.join(c for c, _ in elts), ('prod',) + tuple(t for _, t in elts)
            ts = set(t for _, t in elts)
            if len(ts) > 1:
                raise Unsupported(n, "heterogeneous list")
            t = ts.pop() if ts else (want[1] if want else 'string')
            return '[%s]' % '; '.join(c for c, _ in elts), ('list', t)
        if isinstance(n, ast.Subscript):
            base, bt = self.expr(n.value, env)
            if isinstance(n.slice, ast.Constant) and isinstance(n.slice.value, int) \
                    and isinstance(bt, tuple) and bt[0] == 'prod' and len(bt) == 3:
                i = n.slice.value
                if i == 0:
                    return '(fst %s)' % base, bt[1]
                if i == 1:
                    return '(snd %s)' % base, bt[2]
            raise Unsupported(n, "subscript %s" % src)
        if isinstance(n, ast.Call):
            return self.call(n, env)
        raise Unsupported(n, "expression %s" % type(n).__name__)

    def call(self, n, env):
        f = ast.unparse(n.func)
        if n.keywords:
            raise Unsupported(n, "keyword arguments")
        args = n.args
        if f in ('gfapy.posvalue', 'posvalue') and len(args) == 1:
            c, t = self.expr(args[0], env)
            if t == POS:
                return '(fst %s)' % c, 'Z'
        if f in ('gfapy.islastpos', 'islastpos') and len(args) == 1:
            c, t = self.expr(args[0], env)
            if t == POS:
                return '(snd %s)' % c, 'bool'
        if f in ('gfapy.isfirstpos', 'isfirstpos') and len(args) == 1:
            c, t = self.expr(args[0], env)
            if t == POS:
                return '(Z.eqb (fst %s) 0%%Z)' % c, 'bool'
        if f == 'len' and len(args) == 1:
            c, t = self.expr(args[0], env)
            if isinstance(t, tuple) and t[0] == 'list':
                return '(Z.of_nat (List.length %s))' % c, 'Z'
        if f in ('CIGAR.Operation', 'gfapy.CIGAR.Operation', 'Operation') and len(args) == 2:
            a, at = self.expr(args[0], env)
            b, bt = self.expr(args[1], env)
            if at == 'Z' and bt == 'string':
                return '(%s, %s)' % (a, b), CIGOP
        if f in ('gfapy.SegmentEnd', 'SegmentEnd') and len(args) == 2:
            a, at = self.expr(args[0], env)
            b, bt = self.expr(args[1], env)
            if at == 'string' and bt == 'string':
                return '(%s, %s)' % (a, b), SEGEND
        if f in self.sigs:
            name, argts, rett, raises = self.sigs[f]
            extra = self.spec.get('implicit_args', {}).get(f, [])
            cs = []
            allargs = [self.expr(a, env) for a in args] + [(e, env[e]) for e in extra]
            if len(allargs) != len(argts):
                raise Unsupported(n, "arity of %s" % f)
            for (c, t), want in zip(allargs, argts):
                if t != want:
                    raise Unsupported(n, "argument type %r for %r in %s" % (t, want, f))
                cs.append(c)
            if raises:
                # only allowed where stmt() handles it (assignment / return)
                return ('@RAISES@(%s %s)' % (name, ' '.join(cs))), rett
            return '(%s %s)' % (name, ' '.join(cs)), rett
        raise Unsupported(n, "call %s" % f)

    def table(self, n, env):
        """constant table such as NumericArray.SIGNED_INT_SUBTYPE"""
        src = ast.unparse(n)
        if src in self.tables:
            return self.tables[src]
        return None

    # ---------- statements ----------
    def ret(self, c):
        return ('(Ok %s)' % c) if self.raises else c

    def block(self, stmts, env, rett):
        """translate a statement list that must end by returning/raising on every path"""
        if not stmts:
            # falling off the end of a Python function returns None
            if isinstance(rett, tuple) and rett[0] == 'option':
                return self.ret('None')
            if self.raises:
                return '(Err (Foreign FallThroughNone))'
            raise Unsupported(ast.Pass(), "function can fall off its end")
        s, rest = stmts[0], stmts[1:]
        if isinstance(s, ast.Expr) and isinstance(s.value, ast.Constant):
            return self.block(rest, env, rett)           # docstring
        if isinstance(s, ast.Pass):
            return self.block(rest, env, rett)
        if isinstance(s, ast.Return):
            if s.value is None:
                raise Unsupported(s, "bare return")
            c, t = self.expr(s.value, env, want=rett)
            if c.startswith('@RAISES@'):
                if t != rett:
                    raise Unsupported(s, "return type %r, expected %r" % (t, rett))
                return c[len('@RAISES@'):]
            if isinstance(rett, tuple) and rett[0] == 'option' and t == rett[1]:
                c, t = '(Some %s)' % c, rett
            if t != rett:
                raise Unsupported(s, "return type %r, expected %r" % (t, rett))
            return self.ret(c)
        if isinstance(s, ast.Raise):
            e = s.exc
            if isinstance(e, ast.Call):
                e = e.func
            name = ast.unparse(e)
            if name.startswith('gfapy.') and name[6:] in GERR:
                if not self.raises:
                    raise Unsupported(s, "raise in a kernel declared total")
                return '(Err (G %s))' % GERR[name[6:]]
            raise Unsupported(s, "raise of %s" % name)
        if isinstance(s, ast.If):
            c, ct = self.expr(s.test, env)
            if ct != 'bool':
                raise Unsupported(s, "non-boolean condition (%r)" % (ct,))
            a = self.block(list(s.body) + ([] if self.terminates(s.body) else rest), env, rett)
            b = self.block(list(s.orelse) + ([] if s.orelse and self.terminates(s.orelse) else rest), env, rett)
            return '(if %s then %s else %s)' % (c, a, b)
        if isinstance(s, ast.Assign) and len(s.targets) == 1 and isinstance(s.targets[0], ast.Name):
            x = s.targets[0].id
            # loop shapes start with an initialisation
            loop = self.loop(s, rest, env, rett)
            if loop is not None:
                return loop
            tb = self.table(s.value, env)
            if tb is not None:
                c, t = tb
            else:
                c, t = self.expr(s.value, env)
            env2 = dict(env)
            env2[x] = t
            if c.startswith('@RAISES@'):
                return '(rbind %s (fun %s => %s))' % (c[len('@RAISES@'):], x, self.block(rest, env2, rett))
            return '(let %s := %s in %s)' % (x, c, self.block(rest, env2, rett))
        if isinstance(s, ast.For):
            return self.first_match(s, rest, env, rett)
        raise Unsupported(s, "statement %s" % type(s).__name__)

    def terminates(self, stmts):
        if not stmts:
            return False
        s = stmts[-1]
        if isinstance(s, (ast.Return, ast.Raise)):
            return True
        if isinstance(s, ast.If):
            return self.terminates(s.body) and bool(s.orelse) and self.terminates(s.orelse)
        return False

    def iter_expr(self, it, env):
        rev = False
        if isinstance(it, ast.Call) and ast.unparse(it.func) == 'reversed' and len(it.args) == 1:
            rev, it = True, it.args[0]
        tb = self.table(it, env)
        if tb is not None:
            c, t = tb
        else:
            c, t = self.expr(it, env)
        if not (isinstance(t, tuple) and t[0] == 'list'):
            raise Unsupported(it, "iteration over %r" % (t,))
        return ('(rev %s)' % c if rev else c), t[1]

    def loop(self, init, rest, env, rett):
        """accumulate:  l = 0; for x in xs: if g: l += e; return l
           map:         out = CIGAR()/[]; for x in [reversed](xs): <assign code by if-chain>; out.append(E); return out"""
        if not rest or not isinstance(rest[0], ast.For) or rest[0].orelse:
            return None
        x = init.targets[0].id
        f = rest[0]
        after = rest[1:]
        if not isinstance(f.target, ast.Name):
            return None
        v = f.target.id
        # accumulate
        if isinstance(init.value, ast.Constant) and isinstance(init.value.value, int) and not isinstance(init.value.value, bool):
            if len(f.body) == 1 and isinstance(f.body[0], ast.If) and not f.body[0].orelse \
                    and len(f.body[0].body) == 1 and isinstance(f.body[0].body[0], ast.AugAssign) \
                    and isinstance(f.body[0].body[0].op, ast.Add) \
                    and isinstance(f.body[0].body[0].target, ast.Name) and f.body[0].body[0].target.id == x:
                it, et = self.iter_expr(f.iter, env)
                env2 = dict(env)
                env2[v] = et
                env2[x] = 'Z'
                g, gt = self.expr(f.body[0].test, env2)
                e, t = self.expr(f.body[0].body[0].value, env2)
                if gt != 'bool' or t != 'Z':
                    raise Unsupported(f, "accumulate loop typing")
                acc = '(fold_left (fun %s %s => if %s then (Z.add %s %s) else %s) %s (%d)%%Z)' % (
                    x, v, g, x, e, x, it, init.value.value)
                env3 = dict(env)
                env3[x] = 'Z'
                return '(let %s := %s in %s)' % (x, acc, self.block(after, env3, rett))
            return None
        # map
        isnew = (isinstance(init.value, ast.Call) and ast.unparse(init.value.func) in ('CIGAR', 'gfapy.CIGAR', 'list')
                 and not init.value.args) or (isinstance(init.value, ast.List) and not init.value.elts)
        if isnew:
            body = list(f.body)
            if not body or not (isinstance(body[-1], ast.Expr) and isinstance(body[-1].value, ast.Call)
                                and ast.unparse(body[-1].value.func) == x + '.append'
                                and len(body[-1].value.args) == 1):
                raise Unsupported(f, "map loop must end with %s.append(e)" % x)
            it, et = self.iter_expr(f.iter, env)
            env2 = dict(env)
            env2[v] = et
            inner = self.map_body(body[:-1], body[-1].value.args[0], env2)
            c, t = inner
            env3 = dict(env)
            env3[x] = ('list', t)
            return '(let %s := map (fun %s => %s) %s in %s)' % (x, v, c, it, self.block(after, env3, rett))
        return None

    def map_body(self, stmts, final, env):
        """statements before out.append(final): local assignments, possibly by an if/elif chain
        that assigns the same single name on every branch"""
        if not stmts:
            return self.expr(final, env)
        s, rest = stmts[0], stmts[1:]
        if isinstance(s, ast.Assign) and len(s.targets) == 1 and isinstance(s.targets[0], ast.Name):
            c, t = self.expr(s.value, env)
            env2 = dict(env)
            env2[s.targets[0].id] = t
            r, rt = self.map_body(rest, final, env2)
            return '(let %s := %s in %s)' % (s.targets[0].id, c, r), rt
        if isinstance(s, ast.If):
            name, c, t = self.assign_chain(s, env)
            env2 = dict(env)
            env2[name] = t
            r, rt = self.map_body(rest, final, env2)
            return '(let %s := %s in %s)' % (name, c, r), rt
        raise Unsupported(s, "statement in map loop")

    def assign_chain(self, s, env):
        def one(body):
            if len(body) == 1 and isinstance(body[0], ast.Assign) and len(body[0].targets) == 1 \
                    and isinstance(body[0].targets[0], ast.Name):
                c, t = self.expr(body[0].value, env)
                return body[0].targets[0].id, c, t
            if len(body) == 1 and isinstance(body[0], ast.If):
                return self.assign_chain(body[0], env)
            raise Unsupported(body[0] if body else s, "branch must assign one local name")
        g, gt = self.expr(s.test, env)
        if gt != 'bool':
            raise Unsupported(s, "non-boolean condition")
        if not s.orelse:
            raise Unsupported(s, "if-chain without else leaves the name unassigned")
        n1, c1, t1 = one(s.body)
        n2, c2, t2 = one(s.orelse)
        if n1 != n2 or t1 != t2:
            raise Unsupported(s, "branches assign different names/types")
        return n1, '(if %s then %s else %s)' % (g, c1, c2), t1

    def first_match(self, f, rest, env, rett):
        """for st in L: [y = TABLE[st]]; if g: return e      (then falls through to `rest`)"""
        if f.orelse or not isinstance(f.target, ast.Name):
            raise Unsupported(f, "for loop shape")
        v = f.target.id
        it, et = self.iter_expr(f.iter, env)
        env2 = dict(env)
        env2[v] = et
        body = list(f.body)
        lets = []
        while body and isinstance(body[0], ast.Assign):
            a = body.pop(0)
            if len(a.targets) != 1 or not isinstance(a.targets[0], ast.Name):
                raise Unsupported(a, "assignment shape")
            val = a.value
            if isinstance(val, ast.Subscript) and self.table(val.value, env2) is not None:
                tc, tt = self.table(val.value, env2)
                k, kt = self.expr(val.slice, env2)
                if not (tt[0] == 'list' and tt[1][0] == 'prod' and tt[1][1] == 'string' and kt == 'string'):
                    raise Unsupported(a, "table lookup typing")
                vt = tt[1][2]
                lets.append((a.targets[0].id, '(assoc %s %s)' % (k, tc), vt))
                env2[a.targets[0].id] = vt
            else:
                raise Unsupported(a, "only table look-ups may precede the test")
        if len(body) != 1 or not isinstance(body[0], ast.If) or body[0].orelse \
                or len(body[0].body) != 1 or not isinstance(body[0].body[0], ast.Return):
            raise Unsupported(f, "first-match loop shape")
        g, gt = self.expr(body[0].test, env2)
        e, t = self.expr(body[0].body[0].value, env2, want=rett)
        if gt != 'bool' or t != rett:
            raise Unsupported(f, "first-match typing")
        pred = g
        for name, look, vt in reversed(lets):
            pred = '(match %s with Some %s => %s | None => false end)' % (look, name, pred)
        if e != v:
            raise Unsupported(f, "first-match must return the loop variable")
        return '(match find (fun %s => %s) %s with Some %s => %s | None => %s end)' % (
            v, pred, it, v, self.ret(v), self.block(rest, env, rett))


def find_function(tree, cls, func):
    scope = tree.body
    if cls:
        for part in cls.split('.'):
            nxt = None
            for n in scope:
                if isinstance(n, ast.ClassDef) and n.name == part:
                    nxt = n.body
            if nxt is None:
                return None
            scope = nxt
    for n in scope:
        if isinstance(n, ast.FunctionDef) and n.name == func:
            return n
    return None


def contains_raise(fn):
    return any(isinstance(n, ast.Raise) for n in ast.walk(fn))


def translate(spec, src, table_types, kernel_sigs):
    tree = ast.parse(src)
    fn = find_function(tree, spec.get('cls'), spec['func'])
    if fn is None:
        raise Unsupported(ast.Pass(), "function %s.%s not found" % (spec.get('cls'), spec['func']))
    k = Kernel(spec, table_types, kernel_sigs)
    callee_raises = any(kernel_sigs[c][3] for c in spec.get('calls', []) if c in kernel_sigs)
    k.raises = contains_raise(fn) or callee_raises or spec.get('raises', False)
    env = {}
    pynames = [a.arg for a in fn.args.args]
    declared = dict(spec['params'])
    for a in pynames:
        if a == 'self' or a == 'cls':
            if a in declared:
                env[a] = declared[a]
            continue
        if a in declared:
            env[a] = declared[a]
        # an undeclared parameter may only be used through the spec's attribute map
    for n, t in spec['params']:
        env[n] = t
    if fn.args.vararg or fn.args.kwarg or fn.args.kwonlyargs:
        raise Unsupported(fn, "varargs")
    body = k.block(list(fn.body), env, spec['ret'])
    rett = coq_type(spec['ret'])
    if k.raises:
        rett = '(res %s)' % rett
    params = ' '.join('(%s : %s)' % (n, coq_type(t)) for n, t in spec['params'])
    return 'Definition %s %s : %s :=\n  %s.\n' % (spec['name'], params, rett, body), k.raises
