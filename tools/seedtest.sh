#!/bin/sh
# usage: tools/seedtest.sh <name> <worktree> <PROP> [more props]
# confirms a seeded change in its scratch worktree, stores it under /verif/seeded/<name>/, applies it to /repo,
# runs the checks of the given properties, and undoes it.
set -u
name=$1; wt=$2; shift 2
dst=/verif/seeded/$name
mkdir -p $dst
git -C $wt diff -- gfapy > $dst/patch.diff
cp $wt/SEED/demo.py $dst/demo.py 2>/dev/null
cp $wt/SEED/meta.json $dst/meta.json 2>/dev/null
[ -s $dst/patch.diff ] || { echo "EMPTY PATCH"; exit 2; }
# 1. confirmation in the scratch worktree
t=$(cd $wt && PYTHONPATH=$wt PYTHONHASHSEED=0 timeout 900 /venv/bin/python -m pytest -q -p no:cacheprovider 2>&1 | tail -1)
v=$(cd $wt/SEED && PYTHONPATH=$wt PYTHONHASHSEED=0 timeout 300 /venv/bin/python demo.py 2>&1 | tail -1)
git -C $wt apply -R $dst/patch.diff
h=$(cd $wt/SEED && PYTHONPATH=$wt PYTHONHASHSEED=0 timeout 300 /venv/bin/python demo.py 2>&1 | tail -1)
git -C $wt apply $dst/patch.diff
echo "tests: $t | demo on change: $v | demo on original: $h"
# 2. the checks against the change
git -C /repo apply $dst/patch.diff || { echo "PATCH DOES NOT APPLY"; exit 2; }
for p in "$@"; do
  /verif/bin/check $p quick 2>&1 | grep -v "^KNOWN" | tail -3 | cut -c1-260 | sed "s/^/[$p] /"
done
git -C /repo checkout -- .
