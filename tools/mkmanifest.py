#!/usr/bin/env python3
"""regenerate MANIFEST.json from harness/props/*.py (claimed = module exists and is listed in CLAIMED)"""
import importlib, json, os, sys
sys.path.insert(0, '/verif')
os.environ.setdefault('GFAPY_REPO', '/repo')
CLAIMED = sys.argv[1:] or [l.strip() for l in open('/verif/tools/claimed.txt') if l.strip()]
NOT_YET = {}
props = [json.loads(l) for l in open('/verif/properties.jsonl')]
checks = []
for p in props:
    pid = p['id']
    if pid not in CLAIMED:
        continue
    mod = importlib.import_module('harness.props.' + pid.lower())
    checks.append({
        "property_id": pid,
        "quick_cmd": "./bin/check %s quick" % pid,
        "thorough_cmd": "./bin/check %s thorough" % pid,
        "evidence_file": "evidence/%s.json" % pid,
        "replay_cmd_template": "./bin/check %s --replay {path}" % pid,
        "engine": "rocq-model",
        "level_claimed": {"category": "proof", "text": mod.LEVEL_TEXT, "design_ref": "DESIGN.md section 7 (%s)" % pid},
        "level_note": "Trusted: Coq 8.16.1 kernel + vm_compute; no axioms (Print Assumptions parsed every run); the "
                      "translator (Tie A) and the correspondence harness (Tie B); " + "; ".join(mod.ASSUMPTIONS),
        "technique": getattr(mod, 'TECHNIQUE', "machine-checked proof in Rocq (Coq 8.16) about a model regenerated from the source "
                     "(translator) and corresponded with it (differential run evaluated inside Coq)"),
    })
m = {"version": 1, "setup_cmd": "./bin/setup",
     "hooks": {"guard": "GFAPY_VERIF",
               "enable": "no hooks are needed: the checks import gfapy from /repo as it is (hook_needed is null for all properties)",
               "baseline_off_cmd": "cd /repo && /venv/bin/python -m pytest -ra -q -p no:cacheprovider --timeout=900 --continue-on-collection-errors",
               "source_commits": [], "add_only": True},
     "engines": [{"name": "rocq-model", "path": "coq/", "serves_properties": sorted(CLAIMED),
                  "kind_free_text": "Coq 8.16 development: coq/Gen regenerated from /repo by translator/ (tables, regexes, kernels), "
                                    "hand model in coq/Model, specifications in coq/Spec, proofs in coq/Proofs, property theorems in "
                                    "coq/Props; harness/ runs implementation and model on the same cases (model evaluated by vm_compute)"}],
     "checks": checks,
     "not_applicable": [{"property_id": p['id'], "reason": NOT_YET.get(p['id'], "no check registered yet: the model does not cover this property's mechanism so far (the property is within the technique's reach; see DESIGN.md section 7)")} for p in props if p['id'] not in CLAIMED],
     "notes": "See DESIGN.md. Every check: translate -> build -> prove (Props/Cnn.v) -> correspondence in Coq -> oracle search on the implementation."}
json.dump(m, open('/verif/MANIFEST.json', 'w'), indent=1)
print("claimed:", CLAIMED)
