#!/bin/sh
# usage: tools/seedrun.sh <name> <tier> <PROP>...   (apply a stored seeded change, run checks, undo)
name=$1; tier=$2; shift 2
git -C /repo apply /verif/seeded/$name/patch.diff || exit 2
for p in "$@"; do /verif/bin/check $p $tier 2>&1 | grep -v "^KNOWN" | tail -3 | cut -c1-260 | sed "s/^/[$p] /"; done
git -C /repo checkout -- .
