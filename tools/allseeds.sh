#!/bin/sh
# usage: tools/allseeds.sh [prefix]   (apply every stored seeded change [whose name starts with prefix] in turn, run the quick check of its property, undo)
cd /verif
for d in seeded/${1:-[stuvwxy][0-9]}*; do
  n=$(basename $d)
  p=$(python3 -c "import json;print(json.load(open('$d/meta.json'))['property'])")
  if git -C /repo apply /verif/$d/patch.diff 2>/dev/null; then
    r=$(./bin/check $p quick 2>&1 | grep -v "^KNOWN" | grep "VIOLATION\|^OK" | head -1 | cut -c1-120)
    git -C /repo checkout -- .
  else
    r="PATCH-DOES-NOT-APPLY"
  fi
  echo "$n $p | $r"
done
