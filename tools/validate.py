#!/usr/bin/env python3-vt
import json, sys, glob, jsonschema
m = json.load(open('/verif/MANIFEST.json'))
jsonschema.validate(m, json.load(open('/root/.vp/MANIFEST.schema.json')))
es = json.load(open('/root/.vp/EVIDENCE.schema.json'))
for f in sorted(glob.glob('/verif/evidence/*.json')):
    jsonschema.validate(json.load(open(f)), es)
    print("ok", f)
print("manifest ok:", [c['property_id'] for c in m['checks']])
