(* Proofs/MultiplyP.v — copy names, count division, distribution windows, end selection, factor cases. *)
From Coq Require Import List String Ascii ZArith Bool Lia Arith FinFun.
From GfaV Require Import Base.Py Gen.Tables Gen.K_mult Model.Codec Model.Graph Model.Multiply Proofs.CodecP Proofs.RoundTripP.
Import ListNotations.
Open Scope string_scope.
Open Scope list_scope.

(* ---------------------------------------------------------------- copy names *)
Definition cname (base : string) (j : Z) : string := (base ++ "*" ++ str_of_Z j)%string.

Lemma str_of_Z_inj a b : str_of_Z a = str_of_Z b -> a = b.
Proof.
  intro H. pose proof (py_int_str_of_Z_full a) as Ha. rewrite H in Ha. rewrite py_int_str_of_Z_full in Ha. congruence.
Qed.

Lemma append_inj_l (p a b : string) : (p ++ a = p ++ b)%string -> a = b.
Proof. induction p as [|c p IH]; cbn [String.append]; intro H; [exact H|]. injection H as H. exact (IH H). Qed.

Lemma cname_inj base a b : cname base a = cname base b -> a = b.
Proof.
  unfold cname. intro H. apply append_inj_l in H. apply (append_inj_l "*") in H. exact (str_of_Z_inj _ _ H).
Qed.

Lemma in_strs_In x l : in_strs x l = true <-> In x l.
Proof.
  induction l as [|y l IH]; cbn [in_strs In]; [split; [discriminate|tauto]|].
  unfold in_strs in *. cbn [existsb]. rewrite Bool.orb_true_iff, IH, String.eqb_eq. split; intros [A|A]; auto.
Qed.

Lemma next_free_spec used base : forall fuel i j,
  next_free fuel used base i = Some j -> (i <= j)%Z /\ in_strs (cname base j) used = false.
Proof.
  induction fuel as [|f IH]; intros i j H; cbn [next_free] in H; [discriminate|].
  destruct (in_strs (base ++ "*" ++ str_of_Z i) used) eqn:E.
  - destruct (IH _ _ H) as [A B]. split; [lia|exact B].
  - injection H as <-. split; [lia|exact E].
Qed.

(* with one unit of fuel more than identifiers in use the search cannot run dry (pigeonhole) *)
Lemma next_free_none used base : forall fuel i,
  next_free fuel used base i = None ->
  forall m, (m < fuel)%nat -> In (cname base (i + Z.of_nat m)) used.
Proof.
  induction fuel as [|f IH]; intros i H m Hm; [lia|].
  cbn [next_free] in H. destruct (in_strs (base ++ "*" ++ str_of_Z i) used) eqn:E; [|discriminate].
  destruct m as [|m].
  - rewrite Z.add_0_r. apply in_strs_In. exact E.
  - replace (i + Z.of_nat (S m))%Z with ((i + 1) + Z.of_nat m)%Z by lia. apply (IH _ H). lia.
Qed.

Lemma next_free_total used base i : exists j, next_free (S (List.length used)) used base i = Some j.
Proof.
  destruct (next_free (S (List.length used)) used base i) as [j|] eqn:E; [eauto|exfalso].
  pose proof (next_free_none _ _ _ _ E) as H.
  set (l := map (fun m => cname base (i + Z.of_nat m)) (seq 0 (S (List.length used)))).
  assert (ND : NoDup l).
  { unfold l. apply FinFun.Injective_map_NoDup; [|apply seq_NoDup].
    intros a b Hab. apply cname_inj in Hab. lia. }
  assert (INC : incl l used).
  { intros x Hx. unfold l in Hx. apply in_map_iff in Hx. destruct Hx as [m [<- Hm]]. apply in_seq in Hm. apply H. lia. }
  pose proof (NoDup_incl_length ND INC) as L. unfold l in L. rewrite map_length, seq_length in L. lia.
Qed.

Inductive increasing_from : Z -> list Z -> Prop :=
| inc_nil i : increasing_from i []
| inc_cons i j r : (i <= j)%Z -> increasing_from (j + 1) r -> increasing_from i (j :: r).

Lemma increasing_lower i js : increasing_from i js -> Forall (fun j => (i <= j)%Z) js.
Proof.
  induction 1 as [|i j r H1 H2 IH]; constructor; [exact H1|].
  eapply Forall_impl; [|exact IH]. cbn. intros; lia.
Qed.

Lemma increasing_NoDup i js : increasing_from i js -> NoDup js.
Proof.
  induction 1 as [|i j r H1 H2 IH]; constructor; [|exact IH].
  intro Hin. pose proof (increasing_lower _ _ H2) as F. rewrite Forall_forall in F. specialize (F _ Hin). cbn in F. lia.
Qed.

Lemma copy_names_from_spec used base : forall n i l,
  copy_names_from n used base i = Some l ->
  exists js, l = map (cname base) js /\ List.length js = n /\ increasing_from i js /\
             Forall (fun j => in_strs (cname base j) used = false) js.
Proof.
  induction n as [|n IH]; intros i l H; cbn [copy_names_from] in H.
  - injection H as <-. exists []. repeat split; constructor.
  - destruct (next_free (S (List.length used)) used base i) as [j|] eqn:E; [|discriminate].
    destruct (copy_names_from n used base (j + 1)) as [r|] eqn:E2; [|discriminate].
    injection H as <-. destruct (IH _ _ E2) as [js [A [B [C D]]]].
    destruct (next_free_spec _ _ _ _ _ E) as [P Q].
    exists (j :: js). cbn [map List.length]. rewrite A, B. repeat split; constructor; assumption.
Qed.

Lemma copy_names_from_total used base : forall n i, exists l, copy_names_from n used base i = Some l.
Proof.
  induction n as [|n IH]; intro i; cbn [copy_names_from]; [eauto|].
  destruct (next_free_total used base i) as [j ->]. destruct (IH (j + 1)%Z) as [r ->]. eauto.
Qed.

(* automatic copy names: factor-1 many, none in use, pairwise distinct — for every graph and every segment name *)
Theorem copy_names_fresh s n factor : (2 <= factor)%Z ->
  exists l, compute_copy_names s n factor = Some l /\
            List.length l = Z.to_nat (factor - 1) /\
            Forall (fun x => ~ In x (used_names s)) l /\ NoDup l.
Proof.
  intro Hf. unfold compute_copy_names.
  destruct (copy_names_from_total (used_names s) (copy_base n) (Z.to_nat (factor - 1)) 2) as [l E].
  exists l. split; [exact E|].
  destruct (copy_names_from_spec _ _ _ _ _ E) as [js [A [B [C D]]]]. subst l.
  split; [rewrite map_length; exact B|]. split.
  - apply Forall_forall. intros x Hx. apply in_map_iff in Hx. destruct Hx as [j [<- Hj]].
    rewrite Forall_forall in D. specialize (D _ Hj). intro Hin. apply in_strs_In in Hin. congruence.
  - apply FinFun.Injective_map_NoDup; [intros a b; apply cname_inj|]. exact (increasing_NoDup _ _ C).
Qed.

(* ---------------------------------------------------------------- count division *)
Lemma substring_app_prefix (p r : string) : substring 0 (String.length p) (p ++ r) = p.
Proof. induction p as [|c p IH]; cbn; [destruct r; reflexivity|]. now rewrite IH. Qed.

Lemma substring_all (r : string) : substring 0 (String.length r) r = r.
Proof. induction r as [|c r IH]; cbn; [reflexivity|now rewrite IH]. Qed.

Theorem div_tag_count name v k : In name count_tags ->
  div_tag k (name ++ ":i:" ++ str_of_Z v) = (name ++ ":i:" ++ str_of_Z (v / k))%string.
Proof.
  intro Hin. unfold count_tags in Hin. cbn [In] in Hin.
  assert (E : forall r, py_int (substring 5 (String.length (name ++ ":i:" ++ r) - 5) (name ++ ":i:" ++ r)) = py_int r
                        /\ substring 0 2 (name ++ ":i:" ++ r) = name /\ substring 2 3 (name ++ ":i:" ++ r) = ":i:"
                        /\ substring 0 5 (name ++ ":i:" ++ r) = (name ++ ":i:")%string).
  { intro r. destruct Hin as [<-|[<-|[<-|[]]]]; cbn [String.append String.length substring Nat.sub];
      rewrite ?Nat.sub_0_r, ?substring_all; (repeat split; try reflexivity); destruct r; reflexivity. }
  destruct (E (str_of_Z v)) as [E1 [E2 [E3 E4]]].
  unfold div_tag. rewrite E1, E2, E3, E4, py_int_str_of_Z_full.
  assert (I : in_strs name count_tags = true) by (apply in_strs_In; unfold count_tags; cbn [In]; tauto).
  rewrite I. cbn [andb String.eqb Ascii.eqb Bool.eqb]. cbn.
  destruct Hin as [<-|[<-|[<-|[]]]]; reflexivity.
Qed.

Theorem div_tag_other k t : in_strs (substring 0 2 t) count_tags = false -> div_tag k t = t.
Proof. intro H. unfold div_tag. rewrite H. reflexivity. Qed.

Theorem div_tag_not_integer k t : String.eqb (substring 2 3 t) ":i:" = false -> div_tag k t = t.
Proof. intro H. unfold div_tag. rewrite H, Bool.andb_false_r. reflexivity. Qed.

(* ---------------------------------------------------------------- distribution windows *)
Lemma nth_in_firstn {A} (d : A) : forall j len l, (j < len)%nat -> (j < List.length l)%nat -> In (nth j l d) (firstn len l).
Proof.
  induction j as [|j IH]; intros [|len] [|x l] H1 H2; cbn in *; try lia; [left; reflexivity|].
  right. apply IH; lia.
Qed.

Lemma nth_slice {A} (d : A) : forall i (l : list A) len j,
  (i <= j)%nat -> (j < i + len)%nat -> (j < List.length l)%nat -> In (nth j l d) (slice l i len).
Proof.
  unfold slice. induction i as [|i IH]; intros l len j H1 H2 H3.
  - cbn [skipn]. apply nth_in_firstn; lia.
  - destruct l as [|x l]; [cbn in H3; lia|]. destruct j as [|j]; [lia|]. cbn [skipn nth].
    apply IH; cbn in H3; lia.
Qed.

(* every link of the distributed end is kept by some copy: copy i keeps positions i .. i + max(n-k,0) *)
Theorem windows_cover {A} (d : A) (sigs : list A) (k : nat) : (1 <= k)%nat ->
  forall j, (j < List.length sigs)%nat ->
  exists i, (i < k)%nat /\ In (nth j sigs d) (slice sigs i (S (List.length sigs - k))).
Proof.
  intros Hk j Hj. destruct (Nat.ltb_spec j k) as [C|C].
  - exists j. split; [exact C|]. apply nth_slice; lia.
  - exists (k - 1)%nat. split; [lia|]. apply nth_slice; lia.
Qed.

(* no window reaches outside the list of the original's links: nothing is invented *)
Lemma In_firstn {A} (x : A) : forall n l, In x (firstn n l) -> In x l.
Proof. induction n as [|n IH]; intros [|y l] H; cbn in *; try tauto. destruct H as [H|H]; [left; exact H|right; exact (IH _ H)]. Qed.

Lemma In_skipn {A} (x : A) : forall n l, In x (skipn n l) -> In x l.
Proof. induction n as [|n IH]; intros [|y l] H; cbn in *; try tauto. right. exact (IH _ H). Qed.

Theorem window_within {A} (sigs : list A) i len : incl (slice sigs i len) sigs.
Proof. unfold slice. intros x Hx. exact (In_skipn _ _ _ (In_firstn _ _ _ Hx)). Qed.

(* ---------------------------------------------------------------- selection of the end (GENERATED kernel) *)
Theorem equal_policy_spec f b e x :
  k_auto_select_distribute_end f b e true = Some x -> (x = "R" /\ e = f) \/ (x = "L" /\ b = f /\ e <> f).
Proof.
  unfold k_auto_select_distribute_end.
  destruct (Z.eqb_spec e f) as [E|E]; [intro H; injection H as <-; left; split; [reflexivity|exact E]|].
  destruct (Z.eqb_spec b f) as [B|B]; [intro H; injection H as <-; right; repeat split; assumption|discriminate].
Qed.

Theorem equal_policy_none f b e :
  k_auto_select_distribute_end f b e true = None <-> e <> f /\ b <> f.
Proof.
  unfold k_auto_select_distribute_end.
  destruct (Z.eqb_spec e f) as [E|E]; [split; [discriminate|tauto]|].
  destruct (Z.eqb_spec b f) as [B|B]; [split; [discriminate|tauto]|tauto].
Qed.

Theorem auto_policy_spec f b e x :
  k_auto_select_distribute_end f b e false = Some x ->
  (x = "R" /\ (e = f \/ 2 <= e)%Z) \/ (x = "L" /\ (b = f \/ 2 <= b)%Z).
Proof.
  unfold k_auto_select_distribute_end.
  destruct (Z.eqb_spec e f); [intro HH; injection HH as <-; left; split; [reflexivity|lia]|].
  destruct (Z.eqb_spec b f); [intro HH; injection HH as <-; right; split; [reflexivity|lia]|].
  destruct (Z.ltb_spec e 2); destruct (Z.ltb_spec b 2); try discriminate;
    try (intro HH; injection HH as <-; first [left; split; [reflexivity|lia] | right; split; [reflexivity|lia]]).
  destruct (Z.ltb_spec e f); destruct (Z.leb_spec b e); destruct (Z.ltb_spec b f);
    intro HH; injection HH as <-; first [left; split; [reflexivity|lia] | right; split; [reflexivity|lia]].
Qed.

Theorem auto_policy_none f b e :
  k_auto_select_distribute_end f b e false = None <-> (e <> f /\ b <> f /\ e < 2 /\ b < 2)%Z.
Proof.
  unfold k_auto_select_distribute_end.
  destruct (Z.eqb_spec e f); [split; [discriminate|lia]|].
  destruct (Z.eqb_spec b f); [split; [discriminate|lia]|].
  destruct (Z.ltb_spec e 2); destruct (Z.ltb_spec b 2); try (split; [discriminate|lia]); [split; [intros _; lia|reflexivity]|].
  destruct (Z.ltb_spec e f); destruct (Z.leb_spec b e); destruct (Z.ltb_spec b f); split; try discriminate; lia.
Qed.

(* ---------------------------------------------------------------- factor cases *)
Theorem multiply_negative s n k names pol : (k < 0)%Z -> multiply s n k names pol = Err (G EArgument).
Proof. intro H. unfold multiply. destruct (Z.ltb_spec k 0); [reflexivity|lia]. Qed.

Theorem multiply_zero s n names pol : multiply s n 0 names pol = rm s n.
Proof. reflexivity. Qed.

Theorem multiply_one s n names pol : multiply s n 1 names pol = Ok s.
Proof. reflexivity. Qed.

Theorem unknown_policy_refused s p n f : in_strs p T_LINKS_DISTRIBUTION_POLICY = false -> select_end s p n f = Err (G EArgument).
Proof. intro H. unfold select_end. rewrite H. reflexivity. Qed.
