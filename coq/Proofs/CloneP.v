(* Proofs/CloneP.v — the clone renders like the original and shares no object with it; therefore no sequence of edits
   of one of them changes the other. *)
From Coq Require Import List String Ascii ZArith Bool Lia Arith.
From GfaV Require Import Base.Py Model.Clone.
Import ListNotations.
Open Scope string_scope.
Open Scope list_scope.

Fixpoint tree_ind' (P : tree -> Prop) (Hleaf : forall s, P (Leaf s))
         (Hnode : forall l tag kids, Forall P kids -> P (Node l tag kids)) (t : tree) : P t :=
  match t with
  | Leaf s => Hleaf s
  | Node l tag kids => Hnode l tag kids ((fix go (ks : list tree) : Forall P ks :=
                         match ks with [] => Forall_nil P | k :: r => Forall_cons k (tree_ind' P Hleaf Hnode k) (go r) end) kids)
  end.

Lemma render_relabel off : forall t, render (relabel off t) = render t.
Proof.
  apply tree_ind'; [reflexivity|]. intros l tag kids IH. cbn [relabel render]. rewrite map_map.
  f_equal. f_equal. f_equal. f_equal. induction IH as [|k r Hk Hr IHr]; [reflexivity|]. cbn [map]. now rewrite Hk, IHr.
Qed.

Lemma locs_relabel off : forall t x, In x (locs (relabel off t)) -> exists y, In y (locs t) /\ x = y + off.
Proof.
  apply (tree_ind' (fun t => forall x, In x (locs (relabel off t)) -> exists y, In y (locs t) /\ x = y + off)).
  - intros s x [].
  - intros l tag kids IH x H. cbn [relabel locs] in H. destruct H as [<-|H]; [exists l; split; [left; reflexivity|reflexivity]|].
    apply in_flat_map in H. destruct H as [k' [Hk' Hx]]. apply in_map_iff in Hk'. destruct Hk' as [k [<- Hk]].
    rewrite Forall_forall in IH. destruct (IH k Hk x Hx) as [y [Hy E]]. exists y. split; [|exact E].
    cbn [locs]. right. apply in_flat_map. exists k. split; assumption.
Qed.

Lemma write_frame target tag' kids' : forall t, ~ In target (locs t) -> write target tag' kids' t = t.
Proof.
  apply (tree_ind' (fun t => ~ In target (locs t) -> write target tag' kids' t = t)); [reflexivity|].
  intros l tag kids IH N. cbn [write]. cbn [locs] in N.
  destruct (Nat.eqb_spec l target) as [E|E]; [exfalso; apply N; left; exact E|]. f_equal.
  assert (N2 : forall k, In k kids -> ~ In target (locs k)).
  { intros k Hk Hin. apply N. right. apply in_flat_map. exists k. split; assumption. }
  clear N. induction IH as [|k r Hk Hr IHr]; [reflexivity|]. cbn [map].
  rewrite Hk by (apply N2; left; reflexivity). rewrite IHr; [reflexivity|]. intros k' Hk'. apply N2. right; exact Hk'.
Qed.

(* the clone is written like the original (references as identifiers) *)
Theorem clone_renders_equal off l : render_line (clone off l) = render_line l.
Proof.
  unfold render_line, clone. rewrite map_map. apply map_ext. intro f. unfold clone_field.
  destruct (clone_mode (f_ref f) (f_json f) (f_kind f)); cbn [f_name f_val]; [reflexivity| |reflexivity].
  now rewrite render_relabel.
Qed.

(* every field whose value contains an object is copied or rendered: no value of a mutable kind is shared *)
Definition no_mutable_shared (l : pline) : Prop :=
  forall f, In f l -> clone_mode (f_ref f) (f_json f) (f_kind f) = Share -> locs (f_val f) = [].

(* separation: with identities of the original below the offset, the clone contains none of the original's objects *)
Theorem clone_separate off l : bounded off l -> no_mutable_shared l ->
  forall x, In x (line_locs (clone off l)) -> ~ In x (line_locs l).
Proof.
  intros B NS x Hc Ho. unfold line_locs, clone in Hc. apply in_flat_map in Hc. destruct Hc as [f' [Hf' Hx]].
  apply in_map_iff in Hf'. destruct Hf' as [f [<- Hf]]. unfold clone_field in Hx.
  destruct (clone_mode (f_ref f) (f_json f) (f_kind f)) eqn:M; cbn [f_val] in Hx.
  - rewrite (NS f Hf M) in Hx. destruct Hx.
  - destruct (locs_relabel _ _ _ Hx) as [y [Hy ->]]. specialize (B (y + off) Ho). lia.
  - destruct Hx.
Qed.

(* an edit of an object that a line does not contain leaves the line as it is *)
Lemma apply_write_frame t tag kids l : ~ In t (line_locs l) -> apply_edit (EWrite t tag kids) l = l.
Proof.
  intro N. cbn [apply_edit]. rewrite <- (map_id l) at 2. apply map_ext_in. intros f Hf.
  rewrite write_frame; [destruct f; reflexivity|]. intro Hin. apply N. unfold line_locs. apply in_flat_map. exists f. split; assumption.
Qed.

(* edits made through the clone: in-place edits of objects the clone contains (with new content made of fresh objects)
   and assignments to the clone's fields *)
Definition edit_via (own other : pline) (e : edit) : Prop :=
  match e with
  | EWrite t _ kids => In t (line_locs own) /\ forall x, In x (flat_map locs kids) -> ~ In x (line_locs other)
  | ESet _ v => forall x, In x (locs v) -> ~ In x (line_locs other)
  end.

Lemma locs_write target tag' kids' : forall t x, In x (locs (write target tag' kids' t)) -> In x (locs t) \/ In x (flat_map locs kids').
Proof.
  apply (tree_ind' (fun t => forall x, In x (locs (write target tag' kids' t)) -> In x (locs t) \/ In x (flat_map locs kids'))).
  - intros s x [].
  - intros l tag kids IH x H. cbn [write] in H. destruct (Nat.eqb l target).
    + cbn [locs] in H. destruct H as [<-|H]; [left; left; reflexivity|right; exact H].
    + cbn [locs] in H. destruct H as [<-|H]; [left; left; reflexivity|].
      apply in_flat_map in H. destruct H as [k' [Hk' Hx]]. apply in_map_iff in Hk'. destruct Hk' as [k [<- Hk]].
      rewrite Forall_forall in IH. destruct (IH k Hk x Hx) as [A|A]; [left|right; exact A].
      cbn [locs]. right. apply in_flat_map. exists k. split; assumption.
Qed.

Lemma line_locs_edit e l x : In x (line_locs (apply_edit e l)) ->
  In x (line_locs l) \/ match e with EWrite _ _ kids => In x (flat_map locs kids) | ESet _ v => In x (locs v) end.
Proof.
  unfold line_locs. intro H. apply in_flat_map in H. destruct H as [f' [Hf' Hx]]. destruct e as [t tag kids|n v]; cbn [apply_edit] in Hf'.
  - apply in_map_iff in Hf'. destruct Hf' as [f [<- Hf]]. cbn [f_val] in Hx.
    destruct (locs_write _ _ _ _ _ Hx) as [A|A]; [left; apply in_flat_map; exists f; split; assumption|right; exact A].
  - apply in_map_iff in Hf'. destruct Hf' as [f [<- Hf]]. destruct (String.eqb (f_name f) n); cbn [f_val] in Hx.
    + right; exact Hx.
    + left. apply in_flat_map. exists f. split; assumption.
Qed.

Definition disjoint (a b : pline) : Prop := forall x, In x (line_locs a) -> ~ In x (line_locs b).

(* one edit made through the clone: the original is unchanged and the two lines still share nothing *)
Lemma edit_clone_step o c e : disjoint c o -> edit_via c o e ->
  fst (edit_world true e (o, c)) = o /\ disjoint (snd (edit_world true e (o, c))) o.
Proof.
  intros D V. destruct e as [t tag kids|n v]; cbn [edit_world fst snd].
  - destruct V as [V1 V2]. split; [apply apply_write_frame; exact (D t V1)|].
    intros x Hx. destruct (line_locs_edit _ _ _ Hx) as [A|A]; [exact (D x A)|exact (V2 x A)].
  - split; [reflexivity|]. intros x Hx. destruct (line_locs_edit _ _ _ Hx) as [A|A]; [exact (D x A)|exact (V x A)].
Qed.

Fixpoint edits_via_clone (o c : pline) (es : list edit) : Prop :=
  match es with
  | [] => True
  | e :: r => edit_via c o e /\ edits_via_clone o (snd (edit_world true e (o, c))) r
  end.

Definition run_clone_edits (o c : pline) (es : list edit) : pline * pline :=
  fold_left (fun w e => edit_world true e w) es (o, c).

(* no sequence of edits of the clone changes the original *)
Theorem clone_edits_leave_original : forall es o c, disjoint c o -> edits_via_clone o c es ->
  fst (run_clone_edits o c es) = o.
Proof.
  induction es as [|e es IH]; intros o c D V; [reflexivity|]. unfold run_clone_edits in *. cbn [fold_left].
  destruct V as [V1 V2]. destruct (edit_clone_step o c e D V1) as [A B].
  destruct (edit_world true e (o, c)) as [o' c'] eqn:W. cbn [fst snd] in *. subst o'. apply IH; assumption.
Qed.

(* and symmetrically: edits of the original do not change the clone *)
Lemma edit_orig_step o c e : disjoint o c -> edit_via o c e ->
  snd (edit_world false e (o, c)) = c /\ disjoint (fst (edit_world false e (o, c))) c.
Proof.
  intros D V. destruct e as [t tag kids|n v]; cbn [edit_world fst snd].
  - destruct V as [V1 V2]. split; [apply apply_write_frame; exact (D t V1)|].
    intros x Hx. destruct (line_locs_edit _ _ _ Hx) as [A|A]; [exact (D x A)|exact (V2 x A)].
  - split; [reflexivity|]. intros x Hx. destruct (line_locs_edit _ _ _ Hx) as [A|A]; [exact (D x A)|exact (V x A)].
Qed.

Fixpoint edits_via_orig (o c : pline) (es : list edit) : Prop :=
  match es with
  | [] => True
  | e :: r => edit_via o c e /\ edits_via_orig (fst (edit_world false e (o, c))) c r
  end.

Theorem original_edits_leave_clone : forall es o c, disjoint o c -> edits_via_orig o c es ->
  snd (fold_left (fun w e => edit_world false e w) es (o, c)) = c.
Proof.
  induction es as [|e es IH]; intros o c D V; [reflexivity|]. cbn [fold_left].
  destruct V as [V1 V2]. destruct (edit_orig_step o c e D V1) as [A B].
  destruct (edit_world false e (o, c)) as [o' c'] eqn:W. cbn [fst snd] in *. subst c'. apply IH; assumption.
Qed.

Lemma disjoint_sym a b : disjoint a b -> disjoint b a.
Proof. intros D x Hb Ha. exact (D x Ha Hb). Qed.

(* ---------------------------------------------------------------- the regenerated copy rule *)
(* every kind of value that has a mutable part and is recognised by Cloning.clone is copied or rendered, never shared *)
Lemma recognised_kinds_not_shared :
  forallb (fun r => forallb (fun j => forallb (fun k => match clone_mode r j k with Share => false | _ => true end)
                                              [VStr; VList; VOriented; VFieldArray]) [true; false]) [true; false] = true.
Proof. vm_compute. reflexivity. Qed.

Theorem recognised_kind_copied r j k : In k [VStr; VList; VOriented; VFieldArray] -> clone_mode r j k <> Share.
Proof.
  intros Hk E. pose proof recognised_kinds_not_shared as F.
  rewrite forallb_forall in F. assert (Hr : In r [true; false]) by (destruct r; cbn; tauto). specialize (F r Hr).
  rewrite forallb_forall in F. assert (Hj : In j [true; false]) by (destruct j; cbn; tauto). specialize (F j Hj).
  rewrite forallb_forall in F. specialize (F k Hk). rewrite E in F. discriminate.
Qed.

(* a line all of whose values are immutable or of a recognised kind has no mutable value shared *)
Theorem recognised_line_not_shared l :
  (forall f, In f l -> locs (f_val f) = [] \/ In (f_kind f) [VStr; VList; VOriented; VFieldArray]) -> no_mutable_shared l.
Proof.
  intros H f Hf M. destruct (H f Hf) as [E|K]; [exact E|]. exfalso. exact (recognised_kind_copied _ _ _ K M).
Qed.
