(* Proofs/TopologyP.v — a computed component is exactly an equivalence class of "joined by a chain of dovetails". *)
From Coq Require Import List String Ascii ZArith Bool Lia.
From GfaV Require Import Base.Py Model.Graph Model.Topology.
Import ListNotations.
Open Scope string_scope.
Open Scope list_scope.

(* reachability by a chain of dovetail adjacencies among the segments of the graph *)
Inductive chain (s : gfa) (a : string) : string -> Prop :=
| chain_refl : chain s a a
| chain_step b c : chain s a b -> In c (neighbours s b) -> chain s a c.

Lemma add_new_incl xs : forall acc x, In x (add_new xs acc) <-> In x acc \/ In x xs.
Proof.
  induction xs as [|y xs IH]; intros acc x; cbn [add_new].
  - cbn. tauto.
  - destruct (in_strs y acc) eqn:E.
    + rewrite IH. cbn. apply in_strs_In in E. split; [intros [H|H]; auto | intros [H|[<-|H]]; auto].
    + rewrite IH, in_app_iff. cbn. tauto.
Qed.

(* soundness: whatever saturation finds is joined to the start by a chain *)
Lemma saturate_sound s a : forall n acc,
  (forall x, In x acc -> chain s a x) -> forall x, In x (saturate n s acc) -> chain s a x.
Proof.
  induction n as [|n IH]; intros acc Hacc x Hx; cbn [saturate] in Hx; [apply Hacc; exact Hx|].
  apply (IH (add_new (flat_map (neighbours s) acc) acc)); [|exact Hx].
  intros y Hy. apply add_new_incl in Hy. destruct Hy as [Hy|Hy]; [apply Hacc; exact Hy|].
  apply in_flat_map in Hy. destruct Hy as [b [Hb Hyb]]. apply (chain_step s a b y (Hacc b Hb) Hyb).
Qed.

Lemma saturate_grows s : forall n acc x, In x acc -> In x (saturate n s acc).
Proof.
  induction n as [|n IH]; intros acc x Hx; cbn [saturate]; [exact Hx|]. apply IH. apply add_new_incl. left. exact Hx.
Qed.

(* completeness from the closure check *)
Lemma closed_adj_complete s a c :
  In a c -> closed_adj s c = true -> forall x, chain s a x -> In x c.
Proof.
  intros Ha Hc x H. induction H as [|b d Hb IH Hd]; [exact Ha|].
  unfold closed_adj in Hc. rewrite forallb_forall in Hc. specialize (Hc b IH). rewrite forallb_forall in Hc.
  apply in_strs_In. apply Hc. exact Hd.
Qed.

Theorem component_exact s a c :
  component s a = Ok c -> forall x, In x c <-> chain s a x.
Proof.
  unfold component. destruct (closed_adj s _) eqn:Ec; [|discriminate]. intros H. injection H as <-. intros x. split.
  - apply saturate_sound. intros y [<-|[]]. constructor.
  - apply (closed_adj_complete s a _); [|exact Ec]. apply saturate_grows. left. reflexivity.
Qed.

(* adjacency is symmetric, so chains can be reversed and components are equivalence classes *)
Lemma adjacent_sym s a b : adjacent s a b = adjacent s b a.
Proof.
  unfold adjacent. induction (lines s) as [|l ls IH]; cbn; [reflexivity|]. rewrite IH, (andb_comm (in_strs a _)). reflexivity.
Qed.

Lemma chain_trans s a b c : chain s a b -> chain s b c -> chain s a c.
Proof. intros H1 H2. induction H2 as [|d e _ IH He]; [exact H1 | apply (chain_step s a d e IH He)]. Qed.

Lemma neighbours_spec s a b : In b (neighbours s a) <-> In b (segment_names s) /\ adjacent s a b = true.
Proof. unfold neighbours. rewrite filter_In. reflexivity. Qed.

Lemma chain_sym s a b : In a (segment_names s) -> chain s a b -> chain s b a.
Proof.
  intros Ha H. induction H as [|c d Hc IH Hd]; [constructor|].
  apply neighbours_spec in Hd. destruct Hd as [Hd Hadj].
  assert (Hcin : In c (segment_names s)).
  { clear IH. induction Hc as [|x y _ IHx Hy]; [exact Ha | apply neighbours_spec in Hy; tauto]. }
  apply (chain_trans s d c a); [|exact IH].
  apply (chain_step s d d c (chain_refl s d)). apply neighbours_spec. split; [exact Hcin | rewrite adjacent_sym; exact Hadj].
Qed.

Theorem same_component_iff s a b ca cb :
  In a (segment_names s) -> In b (segment_names s) ->
  component s a = Ok ca -> component s b = Ok cb ->
  (In b ca <-> forall x, In x ca <-> In x cb).
Proof.
  intros Ha Hb Hca Hcb. split.
  - intros Hin x. rewrite (component_exact s a ca Hca), (component_exact s b cb Hcb).
    apply (component_exact s a ca Hca) in Hin. split; intros H.
    + apply (chain_trans s b a x); [apply chain_sym; assumption | exact H].
    + apply (chain_trans s a b x); assumption.
  - intros H. apply H. apply (component_exact s b cb Hcb). constructor.
Qed.

(* the list of components: every segment belongs to one of them, and the start of each is a segment *)
Lemma components_from_cover s : forall todo seen cs,
  components_from s todo seen = Ok cs ->
  forall a, In a todo -> In a seen \/ exists c, In c cs /\ In a c.
Proof.
  induction todo as [|t todo IH]; intros seen cs H a Ha; [contradiction|]. cbn [components_from] in H.
  destruct (in_strs t seen) eqn:Et.
  - destruct Ha as [<-|Ha]; [left; apply in_strs_In; exact Et | apply (IH seen cs H a Ha)].
  - destruct (component s t) as [c|e] eqn:Ec; cbn [rbind] in H; [|discriminate].
    destruct (components_from s todo (seen ++ c)) as [cs'|e] eqn:Er; cbn [rbind] in H; [|discriminate].
    injection H as <-. destruct Ha as [<-|Ha].
    + right. exists c. split; [left; reflexivity|]. apply (component_exact s t c Ec). constructor.
    + destruct (IH (seen ++ c) cs' Er a Ha) as [Hs|[c' [Hc' Hac']]].
      * apply in_app_or in Hs. destruct Hs as [Hs|Hs]; [left; exact Hs | right; exists c; split; [left; reflexivity | exact Hs]].
      * right. exists c'. split; [right; exact Hc' | exact Hac'].
Qed.

Theorem every_segment_in_a_component s cs a :
  connected_components s = Ok cs -> In a (segment_names s) -> exists c, In c cs /\ In a c.
Proof.
  intros H Ha. destruct (components_from_cover s _ [] cs H a Ha) as [[]|H']. exact H'.
Qed.

(* the components are pairwise disjoint: a later component starts at a segment outside all earlier ones, and by
   symmetry of chains shares no segment with them *)
Lemma components_from_disjoint s : forall todo seen cs,
  (forall x, In x todo -> In x (segment_names s)) ->
  (forall x y, In x seen -> chain s x y -> In y seen) ->
  components_from s todo seen = Ok cs ->
  forall c, In c cs -> forall x, In x c -> ~ In x seen.
Proof.
  induction todo as [|t todo IH]; intros seen cs Htodo Hclosed H c Hc x Hx Hseen; cbn [components_from] in H.
  - injection H as <-. contradiction.
  - destruct (in_strs t seen) eqn:Et.
    + apply (IH seen cs (fun y Hy => Htodo y (or_intror Hy)) Hclosed H c Hc x Hx Hseen).
    + destruct (component s t) as [c0|e] eqn:Ec; cbn [rbind] in H; [|discriminate].
      destruct (components_from s todo (seen ++ c0)) as [cs'|e] eqn:Er; cbn [rbind] in H; [|discriminate].
      injection H as <-. destruct Hc as [<-|Hc].
      * (* x in the component of t and in seen: then t is in seen *)
        apply (component_exact s t c0 Ec) in Hx.
        assert (Ht : In t seen).
        { apply (Hclosed x t Hseen). apply chain_sym; [apply Htodo; left; reflexivity | exact Hx]. }
        apply in_strs_In in Ht. congruence.
      * apply (IH (seen ++ c0) cs' (fun y Hy => Htodo y (or_intror Hy))) with (c := c) (x := x); try assumption.
        -- intros u v Hu Huv. apply in_app_or in Hu. apply in_or_app. destruct Hu as [Hu|Hu].
           ++ left. apply (Hclosed u v Hu Huv).
           ++ right. apply (component_exact s t c0 Ec). apply (component_exact s t c0 Ec) in Hu. apply (chain_trans s t u v Hu Huv).
        -- apply in_or_app. left. exact Hseen.
Qed.
