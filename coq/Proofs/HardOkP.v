(* Proofs/HardOkP.v — the two datatypes whose "safe decoder accepts less than the unsafe one" is not a purely regular
   fact: GFA2 positions (value >= 0 after int()) and GFA2 oriented identifier lists (non-empty elements). *)
From Coq Require Import List String Ascii ZArith Bool Lia DecimalString.
From GfaV Require Import Base.Py Base.Regex Base.RegexIncl Gen.Tables Gen.Regexes Model.Align Model.Codec Model.Line Model.Levels
                         Proofs.LevelsP.
Import ListNotations.
Open Scope list_scope.
Open Scope string_scope.

(* ---------------------------------------------------------------- induction on the iterations of a star *)
Lemma star_ind_app (x : re) (P : string -> Prop) :
  P EmptyString -> (forall s1 s2, lang x s1 -> lang (Star x) s2 -> P s2 -> P (s1 ++ s2)%string) ->
  forall s, lang (Star x) s -> P s.
Proof.
  intros P0 Pstep. assert (G : forall r s, lang r s -> r = Star x -> P s).
  { intros r s H. induction H as [| | | | | a | a s1 s2 H1 IH1 H2 IH2]; intro E; try discriminate.
    - exact P0.
    - injection E as ->. apply Pstep; [exact H1|exact H2|apply IH2; reflexivity]. }
  intros s H. exact (G _ _ H eq_refl).
Qed.

(* ---------------------------------------------------------------- strings without a given character *)
Fixpoint all_chars (p : ascii -> bool) (s : string) : bool :=
  match s with EmptyString => true | String c r => p c && all_chars p r end.

Lemma all_chars_app p a b : all_chars p (a ++ b) = all_chars p a && all_chars p b.
Proof. induction a as [|c a IH]; cbn; [reflexivity|]. rewrite IH. apply Bool.andb_assoc. Qed.

Lemma plus_cls_chars cs s : lang (Cat (Cls cs) (Star (Cls cs))) s ->
  s <> EmptyString /\ all_chars (fun c => in_cset c cs) s = true.
Proof.
  intro H. apply cat_inv in H. destruct H as [s1 [s2 [-> [H1 H2]]]].
  apply cls_inv in H1. destruct H1 as [c [-> Hc]]. split; [discriminate|]. cbn [String.append all_chars]. rewrite Hc. cbn [andb].
  revert H2. apply (star_ind_app (Cls cs) (fun s => all_chars (fun c => in_cset c cs) s = true)); [reflexivity|].
  intros a b Ha _ Hb. apply cls_inv in Ha. destruct Ha as [d [-> Hd]]. cbn. rewrite Hd. exact Hb.
Qed.

(* ---------------------------------------------------------------- oriented identifier lists *)
Definition nonspace : re := Cls [(0, 31); (33, 255)]%N.
Definition word : re := Cat nonspace (Star nonspace).
Definition words : re := Cat word (Star (Cat (Chr space) word)).

Lemma olist2_in_words : included (Cat re_field_oriented_identifier_list_gfa2_validate_encoded (Opt (Chr nl))) words = true.
Proof. vm_compute. reflexivity. Qed.

Definition nosp (s : string) : bool := all_chars (fun c => negb (Ascii.eqb c space)) s.

Lemma nonspace_char c : in_cset c [(0, 31); (33, 255)]%N = true -> negb (Ascii.eqb c space) = true.
Proof.
  intro H. destruct (Ascii.eqb_spec c space) as [->|N]; [vm_compute in H; discriminate|reflexivity].
Qed.

Lemma word_spec s : lang word s -> s <> EmptyString /\ nosp s = true.
Proof.
  intro H. destruct (plus_cls_chars _ _ H) as [A B]. split; [exact A|]. unfold nosp.
  clear H A. induction s as [|c r IH]; [reflexivity|]. cbn [all_chars] in *. apply Bool.andb_true_iff in B. destruct B as [B1 B2].
  rewrite (nonspace_char c B1), (IH B2). reflexivity.
Qed.

Lemma split_nosp s : nosp s = true -> split_on space s = [s].
Proof.
  induction s as [|c r IH]; [reflexivity|]. unfold nosp in *. cbn [all_chars split_on]. intro H.
  apply Bool.andb_true_iff in H. destruct H as [H1 H2]. apply Bool.negb_true_iff in H1. rewrite H1, (IH H2). reflexivity.
Qed.

Lemma split_nosp_space a b : nosp a = true -> split_on space (a ++ String space b) = a :: split_on space b.
Proof.
  induction a as [|c r IH]; intro H.
  - cbn [String.append split_on]. rewrite Ascii.eqb_refl. reflexivity.
  - unfold nosp in H. cbn [all_chars] in H. apply Bool.andb_true_iff in H. destruct H as [H1 H2]. apply Bool.negb_true_iff in H1.
    cbn [String.append split_on]. rewrite H1, (IH H2). reflexivity.
Qed.

Lemma words_nonempty_elements s : lang words s -> forallb (fun e => negb (String.eqb e "")) (split_on space s) = true.
Proof.
  intro H. apply cat_inv in H. destruct H as [w [r [-> [Hw Hr]]]].
  destruct (word_spec _ Hw) as [Wn Ws]. clear Hw. revert w Wn Ws.
  apply (star_ind_app (Cat (Chr space) word)
           (fun r => forall w, w <> EmptyString -> nosp w = true ->
                     forallb (fun e => negb (String.eqb e "")) (split_on space (w ++ r)) = true)); [| |exact Hr].
  - intros w Wn Ws. rewrite string_app_nil_r, (split_nosp _ Ws). cbn. destruct w; [contradiction|reflexivity].
  - intros s1 s2 H1 _ IH w Wn Ws. apply cat_inv in H1. destruct H1 as [sp [w2 [-> [Hsp Hw2]]]].
    apply cls_inv in Hsp. destruct Hsp as [c [-> Hc]].
    assert (c = space) by (destruct (Ascii.eqb_spec c space) as [E|N]; [exact E|]; exfalso;
                           unfold in_cset in Hc; cbn in Hc; destruct c as [[] [] [] [] [] [] [] []]; cbn in Hc; try discriminate; apply N; reflexivity).
    subst c. destruct (word_spec _ Hw2) as [W2n W2s].
    replace (w ++ (String space EmptyString ++ w2) ++ s2)%string with (w ++ String space (w2 ++ s2))%string.
    + rewrite (split_nosp_space _ _ Ws). cbn [forallb]. rewrite (IH w2 W2n W2s). destruct w; [contradiction|reflexivity].
    + reflexivity.
Qed.

Theorem olist2_hard O s : accepts_module O "oriented_identifier_list_gfa2" s = true ->
  unsafe_accepts_module "oriented_identifier_list_gfa2" s = Ok tt.
Proof.
  intro H. cbv beta iota delta [accepts_module String.eqb Ascii.eqb Bool.eqb] in H.
  pose proof (safe_regex_unsafe _ _ _ olist2_in_words H) as M. apply matches_spec in M.
  assert (E : unsafe_accepts_module "oriented_identifier_list_gfa2" s =
              if forallb (fun e => negb (String.eqb e "")) (split_on space s) then Ok tt else Err (G EFormat)) by reflexivity.
  rewrite E, (words_nonempty_elements _ M). reflexivity.
Qed.

(* ---------------------------------------------------------------- GFA2 positions *)
Definition digit : re := Cls [(48, 57)]%N.
Definition digits : re := Cat digit (Star digit).
Definition isdig (c : ascii) : bool := in_cset c [(48, 57)]%N.

Lemma pos2_shape : re_field_position_gfa2_validate_encoded = Cat digits (Alt Eps (Cls [(36, 36)]%N)).
Proof. reflexivity. Qed.

Lemma digits_in_pyint : included digits re_py_int = true.
Proof. vm_compute. reflexivity. Qed.
Lemma digits_nl_in_pyint : included (Cat digits (Chr nl)) re_py_int = true.
Proof. vm_compute. reflexivity. Qed.

Lemma last_char_app_one a c : last_char (a ++ String c EmptyString) = Some c.
Proof. induction a as [|x a IH]; [reflexivity|]. cbn [String.append last_char]. destruct (a ++ String c "") eqn:E; [destruct a; discriminate|]. exact IH. Qed.

Lemma drop_last_app_one a c : drop_last (a ++ String c EmptyString) = a.
Proof.
  induction a as [|x a IH]; [reflexivity|]. destruct a as [|y a']; [reflexivity|].
  change (String x (drop_last (String y a' ++ String c "")) = String x (String y a')). rewrite IH. reflexivity.
Qed.

Lemma last_char_digits d : d <> EmptyString -> all_chars isdig d = true -> exists c, last_char d = Some c /\ isdig c = true.
Proof.
  induction d as [|x d IH]; intros N H; [contradiction|]. cbn [all_chars] in H. apply Bool.andb_true_iff in H. destruct H as [H1 H2].
  destruct d as [|y d']; [exists x; split; [reflexivity|exact H1]|].
  destruct (IH ltac:(discriminate) H2) as [c [L P]]. exists c. split; [exact L|exact P].
Qed.

Lemma isdig_not c : isdig c = true -> Ascii.eqb c "$" = false /\ Ascii.eqb c "+" = false /\ Ascii.eqb c "-" = false /\
  Ascii.eqb c nl = false /\ Ascii.eqb c "_" = false /\
  (((9 <=? nat_of_ascii c)%nat && (nat_of_ascii c <=? 13)%nat) || ((28 <=? nat_of_ascii c)%nat && (nat_of_ascii c <=? 32)%nat)) = false.
Proof.
  intro H. destruct c as [[] [] [] [] [] [] [] []]; vm_compute in H; try discriminate; vm_compute; repeat split.
Qed.

Lemma drop_last_nl_digits d : all_chars isdig d = true -> drop_last_nl d = None.
Proof.
  induction d as [|x d IH]; intro H; [reflexivity|]. cbn [all_chars] in H. apply Bool.andb_true_iff in H. destruct H as [H1 H2].
  cbn [drop_last_nl]. destruct d as [|y d'].
  - destruct (isdig_not x H1) as [_ [_ [_ [N _]]]]. rewrite N. reflexivity.
  - rewrite (IH H2). reflexivity.
Qed.

Lemma drop_last_nl_app d : drop_last_nl (d ++ String nl EmptyString) = Some d.
Proof.
  induction d as [|x d IH]; [reflexivity|]. destruct d as [|y d']; [reflexivity|].
  change (match drop_last_nl (String y d' ++ String nl "") with Some t => Some (String x t) | None => None end = Some (String x (String y d'))).
  rewrite IH. reflexivity.
Qed.

Lemma strip_loose_digits d : all_chars isdig d = true -> strip_loose d = d /\ strip_loose (d ++ String nl EmptyString) = d.
Proof.
  induction d as [|x d IH]; intro H; [split; reflexivity|]. cbn [all_chars] in H. apply Bool.andb_true_iff in H. destruct H as [H1 H2].
  destruct (isdig_not x H1) as [_ [_ [_ [_ [U W]]]]]. destruct (IH H2) as [A B].
  cbn [String.append strip_loose]. cbv zeta. rewrite W, U. cbn [orb]. rewrite A, B. split; reflexivity.
Qed.

Lemma py_int_core_digits_nonneg d z : d <> EmptyString -> all_chars isdig d = true -> py_int_core d = Some z -> (0 <= z)%Z.
Proof.
  intros N H. destruct d as [|a r]; [contradiction|]. cbn [all_chars] in H. apply Bool.andb_true_iff in H. destruct H as [H1 _].
  destruct (isdig_not a H1) as [_ [P [M _]]]. unfold py_int_core.
  assert (E : (match String a r with String "+" r0 => option_map (fun d => Z.of_int (Decimal.Pos d)) (NilZero.uint_of_string r0)
                                   | _ => option_map Z.of_int (NilZero.int_of_string (String a r)) end)
              = option_map Z.of_int (NilZero.int_of_string (String a r))).
  { destruct a as [[] [] [] [] [] [] [] []]; try reflexivity. vm_compute in P. discriminate. }
  rewrite E. unfold NilZero.int_of_string. rewrite M.
  destruct (NilZero.uint_of_string (String a r)) as [u|]; cbn [option_map]; [|discriminate].
  intro Hz. injection Hz as <-. cbn [Z.of_int]. unfold Z.of_uint. apply N2Z.is_nonneg.
Qed.

Lemma uint_of_string_dollar d : NilEmpty.uint_of_string (d ++ "$") = None.
Proof.
  induction d as [|x d IH]; [reflexivity|]. cbn [String.append NilEmpty.uint_of_string]. rewrite IH. reflexivity.
Qed.

Lemma py_int_core_dollar d : d <> EmptyString -> all_chars isdig d = true -> py_int_core (d ++ "$") = None.
Proof.
  intros N H. destruct d as [|a r]; [contradiction|]. cbn [all_chars] in H. apply Bool.andb_true_iff in H. destruct H as [H1 _].
  destruct (isdig_not a H1) as [_ [P [M _]]]. unfold py_int_core. cbn [String.append].
  assert (E : (match String a (r ++ "$") with String "+" r0 => option_map (fun d => Z.of_int (Decimal.Pos d)) (NilZero.uint_of_string r0)
                                   | _ => option_map Z.of_int (NilZero.int_of_string (String a (r ++ "$"))) end)
              = option_map Z.of_int (NilZero.int_of_string (String a (r ++ "$")))).
  { destruct a as [[] [] [] [] [] [] [] []]; try reflexivity. vm_compute in P. discriminate. }
  rewrite E. unfold NilZero.int_of_string. rewrite M. unfold NilZero.uint_of_string.
  change (String a (r ++ "$")) with ((String a r) ++ "$")%string. rewrite uint_of_string_dollar. reflexivity.
Qed.

(* the value int() returns for a string of digits, possibly followed by a newline *)
Lemma py_int_loose_digits d z : d <> EmptyString -> all_chars isdig d = true -> lang digits d ->
  py_int_core d = Some z ->
  py_int_loose d = Some z /\ py_int_loose (d ++ String nl EmptyString) = Some z.
Proof.
  intros N H L Hz. destruct (strip_loose_digits d H) as [A B]. unfold py_int_loose. split.
  - assert (M : matches re_py_int d = true) by (apply (included_sound _ _ digits_in_pyint); apply matches_spec; exact L).
    rewrite M, A. exact Hz.
  - assert (M : matches re_py_int (d ++ String nl "") = true).
    { apply (included_sound _ _ digits_nl_in_pyint). apply matches_spec. constructor; [exact L|]. constructor. vm_compute. reflexivity. }
    rewrite M, B. exact Hz.
Qed.

Theorem pos2_hard O s : accepts_module O "position_gfa2" s = true -> unsafe_accepts_module "position_gfa2" s = Ok tt.
Proof.
  intro H. cbv beta iota delta [accepts_module String.eqb Ascii.eqb Bool.eqb] in H.
  apply Bool.andb_true_iff in H. destruct H as [H1 H2].
  pose proof (py_fullmatch_regex _ _ H1) as M. apply matches_spec in M. rewrite pos2_shape in M.
  apply cat_inv in M. destruct M as [s1 [f [-> [M1 Mf]]]]. apply cat_inv in M1. destruct M1 as [d [e [-> [Md Me]]]].
  destruct (plus_cls_chars _ _ Md) as [Dn Dd]. fold isdig in Dd.
  assert (E : unsafe_accepts_module "position_gfa2" ((d ++ e) ++ f) =
              match last_char ((d ++ e) ++ f) with
              | None => Err (G EFormat)
              | Some c => let t := if Ascii.eqb c "$" then drop_last ((d ++ e) ++ f) else ((d ++ e) ++ f)%string in
                          match py_int_loose t with None => Err (G EFormat) | Some z => if Z.ltb z 0 then Err (G EValue) else Ok tt end
              end) by reflexivity.
  rewrite E. clear E.
  apply alt_inv in Me. apply alt_inv in Mf.
  destruct Me as [Me|Me]; [inversion Me; subst e|apply cls_inv in Me; destruct Me as [c [-> Hc]]];
  (destruct Mf as [Mf|Mf]; [inversion Mf; subst f|apply cls_inv in Mf; destruct Mf as [c' [-> Hc']]]).
  - (* digits *)
    rewrite !string_app_nil_r in *. destruct (last_char_digits d Dn Dd) as [c [L P]]. rewrite L in *.
    destruct (isdig_not c P) as [Dl _]. rewrite Dl. cbv zeta.
    assert (NQ : match c with "$"%char => py_int (drop_last d) | _ => py_int d end = py_int d).
    { destruct c as [[] [] [] [] [] [] [] []]; try reflexivity. vm_compute in Dl. discriminate. }
    rewrite NQ in H2. unfold py_int in H2. rewrite (drop_last_nl_digits d Dd) in H2.
    destruct (py_int_core d) as [z|] eqn:Z; [|discriminate].
    destruct (py_int_loose_digits d z Dn Dd Md Z) as [A _]. rewrite A.
    pose proof (py_int_core_digits_nonneg d z Dn Dd Z) as NN. destruct (Z.ltb_spec z 0); [lia|reflexivity].
  - (* digits, newline *)
    assert (c' = nl) by (unfold in_cset in Hc'; cbn in Hc'; destruct c' as [[] [] [] [] [] [] [] []]; cbn in Hc'; try discriminate; reflexivity).
    subst c'. rewrite string_app_nil_r in *. rewrite last_char_app_one in *. cbv zeta.
    change (Ascii.eqb nl "$") with false. cbv iota.
    change (match nl with "$"%char => py_int (drop_last (d ++ String nl "")) | _ => py_int (d ++ String nl "") end)
      with (py_int (d ++ String nl "")) in H2.
    unfold py_int in H2. rewrite drop_last_nl_app in H2.
    destruct (py_int_core d) as [z|] eqn:Z; [|discriminate].
    destruct (py_int_loose_digits d z Dn Dd Md Z) as [_ B]. rewrite B.
    pose proof (py_int_core_digits_nonneg d z Dn Dd Z) as NN. destruct (Z.ltb_spec z 0); [lia|reflexivity].
  - (* digits, dollar *)
    assert (c = "$"%char) by (unfold in_cset in Hc; cbn in Hc; destruct c as [[] [] [] [] [] [] [] []]; cbn in Hc; try discriminate; reflexivity).
    subst c. rewrite string_app_nil_r in *. rewrite last_char_app_one in *. cbv zeta. rewrite Ascii.eqb_refl, drop_last_app_one in *.
    change (match "$"%char with "$"%char => py_int d | _ => py_int (d ++ "$") end) with (py_int d) in H2.
    unfold py_int in H2. rewrite (drop_last_nl_digits d Dd) in H2.
    destruct (py_int_core d) as [z|] eqn:Z; [|discriminate].
    destruct (py_int_loose_digits d z Dn Dd Md Z) as [A _]. rewrite A.
    pose proof (py_int_core_digits_nonneg d z Dn Dd Z) as NN. destruct (Z.ltb_spec z 0); [lia|reflexivity].
  - (* digits, dollar, newline: the safe decoder refuses it *)
    exfalso.
    assert (c = "$"%char) by (unfold in_cset in Hc; cbn in Hc; destruct c as [[] [] [] [] [] [] [] []]; cbn in Hc; try discriminate; reflexivity).
    assert (c' = nl) by (unfold in_cset in Hc'; cbn in Hc'; destruct c' as [[] [] [] [] [] [] [] []]; cbn in Hc'; try discriminate; reflexivity).
    subst c c'. rewrite last_char_app_one in H2.
    change (match nl with "$"%char => py_int (drop_last ((d ++ "$") ++ String nl "")) | _ => py_int ((d ++ "$") ++ String nl "") end)
      with (py_int ((d ++ "$") ++ String nl "")) in H2.
    unfold py_int in H2. rewrite drop_last_nl_app, (py_int_core_dollar d Dn Dd) in H2. discriminate.
Qed.

(* the hypothesis of the level-0 theorem holds for every oracle *)
Theorem hard_ok_holds O : hard_ok O.
Proof.
  intros md s Hm H. unfold hard_module in Hm. apply Bool.orb_true_iff in Hm. destruct Hm as [E|E]; apply String.eqb_eq in E; subst md.
  - exact (pos2_hard O s H).
  - exact (olist2_hard O s H).
Qed.

(* a text accepted at a validation level above 0 is accepted at level 0 — without any hypothesis *)
Theorem accepted_above_zero_unconditional O version s l :
  parse_line O 1 version s = Ok l ->
  exists l0, parse_line O 0 version s = Ok l0 /\ (rc_name (ln_class l) <> "CustomRecord" -> l0 = l).
Proof. exact (accepted_above_is_accepted_at_zero O version s l (hard_ok_holds O)). Qed.

Theorem safe_decoders_accept_less O md s : accepts_module O md s = true -> unsafe_accepts_module md s = Ok tt.
Proof.
  intro H. destruct (hard_module md) eqn:E; [exact (hard_ok_holds O md s E H)|exact (safe_accepts_unsafe_accepts O md s E H)].
Qed.
