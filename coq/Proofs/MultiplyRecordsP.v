(* Proofs/MultiplyRecordsP.v — every copy carries every edge (C15): without distribution the records after a
   multiplication are the records before (counts divided) followed, for each copy name in turn, by the segment under that
   name and each of its dovetails and containments with the name substituted. *)
From Coq Require Import List String Ascii ZArith Bool Lia.
From GfaV Require Import Base.Py Base.Regex Gen.Tables Model.Align Model.Link Model.Codec Model.Line Model.Graph
  Model.Multiply Proofs.GraphP Proofs.FrameP Proofs.RealsP.
Import ListNotations.
Open Scope string_scope.
Open Scope list_scope.

Definition clone_lines (seg : gl) (edges : list gl) (cn : string) : list gl :=
  mkGl 0 (g_rk seg) (cn :: skipn 1 (g_pos seg)) (g_tags seg) false :: map (rename_edge (nth_s 0 (g_pos seg)) cn) edges.

Lemma connect_all_app : forall a b s, connect_all s (a ++ b) = (do s1 <- connect_all s a ;; connect_all s1 b).
Proof.
  induction a as [|l a IH]; intros b s; [reflexivity|]. cbn [app connect_all].
  destruct (connect s l) as [s1|e]; cbn [rbind]; [apply IH | reflexivity].
Qed.

Lemma fold_connect_is_connect_all (f : gl -> gl) : forall edges (r : res gfa),
  fold_left (fun acc e => do a <- acc ;; connect a (f e)) edges r = (do s <- r ;; connect_all s (map f edges)).
Proof.
  induction edges as [|e edges IH]; intros r; cbn [fold_left map connect_all].
  - destruct r; reflexivity.
  - rewrite IH. destruct r as [s|er]; cbn [rbind]; [|reflexivity]. destruct (connect s (f e)); reflexivity.
Qed.

Lemma clone_into_is_connect_all seg edges s cn :
  clone_into seg edges (Ok s) cn = connect_all s (clone_lines seg edges cn).
Proof.
  unfold clone_into, clone_lines. cbn [rbind connect_all].
  destruct (connect s _) as [s1|e]; cbn [rbind]; [|reflexivity].
  rewrite fold_connect_is_connect_all. reflexivity.
Qed.

Lemma fold_clone_is_connect_all seg edges : forall cns s,
  fold_left (clone_into seg edges) cns (Ok s) = connect_all s (flat_map (clone_lines seg edges) cns).
Proof.
  induction cns as [|cn cns IH]; intros s; [reflexivity|]. cbn [fold_left flat_map].
  rewrite connect_all_app, clone_into_is_connect_all.
  destruct (connect_all s (clone_lines seg edges cn)) as [s1|e]; cbn [rbind]; [apply IH | apply fold_clone_err].
Qed.

(* the state in which the copies are made: counts of the segment and of its edges divided *)
Definition divided (s : gfa) (n : string) (k : Z) (seg0 : gl) : gfa :=
  mkGfa (map (fun l => if Nat.eqb (g_id l) (g_id seg0) || mem_id (g_id l) (map g_id (seg_edges s n)) then div_counts k l else l)
             (lines s)) (next_id s) (g_version s) (g_vlevel s).

Theorem multiply_records s n k cns s' seg0 seg :
  ids_ok s -> (2 <= k)%Z ->
  find_segment s n = Some seg0 -> find_segment (divided s n k seg0) n = Some seg ->
  multiply s n k (Some cns) None = Ok s' ->
  guards_all (divided s n k seg0) (flat_map (clone_lines seg (seg_edges (divided s n k seg0) n)) cns) ->
  map body (reals s') =
  map body (reals (divided s n k seg0)) ++
  map body (flat_map (clone_lines seg (seg_edges (divided s n k seg0) n)) cns).
Proof.
  intros Hids Hk E0 E1 H G. unfold multiply in H.
  destruct (Z.ltb_spec k 0) as [?|_]; [lia|]. destruct (Z.eqb_spec k 0) as [?|_]; [lia|].
  destruct (Z.eqb_spec k 1) as [?|_]; [lia|].
  rewrite E0 in H. fold (divided s n k seg0) in H. rewrite E1 in H. cbn [rbind] in H.
  rewrite fold_clone_is_connect_all in H.
  destruct (connect_all (divided s n k seg0) _) as [s2|e] eqn:E2; cbn [rbind] in H; [|discriminate].
  injection H as <-.
  apply (connect_all_reals _ (divided s n k seg0) s2); [|exact G | exact E2].
  apply ids_ok_map; [|exact Hids]. intros l. destruct (_ || _); reflexivity.
Qed.
