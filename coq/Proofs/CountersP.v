(* Proofs/CountersP.v — the topology counters (sums over the segments' collections, halved) count the records. *)
From Coq Require Import List String Ascii ZArith Bool Lia Arith.
From GfaV Require Import Base.Py Gen.Tables Gen.K_edge2 Gen.K_fromto Model.Codec Model.Graph Model.Topology.
Import ListNotations.
Open Scope string_scope.
Open Scope list_scope.

(* ---------------------------------------------------------------- sums *)
Lemma sum_nat_add {A} (f g : A -> nat) l : sum_nat (map (fun x => f x + g x) l) = sum_nat (map f l) + sum_nat (map g l).
Proof. induction l as [|x l IH]; cbn [map sum_nat fold_right]; [reflexivity|]. fold (sum_nat (map (fun x => f x + g x) l)).
  fold (sum_nat (map f l)). fold (sum_nat (map g l)). lia. Qed.

Lemma sum_nat_zero {A} (l : list A) : sum_nat (map (fun _ => 0) l) = 0.
Proof. induction l; cbn; auto. Qed.

Lemma length_flat_map {A B} (f : A -> list B) l : List.length (flat_map f l) = sum_nat (map (fun x => List.length (f x)) l).
Proof. induction l as [|x l IH]; cbn [flat_map map sum_nat fold_right]; [reflexivity|]. rewrite app_length, IH. reflexivity. Qed.

(* exchanging the order of two finite sums *)
Lemma sum_swap {A B} (h : A -> B -> nat) (la : list A) (lb : list B) :
  sum_nat (map (fun a => sum_nat (map (fun b => h a b) lb)) la) = sum_nat (map (fun b => sum_nat (map (fun a => h a b) la)) lb).
Proof.
  induction la as [|a la IH]; cbn [map sum_nat fold_right].
  - symmetry. apply sum_nat_zero.
  - fold (sum_nat (map (fun a0 => sum_nat (map (fun b => h a0 b) lb)) la)). rewrite IH.
    rewrite <- sum_nat_add. reflexivity.
Qed.

Lemma sum_nat_ext {A} (f g : A -> nat) l : (forall x, In x l -> f x = g x) -> sum_nat (map f l) = sum_nat (map g l).
Proof. intro H. induction l as [|x l IH]; [reflexivity|]. cbn [map sum_nat fold_right]. rewrite (H x (or_introl eq_refl)).
  f_equal. apply IH. intros y Hy. apply H. right; exact Hy. Qed.

(* over a duplicate-free list exactly one element equals a member, none equals a non-member *)
Lemma count_eq_NoDup (t : string) names : NoDup names ->
  sum_nat (map (fun n => if String.eqb t n then 1 else 0) names) = if in_strs t names then 1 else 0.
Proof.
  induction 1 as [|n names Hn Hnd IH]; [reflexivity|]. cbn [map sum_nat fold_right].
  fold (sum_nat (map (fun n0 => if String.eqb t n0 then 1 else 0) names)). rewrite IH.
  unfold in_strs. cbn [existsb]. destruct (String.eqb_spec t n) as [->|E].
  - assert (X : existsb (String.eqb n) names = false).
    { destruct (existsb (String.eqb n) names) eqn:Ex; [|reflexivity]. apply existsb_exists in Ex.
      destruct Ex as [y [Hy Ey]]. apply String.eqb_eq in Ey. subst. contradiction. }
    rewrite X. reflexivity.
  - cbn [orb]. reflexivity.
Qed.

(* ---------------------------------------------------------------- back-references counted by mentions *)
Definition mcount (p : mention -> bool) (l : gl) : nat := List.length (filter p (mentions l)).

Lemma coll_size_sum s n c :
  coll_size s n c = sum_nat (map (mcount (fun m => String.eqb (m_target m) n && String.eqb (m_coll m) c)) (lines s)).
Proof.
  unfold coll_size, backrefs. rewrite length_flat_map. apply sum_nat_ext. intros l _. rewrite map_length. reflexivity.
Qed.

Lemma filter_count {A} (p : A -> bool) l : List.length (filter p l) = sum_nat (map (fun x => if p x then 1 else 0) l).
Proof. induction l as [|x l IH]; [reflexivity|]. cbn [filter map sum_nat fold_right]. destruct (p x); cbn [List.length]; rewrite IH; reflexivity. Qed.

(* the sum over all segment names of the size of collection c = the number of mentions filed under c whose target is a
   segment name (names without repetition) *)
Lemma total_by_mentions s c : NoDup (segment_names s) ->
  sum_nat (map (fun n => coll_size s n c) (segment_names s)) =
  sum_nat (map (mcount (fun m => String.eqb (m_coll m) c && in_strs (m_target m) (segment_names s))) (lines s)).
Proof.
  intro ND.
  rewrite (sum_nat_ext _ (fun n => sum_nat (map (fun l => mcount (fun m => String.eqb (m_target m) n && String.eqb (m_coll m) c) l) (lines s)))).
  2:{ intros n _. apply coll_size_sum. }
  rewrite sum_swap. apply sum_nat_ext. intros l _. unfold mcount.
  rewrite (sum_nat_ext _ (fun n => sum_nat (map (fun m => if String.eqb (m_target m) n && String.eqb (m_coll m) c then 1 else 0) (mentions l)))).
  2:{ intros n _. apply filter_count. }
  rewrite sum_swap, filter_count. apply sum_nat_ext. intros m _.
  destruct (String.eqb (m_coll m) c) eqn:Ec.
  - rewrite (sum_nat_ext _ (fun n => if String.eqb (m_target m) n then 1 else 0)).
    2:{ intros n _. rewrite Bool.andb_true_r. reflexivity. }
    rewrite count_eq_NoDup by exact ND. reflexivity.
  - rewrite (sum_nat_ext _ (fun _ => 0)).
    2:{ intros n _. rewrite Bool.andb_false_r. reflexivity. }
    rewrite sum_nat_zero. reflexivity.
Qed.

(* ---------------------------------------------------------------- dovetail mentions of a line *)
Definition dovetail_mentions (l : gl) : nat := mcount (fun m => is_dovetail_coll (m_coll m)) l.

(* a line is well oriented when its dovetail mentions are what its class says: two for a dovetail record, none otherwise
   (holds for every L line with orientations + or -, every E line, and every other record) *)
Definition class_consistent (l : gl) : Prop :=
  dovetail_mentions l = if String.eqb (record_class l) "L" then 2 else 0.

Lemma refkey_same_class o1 o2 a b :
  is_dovetail_coll (k_edge2_refkey_for_s o1 o2 1 a b) = is_dovetail_coll (k_edge2_refkey_for_s o1 o2 2 a b).
Proof.
  unfold k_edge2_refkey_for_s.
  repeat match goal with |- context [if ?c then _ else _] => destruct c end; reflexivity.
Qed.

Lemma edge_consistent l : g_rk l = KE -> class_consistent l.
Proof.
  intro K. unfold class_consistent, dovetail_mentions, mcount, record_class, mentions. rewrite K.
  destruct (edge_colls (g_pos l)) as [[c1 c2]|] eqn:E; [|reflexivity].
  assert (S : is_dovetail_coll c1 = is_dovetail_coll c2).
  { unfold edge_colls in E. destruct (k_substring_type _ _) as [st1|]; cbn [rbind] in E; [|discriminate].
    destruct (k_substring_type _ _) as [st2|]; cbn [rbind] in E; [|discriminate]. injection E as <- <-. apply refkey_same_class. }
  cbn [filter m_coll]. rewrite <- S. destruct (is_dovetail_coll c1) eqn:D; cbn [List.length String.eqb]; [reflexivity|].
  destruct (String.eqb c1 "internals"); reflexivity.
Qed.

Lemma map_const_coll {A} (f : A -> mention) (c : string) (xs : list A) :
  (forall x, m_coll (f x) = c) -> is_dovetail_coll c = false ->
  List.length (filter (fun m => is_dovetail_coll (m_coll m)) (map f xs)) = 0.
Proof.
  intros Hc Hd. induction xs as [|x r IH]; [reflexivity|]. cbn [map filter]. rewrite Hc, Hd. exact IH.
Qed.

Lemma gap_key_not_dovetail o1 o2 n c : k_gap_refkey_for_s o1 o2 n = Ok c -> is_dovetail_coll c = false.
Proof.
  unfold k_gap_refkey_for_s. cbv zeta.
  repeat match goal with |- context [if ?c then _ else _] => destruct c end; intro H; try discriminate; injection H as <-; reflexivity.
Qed.

Lemma end_is_L_or_R n o e : k_from_end n o = e \/ k_to_end n o = e -> (o = "+" \/ o = "-") -> snd e = "L" \/ snd e = "R".
Proof.
  intros [ <- | <- ] [ -> | -> ]; unfold k_from_end, k_to_end; cbn; auto.
Qed.

(* every line is consistent, links provided their orientations are + or - *)
Theorem class_consistent_all l :
  (g_rk l = KL -> (nth_s 1 (g_pos l) = "+" \/ nth_s 1 (g_pos l) = "-") /\ (nth_s 3 (g_pos l) = "+" \/ nth_s 3 (g_pos l) = "-")) ->
  class_consistent l.
Proof.
  intro HL. destruct (g_rk l) eqn:K; try (apply edge_consistent; exact K);
    unfold class_consistent, dovetail_mentions, mcount, record_class, mentions; rewrite K; cbn [String.eqb Ascii.eqb Bool.eqb].
  - reflexivity.
  - reflexivity.
  - (* link *)
    destruct (HL eq_refl) as [O1 O2].
    destruct (end_is_L_or_R "" (nth_s 1 (g_pos l)) _ (or_introl eq_refl) O1) as [E1|E1];
    destruct (end_is_L_or_R "" (nth_s 3 (g_pos l)) _ (or_intror eq_refl) O2) as [E2|E2];
      cbn [filter m_coll]; rewrite E1, E2; reflexivity.
  - reflexivity.
  - apply (map_const_coll _ "paths"); [intro x; reflexivity|reflexivity].
  - destruct (k_gap_refkey_for_s _ _ 1) as [c1|] eqn:G1; [|reflexivity]. destruct (k_gap_refkey_for_s _ _ 2) as [c2|] eqn:G2; [|reflexivity].
    cbn [filter m_coll]. rewrite (gap_key_not_dovetail _ _ _ _ G1), (gap_key_not_dovetail _ _ _ _ G2). reflexivity.
  - reflexivity.
  - apply (map_const_coll _ "paths"); [intro x; reflexivity|reflexivity].
  - apply (map_const_coll _ "sets"); [intro x; reflexivity|reflexivity].
  - reflexivity.
  - reflexivity.
  - reflexivity.
  - reflexivity.
Qed.

(* ---------------------------------------------------------------- the counter of dovetails *)
Definition dovetail_closed (s : gfa) : Prop :=
  forall l, In l (lines s) -> forall m, In m (mentions l) -> is_dovetail_coll (m_coll m) = true ->
  in_strs (m_target m) (segment_names s) = true.

Lemma mcount_ext (p q : mention -> bool) l : (forall m, In m (mentions l) -> p m = q m) -> mcount p l = mcount q l.
Proof.
  unfold mcount. intro H. induction (mentions l) as [|m r IH]; [reflexivity|]. cbn [filter].
  rewrite (H m (or_introl eq_refl)). destruct (q m); cbn [List.length]; rewrite IH; auto; intros x Hx; apply H; right; exact Hx.
Qed.

Lemma mcount_or (p q : mention -> bool) l : (forall m, p m && q m = false) ->
  mcount (fun m => p m || q m) l = mcount p l + mcount q l.
Proof.
  unfold mcount. intro D. induction (mentions l) as [|m r IH]; [reflexivity|]. cbn [filter]. specialize (D m).
  destruct (p m), (q m); cbn [orb List.length] in *; try discriminate; lia.
Qed.

Lemma sum_double {A} (p : A -> bool) (l : list A) :
  sum_nat (map (fun x => if p x then 2 else 0) l) = 2 * sum_nat (map (fun x => if p x then 1 else 0) l).
Proof.
  induction l as [|x r IH]; [reflexivity|]. cbn [map sum_nat fold_right].
  fold (sum_nat (map (fun x0 => if p x0 then 2 else 0) r)). fold (sum_nat (map (fun x0 => if p x0 then 1 else 0) r)).
  rewrite IH. destruct (p x); lia.
Qed.

(* in a state whose segment names are unique, whose dovetail mentions all resolve to segments, and whose links are
   oriented, the counter of dovetails is the number of dovetail records *)
Theorem n_dovetails_counts_records s :
  NoDup (segment_names s) -> dovetail_closed s -> (forall l, In l (lines s) -> class_consistent l) ->
  n_dovetails s = count_class s "L".
Proof.
  intros ND CL CC. unfold n_dovetails.
  rewrite sum_nat_add, (total_by_mentions s "dovetails_L" ND), (total_by_mentions s "dovetails_R" ND).
  rewrite <- sum_nat_add.
  assert (E : sum_nat (map (fun l => mcount (fun m => String.eqb (m_coll m) "dovetails_L" && in_strs (m_target m) (segment_names s)) l +
                                     mcount (fun m => String.eqb (m_coll m) "dovetails_R" && in_strs (m_target m) (segment_names s)) l) (lines s))
              = sum_nat (map (fun l => if String.eqb (record_class l) "L" then 2 else 0) (lines s))).
  { apply sum_nat_ext. intros l Hl. rewrite <- (CC l Hl). unfold dovetail_mentions.
    rewrite <- mcount_or.
    - apply mcount_ext. intros m Hm. unfold is_dovetail_coll.
      pose proof (CL l Hl m Hm) as I. unfold is_dovetail_coll in I.
      destruct (String.eqb (m_coll m) "dovetails_L") eqn:A; destruct (String.eqb (m_coll m) "dovetails_R") eqn:B; cbn [andb orb] in *;
        try reflexivity; rewrite (I eq_refl); reflexivity.
    - intro m. destruct (String.eqb (m_coll m) "dovetails_L") eqn:A; [|reflexivity].
      apply String.eqb_eq in A. rewrite A. cbn. apply Bool.andb_false_r. }
  rewrite E. unfold count_class. rewrite filter_count.
  pose proof (sum_double (fun l => String.eqb (record_class l) "L") (lines s)) as D.
  rewrite D. rewrite Nat.mul_comm. apply Nat.div_mul. discriminate.
Qed.

(* ---------------------------------------------------------------- the same argument for any two collections *)
Definition in_two (c1 c2 c : string) : bool := String.eqb c c1 || String.eqb c c2.

Theorem two_collections_count s c1 c2 X : c1 <> c2 ->
  NoDup (segment_names s) ->
  (forall l, In l (lines s) -> forall m, In m (mentions l) -> in_two c1 c2 (m_coll m) = true ->
             in_strs (m_target m) (segment_names s) = true) ->
  (forall l, In l (lines s) -> mcount (fun m => in_two c1 c2 (m_coll m)) l = if String.eqb (record_class l) X then 2 else 0) ->
  Nat.div (sum_nat (map (fun n => coll_size s n c1 + coll_size s n c2) (segment_names s))) 2 = count_class s X.
Proof.
  intros NE ND CL CC.
  rewrite sum_nat_add, (total_by_mentions s c1 ND), (total_by_mentions s c2 ND), <- sum_nat_add.
  assert (E : sum_nat (map (fun l => mcount (fun m => String.eqb (m_coll m) c1 && in_strs (m_target m) (segment_names s)) l +
                                     mcount (fun m => String.eqb (m_coll m) c2 && in_strs (m_target m) (segment_names s)) l) (lines s))
              = sum_nat (map (fun l => if String.eqb (record_class l) X then 2 else 0) (lines s))).
  { apply sum_nat_ext. intros l Hl. rewrite <- (CC l Hl). rewrite <- mcount_or.
    - apply mcount_ext. intros m Hm. pose proof (CL l Hl m Hm) as I. unfold in_two in *.
      destruct (String.eqb (m_coll m) c1) eqn:A; destruct (String.eqb (m_coll m) c2) eqn:B; cbn [andb orb] in *;
        try reflexivity; rewrite (I eq_refl); reflexivity.
    - intro m. destruct (String.eqb (m_coll m) c1) eqn:A; [|reflexivity].
      apply String.eqb_eq in A. rewrite A. destruct (String.eqb_spec c1 c2) as [E|E]; [contradiction|].
      cbn [andb]. apply Bool.andb_false_r. }
  rewrite E. unfold count_class. rewrite filter_count.
  rewrite (sum_double (fun l => String.eqb (record_class l) X) (lines s)). rewrite Nat.mul_comm. apply Nat.div_mul. discriminate.
Qed.

Theorem one_collection_counts s c X :
  NoDup (segment_names s) ->
  (forall l, In l (lines s) -> forall m, In m (mentions l) -> String.eqb (m_coll m) c = true ->
             in_strs (m_target m) (segment_names s) = true) ->
  (forall l, In l (lines s) -> mcount (fun m => String.eqb (m_coll m) c) l = if String.eqb (record_class l) X then 2 else 0) ->
  Nat.div (sum_nat (map (fun n => coll_size s n c) (segment_names s))) 2 = count_class s X.
Proof.
  intros ND CL CC. rewrite (total_by_mentions s c ND).
  assert (E : sum_nat (map (mcount (fun m => String.eqb (m_coll m) c && in_strs (m_target m) (segment_names s))) (lines s))
              = sum_nat (map (fun l => if String.eqb (record_class l) X then 2 else 0) (lines s))).
  { apply sum_nat_ext. intros l Hl. rewrite <- (CC l Hl). apply mcount_ext. intros m Hm.
    pose proof (CL l Hl m Hm) as I. destruct (String.eqb (m_coll m) c); [rewrite (I eq_refl); reflexivity|reflexivity]. }
  rewrite E. unfold count_class. rewrite filter_count.
  rewrite (sum_double (fun l => String.eqb (record_class l) X) (lines s)). rewrite Nat.mul_comm. apply Nat.div_mul. discriminate.
Qed.

(* the three classes of a GFA2 edge are decided identically for its two segments (regenerated kernel) *)
Definition coll_class (c : string) : nat :=
  if is_dovetail_coll c then 0 else if String.eqb c "internals" then 2
  else if String.eqb c "edges_to_contained" || String.eqb c "edges_to_containers" then 1 else 3.

Lemma refkey_classes o1 o2 a b :
  coll_class (k_edge2_refkey_for_s o1 o2 1 a b) = coll_class (k_edge2_refkey_for_s o1 o2 2 a b) /\
  coll_class (k_edge2_refkey_for_s o1 o2 1 a b) <> 3.
Proof.
  unfold k_edge2_refkey_for_s.
  repeat match goal with |- context [if ?c then _ else _] => destruct c end; split; (reflexivity || discriminate).
Qed.

Definition class_of_nat (k : nat) : string := match k with 0 => "L" | 1 => "C" | 2 => "I" | _ => "" end.

(* per line: the number of mentions filed under the collections of class k is 2 if the record is of that class, else 0 *)
Theorem class_consistent_k l k : (k < 3)%nat ->
  (g_rk l = KL -> (nth_s 1 (g_pos l) = "+" \/ nth_s 1 (g_pos l) = "-") /\ (nth_s 3 (g_pos l) = "+" \/ nth_s 3 (g_pos l) = "-")) ->
  mcount (fun m => Nat.eqb (coll_class (m_coll m)) k) l = if String.eqb (record_class l) (class_of_nat k) then 2 else 0.
Proof.
  intros Hk HL. destruct (g_rk l) eqn:K; unfold mcount, record_class, mentions; rewrite K.
  - destruct k as [|[|[|k]]]; try reflexivity; lia.
  - destruct k as [|[|[|k]]]; try reflexivity; lia.
  - destruct (HL eq_refl) as [O1 O2].
    destruct (end_is_L_or_R "" (nth_s 1 (g_pos l)) _ (or_introl eq_refl) O1) as [E1|E1];
    destruct (end_is_L_or_R "" (nth_s 3 (g_pos l)) _ (or_intror eq_refl) O2) as [E2|E2];
      cbn [filter m_coll]; rewrite E1, E2; destruct k as [|[|[|k]]]; try reflexivity; lia.
  - destruct k as [|[|[|k]]]; try reflexivity; lia.
  - assert (Z : forall xs, List.length (filter (fun m => Nat.eqb (coll_class (m_coll m)) k)
                              (map (fun x => mkM "segment_names" (oname x) "paths" true) xs)) = 0).
    { induction xs as [|x r IH]; [reflexivity|]. cbn [map filter m_coll]. destruct k as [|[|[|k]]]; try exact IH; lia. }
    rewrite Z. destruct k as [|[|[|k]]]; try reflexivity; lia.
  - destruct (edge_colls (g_pos l)) as [[c1 c2]|] eqn:E; [|destruct k as [|[|[|k]]]; try reflexivity; lia].
    assert (S : coll_class c1 = coll_class c2 /\ coll_class c1 <> 3).
    { unfold edge_colls in E. destruct (k_substring_type _ _) as [st1|]; cbn [rbind] in E; [|discriminate].
      destruct (k_substring_type _ _) as [st2|]; cbn [rbind] in E; [|discriminate]. injection E as <- <-. apply refkey_classes. }
    destruct S as [S1 S2]. cbn [filter m_coll]. rewrite <- S1.
    unfold coll_class in *. destruct (is_dovetail_coll c1) eqn:D.
    + destruct k as [|[|[|k]]]; cbn; try reflexivity; lia.
    + destruct (String.eqb c1 "internals") eqn:I.
      * destruct k as [|[|[|k]]]; cbn; try reflexivity; lia.
      * destruct (String.eqb c1 "edges_to_contained" || String.eqb c1 "edges_to_containers"); [|contradiction].
        destruct k as [|[|[|k]]]; cbn; try reflexivity; lia.
  - destruct (k_gap_refkey_for_s _ _ 1) as [c1|] eqn:G1; [|destruct k as [|[|[|k]]]; try reflexivity; lia].
    destruct (k_gap_refkey_for_s _ _ 2) as [c2|] eqn:G2; [|destruct k as [|[|[|k]]]; try reflexivity; lia].
    assert (N : forall c n, k_gap_refkey_for_s (oorient (nth_s 1 (g_pos l))) (oorient (nth_s 2 (g_pos l))) n = Ok c -> coll_class c = 3).
    { intros c n. unfold k_gap_refkey_for_s. cbv zeta.
      repeat match goal with |- context [if ?c then _ else _] => destruct c end; intro H; try discriminate; injection H as <-; reflexivity. }
    cbn [filter m_coll]. rewrite (N _ _ G1), (N _ _ G2). destruct k as [|[|[|k]]]; try reflexivity; lia.
  - destruct k as [|[|[|k]]]; try reflexivity; lia.
  - assert (Z : forall xs, List.length (filter (fun m => Nat.eqb (coll_class (m_coll m)) k)
                              (map (fun x => mkM "items" (oname x) "paths" false) xs)) = 0).
    { induction xs as [|x r IH]; [reflexivity|]. cbn [map filter m_coll]. destruct k as [|[|[|k]]]; try exact IH; lia. }
    rewrite Z. destruct k as [|[|[|k]]]; try reflexivity; lia.
  - assert (Z : forall xs, List.length (filter (fun m => Nat.eqb (coll_class (m_coll m)) k)
                              (map (fun x => mkM "items" x "sets" false) xs)) = 0).
    { induction xs as [|x r IH]; [reflexivity|]. cbn [map filter m_coll]. destruct k as [|[|[|k]]]; try exact IH; lia. }
    rewrite Z. destruct k as [|[|[|k]]]; try reflexivity; lia.
  - destruct k as [|[|[|k]]]; try reflexivity; lia.
  - destruct k as [|[|[|k]]]; try reflexivity; lia.
  - destruct k as [|[|[|k]]]; try reflexivity; lia.
  - destruct k as [|[|[|k]]]; try reflexivity; lia.
Qed.

(* ---------------------------------------------------------------- the three counters, from the graph invariant *)
From GfaV Require Import Proofs.GraphP.

Lemma segment_names_NoDup s : names_unique s -> NoDup (segment_names s).
Proof.
  unfold names_unique, ns_names, segment_names. intro H.
  apply (NoDup_flat_map_filter ns_name is_segment) in H.
  assert (E : flat_map ns_name (filter is_segment (lines s)) = map (fun l => nth_s 0 (g_pos l)) (filter is_segment (lines s))).
  { clear H. induction (lines s) as [|l r IH]; [reflexivity|]. cbn [filter]. destruct (is_segment l) eqn:S; [|exact IH].
    cbn [flat_map map]. rewrite IH. unfold ns_name, in_namespace, name_of, is_segment in *.
    destruct (g_rk l); try discriminate; reflexivity. }
  rewrite <- E. exact H.
Qed.

Lemma find_segment_in_names s n : find_segment s n <> None -> in_strs n (segment_names s) = true.
Proof.
  unfold find_segment. intro H. destruct (find _ (lines s)) as [l|] eqn:F; [|contradiction].
  apply find_some in F. destruct F as [Hl P]. apply Bool.andb_true_iff in P. destruct P as [S N]. apply String.eqb_eq in N.
  unfold in_strs, segment_names. apply existsb_exists. exists n. split; [|apply String.eqb_refl].
  apply in_map_iff. exists l. split; [exact N|]. apply filter_In. split; assumption.
Qed.

(* every mention filed under a dovetail, containment or internal collection asks for a segment *)
Lemma edge_mention_is_segment l m : In m (mentions l) -> (coll_class (m_coll m) < 3)%nat -> m_seg m = true.
Proof.
  unfold mentions. destruct (g_rk l).
  - intros [].
  - intros [].
  - cbn [In]. intros [<-|[<-|[]]] _; reflexivity.
  - cbn [In]. intros [<-|[<-|[]]] _; reflexivity.
  - intros H _. apply in_map_iff in H. destruct H as [x [<- _]]. reflexivity.
  - destruct (edge_colls (g_pos l)) as [[c1 c2]|]; [|intros []]. cbn [In]. intros [<-|[<-|[]]] _; reflexivity.
  - destruct (k_gap_refkey_for_s _ _ 1); [|intros []]. destruct (k_gap_refkey_for_s _ _ 2); [|intros []].
    cbn [In]. intros [<-|[<-|[]]] _; reflexivity.
  - cbn [In]. intros [<-|[]] _; reflexivity.
  - intros H C. apply in_map_iff in H. destruct H as [x [<- _]]. cbn in C. lia.
  - intros H C. apply in_map_iff in H. destruct H as [x [<- _]]. cbn in C. lia.
  - intros [].
  - intros [].
  - intros [].
  - intros [].
Qed.

Definition links_oriented (s : gfa) : Prop :=
  forall l, In l (lines s) -> g_rk l = KL ->
  (nth_s 1 (g_pos l) = "+" \/ nth_s 1 (g_pos l) = "-") /\ (nth_s 3 (g_pos l) = "+" \/ nth_s 3 (g_pos l) = "-").

Lemma in_two_class c1 c2 k : (forall c, in_two c1 c2 c = Nat.eqb (coll_class c) k) ->
  forall l, mcount (fun m => in_two c1 c2 (m_coll m)) l = mcount (fun m => Nat.eqb (coll_class (m_coll m)) k) l.
Proof. intros H l. apply mcount_ext. intros m _. apply H. Qed.

Lemma dov_class c : in_two "dovetails_L" "dovetails_R" c = Nat.eqb (coll_class c) 0.
Proof.
  unfold in_two, coll_class, is_dovetail_coll.
  destruct (String.eqb c "dovetails_L"); destruct (String.eqb c "dovetails_R"); cbn [orb]; try reflexivity.
  destruct (String.eqb c "internals"); [reflexivity|]. destruct (_ || _); reflexivity.
Qed.

Lemma cont_class c : in_two "edges_to_contained" "edges_to_containers" c = Nat.eqb (coll_class c) 1.
Proof.
  unfold in_two, coll_class, is_dovetail_coll.
  destruct (String.eqb_spec c "dovetails_L") as [->|A]; [reflexivity|].
  destruct (String.eqb_spec c "dovetails_R") as [->|B]; [reflexivity|]. cbn [orb].
  destruct (String.eqb_spec c "internals") as [->|C]; [reflexivity|].
  destruct (String.eqb c "edges_to_contained"); destruct (String.eqb c "edges_to_containers"); reflexivity.
Qed.

Lemma int_class c : String.eqb c "internals" = Nat.eqb (coll_class c) 2.
Proof.
  unfold coll_class, is_dovetail_coll.
  destruct (String.eqb_spec c "dovetails_L") as [->|A]; [reflexivity|].
  destruct (String.eqb_spec c "dovetails_R") as [->|B]; [reflexivity|]. cbn [orb].
  destruct (String.eqb c "internals"); [reflexivity|]. destruct (_ || _); reflexivity.
Qed.

(* in every state that satisfies the invariant of the graph (unique identifiers, every mention resolved) and whose
   links are oriented, the three counters are the numbers of dovetail, containment and internal records *)
Theorem counters_count_records s : names_unique s -> closed s -> links_oriented s ->
  n_dovetails s = count_class s "L" /\ n_containments s = count_class s "C" /\ n_internals s = count_class s "I".
Proof.
  intros NU CL LO. pose proof (segment_names_NoDup s NU) as ND.
  assert (R : forall l, In l (lines s) -> forall m, In m (mentions l) -> (coll_class (m_coll m) < 3)%nat ->
              in_strs (m_target m) (segment_names s) = true).
  { intros l Hl m Hm C. pose proof (CL l Hl m Hm) as Rm. unfold resolves in Rm.
    rewrite (edge_mention_is_segment l m Hm C) in Rm. exact (find_segment_in_names s _ Rm). }
  assert (CK : forall k, (k < 3)%nat -> forall l, In l (lines s) ->
               mcount (fun m => Nat.eqb (coll_class (m_coll m)) k) l = if String.eqb (record_class l) (class_of_nat k) then 2 else 0).
  { intros k Hk l Hl. apply class_consistent_k; [exact Hk|]. intro K. exact (LO l Hl K). }
  split; [|split].
  - unfold n_dovetails. apply (two_collections_count s "dovetails_L" "dovetails_R" "L"); [discriminate|exact ND| |].
    + intros l Hl m Hm I. apply (R l Hl m Hm). rewrite dov_class in I. apply Nat.eqb_eq in I. lia.
    + intros l Hl. rewrite (in_two_class _ _ 0 dov_class). exact (CK 0%nat ltac:(lia) l Hl).
  - unfold n_containments. apply (two_collections_count s "edges_to_contained" "edges_to_containers" "C"); [discriminate|exact ND| |].
    + intros l Hl m Hm I. apply (R l Hl m Hm). rewrite cont_class in I. apply Nat.eqb_eq in I. lia.
    + intros l Hl. rewrite (in_two_class _ _ 1 cont_class). exact (CK 1%nat ltac:(lia) l Hl).
  - unfold n_internals. apply (one_collection_counts s "internals" "I"); [exact ND| |].
    + intros l Hl m Hm I. apply (R l Hl m Hm). rewrite int_class in I. apply Nat.eqb_eq in I. lia.
    + intros l Hl. transitivity (mcount (fun m => Nat.eqb (coll_class (m_coll m)) 2) l);
        [apply mcount_ext; intros m _; apply int_class|exact (CK 2%nat ltac:(lia) l Hl)].
Qed.
