(* Proofs/MergeFrameP.v — what a removal and a merge of a linear path leave alone (C05, C14): a segment is never removed
   as a dependant of another line, so every segment that is not a member of the merged chain is still there, as it was. *)
From Coq Require Import List String Ascii ZArith Bool Lia.
From GfaV Require Import Base.Py Base.Regex Gen.Tables Model.Align Model.Link Model.Codec Model.Line Model.Graph
  Model.Topology Model.Linear Proofs.GraphP Proofs.FrameP.
Import ListNotations.
Open Scope string_scope.
Open Scope list_scope.

Lemma segment_mentions_nothing z : is_segment z = true -> mentions z = [].
Proof. unfold is_segment, mentions. destruct (g_rk z); try discriminate; reflexivity. Qed.

(* a dependant mentions something or is a path: never a segment *)
Lemma dependant_not_segment s y z : In z (dependants s y) -> is_segment z = false.
Proof.
  unfold dependants. intros H. apply in_app_or in H. destruct H as [H|H].
  - destruct (name_of y); [|contradiction]. apply filter_In in H. destruct H as [_ H].
    apply existsb_exists in H. destruct H as [m [Hm _]].
    destruct (is_segment z) eqn:E; [|reflexivity]. rewrite (segment_mentions_nothing z E) in Hm. contradiction.
  - destruct (g_rk y); try contradiction. destruct (in_strs "paths" (dependent_colls KL)); [|contradiction].
    apply filter_In in H. destruct H as [_ H]. unfold is_segment. destruct (g_rk z); try discriminate; reflexivity.
Qed.

Lemma reach_segment s y z : reach s y z -> is_segment z = true -> z = y.
Proof.
  intros H. induction H as [|u z _ _ Hz]; [reflexivity|]. intros Hs.
  rewrite (dependant_not_segment s u z Hz) in Hs. discriminate.
Qed.

Lemma ids_ok_filter (p : gl -> bool) s :
  ids_ok s -> ids_ok (mkGfa (filter p (lines s)) (next_id s) (g_version s) (g_vlevel s)).
Proof.
  intros [Hn Hb]. split; cbn [lines next_id].
  - apply NoDup_map_filter. exact Hn.
  - intros l Hl. apply filter_In in Hl. apply Hb. tauto.
Qed.

Lemma disconnect_ids s y s' : ids_ok s -> disconnect s y = Ok s' -> ids_ok s'.
Proof. unfold disconnect. intros Hids. destruct (_ && _); [|discriminate]. intros H. injection H as <-. apply ids_ok_filter. exact Hids. Qed.

(* removing a line (with everything that depends on it) removes no other segment *)
Theorem disconnect_keeps_segments s y s' :
  ids_ok s -> In y (lines s) -> disconnect s y = Ok s' ->
  forall x, In x (lines s) -> is_segment x = true -> g_id x <> g_id y -> In x (lines s').
Proof.
  intros Hids Hy H x Hx Hs Hne. destruct (disconnect_exact s y s' Hy H) as [E C]. rewrite E.
  apply filter_In. split; [exact Hx|]. apply negb_true_iff.
  destruct (mem_id (g_id x) (closure (fuel_for s) s [y] [])) eqn:Em; [|reflexivity].
  apply (C x Hx) in Em. destruct Em as [z [Hr Hid]].
  pose proof (reach_in_lines s y z Hy Hr) as Hz.
  pose proof (same_id_same_line s z x Hids Hz Hx Hid) as ->.
  pose proof (reach_segment s y x Hr Hs) as E0. subst x. exfalso. apply Hne. reflexivity.
Qed.

(* ---------- the merge of one linear path ---------- *)
Definition seg_kept (x : gl) (s s' : gfa) : Prop := In x (lines s) -> In x (lines s').

(* removal of lines found by identity: a segment other than those removed stays *)
Lemma fold_disconnect_err (old : list gl) e :
  fold_left (fun acc l => do a <- acc ;;
                          match find (fun y => Nat.eqb (g_id y) (g_id l)) (lines a) with
                          | Some y => disconnect a y
                          | None => Ok a
                          end) old (Err e) = Err e.
Proof. induction old as [|a old IH]; cbn; [reflexivity | exact IH]. Qed.

Lemma fold_disconnect_by_id_keeps x : forall (old : list gl) s s',
  ids_ok s -> is_segment x = true -> In x (lines s) ->
  (forall l, In l old -> g_id l <> g_id x) ->
  fold_left (fun acc l => do a <- acc ;;
                          match find (fun y => Nat.eqb (g_id y) (g_id l)) (lines a) with
                          | Some y => disconnect a y
                          | None => Ok a
                          end) old (Ok s) = Ok s' ->
  ids_ok s' /\ In x (lines s').
Proof.
  induction old as [|l old IH]; intros s s' Hids Hs Hx Hk H; cbn [fold_left] in H.
  - injection H as <-. split; assumption.
  - cbn [rbind] in H.
    destruct (find (fun y => Nat.eqb (g_id y) (g_id l)) (lines s)) as [y|] eqn:Ef.
    + destruct (disconnect s y) as [s1|e] eqn:Ed; [|rewrite fold_disconnect_err in H; discriminate].
      apply find_some in Ef. destruct Ef as [Hy Hid]. apply Nat.eqb_eq in Hid.
      apply (IH s1 s' (disconnect_ids s y s1 Hids Ed) Hs); [| intros l0 Hl0; apply Hk; right; exact Hl0 | exact H].
      apply (disconnect_keeps_segments s y s1 Hids Hy Ed x Hx Hs).
      intros E. apply (Hk l (or_introl eq_refl)). congruence.
    + apply (IH s s' Hids Hs Hx); [intros l0 Hl0; apply Hk; right; exact Hl0 | exact H].
Qed.

Lemma fold_connect_links_keeps x : forall (new : list gl) s s',
  ids_ok s -> g_virtual x = false -> In x (lines s) -> (forall l, In l new -> g_rk l = KL) ->
  fold_left (fun acc l => do a <- acc ;; connect a l) new (Ok s) = Ok s' -> ids_ok s' /\ In x (lines s').
Proof.
  intros new s s' Hids Hv Hx Hk H.
  destruct (fold_connect_keeps (fun l => l) new s s' Hids) as [K I].
  - intros l Hl. rewrite (Hk l Hl). split; discriminate.
  - exact H.
  - split; [exact I | apply K; assumption].
Qed.

Lemma dedup_gl_incl : forall l seen x, In x (dedup_gl l seen) -> In x l.
Proof.
  induction l as [|y l IH]; intros seen x H; [contradiction|]. cbn [dedup_gl] in H.
  destruct (mem_id (g_id y) seen); [right; apply (IH _ _ H)|]. destruct H as [<-|H]; [left; reflexivity | right; apply (IH _ _ H)].
Qed.

Lemma backrefs_in_lines s n coll l : In l (backrefs s n coll) -> In l (lines s) /\ mentions l <> [].
Proof.
  unfold backrefs. intros H. apply in_flat_map in H. destruct H as [l0 [Hl0 H]].
  apply in_map_iff in H. destruct H as [m [<- Hm]]. apply filter_In in Hm. split; [exact Hl0|].
  intros E. rewrite E in Hm. destruct Hm as [[] _].
Qed.

(* link_merged: the dovetails of one end are removed and re-created on the merged segment *)
Lemma link_merged_keeps s name e rev s' x :
  ids_ok s -> is_segment x = true -> g_virtual x = false -> In x (lines s) ->
  link_merged s name e rev = Ok s' -> ids_ok s' /\ In x (lines s').
Proof.
  intros Hids Hs Hv Hx. unfold link_merged.
  match goal with |- context [rbind ?p _] => destruct p as [s1|er] eqn:E1 end; cbn [rbind]; [|discriminate].
  intros H.
  assert (Hne : forall l, In l (dedup_gl (dov s (fst e) (snd e)) []) -> g_id l <> g_id x).
  { intros l Hl E. apply dedup_gl_incl in Hl. unfold dov in Hl. apply backrefs_in_lines in Hl. destruct Hl as [Hl Hm].
    pose proof (same_id_same_line s l x Hids Hl Hx E) as ->. apply Hm. apply segment_mentions_nothing. exact Hs. }
  destruct (fold_disconnect_by_id_keeps x (dedup_gl (dov s (fst e) (snd e)) []) s s1 Hids Hs Hx Hne E1) as [I1 X1].
  apply (fold_connect_links_keeps x (map (relink name e rev) (dedup_gl (dov s (fst e) (snd e)) [])) s1 s' I1 Hv X1); [|exact H].
    intros l Hl. apply in_map_iff in Hl. destruct Hl as [l0 [<- _]]. reflexivity.
Qed.

Lemma fold_disconnect_members_err (path : list send) e :
  fold_left (fun acc x => do a <- acc ;;
                          match find_segment a (fst x) with
                          | Some l => disconnect a l
                          | None => Ok a
                          end) path (Err e) = Err e.
Proof. induction path as [|a path IH]; cbn; [reflexivity | exact IH]. Qed.

Lemma fold_disconnect_members_keeps x : forall (path : list send) s s',
  ids_ok s -> is_segment x = true -> In x (lines s) -> ~ In (nth_s 0 (g_pos x)) (map fst path) ->
  fold_left (fun acc p => do a <- acc ;;
                          match find_segment a (fst p) with
                          | Some l => disconnect a l
                          | None => Ok a
                          end) path (Ok s) = Ok s' ->
  ids_ok s' /\ In x (lines s').
Proof.
  induction path as [|p path IH]; intros s s' Hids Hs Hx Hn H; cbn [fold_left] in H.
  - injection H as <-. split; assumption.
  - cbn [rbind] in H. cbn [map] in Hn.
    destruct (find_segment s (fst p)) as [l|] eqn:Ef.
    + destruct (disconnect s l) as [s1|e] eqn:Ed; [|rewrite fold_disconnect_members_err in H; discriminate].
      unfold find_segment in Ef. apply find_some in Ef. destruct Ef as [Hl Hp]. apply andb_true_iff in Hp.
      destruct Hp as [_ Hp]. apply String.eqb_eq in Hp.
      apply (IH s1 s' (disconnect_ids s l s1 Hids Ed) Hs); [| intros Hin; apply Hn; right; exact Hin | exact H].
      apply (disconnect_keeps_segments s l s1 Hids Hl Ed x Hx Hs).
      intros E. pose proof (same_id_same_line s x l Hids Hx Hl E) as ->. apply Hn. left. symmetry. exact Hp.
    + apply (IH s s' Hids Hs Hx); [intros Hin; apply Hn; right; exact Hin | exact H].
Qed.

(* merging a linear path: every segment of the graph that is not a member of the path (and is not a placeholder) is in
   the graph afterwards, unchanged *)
Theorem merge_path_keeps_other_segments s path s' x :
  ids_ok s -> merge_path s path = Ok s' ->
  In x (lines s) -> is_segment x = true -> g_virtual x = false -> ~ In (nth_s 0 (g_pos x)) (map fst path) ->
  In x (lines s').
Proof.
  intros Hids H Hx Hs Hv Hn. unfold merge_path in H.
  destruct path as [|first [|second rest]]; try (injection H as <-; exact Hx).
  destruct (rev (first :: second :: rest)) as [|last rrest] eqn:Er; [injection H as <-; exact Hx|].
  destruct (merged_line s (first :: second :: rest)) as [m|e] eqn:Em; cbn [rbind] in H; [|discriminate].
  destruct (connect s m) as [s1|e] eqn:E1; cbn [rbind] in H; [|discriminate].
  assert (Hm : g_rk m = KS1).
  { unfold merged_line in Em. destruct (find_segment s (fst first)); [|discriminate].
    destruct (merged_segment s (first :: second :: rest)) as [[[nm sq] z]|]; cbn [rbind] in Em; [|discriminate].
    match type of Em with rbind ?p _ = _ => destruct p end; cbn [rbind] in Em; [|discriminate].
    injection Em as <-. reflexivity. }
  destruct (connect_keeps s m s1 Hids) as [K1 I1]; [rewrite Hm; discriminate | rewrite Hm; discriminate | exact E1 |].
  pose proof (K1 x Hx Hv) as X1.
  match type of H with rbind ?p _ = _ => destruct p as [s2|e] eqn:E2 end; cbn [rbind] in H; [|discriminate].
  destruct (link_merged_keeps s1 _ _ _ s2 x I1 Hs Hv X1 E2) as [I2 X2].
  match type of H with rbind ?p _ = _ => destruct p as [s3|e] eqn:E3 end; cbn [rbind] in H; [|discriminate].
  destruct (link_merged_keeps s2 _ _ _ s3 x I2 Hs Hv X2 E3) as [I3 X3].
  apply (fold_disconnect_members_keeps x _ s3 s' I3 Hs X3 Hn H).
Qed.
