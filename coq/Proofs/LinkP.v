(* Proofs/LinkP.v — a link and its complement (C12, value level). *)
From Coq Require Import List String Ascii ZArith Bool Lia.
From GfaV Require Import Base.Py Gen.Tables Gen.K_cigar Gen.K_fromto Model.Align Model.Link Proofs.CigarP.
Import ListNotations.
Open Scope string_scope.

Lemma valid_orient_cases o : valid_orient o = true -> o = "+" \/ o = "-".
Proof.
  unfold valid_orient. rewrite orb_true_iff, !String.eqb_eq. tauto.
Qed.

Lemma invert_valid o : valid_orient o = true ->
  exists o', k_invert o = Ok o' /\ valid_orient o' = true /\ k_invert o' = Ok o /\ o' <> o.
Proof.
  intros H. destruct (valid_orient_cases o H) as [->| ->].
  - exists "-". repeat split; try reflexivity. discriminate.
  - exists "+". repeat split; try reflexivity. discriminate.
Qed.

Lemma segend_eqb_refl e : segend_eqb e e = true.
Proof. unfold segend_eqb. rewrite !String.eqb_refl. reflexivity. Qed.

Lemma segend_eqb_sym a b : segend_eqb a b = segend_eqb b a.
Proof. unfold segend_eqb. rewrite (String.eqb_sym (fst a)), (String.eqb_sym (snd a)). reflexivity. Qed.

Lemma segend_eqb_eq a b : segend_eqb a b = true <-> a = b.
Proof.
  destruct a, b. unfold segend_eqb. cbn [fst snd]. rewrite andb_true_iff, !String.eqb_eq.
  split; [intros [-> ->]; reflexivity | intros H; injection H; auto].
Qed.

(* complement: well-formed links have one, it is well-formed, and it is an involution *)
Theorem link_complement_involutive l :
  link_wf l = true -> (forall t, l_ov l <> ATrace t) ->
  exists l', link_complement l = Ok l' /\ link_wf l' = true /\ link_complement l' = Ok l.
Proof.
  destruct l as [f fo t too ov]. unfold link_wf. cbn [l_fo l_too l_ov l_from l_to].
  intros H Ht. apply andb_true_iff in H. destruct H as [H Hov].
  apply andb_true_iff in H. destruct H as [Hfo Hto].
  destruct (invert_valid fo Hfo) as [fo' [E1 [V1 [E1' _]]]].
  destruct (invert_valid too Hto) as [too' [E2 [V2 [E2' _]]]].
  unfold link_complement. cbn [l_fo l_too l_ov l_from l_to].
  rewrite E2, E1. cbn [rbind].
  eexists. split; [reflexivity|]. cbn [l_fo l_too l_ov l_from l_to]. split.
  - rewrite V2, V1. cbn [andb]. destruct ov as [|c|tr]; cbn [aln_complement aln_codes_in]; try reflexivity.
    apply complement_codes_in. exact Hov.
  - rewrite E1', E2'. cbn [rbind]. f_equal. f_equal.
    apply aln_complement_involutive; assumption.
Qed.

Lemma from_end_compl_is_to_end f fo t too ov fo' too' :
  valid_orient fo = true -> valid_orient too = true ->
  k_invert too = Ok fo' -> k_invert fo = Ok too' ->
  from_end (mkLink t fo' f too' ov) = to_end (mkLink f fo t too ov) /\
  to_end (mkLink t fo' f too' ov) = from_end (mkLink f fo t too ov).
Proof.
  intros Hfo Hto E1 E2.
  destruct (valid_orient_cases _ Hfo) as [->| ->]; destruct (valid_orient_cases _ Hto) as [->| ->];
    cbn in E1, E2; injection E1 as <-; injection E2 as <-; split; reflexivity.
Qed.

Theorem is_complement_of_complement l l' :
  link_wf l = true -> (forall t, l_ov l <> ATrace t) -> link_complement l = Ok l' ->
  is_complement l l' = true /\ is_complement l' l = true /\ is_eql l l' = true.
Proof.
  destruct l as [f fo t too ov]. unfold link_wf. cbn [l_fo l_too l_ov l_from l_to].
  intros H Ht. apply andb_true_iff in H. destruct H as [H Hov].
  apply andb_true_iff in H. destruct H as [Hfo Hto].
  destruct (invert_valid fo Hfo) as [too' [E1 _]].
  destruct (invert_valid too Hto) as [fo' [E2 _]].
  unfold link_complement. cbn [l_fo l_too l_ov l_from l_to]. rewrite E2, E1. cbn [rbind].
  intros Hl. injection Hl as <-.
  destruct (from_end_compl_is_to_end f fo t too ov fo' too' Hfo Hto E2 E1) as [Ha Hb].
  assert (C1 : is_complement (mkLink f fo t too ov) (mkLink t fo' f too' (aln_complement ov)) = true).
  { unfold is_complement.
    destruct (from_end_compl_is_to_end f fo t too (aln_complement ov) fo' too' Hfo Hto E2 E1) as [Ha' Hb'].
    unfold from_end, to_end in *. cbn [l_fo l_too l_ov l_from l_to] in *.
    rewrite Hb', Ha'. rewrite !segend_eqb_refl. cbn [andb l_ov].
    rewrite aln_complement_involutive by assumption. apply aln_eqb_refl. }
  assert (C2 : is_complement (mkLink t fo' f too' (aln_complement ov)) (mkLink f fo t too ov) = true).
  { unfold is_complement. unfold from_end, to_end in *. cbn [l_fo l_too l_ov l_from l_to] in *.
    rewrite Ha, Hb. rewrite !segend_eqb_refl. cbn [andb l_ov]. apply aln_eqb_refl. }
  repeat split; try assumption. unfold is_eql. rewrite C1. apply orb_true_r.
Qed.

(* equivalence tests are symmetric *)
Lemma is_same_sym a b : is_same a b = is_same b a.
Proof.
  unfold is_same. rewrite (segend_eqb_sym (from_end a)), (segend_eqb_sym (to_end a)), (aln_eqb_sym (l_ov a)).
  reflexivity.
Qed.

Definition aln_plain (a : alignment) : bool :=
  match a with ATrace _ => false | ACigar [] => false | _ => true end.

Lemma aln_eqb_plain_eq a b : aln_plain a = true -> aln_plain b = true -> (aln_eqb a b = true <-> a = b).
Proof.
  destruct a as [|x|x], b as [|y|y]; simpl; intros Ha Hb; try discriminate; split; intros H;
    try reflexivity; try discriminate.
  - destruct y; discriminate.
  - destruct x; discriminate.
  - apply cigar_eqb_eq in H. subst. reflexivity.
  - injection H as ->. apply cigar_eqb_eq. reflexivity.
Qed.

Lemma aln_complement_plain a : aln_plain a = true -> aln_plain (aln_complement a) = true.
Proof.
  destruct a as [|x|x]; simpl; intros H; try reflexivity; try discriminate.
  destruct x as [|op x]; [discriminate|].
  destruct (k_cigar_complement (op :: x)) eqn:E; [|reflexivity].
  apply (f_equal (@List.length _)) in E. rewrite complement_length in E. simpl in E. lia.
Qed.

Theorem is_complement_sym a b :
  aln_codes_in involutive_codes (l_ov a) = true -> aln_codes_in involutive_codes (l_ov b) = true ->
  aln_plain (l_ov a) = true -> aln_plain (l_ov b) = true ->
  is_complement a b = is_complement b a.
Proof.
  intros Ca Cb Pa Pb. unfold is_complement.
  rewrite (segend_eqb_sym (from_end a) (to_end b)), (segend_eqb_sym (to_end a) (from_end b)).
  rewrite (andb_comm (segend_eqb (to_end b) (from_end a))).
  f_equal.
  destruct (aln_eqb (l_ov a) (aln_complement (l_ov b))) eqn:E1;
  destruct (aln_eqb (l_ov b) (aln_complement (l_ov a))) eqn:E2; try reflexivity.
  - apply aln_eqb_plain_eq in E1; [|assumption|apply aln_complement_plain; assumption].
    rewrite E1 in E2. rewrite aln_complement_involutive in E2.
    + rewrite aln_eqb_refl in E2. discriminate.
    + assumption.
    + intros t Ht. rewrite Ht in Pb. discriminate.
  - apply aln_eqb_plain_eq in E2; [|assumption|apply aln_complement_plain; assumption].
    rewrite E2 in E1. rewrite aln_complement_involutive in E1.
    + rewrite aln_eqb_refl in E1. discriminate.
    + assumption.
    + intros t Ht. rewrite Ht in Pa. discriminate.
Qed.

Theorem is_eql_sym a b :
  aln_codes_in involutive_codes (l_ov a) = true -> aln_codes_in involutive_codes (l_ov b) = true ->
  aln_plain (l_ov a) = true -> aln_plain (l_ov b) = true ->
  is_eql a b = is_eql b a.
Proof.
  intros. unfold is_eql. rewrite is_same_sym. f_equal. apply is_complement_sym; assumption.
Qed.

(* a link that is_eql to [a] has the core content of [a] or of its complement: anything else
   (another segment, another orientation, another overlap) is a different edge *)
Lemma k_from_end_inj s1 o1 s2 o2 :
  valid_orient o1 = true -> valid_orient o2 = true ->
  k_from_end s1 o1 = k_from_end s2 o2 -> s1 = s2 /\ o1 = o2.
Proof.
  intros H1 H2. destruct (valid_orient_cases _ H1) as [->| ->]; destruct (valid_orient_cases _ H2) as [->| ->];
    cbn; intros E; injection E; intros; subst; try discriminate; auto.
Qed.

Lemma k_to_end_inj s1 o1 s2 o2 :
  valid_orient o1 = true -> valid_orient o2 = true ->
  k_to_end s1 o1 = k_to_end s2 o2 -> s1 = s2 /\ o1 = o2.
Proof.
  intros H1 H2. destruct (valid_orient_cases _ H1) as [->| ->]; destruct (valid_orient_cases _ H2) as [->| ->];
    cbn; intros E; injection E; intros; subst; try discriminate; auto.
Qed.

Lemma k_from_to_end_inv s1 o1 s2 o2 o2' :
  valid_orient o1 = true -> valid_orient o2 = true -> k_invert o2 = Ok o2' ->
  k_from_end s1 o1 = k_to_end s2 o2 -> s1 = s2 /\ o1 = o2'.
Proof.
  intros H1 H2. destruct (valid_orient_cases _ H1) as [->| ->]; destruct (valid_orient_cases _ H2) as [->| ->];
    cbn; intros E0 E; injection E0 as <-; injection E; intros; subst; try discriminate; auto.
Qed.

Theorem is_eql_characterised a b :
  link_wf a = true -> link_wf b = true ->
  aln_plain (l_ov a) = true -> aln_plain (l_ov b) = true ->
  is_eql a b = true ->
  link_core_eqb b a = true \/ exists a', link_complement a = Ok a' /\ link_core_eqb b a' = true.
Proof.
  destruct a as [f1 fo1 t1 to1 ov1], b as [f2 fo2 t2 to2 ov2].
  unfold link_wf. cbn [l_fo l_too l_ov l_from l_to].
  intros Wa Wb Pa Pb.
  apply andb_true_iff in Wa. destruct Wa as [Wa Ca]. apply andb_true_iff in Wa. destruct Wa as [Vf1 Vt1].
  apply andb_true_iff in Wb. destruct Wb as [Wb Cb]. apply andb_true_iff in Wb. destruct Wb as [Vf2 Vt2].
  unfold is_eql. rewrite orb_true_iff. intros [H|H].
  - left. unfold is_same, from_end, to_end in H. cbn [l_fo l_too l_ov l_from l_to] in H.
    apply andb_true_iff in H. destruct H as [H H3]. apply andb_true_iff in H. destruct H as [H1 H2].
    apply segend_eqb_eq in H1. apply segend_eqb_eq in H2.
    apply k_from_end_inj in H1; try assumption. apply k_to_end_inj in H2; try assumption.
    destruct H1 as [-> ->]. destruct H2 as [-> ->].
    unfold link_core_eqb. cbn [l_fo l_too l_ov l_from l_to]. rewrite !String.eqb_refl. cbn [andb].
    rewrite aln_eqb_sym. exact H3.
  - right. unfold is_complement, from_end, to_end in H. cbn [l_fo l_too l_ov l_from l_to] in H.
    apply andb_true_iff in H. destruct H as [H H3]. apply andb_true_iff in H. destruct H as [H1 H2].
    apply segend_eqb_eq in H1. apply segend_eqb_eq in H2.
    destruct (invert_valid fo1 Vf1) as [fo1' [E1 [V1' [E1' _]]]].
    destruct (invert_valid to1 Vt1) as [to1' [E2 [V2' [E2' _]]]].
    unfold link_complement. cbn [l_fo l_too l_ov l_from l_to]. rewrite E2, E1. cbn [rbind].
    eexists. split; [reflexivity|].
    (* from_end a = to_end b  and  to_end a = from_end b *)
    destruct (invert_valid to2 Vt2) as [to2' [F2 _]].
    destruct (invert_valid fo2 Vf2) as [fo2' [F1 _]].
    apply (k_from_to_end_inv f1 fo1 t2 to2 to2' Vf1 Vt2 F2) in H1. destruct H1 as [-> ->].
    symmetry in H2. apply (k_from_to_end_inv f2 fo2 t1 to1 to1' Vf2 Vt1 E2) in H2. destruct H2 as [-> ->].
    unfold link_core_eqb. cbn [l_fo l_too l_ov l_from l_to]. rewrite !String.eqb_refl. cbn [andb].
    (* orientations: fo1 = invert to2, so to2 = invert fo1 = fo1' *)
    assert (Ht : to2 = fo1').
    { destruct (valid_orient_cases _ Vt2) as [->| ->]; cbn in F2; injection F2 as <-; cbn in E1; injection E1 as <-; reflexivity. }
    subst to2. rewrite String.eqb_refl. cbn [andb].
    apply aln_eqb_plain_eq in H3; [|assumption|apply aln_complement_plain; assumption].
    subst ov1. rewrite aln_complement_involutive.
    + apply aln_eqb_refl.
    + assumption.
    + intros t Ht'. rewrite Ht' in Pb. discriminate.
Qed.
