(* Proofs/GroupsP.v — captured paths are alternating walks; induced sets are exactly what the items mention. *)
From Coq Require Import List String Ascii ZArith Bool Lia.
From GfaV Require Import Base.Py Gen.Tables Model.Codec Model.Graph Model.Groups.
Import ListNotations.
Open Scope string_scope.
Open Scope list_scope.

Lemma rbind_ok {A B} (m : res A) (f : A -> res B) r : rbind m f = Ok r -> exists v, m = Ok v /\ f v = Ok r.
Proof. destruct m as [v|e]; cbn; intro H; [eauto|discriminate]. Qed.

Lemma oref_eqb_eq a b : oref_eqb a b = true <-> a = b.
Proof.
  unfold oref_eqb. destruct a as [a1 a2], b as [b1 b2]. cbn [fst snd].
  rewrite Bool.andb_true_iff, !String.eqb_eq. split; [intros [-> ->]; reflexivity|intro H; injection H; auto].
Qed.

Lemma oref_eqb_refl a : oref_eqb a a = true.
Proof. apply oref_eqb_eq. reflexivity. Qed.

Lemma joins_sym l o x y : joins l o x y = joins l o y x.
Proof. unfold joins. destruct (edge_ends l o) as [a b]. apply Bool.orb_comm. Qed.

(* ---------------------------------------------------------------- walks (most recent element first) *)
Definition is_edge_of (s : gfa) (l : gl) (i : nat) : Prop := In l (lines s) /\ g_id l = i /\ g_rk l = KE.

Inductive walk (s : gfa) : list pel -> Prop :=
| walk_one x : walk s [PS x]
| walk_step x i o y rest l :
    walk s (PS y :: rest) -> is_edge_of s l i -> joins l o x y = true ->
    walk s (PS x :: PE i o :: PS y :: rest).

Lemma backrefs_in s n c e : In e (backrefs s n c) -> In e (lines s).
Proof.
  unfold backrefs. intro H. apply in_flat_map in H. destruct H as [l [Hl Hm]].
  apply in_map_iff in Hm. destruct Hm as [m [<- _]]. exact Hl.
Qed.

Lemma seg_edges2_in s n e : In e (seg_edges2 s n) -> In e (lines s) /\ g_rk e = KE.
Proof.
  unfold seg_edges2. intro H. apply filter_In in H. destruct H as [H K]. split.
  - repeat (apply in_app_or in H; destruct H as [H|H]; [exact (backrefs_in _ _ _ _ H)|]). exact (backrefs_in _ _ _ _ H).
  - destruct (g_rk e); try discriminate. reflexivity.
Qed.

Lemma fits_In es : forall seen prev x p, In p (fits es seen prev x) ->
  exists e o, p = PE (g_id e) o /\ In e es /\ fit e prev x = Some o.
Proof.
  induction es as [|e r IH]; intros seen prev x p H; cbn [fits] in H; [destruct H|].
  destruct (mem_id (g_id e) seen).
  - destruct (IH _ _ _ _ H) as [e' [o [A [B C]]]]. exists e', o. repeat split; auto. right; exact B.
  - destruct (fit e prev x) as [o|] eqn:F.
    + destruct H as [ <- | H ]; [exists e, o; repeat split; auto; left; reflexivity|].
      destruct (IH _ _ _ _ H) as [e' [o' [A [B C]]]]. exists e', o'. repeat split; auto. right; exact B.
    + destruct (IH _ _ _ _ H) as [e' [o' [A [B C]]]]. exists e', o'. repeat split; auto. right; exact B.
Qed.

Lemma fit_joins e prev x o : fit e prev x = Some o -> joins e o x prev = true.
Proof.
  unfold fit. destruct (joins e "+" x prev) eqn:A; [intro H; injection H as <-; exact A|].
  destruct (joins e "-" x prev) eqn:B; [intro H; injection H as <-; exact B|discriminate].
Qed.

Definition good (s : gfa) (rp : list pel) : Prop := rp = [] \/ walk s rp.

Lemma push_segment_walk s rp pe x rp' : good s rp -> push_segment s rp pe x = Ok rp' -> walk s rp'.
Proof.
  intros [->|W] H.
  - cbn in H. injection H as <-. constructor.
  - unfold push_segment in H. destruct rp as [|[y|i o] rest]; [inversion W| |discriminate].
    destruct pe.
    + destruct (oref_eqb y x); [injection H as <-; exact W|discriminate].
    + destruct (fits (seg_edges2 s (fst x)) [] y x) as [|e [|e2 r]] eqn:F; try discriminate.
      injection H as <-.
      assert (Hin : In e (fits (seg_edges2 s (fst x)) [] y x)) by (rewrite F; left; reflexivity).
      destruct (fits_In _ _ _ _ _ Hin) as [l [o [-> [Hl Hf]]]].
      destruct (seg_edges2_in _ _ _ Hl) as [L1 L2].
      apply (walk_step s x (g_id l) o y rest l W); [repeat split; assumption|exact (fit_joins _ _ _ _ Hf)].
Qed.

Lemma push_nonfirst_edge_walk s rp l o rp' :
  walk s rp -> In l (lines s) -> g_rk l = KE -> push_nonfirst_edge rp l o = Ok rp' -> walk s rp'.
Proof.
  intros W L1 L2 H. unfold push_nonfirst_edge in H. destruct rp as [|[y|i o'] rest]; try discriminate.
  destruct (edge_ends l o) as [a b] eqn:E.
  destruct (oref_eqb y a) eqn:A.
  - injection H as <-. apply oref_eqb_eq in A. subst a.
    apply (walk_step s b (g_id l) o y rest l W); [repeat split; assumption|].
    unfold joins. rewrite E, !oref_eqb_refl. apply Bool.orb_true_r.
  - destruct (oref_eqb y b) eqn:B; [|discriminate]. injection H as <-. apply oref_eqb_eq in B. subst b.
    apply (walk_step s a (g_id l) o y rest l W); [repeat split; assumption|].
    unfold joins. rewrite E, !oref_eqb_refl. reflexivity.
Qed.

Lemma find_named_in s n l : find_named s n = Some l -> In l (lines s).
Proof. unfold find_named. intro H. apply find_some in H. tauto. Qed.

Lemma edge_at_spec s i l : edge_at s i = Some l -> is_edge_of s l i.
Proof.
  unfold edge_at. intro H. apply find_some in H. destruct H as [H1 H2]. apply Bool.andb_true_iff in H2.
  destruct H2 as [H2 H3]. apply Nat.eqb_eq in H2. repeat split; auto. destruct (g_rk l); try discriminate; reflexivity.
Qed.

Lemma push_first_edge_walk rec s it rest l rp' :
  resolve s (fst it) = Some l -> g_rk l = KE -> push_first_edge rec s (it :: rest) = Ok rp' -> walk s rp'.
Proof.
  intros R K H. unfold push_first_edge in H. rewrite R in H.
  destruct (edge_ends l (snd it)) as [a b] eqn:E.
  apply rbind_ok in H. destruct H as [swap [_ H]].
  assert (Hl : is_edge_of s l (g_id l)) by (repeat split; [exact (find_named_in _ _ _ R)|exact K]).
  destruct swap; injection H as <-.
  - apply (walk_step s a (g_id l) (snd it) b [] l (walk_one s b) Hl). unfold joins. rewrite E, !oref_eqb_refl. reflexivity.
  - apply (walk_step s b (g_id l) (snd it) a [] l (walk_one s a) Hl). unfold joins. rewrite E, !oref_eqb_refl. apply Bool.orb_true_r.
Qed.

Lemma push_pel_walk s st el st' : good s (fst st) -> push_pel s st el = Ok st' -> walk s (fst st').
Proof.
  destruct st as [rp pe]. cbn [fst]. intros G H. unfold push_pel in H. destruct el as [r|i o].
  - apply rbind_ok in H. destruct H as [rp' [H1 H2]]. injection H2 as <-. exact (push_segment_walk _ _ _ _ _ G H1).
  - destruct (edge_at s i) as [l|] eqn:E; [|discriminate]. destruct rp as [|p rest]; [discriminate|].
    apply rbind_ok in H. destruct H as [rp' [H1 H2]]. injection H2 as <-.
    destruct G as [G|G]; [discriminate|]. destruct (edge_at_spec _ _ _ E) as [L1 [L2 L3]].
    exact (push_nonfirst_edge_walk _ _ _ _ _ G L1 L3 H1).
Qed.

Lemma fold_push_pel s : forall seq st st',
  good s (fst st) ->
  fold_left (fun acc el => do a <- acc ;; push_pel s a el) seq (Ok st) = Ok st' ->
  (seq = [] /\ st' = st) \/ walk s (fst st').
Proof.
  induction seq as [|el seq IH]; intros st st' G H; cbn [fold_left] in H.
  - left. split; [reflexivity|congruence].
  - right. cbn [rbind] in H. destruct (push_pel s st el) as [st1|e] eqn:P.
    + pose proof (push_pel_walk _ _ _ _ G P) as W1.
      destruct (IH st1 st' (or_intror W1) H) as [[-> ->]|W]; [exact W1|exact W].
    + exfalso. clear -H. induction seq as [|x seq IH]; cbn in H; [discriminate|exact (IH H)].
Qed.

Lemma push_item_walk rec s items rp pe it st' :
  (forall l r, rec l = Ok r -> good s (fst r)) ->
  good s rp -> (rp = [] -> exists rest, items = it :: rest) ->
  push_item rec s items (rp, pe) it = Ok st' -> walk s (fst st').
Proof.
  intros Hrec G Hfirst H. unfold push_item in H.
  destruct (resolve s (fst it)) as [l|] eqn:R; [|discriminate].
  destruct (g_rk l) eqn:K; try discriminate.
  - (* segment *)
    apply rbind_ok in H. destruct H as [rp' [H1 H2]]. injection H2 as <-. exact (push_segment_walk _ _ _ _ _ G H1).
  - (* edge *)
    destruct rp as [|p rest].
    + destruct (Hfirst eq_refl) as [rs ->]. apply rbind_ok in H. destruct H as [rp' [H1 H2]]. injection H2 as <-.
      exact (push_first_edge_walk _ _ _ _ _ _ R K H1).
    + apply rbind_ok in H. destruct H as [rp' [H1 H2]]. injection H2 as <-.
      destruct G as [G|G]; [discriminate|].
      exact (push_nonfirst_edge_walk _ _ _ _ _ G (find_named_in _ _ _ R) K H1).
  - (* nested ordered group *)
    apply rbind_ok in H. destruct H as [[sp pes] [H1 H2]].
    destruct sp as [|p0 sp]; [discriminate|].
    apply rbind_ok in H2. destruct H2 as [st1 [H2 H3]]. injection H3 as <-. cbn [fst].
    destruct (fold_push_pel s _ (rp, pe) _ G H2) as [[E _]|W]; [|exact W].
    exfalso. destruct (String.eqb (snd it) "+").
    + apply (f_equal (@List.length pel)) in E. rewrite rev_length in E. cbn in E. lia.
    + cbn in E. discriminate.
Qed.

Lemma fold_err {A B} (f : res A -> B -> res A) (Hf : forall e b, f (Err e) b = Err e) :
  forall l e, fold_left f l (Err e) = Err e.
Proof. induction l as [|b l IH]; intro e; cbn; [reflexivity|rewrite Hf; apply IH]. Qed.

Lemma fold_items_walk rec s items :
  (forall l r, rec l = Ok r -> good s (fst r)) ->
  forall suf pre st st',
    items = pre ++ suf -> good s (fst st) -> (fst st = [] -> pre = []) ->
    fold_left (fun acc it => do a <- acc ;; push_item rec s items a it) suf (Ok st) = Ok st' ->
    good s (fst st') /\ (suf <> [] -> walk s (fst st')).
Proof.
  intros Hrec. induction suf as [|it suf IH]; intros pre st st' E G Hp H; cbn [fold_left] in H.
  - injection H as <-. split; [exact G|congruence].
  - cbn [rbind] in H. destruct st as [rp pe]. cbn [fst] in *.
    destruct (push_item rec s items (rp, pe) it) as [st1|e] eqn:P.
    + assert (W1 : walk s (fst st1)).
      { apply (push_item_walk rec s items rp pe it st1 Hrec G); [|exact P].
        intro Hr. rewrite (Hp Hr) in E. cbn in E. eauto. }
      destruct (IH (pre ++ [it]) st1 st') as [A B]; [rewrite <- app_assoc; exact E|right; exact W1| |exact H|].
      * intro Hn. rewrite Hn in W1. inversion W1.
      * split; [exact A|]. intros _. destruct suf as [|i2 suf]; [cbn in H; injection H as <-; exact W1|apply B; discriminate].
    + rewrite fold_err in H; [discriminate|reflexivity].
Qed.

(* every captured path is an alternating walk: it starts and ends with a segment, and every edge on it joins,
   in the orientation with which it is listed, the two segments next to it — for every nesting depth *)
Theorem compute_walk s : forall fuel g r, compute fuel s g = Ok r -> good s (fst r).
Proof.
  induction fuel as [|f IH]; intros g r H; cbn [compute] in H; [discriminate|].
  destruct (fold_items_walk (compute f s) s (items_of g) (IH) (items_of g) [] ([], false) r eq_refl
              (or_introl eq_refl) (fun _ => eq_refl) H) as [A _]. exact A.
Qed.

Theorem captured_path_walk s g p : captured_path s g = Ok p -> p = [] \/ walk s (rev p).
Proof.
  unfold captured_path. intro H. apply rbind_ok in H. destruct H as [r [H1 H2]]. injection H2 as <-.
  rewrite rev_involutive. destruct (compute_walk _ _ _ _ H1) as [->|W]; [left; reflexivity|right; exact W].
Qed.

(* the shape of a walk: segments at even positions, edges at odd positions, a segment at both ends *)
Fixpoint alternating (p : list pel) : bool :=
  match p with
  | [PS _] => true
  | PS _ :: ((PE _ _ :: r) as t) => match r with PS _ :: _ => alternating r | _ => false end
  | _ => false
  end.

Lemma walk_alternating s p : walk s p -> alternating p = true.
Proof. induction 1 as [x|x i o y rest l W IH E J]; [reflexivity|]. cbn [alternating]. exact IH. Qed.

(* ---------------------------------------------------------------- the path only grows; listed items are on it *)
Definition extends (rp rp' : list pel) : Prop := exists added, rp' = added ++ rp.

Lemma extends_refl rp : extends rp rp.
Proof. exists []. reflexivity. Qed.

Lemma extends_trans a b c : extends a b -> extends b c -> extends a c.
Proof. intros [x ->] [y ->]. exists (y ++ x). now rewrite app_assoc. Qed.

Lemma extends_In a b x : extends a b -> In x a -> In x b.
Proof. intros [ad ->] H. apply in_or_app. right; exact H. Qed.

Lemma push_segment_extends s rp pe x rp' :
  push_segment s rp pe x = Ok rp' -> extends rp rp' /\ hd_error rp' = Some (PS x).
Proof.
  unfold push_segment. destruct rp as [|[y|i o] rest]; try discriminate.
  - intro H. injection H as <-. split; [exists [PS x]; reflexivity|reflexivity].
  - destruct pe.
    + destruct (oref_eqb y x) eqn:E; [|discriminate]. intro H. injection H as <-. apply oref_eqb_eq in E. subst y.
      split; [apply extends_refl|reflexivity].
    + destruct (fits (seg_edges2 s (fst x)) [] y x) as [|e [|e2 r]]; try discriminate.
      intro H. injection H as <-. split; [exists [PS x; e]; reflexivity|reflexivity].
Qed.

Lemma push_nonfirst_edge_extends rp l o rp' :
  push_nonfirst_edge rp l o = Ok rp' -> extends rp rp' /\ In (PE (g_id l) o) rp'.
Proof.
  unfold push_nonfirst_edge. destruct rp as [|[y|i o'] rest]; try discriminate.
  destruct (edge_ends l o) as [a b].
  destruct (oref_eqb y a); [intro H; injection H as <-; split; [exists [PS b; PE (g_id l) o]; reflexivity|right; left; reflexivity]|].
  destruct (oref_eqb y b); [|discriminate].
  intro H; injection H as <-; split; [exists [PS a; PE (g_id l) o]; reflexivity|right; left; reflexivity].
Qed.

Lemma push_pel_extends s st el st' : push_pel s st el = Ok st' -> extends (fst st) (fst st').
Proof.
  destruct st as [rp pe]. cbn [fst]. unfold push_pel. destruct el as [r|i o]; intro H.
  - apply rbind_ok in H. destruct H as [rp' [H1 H2]]. injection H2 as <-. exact (proj1 (push_segment_extends _ _ _ _ _ H1)).
  - destruct (edge_at s i) as [l|]; [|discriminate]. destruct rp as [|p rest]; [discriminate|].
    apply rbind_ok in H. destruct H as [rp' [H1 H2]]. injection H2 as <-. exact (proj1 (push_nonfirst_edge_extends _ _ _ _ H1)).
Qed.

Lemma fold_push_pel_extends s : forall seq st st',
  fold_left (fun acc el => do a <- acc ;; push_pel s a el) seq (Ok st) = Ok st' -> extends (fst st) (fst st').
Proof.
  induction seq as [|el seq IH]; intros st st' H; cbn [fold_left] in H; [injection H as <-; apply extends_refl|].
  cbn [rbind] in H. destruct (push_pel s st el) as [st1|e] eqn:P.
  - exact (extends_trans _ _ _ (push_pel_extends _ _ _ _ P) (IH _ _ H)).
  - rewrite fold_err in H; [discriminate|reflexivity].
Qed.

(* the element a directly listed segment or edge contributes *)
Definition on_path (s : gfa) (it : oref) (rp : list pel) : Prop :=
  match resolve s (fst it) with
  | Some l => match g_rk l with
              | KS2 => In (PS it) rp
              | KE => In (PE (g_id l) (snd it)) rp
              | _ => True
              end
  | None => True
  end.

Lemma push_item_extends rec s items rp pe it st' :
  (rp = [] -> exists rest, items = it :: rest) ->
  push_item rec s items (rp, pe) it = Ok st' -> extends rp (fst st') /\ on_path s it (fst st').
Proof.
  intros Hfirst H. unfold push_item in H. unfold on_path.
  destruct (resolve s (fst it)) as [l|] eqn:R; [|discriminate].
  destruct (g_rk l) eqn:K; try discriminate.
  - apply rbind_ok in H. destruct H as [rp' [H1 H2]]. injection H2 as <-. cbn [fst].
    destruct (push_segment_extends _ _ _ _ _ H1) as [A B]. split; [exact A|].
    destruct rp' as [|p r]; [discriminate|]. injection B as ->. left; reflexivity.
  - destruct rp as [|p rest].
    + destruct (Hfirst eq_refl) as [rs ->]. apply rbind_ok in H. destruct H as [rp' [H1 H2]]. injection H2 as <-. cbn [fst].
      split; [exists rp'; now rewrite app_nil_r|].
      unfold push_first_edge in H1. rewrite R in H1. destruct (edge_ends l (snd it)) as [a b].
      apply rbind_ok in H1. destruct H1 as [swap [_ H1]]. destruct swap; injection H1 as <-; right; left; reflexivity.
    + apply rbind_ok in H. destruct H as [rp' [H1 H2]]. injection H2 as <-. cbn [fst].
      exact (push_nonfirst_edge_extends _ _ _ _ H1).
  - apply rbind_ok in H. destruct H as [[sp pes] [H1 H2]]. destruct sp as [|p0 sp]; [discriminate|].
    apply rbind_ok in H2. destruct H2 as [st1 [H2 H3]]. injection H3 as <-. cbn [fst].
    split; [exact (fold_push_pel_extends s _ (rp, pe) _ H2)|exact I].
Qed.

Lemma fold_items_listed rec s items :
  forall suf pre st st',
    items = pre ++ suf -> (fst st = [] -> pre = []) ->
    (forall it, In it pre -> on_path s it (fst st)) ->
    fold_left (fun acc it => do a <- acc ;; push_item rec s items a it) suf (Ok st) = Ok st' ->
    forall it, In it items -> on_path s it (fst st').
Proof.
  induction suf as [|it suf IH]; intros pre st st' E Hp Hon H; cbn [fold_left] in H.
  - injection H as <-. rewrite app_nil_r in E. subst pre. exact Hon.
  - cbn [rbind] in H. destruct st as [rp pe]. cbn [fst] in *.
    destruct (push_item rec s items (rp, pe) it) as [st1|e] eqn:P; [|rewrite fold_err in H; [discriminate|reflexivity]].
    assert (Hf : rp = [] -> exists rest, items = it :: rest) by (intro Hr; rewrite (Hp Hr) in E; cbn in E; eauto).
    destruct (push_item_extends _ _ _ _ _ _ _ Hf P) as [X O].
    apply (IH (pre ++ [it]) st1 st'); [rewrite <- app_assoc; exact E| | |exact H].
    + intro Hn. destruct X as [ad X]. rewrite Hn in X. destruct ad; [|discriminate]. cbn in X. subst rp.
      destruct pre; [|discriminate (Hp eq_refl)]. exfalso.
      (* the state after one item is never empty *)
      unfold push_item in P. destruct (resolve s (fst it)) as [l|]; [|discriminate].
      destruct (g_rk l); try discriminate.
      * apply rbind_ok in P. destruct P as [rp' [P1 P2]]. injection P2 as <-. cbn in Hn. subst rp'. cbn in P1. discriminate.
      * apply rbind_ok in P. destruct P as [rp' [P1 P2]]. injection P2 as <-. cbn in Hn. subst rp'.
        unfold push_first_edge in P1. destruct items as [|i0 r0]; [discriminate|].
        destruct (resolve s (fst i0)) as [l0|]; [|discriminate]. destruct (edge_ends l0 (snd i0)).
        apply rbind_ok in P1. destruct P1 as [sw [_ P1]]. destruct sw; discriminate.
      * apply rbind_ok in P. destruct P as [[sp pes] [P1 P2]]. destruct sp as [|p0 sp]; [discriminate|].
        apply rbind_ok in P2. destruct P2 as [st2 [P2 P3]]. injection P3 as <-. cbn [fst] in Hn.
        destruct (String.eqb (snd it) "+").
        -- destruct (rev (p0 :: sp)) as [|q qs] eqn:Q; [apply (f_equal (@List.length pel)) in Q; rewrite rev_length in Q; cbn in Q; lia|].
           cbn [fold_left rbind] in P2. destruct (push_pel s ([], pe) q) as [sq|eq] eqn:PQ; [|rewrite fold_err in P2; [discriminate|reflexivity]].
           pose proof (fold_push_pel_extends s _ _ _ P2) as [ad X]. rewrite Hn in X.
           destruct q as [r|i o]; cbn in PQ; [|destruct (edge_at s i); discriminate].
           injection PQ as <-. cbn in X. destruct ad; discriminate.
        -- cbn [map fold_left rbind] in P2. destruct (push_pel s ([], pe) (inv_pel p0)) as [sq|eq] eqn:PQ; [|rewrite fold_err in P2; [discriminate|reflexivity]].
           pose proof (fold_push_pel_extends s _ _ _ P2) as [ad X]. rewrite Hn in X.
           destruct p0 as [r|i o]; cbn in PQ; [|destruct (edge_at s i); discriminate].
           injection PQ as <-. cbn in X. destruct ad; discriminate.
    + intros i Hi. apply in_app_or in Hi. destruct Hi as [Hi|[ <- |[]]]; [|exact O].
      specialize (Hon _ Hi). unfold on_path in *. destruct (resolve s (fst i)) as [l|]; [|exact I].
      destruct (g_rk l); try exact I; exact (extends_In _ _ _ X Hon).
Qed.

(* every segment and every edge listed by the group is on its captured path, with the listed orientation *)
Theorem listed_items_on_path s g p : captured_path s g = Ok p ->
  forall it, In it (items_of g) -> on_path s it p.
Proof.
  unfold captured_path. intro H. apply rbind_ok in H. destruct H as [r [H1 H2]]. injection H2 as <-.
  cbn [compute] in H1. intros it Hit.
  pose proof (fold_items_listed _ s (items_of g) (items_of g) [] ([], false) r eq_refl (fun _ => eq_refl)
                (fun i (Hi : In i []) => match Hi with end) H1 it Hit) as O.
  unfold on_path in *. destruct (resolve s (fst it)) as [l|]; [|exact I].
  destruct (g_rk l); try exact I; apply in_rev in O; exact O.
Qed.

(* ---------------------------------------------------------------- induced sets *)
Definition seg1 (l : gl) : string := fst (parse_oref (nth_s 1 (g_pos l))).
Definition seg2 (l : gl) : string := fst (parse_oref (nth_s 2 (g_pos l))).

(* x is a segment the group mentions directly or through an edge, a path or a nested set *)
Inductive induces (s : gfa) : gl -> string -> Prop :=
| ind_segment g n l : In n (names_of_items g) -> resolve s n = Some l -> g_rk l = KS2 -> induces s g n
| ind_edge g n l x : In n (names_of_items g) -> resolve s n = Some l -> g_rk l = KE -> (x = seg1 l \/ x = seg2 l) -> induces s g x
| ind_path g n l p x : In n (names_of_items g) -> resolve s n = Some l -> g_rk l = KO ->
                       captured_segments s l = Ok p -> In x (map fst p) -> induces s g x
| ind_set g n l x : In n (names_of_items g) -> resolve s n = Some l -> g_rk l = KU -> induces s l x -> induces s g x.

Lemma dedup_In l : forall seen x, In x (dedup l seen) <-> In x l /\ ~ In x seen.
Proof.
  induction l as [|y l IH]; intros seen x; cbn [dedup In]; [tauto|].
  destruct (in_strs y seen) eqn:E.
  - rewrite IH. assert (Hy : In y seen) by (unfold in_strs in E; apply existsb_exists in E; destruct E as [z [Hz Ez]]; apply String.eqb_eq in Ez; subst; exact Hz).
    split; [tauto|]. intros [[->|H] N]; [contradiction|tauto].
  - cbn [In]. rewrite IH. cbn [In].
    assert (Hy : ~ In y seen).
    { intro Hy. assert (in_strs y seen = true); [|congruence]. unfold in_strs. apply existsb_exists. exists y. split; [exact Hy|apply String.eqb_refl]. }
    split.
    + intros [<-|[H N]]; [tauto|]. split; [tauto|]. intro; apply N; right; assumption.
    + intros [[ <- | H ] N]; [left; reflexivity|]. destruct (string_dec y x) as [->|D]; [left; reflexivity|right].
      split; [exact H|]. intros [C|C]; [contradiction|contradiction].
Qed.

Lemma dedup_NoDup l : forall seen, NoDup (dedup l seen).
Proof.
  induction l as [|y l IH]; intro seen; cbn [dedup]; [constructor|].
  destruct (in_strs y seen); [apply IH|]. constructor; [|apply IH].
  rewrite dedup_In. intros [_ N]. apply N. left; reflexivity.
Qed.

(* what one item contributes *)
Definition item_segments (f : nat) (s : gfa) (n : string) : res (list string) :=
  match resolve s n with
  | None => Err (G ERuntime)
  | Some l =>
      match g_rk l with
      | KS2 => Ok [n]
      | KE => Ok [seg1 l; seg2 l]
      | KO => do p <- captured_segments s l ;; Ok (map fst p)
      | KU => induced_segments f s l
      | KUnk => Err (G ERuntime)
      | _ => Err (G EType)
      end
  end.

Definition ind_step (f : nat) (s : gfa) (acc : res (list string)) (n : string) : res (list string) :=
  do a <- acc ;;
  match resolve s n with
  | None => Err (G ERuntime)
  | Some l =>
      match g_rk l with
      | KS2 => Ok (a ++ [n])
      | KE => Ok (a ++ [fst (parse_oref (nth_s 1 (g_pos l))); fst (parse_oref (nth_s 2 (g_pos l)))])
      | KO => do p <- captured_segments s l ;; Ok (a ++ map fst p)
      | KU => do sub <- induced_segments f s l ;; Ok (a ++ sub)
      | KUnk => Err (G ERuntime)
      | _ => Err (G EType)
      end
  end.

Lemma induced_unfold f s g :
  induced_segments (S f) s g = (do all <- fold_left (ind_step f s) (names_of_items g) (Ok []) ;; Ok (dedup all [])).
Proof. reflexivity. Qed.

Lemma ind_step_item f s acc n r : ind_step f s (Ok acc) n = Ok r -> exists c, item_segments f s n = Ok c /\ r = acc ++ c.
Proof.
  unfold ind_step, item_segments. cbn [rbind]. destruct (resolve s n) as [l|]; [|discriminate].
  destruct (g_rk l); try discriminate.
  - intro H; injection H as <-; eauto.
  - intro H; injection H as <-; eauto.
  - destruct (captured_segments s l) as [p|e]; cbn [rbind]; [intro H; injection H as <-; eauto|discriminate].
  - destruct (induced_segments f s l) as [sub|e]; cbn [rbind]; [intro H; injection H as <-; eauto|discriminate].
Qed.

Lemma ind_step_err f s e n : ind_step f s (Err e) n = Err e.
Proof. reflexivity. Qed.

Lemma induced_fold_spec f s : forall items acc all,
  fold_left (ind_step f s) items (Ok acc) = Ok all ->
  (forall x, In x all <-> In x acc \/ exists n c, In n items /\ item_segments f s n = Ok c /\ In x c) /\
  (forall n, In n items -> exists c, item_segments f s n = Ok c).
Proof.
  induction items as [|n items IH]; intros acc all H; cbn [fold_left] in H.
  - injection H as <-. split; [|intros n []]. intro x. split; [tauto|]. intros [A|[n [c [[] _]]]]. exact A.
  - destruct (ind_step f s (Ok acc) n) as [r|e] eqn:E; [|rewrite fold_err in H; [discriminate|apply ind_step_err]].
    destruct (ind_step_item _ _ _ _ _ E) as [c [E1 ->]]. destruct (IH _ _ H) as [IH1 IH2]. split.
    + intro x. rewrite (IH1 x). rewrite in_app_iff. split.
      * intros [[A|A]|[m [c' [Hm [Hc Hx]]]]]; [left; exact A|right; exists n, c; repeat split; auto; left; reflexivity|
                                               right; exists m, c'; repeat split; auto; right; exact Hm].
      * intros [A|[m [c' [[ <- | Hm ] [Hc Hx]]]]]; [left; left; exact A|left; right; congruence|right; exists m, c'; auto].
    + intros m [ <- | Hm ]; [eauto|exact (IH2 _ Hm)].
Qed.

(* the induced segment set is exactly the set of segments the group mentions directly or through edges, paths and
   nested sets, each listed once — for every nesting depth *)
Theorem induced_segments_exact s : forall fuel g segs,
  induced_segments fuel s g = Ok segs -> (forall x, In x segs <-> induces s g x) /\ NoDup segs.
Proof.
  induction fuel as [|f IH]; intros g segs H; [discriminate|]. rewrite induced_unfold in H.
  apply rbind_ok in H. destruct H as [all [H1 H2]]. injection H2 as <-.
  split; [|apply dedup_NoDup].
  intro x. rewrite dedup_In. destruct (induced_fold_spec f s _ _ _ H1) as [S0 T]. pose proof (S0 x) as S. cbn [In] in S.
  split.
  - intros [Hx _]. apply S in Hx. destruct Hx as [[]|[n [c [Hn [Hc Hx]]]]].
    unfold item_segments in Hc. destruct (resolve s n) as [l|] eqn:R; [|discriminate].
    destruct (g_rk l) eqn:K; try discriminate.
    + injection Hc as <-. destruct Hx as [<-|[]]. exact (ind_segment s g n l Hn R K).
    + injection Hc as <-. apply (ind_edge s g n l x Hn R K). cbn [In] in Hx. destruct Hx as [ <- |[ <- |[]]]; auto.
    + apply rbind_ok in Hc. destruct Hc as [p [P1 P2]]. injection P2 as <-. exact (ind_path s g n l p x Hn R K P1 Hx).
    + apply (ind_set s g n l x Hn R K). apply (proj1 (IH _ _ Hc)). exact Hx.
  - intro I. split; [|tauto]. apply S. right.
    destruct I as [g n l Hn R K|g n l y Hn R K Hy|g n l p y Hn R K P Hy|g n l y Hn R K Hy].
    + exists n, [n]. repeat split; [exact Hn| |left; reflexivity]. unfold item_segments. rewrite R, K. reflexivity.
    + exists n, [seg1 l; seg2 l]. repeat split; [exact Hn| |cbn [In]; destruct Hy as [ -> | -> ]; auto].
      unfold item_segments. rewrite R, K. reflexivity.
    + exists n, (map fst p). repeat split; [exact Hn| |exact Hy]. unfold item_segments. rewrite R, K, P. reflexivity.
    + destruct (T n Hn) as [c Hc]. exists n, c. repeat split; [exact Hn|exact Hc|].
      unfold item_segments in Hc. rewrite R, K in Hc. apply (proj1 (IH _ _ Hc)). exact Hy.
Qed.

(* ---------------------------------------------------------------- induced edges *)
Definition edge_colls5 : list string := ["dovetails_L"; "dovetails_R"; "edges_to_contained"; "edges_to_containers"; "internals"].

Lemma refkey_range o1 o2 n st1 st2 : In (Gen.K_edge2.k_edge2_refkey_for_s o1 o2 n st1 st2) edge_colls5.
Proof.
  unfold Gen.K_edge2.k_edge2_refkey_for_s, edge_colls5.
  repeat match goal with |- context [if ?c then _ else _] => destruct c end; cbn [In]; tauto.
Qed.

Lemma in_backrefs s n c e : In e (backrefs s n c) <->
  In e (lines s) /\ exists m, In m (mentions e) /\ m_target m = n /\ m_coll m = c.
Proof.
  unfold backrefs. rewrite in_flat_map. split.
  - intros [l [Hl Hm]]. apply in_map_iff in Hm. destruct Hm as [m [<- Hf]]. apply filter_In in Hf.
    destruct Hf as [Hf1 Hf2]. apply Bool.andb_true_iff in Hf2. destruct Hf2 as [A B].
    apply String.eqb_eq in A. apply String.eqb_eq in B. split; [exact Hl|exists m; auto].
  - intros [Hl [m [Hm [A B]]]]. exists e. split; [exact Hl|]. apply in_map_iff. exists m. split; [reflexivity|].
    apply filter_In. split; [exact Hm|]. rewrite A, B, !String.eqb_refl. reflexivity.
Qed.

Lemma edge_mentions e m : g_rk e = KE -> In m (mentions e) -> m_target m = seg1 e \/ m_target m = seg2 e.
Proof.
  intros K H. unfold mentions in H. rewrite K in H. destruct (edge_colls (g_pos e)) as [[c1 c2]|]; [|destruct H].
  cbn [In] in H. destruct H as [ <- |[ <- |[]]]; cbn [m_target]; [left|right]; reflexivity.
Qed.

Lemma seg_edges2_mentions s n e : In e (seg_edges2 s n) -> n = seg1 e \/ n = seg2 e.
Proof.
  intro H. destruct (seg_edges2_in _ _ _ H) as [_ K]. unfold seg_edges2 in H. apply filter_In in H. destruct H as [H _].
  assert (X : exists c, In e (backrefs s n c)).
  { repeat (apply in_app_or in H; destruct H as [H|H]; [eauto|]). eauto. }
  destruct X as [c X]. apply in_backrefs in X. destruct X as [_ [m [Hm [T _]]]].
  destruct (edge_mentions _ _ K Hm) as [A|A]; [left|right]; congruence.
Qed.

Lemma dedup_ids_In l : forall seen e, In e (dedup_ids l seen) -> In e l.
Proof.
  induction l as [|x l IH]; intros seen e H; cbn [dedup_ids] in H; [destruct H|].
  destruct (mem_id (g_id x) seen); [right; exact (IH _ _ H)|].
  destruct H as [ <- | H ]; [left; reflexivity|right; exact (IH _ _ H)].
Qed.

Lemma mem_id_In i l : mem_id i l = true <-> In i l.
Proof.
  unfold mem_id. rewrite existsb_exists. split.
  - intros [x [Hx E]]. apply Nat.eqb_eq in E. subst. exact Hx.
  - intro H. exists i. split; [exact H|apply Nat.eqb_refl].
Qed.

Lemma dedup_ids_complete l : forall seen e, In e l -> ~ In (g_id e) seen ->
  exists e', In e' (dedup_ids l seen) /\ g_id e' = g_id e.
Proof.
  induction l as [|x l IH]; intros seen e H N; [destruct H|]. cbn [dedup_ids].
  destruct (mem_id (g_id x) seen) eqn:M.
  - destruct H as [ <- | H ]; [apply mem_id_In in M; contradiction|exact (IH _ _ H N)].
  - destruct H as [ <- | H ]; [exists x; split; [left; reflexivity|reflexivity]|].
    destruct (Nat.eq_dec (g_id x) (g_id e)) as [E|E]; [exists x; split; [left; reflexivity|exact E]|].
    destruct (IH (g_id x :: seen) e H) as [e' [A B]]; [intros [C|C]; [exact (E C)|exact (N C)]|].
    exists e'. split; [right; exact A|exact B].
Qed.

(* every induced edge is an edge of the graph both of whose segments are induced segments *)
Theorem induced_edges_sound s segs e : In e (induced_edges s segs) ->
  In e (lines s) /\ g_rk e = KE /\ In (seg1 e) segs /\ In (seg2 e) segs.
Proof.
  unfold induced_edges. intro H. apply dedup_ids_In in H. apply in_flat_map in H. destruct H as [n [Hn H]].
  apply filter_In in H. destruct H as [H O]. destruct (seg_edges2_in _ _ _ H) as [L K].
  assert (Ho : In (other_segment e n) segs).
  { unfold in_strs in O. apply existsb_exists in O. destruct O as [z [Hz E]]. apply String.eqb_eq in E. subst z. exact Hz. }
  repeat split; try assumption.
  - destruct (seg_edges2_mentions _ _ _ H) as [ -> | -> ]; [exact Hn|].
    unfold other_segment in Ho. fold (seg1 e) in Ho. fold (seg2 e) in Ho.
    destruct (String.eqb (seg2 e) (seg1 e)) eqn:E; [apply String.eqb_eq in E; rewrite <- E; exact Hn|exact Ho].
  - destruct (seg_edges2_mentions _ _ _ H) as [ -> | -> ]; [|exact Hn].
    unfold other_segment in Ho. fold (seg1 e) in Ho. fold (seg2 e) in Ho. rewrite String.eqb_refl in Ho. exact Ho.
Qed.

(* and every edge of the graph both of whose segments are induced is listed (once per line) *)
Theorem induced_edges_complete s segs e :
  In e (lines s) -> g_rk e = KE -> is_ok (edge_colls (g_pos e)) = true ->
  In (seg1 e) segs -> In (seg2 e) segs ->
  exists e', In e' (induced_edges s segs) /\ g_id e' = g_id e.
Proof.
  intros L K C S1 S2. unfold induced_edges. apply dedup_ids_complete; [|intros []].
  apply in_flat_map. exists (seg1 e). split; [exact S1|]. apply filter_In. split.
  - unfold seg_edges2. apply filter_In. split; [|rewrite K; reflexivity].
    destruct (edge_colls (g_pos e)) as [[c1 c2]|] eqn:EC; [|discriminate].
    assert (Hb : In e (backrefs s (seg1 e) c1)).
    { apply in_backrefs. split; [exact L|]. exists (mkM "sid1" (oname (nth_s 1 (g_pos e))) c1 true).
      split; [unfold mentions; rewrite K, EC; left; reflexivity|split; reflexivity]. }
    assert (R : In c1 edge_colls5).
    { unfold edge_colls in EC. apply rbind_ok in EC. destruct EC as [st1 [_ EC]]. apply rbind_ok in EC.
      destruct EC as [st2 [_ EC]]. injection EC as <- _. apply refkey_range. }
    unfold edge_colls5 in R. cbn [In] in R. rewrite !in_app_iff.
    destruct R as [ <- |[ <- |[ <- |[ <- |[ <- |[]]]]]]; tauto.
  - unfold other_segment. fold (seg1 e). fold (seg2 e). rewrite String.eqb_refl.
    unfold in_strs. apply existsb_exists. exists (seg2 e). split; [exact S2|apply String.eqb_refl].
Qed.

(* ---------------------------------------------------------------- lines sharing one identifier *)
Theorem merge_items old new m : merge_group old new = Ok m ->
  nth_s 1 (g_pos m) = (nth_s 1 (g_pos old) ++ " " ++ nth_s 1 (g_pos new))%string /\ nth_s 0 (g_pos m) = nth_s 0 (g_pos new).
Proof.
  unfold merge_group. destruct (existsb _ (g_tags old)); [discriminate|]. intro H. injection H as <-. cbn.
  destruct (rk_eqb (g_rk old) KO); split; reflexivity.
Qed.

Theorem merge_tags old new m : merge_group old new = Ok m ->
  forall t, In t (g_tags m) <-> In t (g_tags new) \/ (In t (g_tags old) /\ forall u, In u (g_tags new) -> tag_name u <> tag_name t).
Proof.
  unfold merge_group. destruct (existsb _ (g_tags old)); [discriminate|]. intro H. injection H as <-. cbn [g_tags].
  intro t. rewrite in_app_iff, filter_In. split.
  - intros [A|[A B]]; [left; exact A|right]. split; [exact A|]. intros u Hu E.
    apply Bool.negb_true_iff in B. assert (X : existsb (fun u => String.eqb (tag_name u) (tag_name t)) (g_tags new) = true);
      [|congruence]. apply existsb_exists. exists u. split; [exact Hu|]. apply String.eqb_eq. exact E.
  - intros [A|[A B]]; [left; exact A|right]. split; [exact A|]. apply Bool.negb_true_iff.
    destruct (existsb (fun u => String.eqb (tag_name u) (tag_name t)) (g_tags new)) eqn:X; [|reflexivity].
    apply existsb_exists in X. destruct X as [u [Hu E]]. apply String.eqb_eq in E. exfalso. exact (B u Hu E).
Qed.
