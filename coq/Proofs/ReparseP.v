(* Proofs/ReparseP.v — a Gfa equals the Gfa read afresh from its own records (C05): reading the records of a state
   without placeholders into an empty Gfa gives a state with the same records, hence the same back-references and the
   same resolution of every mention. *)
From Coq Require Import List String Ascii ZArith Bool Lia Permutation.
From GfaV Require Import Base.Py Base.Regex Gen.Tables Model.Align Model.Link Model.Codec Model.Line Model.Graph
  Proofs.GraphP Proofs.FrameP Proofs.RealsP Proofs.OrdersBackrefsP.
Import ListNotations.
Open Scope string_scope.
Open Scope list_scope.

Theorem reread_same_records s s' :
  no_placeholder s ->
  guards_all (init_gfa (g_version s) (g_vlevel s)) (lines s) ->
  connect_all (init_gfa (g_version s) (g_vlevel s)) (lines s) = Ok s' ->
  map body (reals s') = map body (reals s).
Proof.
  intros N G E.
  assert (I0 : ids_ok (init_gfa (g_version s) (g_vlevel s))) by (apply (proj1 (inv_init _ _))).
  rewrite (connect_all_reals (lines s) _ s' I0 G E). cbn [app]. rewrite (reals_all s N). reflexivity.
Qed.

Theorem reread_same_backrefs s s' :
  no_placeholder s -> no_placeholder s' ->
  guards_all (init_gfa (g_version s) (g_vlevel s)) (lines s) ->
  connect_all (init_gfa (g_version s) (g_vlevel s)) (lines s) = Ok s' ->
  forall n c, Permutation (map body (backrefs s n c)) (map body (backrefs s' n c)).
Proof.
  intros N N' G E. apply same_records_same_backrefs; try assumption.
  rewrite (reread_same_records s s' N G E). apply Permutation_refl.
Qed.
