(* Proofs/CodecP.v — the field decoders accept exactly the specification's grammar (C04, field level),
   and the decimal spelling used by the writer reads back to the same value (C01/C20). *)
From Coq Require Import List String Ascii ZArith NArith Bool Lia DecimalString DecimalZ DecimalFacts DecimalPos.
From GfaV Require Import Base.Py Base.Regex Gen.Tables Gen.Regexes Gen.K_numarr Model.Align Model.Codec Spec.Grammar.
Import ListNotations.
Open Scope string_scope.

(* the regular expressions read from the source are, term for term, the specification's *)
Lemma gen_is_spec :
  re_field_integer_validate_encoded = g_integer /\
  re_field_float_validate_encoded = g_float /\
  re_field_string_validate_encoded = g_string /\
  re_field_char_validate_encoded = g_char /\
  re_field_byte_array_validate_encoded = g_hex /\
  re_field_numeric_array_validate_encoded = g_numeric_array /\
  re_field_identifier_gfa2_validate_encoded = g_identifier /\
  re_field_identifier_list_gfa2_validate_encoded = g_identifier_list /\
  re_field_optional_identifier_gfa2_validate_encoded = g_identifier /\
  re_field_oriented_identifier_gfa2_validate_encoded = g_oriented_identifier /\
  re_field_oriented_identifier_gfa2_validate_decoded = g_identifier /\
  re_field_oriented_identifier_list_gfa2_validate_encoded = g_oriented_identifier_list2 /\
  re_field_oriented_identifier_list_gfa1_validate_encoded = g_oriented_identifier_list1 /\
  re_field_oriented_identifier_list_gfa1_validate_decoded = g_name1 /\
  re_field_path_name_gfa1_validate_encoded = g_name1 /\
  re_field_segment_name_gfa1_validate_encoded = g_name1 /\
  re_field_segment_name_gfa1_validate_encoded_1 = g_plus_comma /\
  re_field_position_gfa1_validate_encoded = g_position1 /\
  re_field_position_gfa2_validate_encoded = g_position2 /\
  re_field_optional_integer_validate_encoded = g_optional_integer /\
  re_field_sequence_gfa1_validate_encoded = g_sequence1 /\
  re_field_sequence_gfa2_validate_encoded = g_sequence2 /\
  re_alignment_cigar__from_string = g_cigar1 /\
  re_alignment_cigar__from_string_1 = g_cigar2 /\
  re_alignment_cigar__from_string_2 = cigar1_op /\
  re_field_alignment_gfa1_validate_encoded = g_alignment1 /\
  re_field_alignment_list_gfa1_validate_encoded = g_alignment_list1 /\
  re_alignment_trace__from_string = g_trace /\
  re_field_json_validate_all_printable = g_string /\
  re_field_custom_record_type_validate_encoded = g_identifier /\
  re_field_parser__parse_gfa_tag = g_tag /\
  re_line_common_validate__is_valid_custom_tagname = g_tagname /\
  re_oriented_line___validate_line = g_identifier /\
  re_segment_end___validate_segment = g_identifier.
Proof. repeat split; apply re_eqb_eq; vm_compute; reflexivity. Qed.

Lemma even_length_even_len s : even_length s = even_len s.
Proof. reflexivity. Qed.

Lemma m_spec r s : no_newline s = true -> (m r s = true <-> lang r s).
Proof. intros H. unfold m. rewrite py_fullmatch_no_nl by exact H. apply matches_spec. Qed.

(* C04 (field level): for the datatypes whose grammar is a regular expression with side conditions, the
   safe decoder accepts s iff s is in the specification's language.  The hypothesis excludes a
   trailing newline: Python's `$` also matches before it (known finding F23, refuted below). *)
Theorem accepts_iff_grammar O md s :
  In md regex_modules -> no_newline s = true ->
  (accepts_module O md s = true <-> G_field md s).
Proof.
  intros Hin Hnl. destruct gen_is_spec as
    [E1 [E2 [E3 [E4 [E5 [E6 [E7 [E8 [E9 [E10 [E11 [E12 [E13 [E14 [E15 [E16 [E17 [E18 [E19 [E20 [E21 [E22
    [E23 [E24 [E25 [E26 [E27 [E28 [E29 [E30 [E31 [E32 [E33 E34]]]]]]]]]]]]]]]]]]]]]]]]]]]]]]]]].
  unfold regex_modules in Hin. cbn [In] in Hin.
  repeat (destruct Hin as [<-|Hin]); [..|contradiction];
    unfold accepts_module, G_field; cbn [String.eqb Ascii.eqb Bool.eqb];
    rewrite ?E1, ?E2, ?E3, ?E4, ?E5, ?E7, ?E8, ?E9, ?E12, ?E15, ?E18, ?E21, ?E22, ?E27.
  - apply m_spec; exact Hnl.
  - apply m_spec; exact Hnl.
  - apply m_spec; exact Hnl.
  - rewrite Hnl, andb_true_r, andb_true_iff, even_length_even_len, (m_spec _ _ Hnl). reflexivity.
  - apply m_spec; exact Hnl.
  - apply m_spec; exact Hnl.
  - rewrite orb_true_iff, (m_spec _ _ Hnl). split; [intros [H|H]; [|exact H] | auto].
    apply String.eqb_eq in H. subst s. apply matches_spec. reflexivity.
  - apply m_spec; exact Hnl.
  - apply m_spec; exact Hnl.
  - apply m_spec; exact Hnl.
  - rewrite orb_true_iff, (m_spec _ _ Hnl). split; [intros [H|H]; [|exact H] | auto].
    apply String.eqb_eq in H. subst s. apply matches_spec. reflexivity.
  - rewrite orb_true_iff, (m_spec _ _ Hnl). split; [intros [H|H]; [|exact H] | auto].
    apply String.eqb_eq in H. subst s. apply matches_spec. reflexivity.
  - apply m_spec; exact Hnl.
  - rewrite orb_true_iff, !String.eqb_eq. reflexivity.
Qed.

(* floats: the grammar, and the value must not overflow (the oracle tells how Python spells the value) *)
Theorem accepts_float_iff O s :
  no_newline s = true ->
  (accepts_module O "float" s = true <-> lang g_float s /\ finite_spelling (fcanon O s) = true).
Proof.
  intros Hnl. destruct gen_is_spec as [_ [E2 _]]. unfold accepts_module. cbn [String.eqb Ascii.eqb Bool.eqb].
  rewrite E2, andb_true_iff, (m_spec _ _ Hnl). reflexivity.
Qed.

(* F23: without the guard the claim is false — "5" followed by a newline is accepted as an integer *)
Theorem accepts_trailing_newline_refuted :
  exists O s, accepts_module O "integer" s = true /\ ~ G_field "integer" s.
Proof.
  exists (mkOracle (fun s => s) (fun _ => None)), (String "5" (String nl EmptyString)). split; [vm_compute; reflexivity|].
  unfold G_field. cbn [String.eqb Ascii.eqb Bool.eqb]. intros H. apply matches_spec in H. vm_compute in H. discriminate.
Qed.

(* ---------- decimal spelling ---------- *)
Lemma to_int_not_nil z : Z.to_int z <> Decimal.Pos Decimal.Nil /\ Z.to_int z <> Decimal.Neg Decimal.Nil.
Proof.
  destruct z as [|p|p]; cbn; split; try discriminate; intros H; injection H as H;
    pose proof (DecimalPos.Unsigned.to_uint_nonnil p) as G; apply G; exact H.
Qed.

Lemma str_of_Z_not_plus z : forall r, str_of_Z z <> String "+" r.
Proof.
  intros r. unfold str_of_Z. destruct (Z.to_int z) as [d|d] eqn:E; cbn.
  - unfold NilZero.string_of_uint. destruct d; cbn; discriminate.
  - discriminate.
Qed.

Theorem py_int_str_of_Z z : py_int_core (str_of_Z z) = Some z.
Proof.
  unfold py_int_core. destruct (str_of_Z z) as [|a r] eqn:E.
  - unfold str_of_Z in E. destruct (Z.to_int z) as [d|d]; cbn in E; [destruct d; discriminate | discriminate].
  - destruct (Ascii.eqb_spec a "+") as [->|Ha].
    + exfalso. exact (str_of_Z_not_plus z r E).
    + assert (Hm : (match a with "+"%char => option_map (fun d => Z.of_int (Decimal.Pos d)) (NilZero.uint_of_string r)
                    | _ => option_map Z.of_int (NilZero.int_of_string (String a r)) end)
                   = option_map Z.of_int (NilZero.int_of_string (String a r))).
      { destruct a as [[] [] [] [] [] [] [] []]; try reflexivity. exfalso. apply Ha. reflexivity. }
      rewrite Hm. rewrite <- E. unfold str_of_Z.
      destruct (to_int_not_nil z) as [H1 H2]. rewrite NilZero.isi by assumption. cbn. rewrite DecimalZ.of_to. reflexivity.
Qed.
