(* Proofs/GraphP.v — theorems about the reference semantics of the object graph (Model/Graph.v). *)
From Coq Require Import List String Ascii ZArith Bool Lia.
From GfaV Require Import Base.Py Base.Regex Gen.Tables Model.Align Model.Link Model.Codec Model.Line Model.Graph.
Import ListNotations.
Open Scope string_scope.
Open Scope list_scope.

(* ---------- the removal cascade is exactly the dependency closure (C05) ---------- *)
Inductive reach (s : gfa) (x : gl) : gl -> Prop :=
| reach_refl : reach s x x
| reach_step y z : reach s x y -> In z (dependants s y) -> reach s x z.

Lemma mem_id_In i l : mem_id i l = true <-> In i l.
Proof.
  unfold mem_id. rewrite existsb_exists. split.
  - intros [j [Hj E]]. apply Nat.eqb_eq in E. subst. exact Hj.
  - intros H. exists i. split; [exact H | apply Nat.eqb_refl].
Qed.

Lemma rk_eq_dec (a b : rk) : {a = b} + {a <> b}.
Proof. decide equality. Qed.

Lemma gl_eq_dec (a b : gl) : {a = b} + {a <> b}.
Proof.
  decide equality; try apply Bool.bool_dec; try (apply list_eq_dec; apply string_dec); try apply rk_eq_dec; apply Nat.eq_dec.
Qed.

Lemma dependants_in_lines s y z : In z (dependants s y) -> In z (lines s).
Proof.
  unfold dependants. intros H. apply in_app_or in H. destruct H as [H|H].
  - destruct (name_of y); [|contradiction]. apply filter_In in H. tauto.
  - destruct (g_rk y); try contradiction. destruct (in_strs "paths" (dependent_colls KL)); [|contradiction].
    apply filter_In in H. tauto.
Qed.

Lemma reach_in_lines s x y : In x (lines s) -> reach s x y -> In y (lines s).
Proof. intros Hx H. induction H as [|y z _ _ Hz]; [exact Hx | exact (dependants_in_lines s y z Hz)]. Qed.

(* soundness: the worklist only ever holds lines reachable from the start *)
Lemma closure_sound s x : forall fuel todo acc,
  (forall t, In t todo -> reach s x t) ->
  (forall i, In i acc -> exists y, reach s x y /\ g_id y = i) ->
  forall i, In i (closure fuel s todo acc) -> exists y, reach s x y /\ g_id y = i.
Proof.
  induction fuel as [|f IH]; intros todo acc Ht Ha i Hi; cbn [closure] in Hi.
  - apply Ha. exact Hi.
  - destruct todo as [|t r].
    + apply Ha. exact Hi.
    + destruct (mem_id (g_id t) acc) eqn:E.
      * apply (IH r acc); try assumption. intros u Hu. apply Ht. right. exact Hu.
      * apply (IH (r ++ dependants s t) (g_id t :: acc)); try assumption.
        -- intros u Hu. apply in_app_or in Hu. destruct Hu as [Hu|Hu].
           ++ apply Ht. right. exact Hu.
           ++ apply (reach_step s x t u); [apply Ht; left; reflexivity | exact Hu].
        -- intros j Hj. destruct Hj as [<-|Hj]; [exists t; split; [apply Ht; left; reflexivity | reflexivity] | apply Ha; exact Hj].
Qed.

(* completeness: a set that contains the start and is closed under [dependants] contains every reachable line *)
Lemma closed_under_complete s x dead :
  In x (lines s) -> mem_id (g_id x) dead = true -> closed_under s dead = true ->
  forall y, reach s x y -> mem_id (g_id y) dead = true.
Proof.
  intros Hx Hm Hc y H. induction H as [|y z Hy IH Hz]; [exact Hm|].
  unfold closed_under in Hc. rewrite forallb_forall in Hc.
  specialize (Hc y (reach_in_lines s x y Hx Hy)). rewrite IH in Hc. cbn [negb orb] in Hc.
  rewrite forallb_forall in Hc. apply Hc. exact Hz.
Qed.

(* rm deletes a line iff it is the named line or depends on it, directly or transitively; everything else stays,
   unchanged and in its place *)
Theorem disconnect_exact s x s' :
  In x (lines s) -> disconnect s x = Ok s' ->
  lines s' = filter (fun l => negb (mem_id (g_id l) (closure (fuel_for s) s [x] []))) (lines s) /\
  (forall l, In l (lines s) ->
     (mem_id (g_id l) (closure (fuel_for s) s [x] []) = true <-> exists y, reach s x y /\ g_id y = g_id l)).
Proof.
  intros Hx. unfold disconnect.
  destruct (mem_id (g_id x) (closure (fuel_for s) s [x] [])) eqn:Em; cbn [andb]; [|discriminate].
  destruct (closed_under s (closure (fuel_for s) s [x] [])) eqn:Ec; [|discriminate].
  intros H. injection H as <-. cbn [lines]. split; [reflexivity|].
  intros l Hl. split.
  - intros H. apply mem_id_In in H.
    apply (closure_sound s x (fuel_for s) [x] []); try assumption.
    + intros t [<-|[]]. constructor.
    + intros i [].
  - intros [y [Hy E]]. rewrite <- E. apply (closed_under_complete s x _ Hx Em Ec y Hy).
Qed.

Theorem disconnect_keeps_the_rest s x s' l :
  disconnect s x = Ok s' -> In l (lines s') -> In l (lines s).
Proof.
  unfold disconnect. destruct (_ && _); [|discriminate]. intros H. injection H as <-. cbn [lines].
  intros Hl. apply filter_In in Hl. tauto.
Qed.

(* ---------- a failed mutation leaves the state as it was (C08, reference semantics) ---------- *)
Theorem failed_step_changes_nothing O s o e : step O s o = Err e -> fst (apply O s o) = s.
Proof. intros H. unfold apply. rewrite H. reflexivity. Qed.

Theorem successful_step_is_the_step O s o s' : step O s o = Ok s' -> apply O s o = (s', None).
Proof. intros H. unfold apply. rewrite H. reflexivity. Qed.

(* ---------- identifiers are unique in the shared namespace (C09) ---------- *)
Definition ns_name (l : gl) : list string :=
  if in_namespace l then match name_of l with Some n => [n] | None => [] end else [].
Definition ns_names (s : gfa) : list string := flat_map ns_name (lines s).
Definition names_unique (s : gfa) : Prop := NoDup (ns_names s).

Lemma find_named_none s n : find_named s n = None <-> ~ In n (ns_names s).
Proof.
  unfold find_named, ns_names. split.
  - intros H Hin. apply in_flat_map in Hin. destruct Hin as [l [Hl Hn]].
    pose proof (find_none _ _ H l Hl) as F. cbn beta in F. unfold ns_name in Hn.
    destruct (in_namespace l); [|contradiction]. destruct (name_of l) as [m|]; [|contradiction].
    destruct Hn as [<-|[]]. rewrite String.eqb_refl in F. discriminate.
  - intros H. destruct (find _ (lines s)) as [l|] eqn:E; [|reflexivity]. exfalso. apply H.
    apply find_some in E. destruct E as [Hl Hp]. apply andb_true_iff in Hp. destruct Hp as [Hns Hn].
    apply in_flat_map. exists l. split; [exact Hl|]. unfold ns_name. rewrite Hns.
    destruct (name_of l) as [m|]; [|discriminate]. apply String.eqb_eq in Hn. subst. left. reflexivity.
Qed.

Lemma find_named_some s n l : find_named s n = Some l -> In l (lines s) /\ ns_name l = [n].
Proof.
  unfold find_named. intros E. apply find_some in E. destruct E as [Hl Hp]. split; [exact Hl|].
  apply andb_true_iff in Hp. destruct Hp as [Hns Hn]. unfold ns_name. rewrite Hns.
  destruct (name_of l) as [m|]; [|discriminate]. apply String.eqb_eq in Hn. subst. reflexivity.
Qed.

Lemma ns_names_add_raw s l : ns_names (add_raw s l) = ns_names s ++ ns_name l.
Proof. unfold ns_names, add_raw. cbn [lines]. rewrite flat_map_app. cbn. rewrite app_nil_r. reflexivity. Qed.

Lemma NoDup_app_iff {A} (a b : list A) :
  NoDup (a ++ b) <-> NoDup a /\ NoDup b /\ (forall x, In x a -> ~ In x b).
Proof.
  induction a as [|x a IH]; cbn.
  - split; [intros H; repeat split; [constructor | exact H | intros x []] | tauto].
  - rewrite !NoDup_cons_iff, IH, in_app_iff. split.
    + intros [Hn [Ha [Hb Hd]]]. repeat split; try tauto.
      intros y [<-|Hy]; [tauto | apply Hd; exact Hy].
    + intros [[Hn Ha] [Hb Hd]]. repeat split; try assumption.
      * intros [H|H]; [tauto | apply (Hd x); [left; reflexivity | exact H]].
      * intros y Hy. apply Hd. right. exact Hy.
Qed.

Lemma flat_map_filter_incl {A B} (f : A -> list B) (p : A -> bool) l x :
  In x (flat_map f (filter p l)) -> In x (flat_map f l).
Proof.
  rewrite !in_flat_map. intros [y [Hy Hx]]. apply filter_In in Hy. exists y. tauto.
Qed.

Lemma NoDup_flat_map_filter {A B} (f : A -> list B) (p : A -> bool) l :
  NoDup (flat_map f l) -> NoDup (flat_map f (filter p l)).
Proof.
  induction l as [|x l IH]; cbn; [auto|]. intros H. apply NoDup_app_iff in H. destruct H as [Hx [Hl Hd]].
  destruct (p x); cbn; [|apply IH; exact Hl].
  apply NoDup_app_iff. repeat split; [exact Hx | apply IH; exact Hl|].
  intros y Hy Hin. apply (Hd y Hy). apply (flat_map_filter_incl f p l y Hin).
Qed.

Lemma names_unique_remove s i : names_unique s -> names_unique (remove_id s i).
Proof. unfold names_unique, ns_names, remove_id. cbn [lines]. apply NoDup_flat_map_filter. Qed.

(* once the only holder of a name is removed, the name is free *)
Lemma removed_name_is_free s prev n :
  names_unique s -> In prev (lines s) -> ns_name prev = [n] -> ~ In n (ns_names (remove_id s (g_id prev))).
Proof.
  unfold names_unique, ns_names, remove_id. cbn [lines]. intros Hu Hin Hn.
  induction (lines s) as [|x l IH]; [contradiction|]. cbn [flat_map] in Hu. apply NoDup_app_iff in Hu.
  destruct Hu as [Hx [Hl Hd]]. cbn [filter]. destruct Hin as [->|Hin].
  - rewrite Nat.eqb_refl. cbn [negb]. intros H. apply flat_map_filter_incl in H.
    apply (Hd n); [rewrite Hn; left; reflexivity | exact H].
  - destruct (Nat.eqb (g_id x) (g_id prev)); cbn [negb flat_map].
    + apply IH; assumption.
    + intros H. apply in_app_or in H. destruct H as [H|H]; [|apply IH; assumption].
      apply (Hd n H). apply in_flat_map. exists prev. split; [exact Hin | rewrite Hn; left; reflexivity].
Qed.

Lemma names_unique_add s l :
  names_unique s -> NoDup (ns_name l) -> (forall n, In n (ns_name l) -> ~ In n (ns_names s)) ->
  names_unique (add_raw s l).
Proof.
  unfold names_unique. intros Hs Hl Hd. rewrite ns_names_add_raw. apply NoDup_app_iff. repeat split; try assumption.
  intros x Hx Hx'. exact (Hd x Hx' Hx).
Qed.

Lemma ns_name_nodup l : NoDup (ns_name l).
Proof. unfold ns_name. destruct (in_namespace l); [|constructor]. destruct (name_of l); repeat constructor. intros []. Qed.

Lemma names_unique_add_unnamed s l : names_unique s -> ns_name l = [] -> names_unique (add_raw s l).
Proof. intros Hs Hl. apply names_unique_add; [exact Hs | apply ns_name_nodup | rewrite Hl; intros n []]. Qed.

Lemma names_unique_add_fresh s l n :
  names_unique s -> ns_name l = [n] -> find_named s n = None -> names_unique (add_raw s l).
Proof.
  intros Hs Hl Hf. apply names_unique_add; [exact Hs | apply ns_name_nodup|].
  rewrite Hl. intros m [<-|[]]. apply find_named_none. exact Hf.
Qed.

Lemma ns_name_virtual_segment s n : ns_name (mk_virtual_segment s n) = [n].
Proof. unfold mk_virtual_segment. destruct (String.eqb (g_version s) "gfa1"); reflexivity. Qed.

Lemma find_named_after_remove s prev n :
  names_unique s -> find_named s n = Some prev -> find_named (remove_id s (g_id prev)) n = None.
Proof.
  intros Hu Hf. apply find_named_some in Hf. destruct Hf as [Hin Hn].
  apply find_named_none. apply removed_name_is_free; assumption.
Qed.

Lemma ensure_target_names r m s' :
  (forall s, r = Ok s -> names_unique s) -> ensure_target r m = Ok s' -> names_unique s'.
Proof.
  intros Hr. unfold ensure_target. destruct r as [s|e]; cbn [rbind]; [|discriminate].
  specialize (Hr s eq_refl). destruct (m_seg m).
  - destruct (find_segment s (m_target m)); [intros H; injection H as <-; exact Hr|].
    destruct (find_named s (m_target m)) as [prev|] eqn:Ef.
    + destruct (g_virtual prev); [|discriminate]. intros H. injection H as <-.
      apply (names_unique_add_fresh _ _ (m_target m)).
      * apply names_unique_remove. exact Hr.
      * apply ns_name_virtual_segment.
      * apply find_named_after_remove; assumption.
    + intros H. injection H as <-. apply (names_unique_add_fresh _ _ (m_target m)); [exact Hr | apply ns_name_virtual_segment | exact Ef].
  - destruct (find_named s (m_target m)) eqn:Ef; intros H; injection H as <-; [exact Hr|].
    unfold fresh. apply (names_unique_add_fresh _ _ (m_target m)); [exact Hr | reflexivity | exact Ef].
Qed.

Lemma ensure_targets_names ms : forall r s',
  (forall s, r = Ok s -> names_unique s) -> fold_left ensure_target ms r = Ok s' -> names_unique s'.
Proof.
  induction ms as [|m ms IH]; intros r s' Hr H; cbn [fold_left] in H.
  - apply Hr. exact H.
  - apply (IH (ensure_target r m) s'); [|exact H]. intros s Hs. apply (ensure_target_names r m s Hr Hs).
Qed.

Lemma ensure_step_names r st s' :
  (forall s, r = Ok s -> names_unique s) -> ensure_step r st = Ok s' -> names_unique s'.
Proof.
  intros Hr. unfold ensure_step. destruct r as [s|e]; cbn [rbind]; [|discriminate].
  specialize (Hr s eq_refl). destruct st as [[a b] ov].
  match goal with |- context [match ?c with Some _ => Ok s | None => _ end] => destruct c end;
    [intros H; injection H as <-; exact Hr|].
  unfold ensure_targets.
  match goal with |- context [fold_left ensure_target ?ms (Ok s)] =>
    destruct (fold_left ensure_target ms (Ok s)) as [s1|e] eqn:E1 end; cbn [rbind]; [|discriminate].
  intros H. injection H as <-. apply names_unique_add_unnamed; [|reflexivity].
  eapply (ensure_targets_names _ (Ok s) s1); [|exact E1]. intros s0 H0. injection H0 as <-. exact Hr.
Qed.

Lemma ensure_steps_names sts : forall r s',
  (forall s, r = Ok s -> names_unique s) -> fold_left ensure_step sts r = Ok s' -> names_unique s'.
Proof.
  induction sts as [|st sts IH]; intros r s' Hr H; cbn [fold_left] in H.
  - apply Hr. exact H.
  - apply (IH (ensure_step r st) s'); [|exact H]. intros s Hs. apply (ensure_step_names r st s Hr Hs).
Qed.

(* ---- a name that no mention targets stays free while placeholders are created ---- *)
Definition free (s : gfa) (n : string) : Prop := ~ In n (ns_names s).

Lemma free_add_raw s l n : free s n -> ~ In n (ns_name l) -> free (add_raw s l) n.
Proof. unfold free. rewrite ns_names_add_raw, in_app_iff. tauto. Qed.

Lemma free_remove s i n : free s n -> free (remove_id s i) n.
Proof. unfold free, ns_names, remove_id. cbn [lines]. intros H Hin. apply H. apply (flat_map_filter_incl _ _ _ _ Hin). Qed.

Lemma ensure_target_free s m s' n :
  free s n -> m_target m <> n -> ensure_target (Ok s) m = Ok s' -> free s' n.
Proof.
  intros Hf Hn. unfold ensure_target. cbn [rbind]. destruct (m_seg m).
  - destruct (find_segment s (m_target m)); [intros H; injection H as <-; exact Hf|].
    destruct (find_named s (m_target m)) as [prev|].
    + destruct (g_virtual prev); [|discriminate]. intros H. injection H as <-.
      apply free_add_raw; [apply free_remove; exact Hf|]. rewrite ns_name_virtual_segment. intros [E|[]]. congruence.
    + intros H. injection H as <-. apply free_add_raw; [exact Hf|]. rewrite ns_name_virtual_segment. intros [E|[]]. congruence.
  - destruct (find_named s (m_target m)); intros H; injection H as <-; [exact Hf|].
    unfold fresh. apply free_add_raw; [exact Hf|]. intros [E|[]]. cbn in E. congruence.
Qed.

Lemma ensure_targets_free ms : forall s s' n,
  free s n -> (forall m, In m ms -> m_target m <> n) -> fold_left ensure_target ms (Ok s) = Ok s' -> free s' n.
Proof.
  induction ms as [|m ms IH]; intros s s' n Hf Hn H; cbn [fold_left] in H.
  - injection H as <-. exact Hf.
  - destruct (ensure_target (Ok s) m) as [s1|e] eqn:E1.
    + apply (IH s1 s' n); [|intros m' Hm'; apply Hn; right; exact Hm' | exact H].
      apply (ensure_target_free s m s1 n Hf); [apply Hn; left; reflexivity | exact E1].
    + exfalso. clear -H. induction ms as [|m' ms IHm]; cbn in H; [discriminate | apply IHm; exact H].
Qed.

Lemma fold_ensure_target_err ms e : fold_left ensure_target ms (Err e) = Err e.
Proof. induction ms as [|m ms IH]; cbn; [reflexivity | exact IH]. Qed.

Lemma fold_ensure_step_err sts e : fold_left ensure_step sts (Err e) = Err e.
Proof. induction sts as [|m ms IH]; cbn; [reflexivity | exact IH]. Qed.

Lemma ensure_step_free s st s' n :
  free s n -> fst (fst (fst st)) <> n -> fst (snd (fst st)) <> n -> ensure_step (Ok s) st = Ok s' -> free s' n.
Proof.
  intros Hf Ha Hb. unfold ensure_step. cbn [rbind]. destruct st as [[a b] ov]. cbn [fst snd] in Ha, Hb.
  match goal with |- context [match ?c with Some _ => Ok s | None => _ end] => destruct c end;
    [intros H; injection H as <-; exact Hf|].
  unfold ensure_targets.
  match goal with |- context [fold_left ensure_target ?ms (Ok s)] =>
    destruct (fold_left ensure_target ms (Ok s)) as [s1|e] eqn:E1 end; cbn [rbind]; [|discriminate].
  intros H. injection H as <-. apply free_add_raw; [|intros []].
  eapply (ensure_targets_free _ s s1 n Hf); [|exact E1].
  cbn [mentions g_rk g_pos nth_s nth]. intros m [<-|[<-|[]]]; cbn [m_target]; assumption.
Qed.

Lemma ensure_steps_free sts : forall s s' n,
  free s n -> (forall st, In st sts -> fst (fst (fst st)) <> n /\ fst (snd (fst st)) <> n) ->
  fold_left ensure_step sts (Ok s) = Ok s' -> free s' n.
Proof.
  induction sts as [|st sts IH]; intros s s' n Hf Hn H; cbn [fold_left] in H.
  - injection H as <-. exact Hf.
  - destruct (ensure_step (Ok s) st) as [s1|e] eqn:E1.
    + apply (IH s1 s' n); [|intros st' Hst'; apply Hn; right; exact Hst' | exact H].
      destruct (Hn st (or_introl eq_refl)) as [Ha Hb]. apply (ensure_step_free s st s1 n Hf Ha Hb E1).
    + rewrite fold_ensure_step_err in H. discriminate.
Qed.

(* guard: the line does not mention its own identifier (a group listing itself, an edge named like its segment);
   without it gfapy files a placeholder and the line under one identifier — see C09_self_mention_refuted *)
Definition no_self_mention (l : gl) : Prop :=
  forall n, In n (ns_name l) ->
    (forall m, In m (mentions l) -> m_target m <> n) /\
    (forall st, In st (path_steps (g_pos l)) -> fst (fst (fst st)) <> n /\ fst (snd (fst st)) <> n).

Lemma ns_name_copy l i : ns_name (mkGl i (g_rk l) (g_pos l) (g_tags l) false) = ns_name l.
Proof. reflexivity. Qed.

Lemma place_names s l s' :
  names_unique s -> no_self_mention l -> (forall n, In n (ns_name l) -> free s n) ->
  place s l = Ok s' -> names_unique s'.
Proof.
  intros Hu Hself Hfree. unfold place.
  destruct (match g_rk l with KP => fold_left ensure_step (path_steps (g_pos l)) (Ok s) | _ => Ok s end) as [s1|e] eqn:E1;
    cbn [rbind]; [|discriminate].
  unfold ensure_targets. destruct (fold_left ensure_target (mentions l) (Ok s1)) as [s2|e] eqn:E2; cbn [rbind]; [|discriminate].
  intros H. injection H as <-.
  assert (U1 : names_unique s1).
  { destruct (g_rk l); try (injection E1 as <-; exact Hu).
    eapply (ensure_steps_names _ (Ok s) s1); [|exact E1]. intros s0 H0. injection H0 as <-. exact Hu. }
  assert (F1 : forall n, In n (ns_name l) -> free s1 n).
  { intros n Hn. destruct (g_rk l) eqn:Ek; try (injection E1 as <-; apply Hfree; exact Hn).
    eapply (ensure_steps_free _ s s1 n (Hfree n Hn)); [|exact E1]. apply (proj2 (Hself n Hn)). }
  assert (U2 : names_unique s2).
  { eapply (ensure_targets_names _ (Ok s1) s2); [|exact E2]. intros s0 H0. injection H0 as <-. exact U1. }
  assert (F2 : forall n, In n (ns_name l) -> free s2 n).
  { intros n Hn. eapply (ensure_targets_free _ s1 s2 n (F1 n Hn)); [|exact E2]. apply (proj1 (Hself n Hn)). }
  apply names_unique_add; [exact U2 | rewrite ns_name_copy; apply ns_name_nodup|].
  rewrite ns_name_copy. exact F2.
Qed.

Lemma ns_name_link l : g_rk l = KL -> ns_name l = [].
Proof. intros H. unfold ns_name, in_namespace. rewrite H. reflexivity. Qed.

Lemma duplicate_none s l : duplicate_of s l = None -> forall n, In n (ns_name l) -> free s n.
Proof.
  unfold duplicate_of. intros H n Hn. destruct (g_rk l) eqn:Ek;
    try (unfold ns_name in Hn; destruct (in_namespace l); [|contradiction]; destruct (name_of l) as [m|]; [|contradiction];
         destruct Hn as [<-|[]]; apply find_named_none; exact H).
  rewrite (ns_name_link l Ek) in Hn. contradiction.
Qed.

Lemma duplicate_some s l prev : duplicate_of s l = Some prev ->
  (g_rk l = KL /\ ns_name l = []) \/ (exists n, ns_name l = [n] /\ find_named s n = Some prev).
Proof.
  unfold duplicate_of. intros H. destruct (g_rk l) eqn:Ek;
    try (right; unfold ns_name; destruct (in_namespace l); [|discriminate]; destruct (name_of l) as [m|]; [|discriminate];
         exists m; split; [reflexivity | exact H]).
  left. split; [reflexivity | apply ns_name_link; exact Ek].
Qed.

Lemma merge_group_name prev l m : merge_group prev l = Ok m -> g_rk m = g_rk l /\ nth_s 0 (g_pos m) = nth_s 0 (g_pos l).
Proof.
  unfold merge_group. destruct (existsb _ (g_tags prev)); [discriminate|]. intros H. injection H as <-. split; reflexivity.
Qed.

Lemma merge_group_ns_name prev l m : merge_group prev l = Ok m -> (g_rk l = KO \/ g_rk l = KU) -> ns_name m = ns_name l.
Proof.
  intros H Hk. destruct (merge_group_name prev l m H) as [Ek En]. unfold ns_name, in_namespace, name_of.
  rewrite Ek, En. destruct Hk as [->| ->]; reflexivity.
Qed.

Theorem connect_names s l s' :
  names_unique s -> no_self_mention l ->
  (forall prev m, merge_group prev l = Ok m -> no_self_mention m) ->
  connect s l = Ok s' -> names_unique s'.
Proof.
  intros Hu Hself Hmerge. unfold connect.
  destruct (match g_rk l with KE => rmap (fun _ => tt) (edge_colls (g_pos l)) | _ => Ok tt end); cbn [rbind]; [|discriminate].
  destruct (duplicate_of s l) as [prev|] eqn:Ed.
  - assert (Hfree : forall n, In n (ns_name l) -> free (remove_id s (g_id prev)) n).
    { intros n Hn. destruct (duplicate_some s l prev Ed) as [[_ E]|[n' [E Hf]]]; rewrite E in Hn; [contradiction|].
      destruct Hn as [<-|[]]. apply find_named_none. apply find_named_after_remove; assumption. }
    destruct (g_virtual prev).
    + intros H. apply (place_names _ l s' (names_unique_remove s (g_id prev) Hu) Hself Hfree H).
    + destruct (g_rk l) eqn:Ek; try discriminate.
      * destruct (is_complement _ _); [intros H; injection H as <-; exact Hu | discriminate].
      * destruct (rk_eqb (g_rk prev) KO); [|discriminate].
        destruct (merge_group prev l) as [m|e] eqn:Em; cbn [rbind]; [|discriminate].
        intros H. apply (place_names _ m s' (names_unique_remove s (g_id prev) Hu) (Hmerge prev m Em)); [|exact H].
        rewrite (merge_group_ns_name prev l m Em (or_introl Ek)). exact Hfree.
      * destruct (rk_eqb (g_rk prev) KU); [|discriminate].
        destruct (merge_group prev l) as [m|e] eqn:Em; cbn [rbind]; [|discriminate].
        intros H. apply (place_names _ m s' (names_unique_remove s (g_id prev) Hu) (Hmerge prev m Em)); [|exact H].
        rewrite (merge_group_ns_name prev l m Em (or_intror Ek)). exact Hfree.
  - intros H. apply (place_names s l s' Hu Hself (duplicate_none s l Ed) H).
Qed.

(* removal and renaming *)
Theorem rm_names s n s' : names_unique s -> rm s n = Ok s' -> names_unique s'.
Proof.
  intros Hu. unfold rm. destruct (is_star n); [discriminate|]. destruct (find_named s n) as [x|]; [|discriminate].
  unfold disconnect. destruct (_ && _); [|discriminate]. intros H. injection H as <-.
  unfold names_unique, ns_names. cbn [lines]. apply NoDup_flat_map_filter. exact Hu.
Qed.

Lemma ns_name_rename_in l old new :
  ns_name (mkGl (g_id l) (g_rk l) (rename_in (g_rk l) old new (g_pos l)) (g_tags l) (g_virtual l)) = ns_name l.
Proof. destruct l as [i k p t v]. destruct k; reflexivity. Qed.

Lemma ns_names_map_rename ls old new :
  flat_map ns_name (map (fun l => mkGl (g_id l) (g_rk l) (rename_in (g_rk l) old new (g_pos l)) (g_tags l) (g_virtual l)) ls)
  = flat_map ns_name ls.
Proof. induction ls as [|l ls IH]; cbn; [reflexivity|]. rewrite ns_name_rename_in, IH. reflexivity. Qed.

Lemma ns_name_renamed x new n :
  In n (ns_name (mkGl (g_id x) (g_rk x) (new :: skipn 1 (g_pos x)) (g_tags x) (g_virtual x))) ->
  n = new \/ In n (ns_name x).
Proof.
  destruct x as [i k p t v]. unfold ns_name, in_namespace, name_of. cbn [g_rk g_pos g_tags nth_s nth].
  destruct k; cbn; try tauto; try (intros [<-|[]]; auto);
    try (destruct (is_star new); cbn; [tauto | intros [<-|[]]; auto]).
Qed.

Theorem rename_names s old new s' : names_unique s -> rename s old new = Ok s' -> names_unique s'.
Proof.
  intros Hu. unfold rename. destruct (find_named s old) as [x|] eqn:Ex; [|discriminate].
  destruct (negb _ && _); [discriminate|]. destruct (Nat.leb 1 (g_vlevel s) && _); [discriminate|].
  destruct (find_named s new) as [y|] eqn:Ey.
  - destruct (Nat.eqb (g_id y) (g_id x)); [intros H; injection H as <-; exact Hu | discriminate].
  - intros H. injection H as <-. unfold names_unique, ns_names. cbn [lines]. rewrite flat_map_app, ns_names_map_rename.
    cbn [flat_map]. rewrite app_nil_r. apply NoDup_app_iff. repeat split.
    + apply NoDup_flat_map_filter. exact Hu.
    + apply ns_name_nodup.
    + intros n Hn Hn'. apply ns_name_renamed in Hn'. apply flat_map_filter_incl in Hn as Hn0.
      destruct Hn' as [->|Hx].
      * apply find_named_none in Ey. apply Ey. exact Hn0.
      * (* n is the old name of x: x is the only holder and it was filtered out *)
        apply find_named_some in Ex. destruct Ex as [Hin Hname].
        assert (Hnx : ns_name x = [n]).
        { rewrite Hname in Hx. destruct Hx as [<-|[]]. exact Hname. }
        pose proof (removed_name_is_free s x n Hu Hin Hnx) as F. apply F.
        unfold ns_names, remove_id. cbn [lines]. exact Hn.
Qed.

(* guard on the text being added: it does not mention its own identifier (nor does the merged group) *)
Definition add_guard (O : oracle) (s : gfa) (text : string) : Prop :=
  forall l, (match text with
             | String "S" _ => parse_line O (g_vlevel s) None text
             | _ => parse_line O (g_vlevel s) (Some (g_version s)) text
             end) = Ok l ->
    no_self_mention (gl_of_line O 0 l) /\
    (forall prev m, merge_group prev (gl_of_line O 0 l) = Ok m -> no_self_mention m).

Theorem rm_line_names s t s' : names_unique s -> rm_line s t = Ok s' -> names_unique s'.
Proof.
  intros Hu. unfold rm_line. destruct (find _ (lines s)) as [x|]; [|discriminate].
  unfold disconnect. destruct (_ && _); [|discriminate]. intros H. injection H as <-.
  unfold names_unique, ns_names. cbn [lines]. apply NoDup_flat_map_filter. exact Hu.
Qed.

Definition op_guard (O : oracle) (s : gfa) (o : op) : Prop :=
  match o with OAdd t => add_guard O s t | _ => True end.

Theorem step_names O s o s' :
  names_unique s -> op_guard O s o -> step O s o = Ok s' -> names_unique s'.
Proof.
  intros Hu Hg. destruct o as [t|n|a b|t]; cbn [step]; [| | |apply rm_line_names; exact Hu].
  - unfold add_line. destruct (String.eqb t ""); [intros H; injection H as <-; exact Hu|].
    cbn [op_guard] in Hg. unfold add_guard in Hg.
    match goal with |- context [rbind ?p _] => destruct p as [l|e] eqn:Ep end; cbn [rbind]; [|discriminate].
    destruct (Hg l eq_refl) as [G1 G2].
    destruct (negb _); [discriminate|].
    destruct (rk_of_class (rc_name (ln_class l))); try (intros H; apply (connect_names s _ s' Hu G1 G2 H)).
    intros H. injection H as <-. exact Hu.
  - apply rm_names. exact Hu.
  - apply rename_names. exact Hu.
Qed.

(* every state reached by a history of operations (failed ones change nothing) has unique identifiers *)
Fixpoint run_ops (O : oracle) (s : gfa) (ops : list op) : gfa :=
  match ops with [] => s | o :: r => run_ops O (fst (apply O s o)) r end.

Fixpoint guards_hold (O : oracle) (s : gfa) (ops : list op) : Prop :=
  match ops with [] => True | o :: r => op_guard O s o /\ guards_hold O (fst (apply O s o)) r end.

Theorem names_unique_reachable O : forall ops s,
  names_unique s -> guards_hold O s ops -> names_unique (run_ops O s ops).
Proof.
  induction ops as [|o ops IH]; intros s Hu Hg; cbn [run_ops]; [exact Hu|].
  destruct Hg as [G1 G2]. apply IH; [|exact G2].
  unfold apply. destruct (step O s o) as [s1|e] eqn:E; cbn [fst]; [|exact Hu].
  apply (step_names O s o s1 Hu G1 E).
Qed.

Lemma names_unique_init v vl : names_unique (init_gfa v vl).
Proof. constructor. Qed.

(* lookup returns exactly the line that carries the identifier, and nothing for an unused one *)
Theorem lookup_coherent s n :
  names_unique s ->
  (forall l, find_named s n = Some l -> In l (lines s) /\ ns_name l = [n]) /\
  (find_named s n = None <-> ~ In n (ns_names s)) /\
  (forall l l', In l (lines s) -> In l' (lines s) -> ns_name l = [n] -> ns_name l' = [n] -> g_id l = g_id l' \/ l = l').
Proof.
  intros Hu. split; [intros l; apply find_named_some | split; [apply find_named_none|]].
  intros l l' Hl Hl' Hn Hn'. right. unfold names_unique, ns_names in Hu.
  induction (lines s) as [|x ls IH]; [contradiction|]. cbn [flat_map] in Hu. apply NoDup_app_iff in Hu.
  destruct Hu as [Hx [Hls Hd]]. destruct Hl as [->|Hl], Hl' as [->|Hl'].
  - reflexivity.
  - exfalso. apply (Hd n); [rewrite Hn; left; reflexivity|]. apply in_flat_map. exists l'. split; [exact Hl' | rewrite Hn'; left; reflexivity].
  - exfalso. apply (Hd n); [rewrite Hn'; left; reflexivity|]. apply in_flat_map. exists l. split; [exact Hl | rewrite Hn; left; reflexivity].
  - apply IH; assumption.
Qed.

(* ---------- the reference graph is closed (C02) ---------- *)
Definition resolves (s : gfa) (m : mention) : Prop :=
  if m_seg m then find_segment s (m_target m) <> None else find_named s (m_target m) <> None.

Definition closed (s : gfa) : Prop :=
  forall l, In l (lines s) -> forall m, In m (mentions l) -> resolves s m.

Lemma find_exists {A} (p : A -> bool) l x : In x l -> p x = true -> find p l <> None.
Proof.
  induction l as [|y l IH]; [contradiction|]. intros [->|H] Hp; cbn.
  - rewrite Hp. discriminate.
  - destruct (p y); [discriminate | apply IH; assumption].
Qed.

Lemma find_not_none {A} (p : A -> bool) l : find p l <> None -> exists x, In x l /\ p x = true.
Proof.
  destruct (find p l) as [x|] eqn:E; [|congruence]. intros _. apply find_some in E. exists x. exact E.
Qed.

Definition seg_pred (n : string) (l : gl) : bool := is_segment l && String.eqb (nth_s 0 (g_pos l)) n.
Definition named_pred (n : string) (l : gl) : bool :=
  in_namespace l && match name_of l with Some m => String.eqb m n | None => false end.

Lemma find_segment_eq s n : find_segment s n = find (seg_pred n) (lines s). Proof. reflexivity. Qed.
Lemma find_named_eq s n : find_named s n = find (named_pred n) (lines s). Proof. reflexivity. Qed.

(* resolution only depends on which lines exist *)
Lemma resolves_incl s s' m :
  (forall l, In l (lines s) -> In l (lines s')) -> resolves s m -> resolves s' m.
Proof.
  intros Hincl. unfold resolves. destruct (m_seg m).
  - rewrite !find_segment_eq. intros H. apply find_not_none in H. destruct H as [x [Hx Hp]].
    apply (find_exists _ _ x (Hincl x Hx) Hp).
  - rewrite !find_named_eq. intros H. apply find_not_none in H. destruct H as [x [Hx Hp]].
    apply (find_exists _ _ x (Hincl x Hx) Hp).
Qed.











(* resolution as a property of a list of lines; [closed_with s extra] : closed once [extra] is added *)
Definition pred_of (m : mention) : gl -> bool :=
  if m_seg m then seg_pred (m_target m) else named_pred (m_target m).

Definition rl (ls : list gl) (m : mention) : Prop := exists x, In x ls /\ pred_of m x = true.

Lemma resolves_rl s m : resolves s m <-> rl (lines s) m.
Proof.
  unfold resolves, rl, pred_of. destruct (m_seg m); rewrite ?find_segment_eq, ?find_named_eq;
    (split; [apply find_not_none | intros [x [Hx Hp]]; apply (find_exists _ _ x Hx Hp)]).
Qed.

Definition closed_with (s : gfa) (extra : list gl) : Prop :=
  forall l, In l (lines s) -> forall m, In m (mentions l) -> rl (lines s ++ extra) m.

Lemma closed_closed_with s : closed s <-> closed_with s [].
Proof.
  unfold closed, closed_with. split; intros H l Hl m Hm; specialize (H l Hl m Hm).
  - rewrite app_nil_r. apply resolves_rl. exact H.
  - apply resolves_rl. rewrite app_nil_r in H. exact H.
Qed.

(* [y] answers for every identifier [x] answers for *)
Definition takes_over (x y : gl) : Prop :=
  forall n, (named_pred n x = true -> named_pred n y = true) /\ (seg_pred n x = true -> seg_pred n y = true).

Lemma takes_over_refl x : takes_over x x. Proof. intros n. tauto. Qed.

Definition covers (ls ls' : list gl) : Prop := forall x, In x ls -> exists y, In y ls' /\ takes_over x y.

Lemma covers_incl ls ls' : (forall x, In x ls -> In x ls') -> covers ls ls'.
Proof. intros H x Hx. exists x. split; [apply H; exact Hx | apply takes_over_refl]. Qed.

Lemma covers_app ls ls' extra : covers ls ls' -> covers (ls ++ extra) (ls' ++ extra).
Proof.
  intros H x Hx. apply in_app_or in Hx. destruct Hx as [Hx|Hx].
  - destruct (H x Hx) as [y [Hy Ht]]. exists y. split; [apply in_or_app; left; exact Hy | exact Ht].
  - exists x. split; [apply in_or_app; right; exact Hx | apply takes_over_refl].
Qed.

Lemma covers_trans a b c : covers a b -> covers b c -> covers a c.
Proof.
  intros H1 H2 x Hx. destruct (H1 x Hx) as [y [Hy T1]]. destruct (H2 y Hy) as [z [Hz T2]].
  exists z. split; [exact Hz|]. intros n. destruct (T1 n), (T2 n). tauto.
Qed.

Lemma rl_covers ls ls' m : covers ls ls' -> rl ls m -> rl ls' m.
Proof.
  intros Hc [x [Hx Hp]]. destruct (Hc x Hx) as [y [Hy Ht]]. exists y. split; [exact Hy|].
  unfold pred_of in *. destruct (m_seg m); [apply (proj2 (Ht _)) | apply (proj1 (Ht _))]; exact Hp.
Qed.

(* the generic step: the new state covers the old one and the lines it adds have their mentions resolved *)
Lemma closed_with_step s s' extra :
  closed_with s extra -> covers (lines s) (lines s') ->
  (forall x, In x (lines s') -> In x (lines s) \/ (forall m, In m (mentions x) -> rl (lines s' ++ extra) m)) ->
  closed_with s' extra.
Proof.
  intros Hc Hcov Hnew x Hx m Hm. destruct (Hnew x Hx) as [Hold|Hres]; [|apply Hres; exact Hm].
  apply (rl_covers (lines s ++ extra)); [apply covers_app; exact Hcov | apply (Hc x Hold m Hm)].
Qed.

Lemma mentions_virtual_segment s n : mentions (mk_virtual_segment s n) = [].
Proof. unfold mk_virtual_segment. destruct (String.eqb (g_version s) "gfa1"); reflexivity. Qed.

Lemma seg_pred_virtual_segment s n : seg_pred n (mk_virtual_segment s n) = true.
Proof. unfold mk_virtual_segment, seg_pred. destruct (String.eqb (g_version s) "gfa1"); cbn; apply String.eqb_refl. Qed.

Lemma named_pred_virtual_segment s n : named_pred n (mk_virtual_segment s n) = true.
Proof. unfold mk_virtual_segment, named_pred. destruct (String.eqb (g_version s) "gfa1"); cbn; apply String.eqb_refl. Qed.

Lemma id_virtual_segment s n : g_id (mk_virtual_segment s n) = next_id s.
Proof. unfold mk_virtual_segment. destruct (String.eqb (g_version s) "gfa1"); reflexivity. Qed.

Lemma seg_pred_named l n : seg_pred n l = true -> named_pred n l = true.
Proof.
  unfold seg_pred, named_pred, is_segment, in_namespace, name_of. destruct (g_rk l); cbn; try discriminate; auto.
Qed.

Lemma named_pred_unique_name l n n' : named_pred n l = true -> named_pred n' l = true -> n' = n.
Proof.
  unfold named_pred. destruct (in_namespace l); [|discriminate]. destruct (name_of l) as [x|]; [|discriminate].
  cbn. intros H1 H2. apply String.eqb_eq in H1. apply String.eqb_eq in H2. congruence.
Qed.

(* ---- identities ---- *)
Definition ids_ok (s : gfa) : Prop :=
  NoDup (map g_id (lines s)) /\ (forall l, In l (lines s) -> g_id l < next_id s).

Lemma ids_ok_add_raw s l : ids_ok s -> g_id l = next_id s -> ids_ok (add_raw s l).
Proof.
  intros [Hn Hb] Hid. unfold ids_ok, add_raw. cbn [lines next_id]. split.
  - rewrite map_app. apply NoDup_app_iff. repeat split; [exact Hn | cbn; repeat constructor; intros [] |].
    intros i Hi [<-|[]]. apply in_map_iff in Hi. destruct Hi as [x [Ex Hx]]. specialize (Hb x Hx). lia.
  - intros x Hx. apply in_app_or in Hx. destruct Hx as [Hx|[<-|[]]]; [specialize (Hb x Hx); lia | lia].
Qed.

Lemma ids_ok_remove s i : ids_ok s -> ids_ok (remove_id s i).
Proof.
  intros [Hn Hb]. unfold ids_ok, remove_id. cbn [lines next_id]. split.
  - clear Hb. induction (lines s) as [|x l IH]; cbn; [constructor|]. cbn in Hn. apply NoDup_cons_iff in Hn. destruct Hn as [Hx Hl].
    destruct (negb (Nat.eqb (g_id x) i)); cbn; [|apply IH; exact Hl].
    constructor; [|apply IH; exact Hl]. intros H. apply Hx. apply in_map_iff in H. destruct H as [y [Ey Hy]].
    apply filter_In in Hy. apply in_map_iff. exists y. tauto.
  - intros x Hx. apply filter_In in Hx. apply Hb. tauto.
Qed.

Lemma same_id_same_line s x y : ids_ok s -> In x (lines s) -> In y (lines s) -> g_id x = g_id y -> x = y.
Proof.
  intros [Hn _]. induction (lines s) as [|z l IH]; [contradiction|]. cbn in Hn. apply NoDup_cons_iff in Hn.
  destruct Hn as [Hz Hl]. intros [->|Hx] [->|Hy] E; try reflexivity.
  - exfalso. apply Hz. rewrite E. apply in_map. exact Hy.
  - exfalso. apply Hz. rewrite <- E. apply in_map. exact Hx.
  - apply IH; assumption.
Qed.

Lemma in_remove_id s i x : In x (lines (remove_id s i)) <-> In x (lines s) /\ g_id x <> i.
Proof.
  unfold remove_id. cbn [lines]. rewrite filter_In, negb_true_iff, Nat.eqb_neq. reflexivity.
Qed.

Lemma lines_add_raw s l x : In x (lines s) -> In x (lines (add_raw s l)).
Proof. unfold add_raw. cbn [lines]. intros H. apply in_or_app. left. exact H. Qed.

Lemma in_add_raw s l x : In x (lines (add_raw s l)) <-> In x (lines s) \/ x = l.
Proof.
  unfold add_raw. cbn [lines]. rewrite in_app_iff. cbn. split; intros [H|H]; auto; destruct H as [H|[]]; auto.
Qed.

(* replacing [prev] by a line that takes over from it covers the old state *)
Lemma covers_replace s prev new :
  ids_ok s -> In prev (lines s) -> takes_over prev new ->
  covers (lines s) (lines (add_raw (remove_id s (g_id prev)) new)).
Proof.
  intros Hids Hprev Ht x Hx. destruct (gl_eq_dec x prev) as [->|Hne].
  - exists new. split; [apply in_add_raw; right; reflexivity | exact Ht].
  - exists x. split; [|apply takes_over_refl]. apply in_add_raw. left. apply in_remove_id. split; [exact Hx|].
    intros E. apply Hne. apply (same_id_same_line s x prev Hids Hx Hprev E).
Qed.

(* one placeholder step *)
Lemma ensure_target_spec s m s' :
  ids_ok s -> ensure_target (Ok s) m = Ok s' ->
  ids_ok s' /\ covers (lines s) (lines s') /\ rl (lines s') m /\
  (forall x, In x (lines s') -> In x (lines s) \/ mentions x = []).
Proof.
  intros Hids. unfold ensure_target. cbn [rbind].
  destruct (m_seg m) eqn:Eseg.
  - destruct (find_segment s (m_target m)) as [x|] eqn:Efs.
    + intros H. injection H as <-. repeat split; [exact (proj1 Hids) | exact (proj2 Hids) | apply covers_incl; auto | | auto].
      apply find_some in Efs. exists x. unfold pred_of. rewrite Eseg. exact Efs.
    + destruct (find_named s (m_target m)) as [prev|] eqn:Efn.
      * destruct (g_virtual prev); [|discriminate]. intros H. injection H as <-.
        apply find_some in Efn. destruct Efn as [Hprev Hnp]. fold (named_pred (m_target m) prev) in Hnp.
        assert (Hnoseg : forall n', seg_pred n' prev = true -> False).
        { intros n' H'. pose proof (seg_pred_named _ _ H') as N'.
          pose proof (named_pred_unique_name prev (m_target m) n' Hnp N'). subst n'.
          rewrite find_segment_eq in Efs. apply (find_exists _ _ prev Hprev H'). exact Efs. }
        assert (Hto : takes_over prev (mk_virtual_segment (remove_id s (g_id prev)) (m_target m))).
        { intros n'. split.
          - intros H'. rewrite (named_pred_unique_name prev (m_target m) n' Hnp H'). apply named_pred_virtual_segment.
          - intros H'. destruct (Hnoseg n' H'). }
        repeat split.
        -- apply (proj1 (ids_ok_add_raw _ _ (ids_ok_remove s (g_id prev) Hids) (id_virtual_segment _ _))).
        -- apply (proj2 (ids_ok_add_raw _ _ (ids_ok_remove s (g_id prev) Hids) (id_virtual_segment _ _))).
        -- apply covers_replace; assumption.
        -- exists (mk_virtual_segment (remove_id s (g_id prev)) (m_target m)). split; [apply in_add_raw; right; reflexivity|].
           unfold pred_of. rewrite Eseg. apply seg_pred_virtual_segment.
        -- intros x Hx. apply in_add_raw in Hx. destruct Hx as [Hx| ->].
           ++ left. apply in_remove_id in Hx. tauto.
           ++ right. apply mentions_virtual_segment.
      * intros H. injection H as <-. repeat split.
        -- apply (proj1 (ids_ok_add_raw _ _ Hids (id_virtual_segment _ _))).
        -- apply (proj2 (ids_ok_add_raw _ _ Hids (id_virtual_segment _ _))).
        -- apply covers_incl. intros x Hx. apply lines_add_raw. exact Hx.
        -- exists (mk_virtual_segment s (m_target m)). split; [apply in_add_raw; right; reflexivity|].
           unfold pred_of. rewrite Eseg. apply seg_pred_virtual_segment.
        -- intros x Hx. apply in_add_raw in Hx. destruct Hx as [Hx| ->]; [left; exact Hx | right; apply mentions_virtual_segment].
  - destruct (find_named s (m_target m)) as [x|] eqn:Efn.
    + intros H. injection H as <-. repeat split; [exact (proj1 Hids) | exact (proj2 Hids) | apply covers_incl; auto | | auto].
      apply find_some in Efn. exists x. unfold pred_of. rewrite Eseg. exact Efn.
    + intros H. injection H as <-. unfold fresh. repeat split.
      * apply (proj1 (ids_ok_add_raw s (mkGl (next_id s) KUnk [m_target m] [] true) Hids eq_refl)).
      * apply (proj2 (ids_ok_add_raw s (mkGl (next_id s) KUnk [m_target m] [] true) Hids eq_refl)).
      * apply covers_incl. intros x Hx. apply lines_add_raw. exact Hx.
      * eexists. split; [apply in_add_raw; right; reflexivity|]. unfold pred_of. rewrite Eseg.
        unfold named_pred, in_namespace, name_of. cbn. apply String.eqb_refl.
      * intros x Hx. apply in_add_raw in Hx. destruct Hx as [Hx| ->]; [left; exact Hx | right; reflexivity].
Qed.

Lemma ensure_targets_spec ms : forall s s',
  ids_ok s -> fold_left ensure_target ms (Ok s) = Ok s' ->
  ids_ok s' /\ covers (lines s) (lines s') /\ (forall m, In m ms -> rl (lines s') m) /\
  (forall x, In x (lines s') -> In x (lines s) \/ mentions x = []).
Proof.
  induction ms as [|m ms IH]; intros s s' Hids H; cbn [fold_left] in H.
  - injection H as <-. repeat split; [exact (proj1 Hids) | exact (proj2 Hids) | apply covers_incl; auto | intros m [] | auto].
  - destruct (ensure_target (Ok s) m) as [s1|e] eqn:E1; [|rewrite fold_ensure_target_err in H; discriminate].
    destruct (ensure_target_spec s m s1 Hids E1) as [I1 [C1 [R1 N1]]].
    destruct (IH s1 s' I1 H) as [I2 [C2 [R2 N2]]].
    repeat split; [exact (proj1 I2) | exact (proj2 I2) | apply (covers_trans _ _ _ C1 C2) | |].
    + intros m0 [<-|Hm0]; [apply (rl_covers _ _ _ C2 R1) | apply R2; exact Hm0].
    + intros x Hx. destruct (N2 x Hx) as [Hx1|Hm]; [|right; exact Hm]. destruct (N1 x Hx1); auto.
Qed.

Lemma rl_mono ls ls' m : (forall x, In x ls -> In x ls') -> rl ls m -> rl ls' m.
Proof. intros H. apply rl_covers. apply covers_incl. exact H. Qed.

Lemma ensure_step_spec s st s' :
  ids_ok s -> ensure_step (Ok s) st = Ok s' ->
  ids_ok s' /\ covers (lines s) (lines s') /\
  (forall x, In x (lines s') -> In x (lines s) \/ (forall m, In m (mentions x) -> rl (lines s') m)).
Proof.
  intros Hids. unfold ensure_step. cbn [rbind]. destruct st as [[a b] ov].
  match goal with |- context [match ?c with Some _ => Ok s | None => _ end] => destruct c end.
  - intros H. injection H as <-. repeat split; [exact (proj1 Hids) | exact (proj2 Hids) | apply covers_incl; auto | auto].
  - unfold ensure_targets.
    match goal with |- context [fold_left ensure_target ?ms (Ok s)] =>
      destruct (fold_left ensure_target ms (Ok s)) as [s1|e] eqn:E1 end; cbn [rbind]; [|discriminate].
    intros H. injection H as <-.
    destruct (ensure_targets_spec _ s s1 Hids E1) as [I1 [C1 [R1 N1]]].
    match goal with |- ids_ok (add_raw s1 ?nl) /\ _ => pose proof (ids_ok_add_raw s1 nl I1 eq_refl) as I2 end.
    repeat split.
    + exact (proj1 I2).
    + exact (proj2 I2).
    + apply (covers_trans _ _ _ C1). apply covers_incl. intros x Hx. apply lines_add_raw. exact Hx.
    + intros x Hx. apply in_add_raw in Hx. destruct Hx as [Hx| ->].
      * destruct (N1 x Hx) as [H0|Hm]; [left; exact H0 | right; rewrite Hm; intros m []].
      * right. intros m Hm. apply (rl_mono (lines s1)); [intros y Hy; apply lines_add_raw; exact Hy|].
        apply R1. exact Hm.
Qed.

Lemma ensure_steps_spec sts : forall s s',
  ids_ok s -> fold_left ensure_step sts (Ok s) = Ok s' ->
  ids_ok s' /\ covers (lines s) (lines s') /\
  (forall x, In x (lines s') -> In x (lines s) \/ (forall m, In m (mentions x) -> rl (lines s') m)).
Proof.
  induction sts as [|st sts IH]; intros s s' Hids H; cbn [fold_left] in H.
  - injection H as <-. repeat split; [exact (proj1 Hids) | exact (proj2 Hids) | apply covers_incl; auto | auto].
  - destruct (ensure_step (Ok s) st) as [s1|e] eqn:E1; [|rewrite fold_ensure_step_err in H; discriminate].
    destruct (ensure_step_spec s st s1 Hids E1) as [I1 [C1 N1]].
    destruct (IH s1 s' I1 H) as [I2 [C2 N2]].
    repeat split; [exact (proj1 I2) | exact (proj2 I2) | apply (covers_trans _ _ _ C1 C2) |].
    intros x Hx. destruct (N2 x Hx) as [Hx1|Hm]; [|right; exact Hm].
    destruct (N1 x Hx1) as [H0|Hm]; [left; exact H0|]. right. intros m Hm0. apply (rl_covers _ _ _ C2). apply Hm. exact Hm0.
Qed.

Lemma preds_copy l i v n :
  named_pred n (mkGl i (g_rk l) (g_pos l) (g_tags l) v) = named_pred n l /\
  seg_pred n (mkGl i (g_rk l) (g_pos l) (g_tags l) v) = seg_pred n l.
Proof. split; reflexivity. Qed.

Theorem place_closed s0 l s' :
  ids_ok s0 -> closed_with s0 [l] -> place s0 l = Ok s' -> ids_ok s' /\ closed s'.
Proof.
  intros Hids Hc. unfold place.
  destruct (match g_rk l with KP => fold_left ensure_step (path_steps (g_pos l)) (Ok s0) | _ => Ok s0 end) as [s1|e] eqn:E1;
    cbn [rbind]; [|discriminate].
  unfold ensure_targets. destruct (fold_left ensure_target (mentions l) (Ok s1)) as [s2|e] eqn:E2; cbn [rbind]; [|discriminate].
  intros H. injection H as <-.
  assert (S1 : ids_ok s1 /\ covers (lines s0) (lines s1) /\
               (forall x, In x (lines s1) -> In x (lines s0) \/ (forall m, In m (mentions x) -> rl (lines s1) m))).
  { destruct (g_rk l); try (injection E1 as <-; repeat split; [exact (proj1 Hids) | exact (proj2 Hids) | apply covers_incl; auto | auto]).
    apply (ensure_steps_spec _ s0 s1 Hids E1). }
  destruct S1 as [I1 [C1 N1]].
  assert (Hc1 : closed_with s1 [l]).
  { apply (closed_with_step s0 s1 [l] Hc C1). intros x Hx. destruct (N1 x Hx) as [H0|Hm]; [left; exact H0|].
    right. intros m Hm0. apply (rl_mono (lines s1)); [intros y Hy; apply in_or_app; left; exact Hy | apply Hm; exact Hm0]. }
  destruct (ensure_targets_spec _ s1 s2 I1 E2) as [I2 [C2 [R2 N2]]].
  assert (Hc2 : closed_with s2 [l]).
  { apply (closed_with_step s1 s2 [l] Hc1 C2). intros x Hx. destruct (N2 x Hx) as [H0|Hm]; [left; exact H0|].
    right. rewrite Hm. intros m []. }
  split; [apply (ids_ok_add_raw s2 (mkGl (next_id s2) (g_rk l) (g_pos l) (g_tags l) false) I2 eq_refl)|].
  apply closed_closed_with. intros x Hx m Hm. rewrite app_nil_r.
  apply in_add_raw in Hx. destruct Hx as [Hx| ->].
  - (* an older line: resolved with [l] pending, and the stored copy answers for [l] *)
    apply (rl_covers (lines s2 ++ [l])); [|apply (Hc2 x Hx m Hm)].
    intros y Hy. apply in_app_or in Hy. destruct Hy as [Hy|[<-|[]]].
    + exists y. split; [apply lines_add_raw; exact Hy | apply takes_over_refl].
    + eexists. split; [apply in_add_raw; right; reflexivity|]. intros n.
      change (named_pred n (mkGl (next_id s2) (g_rk l) (g_pos l) (g_tags l) false)) with (named_pred n l).
      change (seg_pred n (mkGl (next_id s2) (g_rk l) (g_pos l) (g_tags l) false)) with (seg_pred n l). tauto.
  - change (mentions (mkGl (next_id s2) (g_rk l) (g_pos l) (g_tags l) false)) with (mentions l) in Hm.
    apply (rl_mono (lines s2)); [intros y Hy; apply lines_add_raw; exact Hy | apply R2; exact Hm].
Qed.

(* ---- connect keeps the graph closed ---- *)
Lemma pred_of_name m y : pred_of m y = true -> name_of y = Some (m_target m) /\ (m_seg m = true -> is_segment y = true).
Proof.
  unfold pred_of. destruct (m_seg m).
  - unfold seg_pred. intros H. apply andb_true_iff in H. destruct H as [Hs Hn]. apply String.eqb_eq in Hn.
    split; [|auto]. unfold is_segment in Hs. unfold name_of. destruct (g_rk y); try discriminate; rewrite Hn; reflexivity.
  - unfold named_pred. intros H. apply andb_true_iff in H. destruct H as [_ Hn].
    destruct (name_of y) as [x|]; [|discriminate]. apply String.eqb_eq in Hn. subst. split; [reflexivity | discriminate].
Qed.

(* guard (F49): a placeholder that stands for a segment is only replaced by a segment *)
Definition kind_guard (s : gfa) (l : gl) : Prop :=
  forall prev, duplicate_of s l = Some prev -> is_segment prev = true -> is_segment l = true.

Lemma search_link_kind s a b ov x : search_link s a b ov = Some x -> g_rk x = KL.
Proof.
  unfold search_link. intros H. apply find_some in H. destruct H as [_ H]. destruct (g_rk x); try discriminate. reflexivity.
Qed.

Lemma takes_over_duplicate s l prev :
  duplicate_of s l = Some prev -> (is_segment prev = true -> is_segment l = true) -> takes_over prev l.
Proof.
  intros Hd Hk. destruct (duplicate_some s l prev Hd) as [[Ek En]|[n [En Hf]]].
  - (* links are outside the namespace and are not segments *)
    unfold duplicate_of in Hd. rewrite Ek in Hd.
    destruct (match find_segment s _ with Some _ => true | None => false end); [|discriminate].
    apply search_link_kind in Hd. intros n. unfold named_pred, seg_pred, in_namespace, is_segment. rewrite Hd. cbn. split; discriminate.
  - apply find_named_some in Hf as Hf'. destruct Hf' as [Hin Hname].
    assert (Hnl : named_pred n l = true).
    { unfold ns_name in En. unfold named_pred. destruct (in_namespace l); [|discriminate].
      destruct (name_of l) as [x|]; [|discriminate]. injection En as ->. cbn. apply String.eqb_refl. }
    assert (Hnp : named_pred n prev = true).
    { unfold find_named in Hf. apply find_some in Hf. tauto. }
    intros n'. split.
    + intros H. rewrite (named_pred_unique_name prev n n' Hnp H). exact Hnl.
    + intros H. pose proof (seg_pred_named _ _ H) as N. rewrite (named_pred_unique_name prev n n' Hnp N) in *.
      unfold seg_pred in *. apply andb_true_iff in H. destruct H as [Hs _]. rewrite (Hk Hs). cbn.
      unfold named_pred in Hnl. apply andb_true_iff in Hnl. destruct Hnl as [_ Hnl].
      pose proof (Hk Hs) as Hsl. unfold is_segment in Hsl. unfold name_of in Hnl.
      destruct (g_rk l); try discriminate; exact Hnl.
Qed.

Lemma closed_with_replace s prev l :
  ids_ok s -> closed s -> In prev (lines s) -> takes_over prev l -> closed_with (remove_id s (g_id prev)) [l].
Proof.
  intros Hids Hc Hprev Ht x Hx m Hm. apply in_remove_id in Hx. destruct Hx as [Hx _].
  pose proof (proj1 (resolves_rl s m) (Hc x Hx m Hm)) as [y [Hy Hp]].
  destruct (gl_eq_dec y prev) as [->|Hne].
  - exists l. split; [apply in_or_app; right; left; reflexivity|].
    unfold pred_of in *. destruct (m_seg m); [apply (proj2 (Ht _)) | apply (proj1 (Ht _))]; exact Hp.
  - exists y. split; [|exact Hp]. apply in_or_app. left. apply in_remove_id. split; [exact Hy|].
    intros E. apply Hne. apply (same_id_same_line s y prev Hids Hy Hprev E).
Qed.

Lemma duplicate_in_lines s l prev : duplicate_of s l = Some prev -> In prev (lines s).
Proof.
  unfold duplicate_of. destruct (g_rk l);
    try (destruct (in_namespace l); [|discriminate]; destruct (name_of l); [|discriminate];
         intros H; apply find_named_some in H; tauto).
  destruct (match find_segment s _ with Some _ => true | None => false end); [|discriminate].
  unfold search_link. intros H. apply find_some in H. tauto.
Qed.

Lemma takes_over_merge prev l m :
  merge_group prev l = Ok m -> (g_rk l = KO \/ g_rk l = KU) -> takes_over l m.
Proof.
  intros Hm Hk n. destruct (merge_group_name prev l m Hm) as [Ek En].
  unfold named_pred, seg_pred, in_namespace, is_segment, name_of. rewrite Ek, En.
  destruct Hk as [->| ->]; cbn; tauto.
Qed.

Lemma takes_over_trans a b c : takes_over a b -> takes_over b c -> takes_over a c.
Proof. intros H1 H2 n. destruct (H1 n), (H2 n). tauto. Qed.

Theorem connect_closed s l s' :
  ids_ok s -> closed s -> kind_guard s l -> connect s l = Ok s' -> ids_ok s' /\ closed s'.
Proof.
  intros Hids Hc Hg. unfold connect.
  destruct (match g_rk l with KE => rmap (fun _ => tt) (edge_colls (g_pos l)) | _ => Ok tt end); cbn [rbind]; [|discriminate].
  destruct (duplicate_of s l) as [prev|] eqn:Ed.
  - pose proof (duplicate_in_lines s l prev Ed) as Hprev.
    destruct (g_virtual prev).
    + intros H. apply (place_closed _ l s' (ids_ok_remove s (g_id prev) Hids)); [|exact H].
      apply closed_with_replace; try assumption. apply (takes_over_duplicate s l prev Ed (Hg prev Ed)).
    + destruct (g_rk l) eqn:Ek; try discriminate.
      * destruct (is_complement _ _); [intros H; injection H as <-; split; assumption | discriminate].
      * destruct (rk_eqb (g_rk prev) KO) eqn:Epk; [|discriminate].
        destruct (merge_group prev l) as [m|e] eqn:Em; cbn [rbind]; [|discriminate].
        intros H. apply (place_closed _ m s' (ids_ok_remove s (g_id prev) Hids)); [|exact H].
        apply closed_with_replace; try assumption.
        apply (takes_over_trans prev l m); [|apply (takes_over_merge prev l m Em (or_introl Ek))].
        apply (takes_over_duplicate s l prev Ed). intros Hs. unfold is_segment in Hs. destruct (g_rk prev); discriminate.
      * destruct (rk_eqb (g_rk prev) KU) eqn:Epk; [|discriminate].
        destruct (merge_group prev l) as [m|e] eqn:Em; cbn [rbind]; [|discriminate].
        intros H. apply (place_closed _ m s' (ids_ok_remove s (g_id prev) Hids)); [|exact H].
        apply closed_with_replace; try assumption.
        apply (takes_over_trans prev l m); [|apply (takes_over_merge prev l m Em (or_intror Ek))].
        apply (takes_over_duplicate s l prev Ed). intros Hs. unfold is_segment in Hs. destruct (g_rk prev); discriminate.
  - intros H. apply (place_closed s l s' Hids); [|exact H].
    intros x Hx m Hm. apply (rl_mono (lines s)); [intros y Hy; apply in_or_app; left; exact Hy|].
    apply resolves_rl. apply (Hc x Hx m Hm).
Qed.

(* ---- removal keeps the graph closed ---- *)
(* guard (F28): every mention is filed in a collection that its target's class declares as dependent *)
Definition dep_guard (s : gfa) : Prop :=
  forall l m y, In l (lines s) -> In m (mentions l) -> In y (lines s) -> pred_of m y = true ->
                in_strs (m_coll m) (dependent_colls (g_rk y)) = true.

Lemma mentioning_line_is_dependant s l m y :
  In l (lines s) -> In m (mentions l) -> pred_of m y = true ->
  in_strs (m_coll m) (dependent_colls (g_rk y)) = true -> In l (dependants s y).
Proof.
  intros Hl Hm Hp Hd. destruct (pred_of_name m y Hp) as [Hn Hs]. unfold dependants. apply in_or_app. left.
  rewrite Hn. apply filter_In. split; [exact Hl|]. apply existsb_exists. exists m. split; [exact Hm|].
  rewrite String.eqb_refl, Hd. cbn [andb]. destruct (m_seg m); [rewrite (Hs eq_refl); reflexivity | apply orb_true_r].
Qed.

Lemma NoDup_map_filter {A B} (f : A -> B) (p : A -> bool) l : NoDup (map f l) -> NoDup (map f (filter p l)).
Proof.
  induction l as [|z l IH]; cbn; [auto|]. intros Hn. apply NoDup_cons_iff in Hn. destruct Hn as [Hz Hl].
  destruct (p z); cbn; [|apply IH; exact Hl]. constructor; [|apply IH; exact Hl].
  intros H. apply Hz. apply in_map_iff in H. destruct H as [y [Ey Hy]]. apply filter_In in Hy. apply in_map_iff. exists y. tauto.
Qed.

Theorem disconnect_closed s x s' :
  ids_ok s -> closed s -> dep_guard s -> disconnect s x = Ok s' -> ids_ok s' /\ closed s'.
Proof.
  intros Hids Hc Hg. unfold disconnect.
  set (dead := closure (fuel_for s) s [x] []).
  destruct (mem_id (g_id x) dead) eqn:Em; cbn [andb]; [|discriminate].
  destruct (closed_under s dead) eqn:Ec; [|discriminate].
  intros H. injection H as <-. split.
  - destruct Hids as [Hn Hb]. unfold ids_ok. cbn [lines next_id]. split.
    + apply NoDup_map_filter. exact Hn.
    + intros l Hl. apply filter_In in Hl. apply Hb. tauto.
  - intros l Hl m Hm. cbn [lines] in Hl. apply filter_In in Hl. destruct Hl as [Hl Hlive].
    apply negb_true_iff in Hlive.
    pose proof (proj1 (resolves_rl s m) (Hc l Hl m Hm)) as [y [Hy Hp]].
    apply resolves_rl. exists y. split; [|exact Hp]. cbn [lines]. apply filter_In. split; [exact Hy|].
    apply negb_true_iff. destruct (mem_id (g_id y) dead) eqn:Ey; [|reflexivity]. exfalso.
    (* y is removed: l mentions it in a dependent collection, so l is removed too *)
    unfold closed_under in Ec. rewrite forallb_forall in Ec. specialize (Ec y Hy). rewrite Ey in Ec. cbn [negb orb] in Ec.
    rewrite forallb_forall in Ec.
    pose proof (mentioning_line_is_dependant s l m y Hl Hm Hp (Hg l m y Hl Hm Hy Hp)) as Hdep.
    specialize (Ec l Hdep). congruence.
Qed.

Definition Inv (s : gfa) : Prop := ids_ok s /\ names_unique s /\ closed s.

Definition op_guard2 (O : oracle) (s : gfa) (o : op) : Prop :=
  match o with
  | OAdd t => add_guard O s t /\
              (forall l, (match t with
                          | String "S" _ => parse_line O (g_vlevel s) None t
                          | _ => parse_line O (g_vlevel s) (Some (g_version s)) t
                          end) = Ok l -> kind_guard s (gl_of_line O 0 l))
  | ORm _ => dep_guard s
  | ORename _ _ => False          (* renames: see op_guard3 in Proofs/RenameP.v *)
  | ORmLine _ => dep_guard s
  end.

Theorem step_inv O s o s' : Inv s -> op_guard2 O s o -> step O s o = Ok s' -> Inv s'.
Proof.
  intros [Hids [Hu Hc]] Hg. destruct o as [t|n|a b|t]; cbn [step op_guard2] in *.
  - destruct Hg as [Ga Gk]. unfold add_line.
    destruct (String.eqb t ""); [intros H; injection H as <-; split; [exact Hids | split; [exact Hu | exact Hc]]|].
    unfold add_guard in Ga.
    match goal with |- context [rbind ?p _] => destruct p as [l|e] eqn:Ep end; cbn [rbind]; [|discriminate].
    destruct (Ga l eq_refl) as [G1 G2]. specialize (Gk l eq_refl).
    destruct (negb _); [discriminate|].
    destruct (rk_of_class (rc_name (ln_class l)));
      try (intros H; destruct (connect_closed s _ s' Hids Hc Gk H) as [I C]; split; [exact I | split; [|exact C]];
           apply (connect_names s _ s' Hu G1 G2 H)).
    intros H. injection H as <-. split; [exact Hids | split; [exact Hu | exact Hc]].
  - intros H0. pose proof (rm_names s n s' Hu H0) as Hn. unfold rm in H0.
    destruct (is_star n); [discriminate|]. destruct (find_named s n) as [x|] eqn:Ex; [|discriminate].
    destruct (disconnect_closed s x s' Hids Hc Hg H0) as [I C]. split; [exact I | split; [exact Hn | exact C]].
  - destruct Hg.
  - intros H0. pose proof (rm_line_names s t s' Hu H0) as Hn. unfold rm_line in H0.
    destruct (find _ (lines s)) as [x|] eqn:Ex; [|discriminate].
    destruct (disconnect_closed s x s' Hids Hc Hg H0) as [I C]. split; [exact I | split; [exact Hn | exact C]].
Qed.

Fixpoint guards2_hold (O : oracle) (s : gfa) (ops : list op) : Prop :=
  match ops with [] => True | o :: r => op_guard2 O s o /\ guards2_hold O (fst (apply O s o)) r end.

(* the invariant holds in every state reached by a history of additions and removals, failed ones included *)
Theorem inv_reachable O : forall ops s, Inv s -> guards2_hold O s ops -> Inv (run_ops O s ops).
Proof.
  induction ops as [|o ops IH]; intros s Hi Hg; cbn [run_ops]; [exact Hi|].
  destruct Hg as [G1 G2]. apply IH; [|exact G2].
  unfold apply. destruct (step O s o) as [s1|e] eqn:E; cbn [fst]; [|exact Hi].
  apply (step_inv O s o s1 Hi G1 E).
Qed.

Lemma inv_init v vl : Inv (init_gfa v vl).
Proof.
  split; [split; [constructor | intros l []] | split; [constructor | intros l []]].
Qed.

(* ---------- executable twins of the invariant (used for non-vacuity examples and refutation witnesses) ---------- *)
Definition resolves_b (s : gfa) (m : mention) : bool :=
  if m_seg m then match find_segment s (m_target m) with Some _ => true | None => false end
  else match find_named s (m_target m) with Some _ => true | None => false end.

Definition closed_b (s : gfa) : bool :=
  forallb (fun l => forallb (resolves_b s) (mentions l)) (lines s).

Lemma closed_b_spec s : closed_b s = true <-> closed s.
Proof.
  unfold closed_b, closed. rewrite forallb_forall. split; intros H l Hl.
  - specialize (H l Hl). rewrite forallb_forall in H. intros m Hm. specialize (H m Hm).
    unfold resolves_b, resolves in *. destruct (m_seg m); [destruct (find_segment s _) | destruct (find_named s _)]; congruence.
  - apply forallb_forall. intros m Hm. specialize (H l Hl m Hm).
    unfold resolves_b, resolves in *. destruct (m_seg m); [destruct (find_segment s _) | destruct (find_named s _)]; congruence.
Qed.

Fixpoint nodup_b (l : list string) : bool :=
  match l with [] => true | x :: r => negb (in_strs x r) && nodup_b r end.

Lemma nodup_b_spec l : nodup_b l = true <-> NoDup l.
Proof.
  induction l as [|x r IH]; cbn; [split; [constructor | reflexivity]|].
  rewrite andb_true_iff, negb_true_iff, IH, NoDup_cons_iff. split; intros [H1 H2]; split; try assumption.
  - intros Hin. apply in_strs_In in Hin. congruence.
  - destruct (in_strs x r) eqn:E; [|reflexivity]. apply in_strs_In in E. contradiction.
Qed.

Definition names_unique_b (s : gfa) : bool := nodup_b (ns_names s).
Lemma names_unique_b_spec s : names_unique_b s = true <-> names_unique s.
Proof. apply nodup_b_spec. Qed.

Definition plain_oracle : oracle := mkOracle (fun s => s) (fun s => Some s).
Definition run_texts (version : string) (ops : list op) : gfa := run_ops plain_oracle (init_gfa version 1) ops.
