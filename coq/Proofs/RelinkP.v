(* Proofs/RelinkP.v — the dovetails of a chain end move to the right end of the merged segment (C14). *)
From Coq Require Import List String Ascii ZArith Bool Lia.
From GfaV Require Import Base.Py Base.Regex Gen.Tables Gen.K_fromto Model.Align Model.Link Model.Codec Model.Line Model.Graph
  Model.Topology Model.Linear.
Import ListNotations.
Open Scope string_scope.
Open Scope list_scope.

Definition orient_ok (o : string) : Prop := o = "+" \/ o = "-".
Definition end_ok (e : string) : Prop := e = "L" \/ e = "R".

Lemma link_ends_KL i f fo t too rest tags v :
  orient_ok fo -> orient_ok too ->
  link_ends (mkGl i KL (f :: fo :: t :: too :: rest) tags v) =
  [(f, if String.eqb fo "+" then "R" else "L"); (t, if String.eqb too "+" then "L" else "R")].
Proof. intros [->| ->] [->| ->]; reflexivity. Qed.

(* the general statement: the link that was on end [e] of segment [n] is, after relinking, on the end of the merged
   segment that has the same type, or the opposite type when the member was traversed in reverse *)
Theorem relink_end (name n e : string) (rv : bool) i f fo t too rest tags v :
  orient_ok fo -> orient_ok too -> end_ok e ->
  (* not a loop over the two opposite ends of one segment: such a segment has two dovetails on its inner end and is
     not the end of a chain *)
  (f = t -> (if String.eqb fo "+" then "R" else "L") = (if String.eqb too "+" then "L" else "R")) ->
  In (n, e) (link_ends (mkGl i KL (f :: fo :: t :: too :: rest) tags v)) ->
  In (name, if rv then inv_e e else e)
     (link_ends (relink name (n, e) rv (mkGl i KL (f :: fo :: t :: too :: rest) tags v))).
Proof.
  intros Hfo Hto He Hloop Hin. rewrite (link_ends_KL i f fo t too rest tags v Hfo Hto) in Hin.
  unfold relink. cbn [g_pos g_tags nth_s nth fst snd skipn app].
  rewrite (link_ends_KL i f fo t too rest tags v Hfo Hto).
  destruct Hfo as [->| ->], Hto as [->| ->], He as [->| ->]; cbn in Hin;
    repeat match goal with
           | H : _ \/ _ |- _ => destruct H
           | H : False |- _ => destruct H
           | H : (_, _) = (_, _) |- _ => inversion H; clear H; subst
           end;
    rewrite ?String.eqb_refl; cbn [send_eqb fst snd String.eqb Ascii.eqb Bool.eqb andb negb orb];
    rewrite ?String.eqb_refl;
    try (destruct (String.eqb t n) eqn:Etn; [apply String.eqb_eq in Etn; subst|]);
    try (destruct (String.eqb n t) eqn:Ent; [apply String.eqb_eq in Ent; subst|]);
    rewrite ?String.eqb_refl; cbn [andb negb orb app skipn nth_s nth];
    destruct rv; cbn; rewrite ?String.eqb_refl; cbn; auto;
    repeat match goal with
           | |- context [send_eqb ?a ?b] =>
               let E := fresh "E" in destruct (send_eqb a b) eqn:E;
               [try (unfold send_eqb in E; cbn in E; rewrite ?andb_false_r in E; discriminate)|]
           end; cbn; auto;
    try (exfalso; match goal with H : String.eqb ?a ?a = false |- _ => rewrite String.eqb_refl in H; discriminate end);
    try (exfalso; specialize (Hloop eq_refl); cbn in Hloop; discriminate).
Qed.

(* the exit end of the last member of a chain (reversed when that end is L): its dovetails go to the R end of the merged
   segment; the entry end of the first member (reversed when the member is left through its L end, i.e. entered through
   R): its dovetails go to the L end *)
Corollary relink_last name n e i f fo t too rest tags v :
  orient_ok fo -> orient_ok too -> end_ok e ->
  (f = t -> (if String.eqb fo "+" then "R" else "L") = (if String.eqb too "+" then "L" else "R")) ->
  In (n, e) (link_ends (mkGl i KL (f :: fo :: t :: too :: rest) tags v)) ->
  In (name, "R") (link_ends (relink name (n, e) (String.eqb e "L") (mkGl i KL (f :: fo :: t :: too :: rest) tags v))).
Proof.
  intros Hfo Hto He Hl Hin. pose proof (relink_end name n e (String.eqb e "L") i f fo t too rest tags v Hfo Hto He Hl Hin) as H.
  destruct He as [->| ->]; exact H.
Qed.

Corollary relink_first name n e i f fo t too rest tags v :
  orient_ok fo -> orient_ok too -> end_ok e ->
  (f = t -> (if String.eqb fo "+" then "R" else "L") = (if String.eqb too "+" then "L" else "R")) ->
  In (inv_end (n, e)) (link_ends (mkGl i KL (f :: fo :: t :: too :: rest) tags v)) ->
  In (name, "L") (link_ends (relink name (inv_end (n, e)) (String.eqb e "L") (mkGl i KL (f :: fo :: t :: too :: rest) tags v))).
Proof.
  intros Hfo Hto He Hl Hin. unfold inv_end in *. cbn [fst snd] in *.
  assert (He' : end_ok (inv_e e)) by (destruct He as [->| ->]; [right | left]; reflexivity).
  pose proof (relink_end name n (inv_e e) (String.eqb e "L") i f fo t too rest tags v Hfo Hto He' Hl Hin) as H.
  destruct He as [->| ->]; exact H.
Qed.
