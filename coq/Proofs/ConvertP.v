(* Proofs/ConvertP.v — C06 at the level of edge records. *)
From Coq Require Import List String Ascii ZArith Bool Lia.
From GfaV Require Import Base.Py Gen.Tables Gen.K_cigar Gen.K_edge2 Gen.K_togfa1 Model.Align Model.Link Model.Convert
  Proofs.CigarP Proofs.LinkP.
Import ListNotations.
Open Scope string_scope.

Lemma wsum_nonneg w c : (forall op, In op c -> 0 <= w op)%Z -> (0 <= wsum w c)%Z.
Proof.
  induction c as [|x c IH]; intros H.
  - unfold wsum. cbn. lia.
  - rewrite wsum_cons. assert (0 <= w x)%Z by (apply H; left; reflexivity).
    assert (0 <= wsum w c)%Z by (apply IH; intros op Hop; apply H; right; exact Hop). lia.
Qed.

Lemma cigar_valid_lengths v c : cigar_valid v c = true ->
  (0 <= k_cigar_length_on_reference c /\ 0 <= k_cigar_length_on_query c)%Z.
Proof.
  unfold cigar_valid. rewrite forallb_forall. intros H.
  rewrite length_on_reference_wsum, length_on_query_wsum. split; apply wsum_nonneg; intros op Hop;
    specialize (H op Hop); apply andb_true_iff in H; destruct H as [H _]; apply Z.leb_le in H;
    unfold wref, wqry; destruct (in_strs _ _); lia.
Qed.

Lemma cigar_valid_gfa2_gfa1 c : cigar_valid "gfa2" c = true -> cigar_valid "gfa1" c = true.
Proof.
  unfold cigar_valid. rewrite !forallb_forall. intros H op Hop. specialize (H op Hop).
  apply andb_true_iff in H. destruct H as [H1 H2]. rewrite H1. cbn [andb].
  change (if "gfa2" =? "gfa2" then T_CIGAR_CODE_GFA1_GFA2 else T_CIGAR_CODE) with T_CIGAR_CODE_GFA1_GFA2 in H2.
  change (if "gfa1" =? "gfa2" then T_CIGAR_CODE_GFA1_GFA2 else T_CIGAR_CODE) with T_CIGAR_CODE.
  apply in_strs_In in H2. apply in_strs_In.
  (* CODE = CODE_GFA1_ONLY ++ CODE_GFA1_GFA2, checked on the generated tables *)
  assert (Hincl : forall s, In s T_CIGAR_CODE_GFA1_GFA2 -> In s T_CIGAR_CODE).
  { intros s Hs. vm_compute in Hs. vm_compute. tauto. }
  apply Hincl. exact H2.
Qed.

Definition proper_link (l : link) (lf lt : Z) (c : cigar) : Prop :=
  l_ov l = ACigar c /\ c <> [] /\ cigar_valid "gfa2" c = true /\
  valid_orient (l_fo l) = true /\ valid_orient (l_too l) = true /\
  (k_cigar_length_on_reference c < lf)%Z /\ (k_cigar_length_on_query c < lt)%Z.

Lemma is_nil_false {A} (c : list A) : c <> [] -> is_nil c = false.
Proof. destruct c; [congruence | reflexivity]. Qed.

(* the intervals written for a link have the CIGAR's reference and query length, carry the $
   marker exactly on the segment's last position, and lie inside the segments *)
Theorem link_intervals l lf lt c eid :
  proper_link l lf lt c ->
  exists e, link_to_gfa2 l eid (Some lf) (Some lt) = Ok e /\
    (fst (e_e1 e) - fst (e_b1 e) = k_cigar_length_on_reference c)%Z /\
    (fst (e_e2 e) - fst (e_b2 e) = k_cigar_length_on_query c)%Z /\
    (0 <= fst (e_b1 e) <= fst (e_e1 e) /\ fst (e_e1 e) <= lf)%Z /\
    (0 <= fst (e_b2 e) <= fst (e_e2 e) /\ fst (e_e2 e) <= lt)%Z /\
    (snd (e_e1 e) = true <-> fst (e_e1 e) = lf) /\ (snd (e_e2 e) = true <-> fst (e_e2 e) = lt) /\
    (snd (e_b1 e) = true -> fst (e_b1 e) = lf) /\ (snd (e_b2 e) = true -> fst (e_b2 e) = lt) /\
    e_s1 e = l_from l /\ e_o1 e = l_fo l /\ e_s2 e = l_to l /\ e_o2 e = l_too l /\ e_aln e = l_ov l.
Proof.
  destruct l as [f fo t too ov]. unfold proper_link. cbn [l_ov l_fo l_too l_from l_to].
  intros [-> [Hne [Hv [Hfo [Hto [Hr Hq]]]]]].
  destruct (cigar_valid_lengths _ _ Hv) as [Hr0 Hq0].
  unfold link_to_gfa2, link_from_coords, link_to_coords, check_overlap, lastpos_of, lastpos_sub.
  cbn [l_ov l_fo l_too l_from l_to]. rewrite (is_nil_false c Hne). cbn [rbind gfa2_overlap_ok]. rewrite Hv.
  destruct (valid_orient_cases _ Hfo) as [->| ->]; destruct (valid_orient_cases _ Hto) as [->| ->];
    cbn [String.eqb Ascii.eqb Bool.eqb rbind negb fst snd andb];
    destruct (Z.eqb_spec (k_cigar_length_on_reference c) 0) as [E1|E1];
    destruct (Z.eqb_spec (k_cigar_length_on_query c) 0) as [E2|E2];
    eexists; (split; [reflexivity|]); cbn [e_b1 e_e1 e_b2 e_e2 e_s1 e_o1 e_s2 e_o2 e_aln fst snd];
    repeat split; try lia; try reflexivity; try discriminate; intros; try lia; try discriminate.
Qed.

(* GFA1 -> GFA2 -> GFA1 gives the link back: same oriented pair, same alignment read in the same direction *)
Theorem link_roundtrip l lf lt c eid :
  proper_link l lf lt c ->
  exists e, link_to_gfa2 l eid (Some lf) (Some lt) = Ok e /\ edge_to_gfa1 e = Ok (GL l).
Proof.
  destruct l as [f fo t too ov]. unfold proper_link. cbn [l_ov l_fo l_too l_from l_to].
  intros [-> [Hne [Hv [Hfo [Hto [Hr Hq]]]]]].
  destruct (cigar_valid_lengths _ _ Hv) as [Hr0 Hq0].
  pose proof (cigar_valid_gfa2_gfa1 c Hv) as Hv1.
  unfold link_to_gfa2, link_from_coords, link_to_coords, check_overlap, lastpos_of, lastpos_sub.
  cbn [l_ov l_fo l_too l_from l_to]. rewrite (is_nil_false c Hne). cbn [rbind gfa2_overlap_ok]. rewrite Hv.
  assert (Hlf : (lf =? 0)%Z = false) by (apply Z.eqb_neq; lia).
  assert (Hlt : (lt =? 0)%Z = false) by (apply Z.eqb_neq; lia).
  destruct (valid_orient_cases _ Hfo) as [->| ->]; destruct (valid_orient_cases _ Hto) as [->| ->];
    cbn [String.eqb Ascii.eqb Bool.eqb rbind negb fst snd andb];
    destruct (Z.eqb_spec (k_cigar_length_on_reference c) 0) as [E1|E1];
    destruct (Z.eqb_spec (k_cigar_length_on_query c) 0) as [E2|E2];
    eexists; (split; [reflexivity|]);
    unfold edge_to_gfa1, alignment_type, sid1_from, k_substring_type, k_is_sid1_from, k_segment_role;
    cbn [e_b1 e_e1 e_b2 e_e2 e_s1 e_o1 e_s2 e_o2 e_aln e_id fst snd];
    rewrite ?E1, ?E2, ?Hlf, ?Hlt; cbn [Z.eqb Z.gtb Z.compare rbind fst snd negb];
    repeat match goal with
    | |- context [Z.gtb ?a ?b] => let G := fresh in assert (G : Z.gtb a b = false) by (rewrite Z.gtb_ltb; apply Z.ltb_ge; lia); rewrite G; clear G
    | |- context [Z.eqb ?a 0] => let G := fresh in assert (G : Z.eqb a 0 = false) by (apply Z.eqb_neq; lia); rewrite G; clear G
    end;
    cbn; rewrite ?Hv1; reflexivity.
Qed.

(* containments *)
Definition proper_cont (k : cont) (lf lt : Z) (c : cigar) : Prop :=
  c_ov k = ACigar c /\ c <> [] /\ cigar_valid "gfa2" c = true /\
  valid_orient (c_fo k) = true /\ valid_orient (c_too k) = true /\
  snd (c_pos k) = false /\ (0 <= fst (c_pos k))%Z /\
  (fst (c_pos k) + k_cigar_length_on_reference c <= lf)%Z /\ (0 < lt)%Z /\ (0 < lf)%Z.

Theorem cont_roundtrip k lf lt c eid :
  proper_cont k lf lt c ->
  exists e, cont_to_gfa2 k eid (Some lf) (Some lt) = Ok e /\ edge_to_gfa1 e = Ok (GC k) /\
    fst (e_b1 e) = fst (c_pos k) /\ (fst (e_e1 e) - fst (e_b1 e) = k_cigar_length_on_reference c)%Z /\
    (snd (e_e1 e) = true <-> fst (e_e1 e) = lf) /\ e_b2 e = (0%Z, false) /\ e_e2 e = (lt, true).
Proof.
  destruct k as [f fo t too [pv pl] ov]. unfold proper_cont. cbn [c_ov c_fo c_too c_pos fst snd].
  intros [-> [Hne [Hv [Hfo [Hto [-> [Hp [Hr [Hlt Hlf]]]]]]]]].
  destruct (cigar_valid_lengths _ _ Hv) as [Hr0 Hq0].
  pose proof (cigar_valid_gfa2_gfa1 c Hv) as Hv1.
  unfold cont_to_gfa2, cont_from_coords, check_overlap, lastpos_of.
  cbn [c_ov c_fo c_too c_pos c_from c_to fst snd]. rewrite (is_nil_false c Hne). cbn [rbind gfa2_overlap_ok]. rewrite Hv.
  cbn [negb]. eexists. split; [reflexivity|].
  cbn [e_b1 e_e1 e_b2 e_e2 e_s1 e_o1 e_s2 e_o2 e_aln e_id fst snd].
  split.
  - unfold edge_to_gfa1, alignment_type, sid1_from, k_substring_type, k_is_sid1_from, k_segment_role, edge_pos, isfirst.
    cbn [e_b1 e_e1 e_b2 e_e2 e_s1 e_o1 e_s2 e_o2 e_aln e_id fst snd].
    assert (G1 : Z.gtb pv (pv + k_cigar_length_on_reference c) = false) by (rewrite Z.gtb_ltb; apply Z.ltb_ge; lia).
    assert (G2 : Z.gtb 0 lt = false) by (rewrite Z.gtb_ltb; apply Z.ltb_ge; lia).
    assert (G3 : Z.eqb lt 0 = false) by (apply Z.eqb_neq; lia).
    rewrite G1, G2, G3. cbn [Z.eqb].
    destruct (Z.eqb_spec pv 0) as [Epv|Epv];
      destruct (Z.eqb_spec (pv + k_cigar_length_on_reference c) 0) as [E0|E0];
      destruct (Z.eqb_spec (pv + k_cigar_length_on_reference c) lf) as [E2|E2];
      try lia;
      destruct (valid_orient_cases _ Hfo) as [->| ->]; destruct (valid_orient_cases _ Hto) as [->| ->];
      cbn; rewrite ?Hv1; try reflexivity; subst pv; reflexivity.
  - repeat split; try lia; try reflexivity; intros H; apply Z.eqb_eq; exact H.
Qed.

(* records without a GFA1 counterpart are refused, never mistranslated *)
Theorem internal_edge_refused e :
  alignment_type e = Ok "I" -> edge_to_gfa1 e = Err (G ERuntime).
Proof. intros H. unfold edge_to_gfa1. rewrite H. reflexivity. Qed.

Theorem converted_edge_is_classified e r :
  edge_to_gfa1 e = Ok r ->
  (exists l, r = GL l /\ alignment_type e = Ok "L") \/ (exists k, r = GC k /\ alignment_type e = Ok "C") \/
  (exists a, alignment_type e = Ok a /\ a <> "I" /\ a <> "L" /\ a <> "C").
Proof.
  unfold edge_to_gfa1. destruct (alignment_type e) as [a|x] eqn:E; cbn [rbind]; [|discriminate].
  destruct (String.eqb_spec a "I") as [->|HI]; [discriminate|].
  destruct (sid1_from e) as [b|x]; cbn [rbind]; [|discriminate].
  destruct b; cbn; destruct (negb _); try discriminate;
    destruct (String.eqb_spec a "C") as [->|HC]; intros H; injection H as <-;
    try (right; left; eexists; split; reflexivity);
    destruct (String.eqb_spec a "L") as [->|HL]; try (left; eexists; split; reflexivity);
    right; right; exists a; repeat split; assumption.
Qed.
