(* Proofs/GraphErrorsP.v — the operations of the graph model end in a state, in an error of the gfapy hierarchy, or
   (fuel of the checked closure) in RecursionError; no other foreign exception. *)
From Coq Require Import List String Ascii ZArith Bool Lia.
From GfaV Require Import Base.Py Base.Regex Gen.Tables Gen.K_edge2 Model.Align Model.Link Model.Codec Model.Line Model.Graph
                         Proofs.NoForeignP.
Import ListNotations.
Open Scope string_scope.
Open Scope list_scope.

Lemma fold_nf {A B} (f : res A -> B -> res A) :
  (forall r b, nf r -> nf (f r b)) -> forall l r, nf r -> nf (fold_left f l r).
Proof. intros Hf. induction l as [|b l IH]; intros r Hr; cbn [fold_left]; [exact Hr|]. apply IH. apply Hf. exact Hr. Qed.

Ltac split_ifs :=
  repeat match goal with
         | |- context [if ?b then _ else _] => destruct b
         | |- context [match ?x with _ => _ end] => destruct x
         end.

Lemma ensure_target_nf r m : nf r -> nf (ensure_target r m).
Proof.
  intro H. unfold ensure_target. apply nf_bind; [exact H|]. intros s _.
  destruct (m_seg m).
  - destruct (find_segment s (m_target m)); [reflexivity|]. destruct (find_named s (m_target m)) as [prev|]; [|reflexivity].
    destruct (g_virtual prev); reflexivity.
  - destruct (find_named s (m_target m)); reflexivity.
Qed.

Lemma ensure_targets_nf s ms : nf (ensure_targets s ms).
Proof. unfold ensure_targets. apply fold_nf; [intros r b; apply ensure_target_nf|reflexivity]. Qed.

Lemma ensure_step_nf r st : nf r -> nf (ensure_step r st).
Proof.
  intro H. unfold ensure_step. apply nf_bind; [exact H|]. intros s _. destruct st as [[a b] ov].
  match goal with |- nf (match ?x with _ => _ end) => destruct x end; [reflexivity|].
  apply nf_bind; [apply ensure_targets_nf|]. intros s1 _. reflexivity.
Qed.

Lemma place_nf s l : nf (place s l).
Proof.
  unfold place. apply nf_bind.
  - destruct (g_rk l); try reflexivity. apply fold_nf; [intros r b; apply ensure_step_nf|reflexivity].
  - intros s1 _. apply nf_bind; [apply ensure_targets_nf|]. intros s2 _. reflexivity.
Qed.

Lemma merge_group_nf a b : nf (merge_group a b).
Proof. unfold merge_group. destruct (existsb _ (g_tags a)); reflexivity. Qed.

Lemma substring_type_nf a b : nf (k_substring_type a b).
Proof. unfold k_substring_type. split_ifs; reflexivity. Qed.

Lemma edge_colls_nf p : nf (edge_colls p).
Proof.
  unfold edge_colls. apply nf_bind; [apply substring_type_nf|]. intros st1 _.
  apply nf_bind; [apply substring_type_nf|]. intros st2 _. reflexivity.
Qed.

Lemma connect_nf s l : nf (connect s l).
Proof.
  unfold connect. apply nf_bind.
  - destruct (g_rk l); try reflexivity. pose proof (edge_colls_nf (g_pos l)) as H. unfold nf in *.
    destruct (edge_colls (g_pos l)) as [x|[e|p]]; cbn in *; auto.
  - intros _ _. destruct (duplicate_of s l) as [prev|]; [|apply place_nf].
    destruct (g_virtual prev); [apply place_nf|].
    destruct (g_rk l); try reflexivity.
    + destruct (is_complement _ _); reflexivity.
    + destruct (rk_eqb _ _); [|reflexivity]. apply nf_bind; [apply merge_group_nf|]. intros m _. apply place_nf.
    + destruct (rk_eqb _ _); [|reflexivity]. apply nf_bind; [apply merge_group_nf|]. intros m _. apply place_nf.
Qed.

(* adding a line never ends in a foreign exception *)
Theorem add_line_nf O s t : nf (add_line O s t).
Proof.
  unfold add_line. destruct (String.eqb t ""); [reflexivity|]. apply nf_bind.
  - destruct t as [|a r]; [apply parse_line_no_foreign|].
    destruct a as [[] [] [] [] [] [] [] []]; apply parse_line_no_foreign.
  - intros l _. destruct (negb _); [reflexivity|]. destruct (rk_of_class _); try apply connect_nf. reflexivity.
Qed.

(* renaming never ends in a foreign exception *)
Theorem rename_nf s a b : nf (rename s a b).
Proof.
  unfold rename. destruct (find_named s a) as [x|]; [|reflexivity]. destruct (negb _ && _); [reflexivity|].
  destruct (Nat.leb 1 (g_vlevel s) && _); [reflexivity|]. destruct (find_named s b) as [y|]; [|reflexivity].
  destruct (Nat.eqb _ _); reflexivity.
Qed.

(* removal: a state, a gfapy error, or the exhausted fuel of the checked cascade (RecursionError) *)
Theorem rm_errors s n e : rm s n = Err e -> (exists g, e = G g) \/ e = Foreign RecursionError.
Proof.
  unfold rm. destruct (is_star n); [intro H; injection H as <-; left; eauto|].
  destruct (find_named s n) as [x|]; [|intro H; injection H as <-; left; eauto].
  unfold disconnect. destruct (_ && _); [discriminate|]. intro H; injection H as <-. right; reflexivity.
Qed.

(* every operation on every state: a new state, an error of the gfapy hierarchy, or — removal only — RecursionError *)
Theorem step_errors O s o e : step O s o = Err e -> (exists g, e = G g) \/ e = Foreign RecursionError.
Proof.
  destruct o as [t|n|a b|t]; cbn [step]; intro H;
    [| | | unfold rm_line in H; destruct (find _ (lines s)) as [x|];
           [unfold disconnect in H; destruct (_ && _); [discriminate|]; injection H as <-; right; reflexivity
           | injection H as <-; left; eauto]].
  - left. pose proof (add_line_nf O s t) as K. unfold nf in K. rewrite H in K. destruct e as [g|p]; [eauto|discriminate].
  - exact (rm_errors s n e H).
  - left. pose proof (rename_nf s a b) as K. unfold nf in K. rewrite H in K. destruct e as [g|p]; [eauto|discriminate].
Qed.
