(* Proofs/VersionP.v — the version automaton of add_line computes the order-free specification (C13). *)
From Coq Require Import List String Ascii ZArith Bool Lia Permutation.
From GfaV Require Import Base.Py Model.Version Spec.VersionSpec.
Import ListNotations.
Open Scope list_scope.

Definition outcome_ver (o : outcome) : option ver := match o with Accepted v _ => Some v | Rejected => None end.
Definition outcome_added (o : outcome) : list kind := match o with Accepted _ a => a | Rejected => [] end.

Lemma ver_eqb_refl v : ver_eqb v v = true. Proof. destruct v; reflexivity. Qed.
Lemma ver_eqb_eq a b : ver_eqb a b = true <-> a = b.
Proof. destruct a, b; cbn; split; intros H; try reflexivity; try discriminate. Qed.

(* ---------- known version: every line must be compatible; lines are added in order ---------- *)
Lemma add_all_spec v : forall q s,
  add_all v s q = if forallb (compatible v) q
                  then Ok (mkSt (s_version s) (s_guess s) (s_queue s) (s_added s ++ q)) else Err (G EVersion).
Proof.
  induction q as [|k q IH]; intros s; cbn [add_all forallb].
  - rewrite app_nil_r. destruct s; reflexivity.
  - unfold add_known. destruct (compatible v k); cbn [rbind andb]; [|reflexivity].
    rewrite IH. cbn [s_version s_guess s_queue s_added]. rewrite <- app_assoc. reflexivity.
Qed.

Lemma run_known v : forall ks s, s_version s = Some v ->
  run s ks = if forallb (compatible v) ks
             then Ok (mkSt (Some v) (s_guess s) (s_queue s) (s_added s ++ ks)) else Err (G EVersion).
Proof.
  induction ks as [|k ks IH]; intros s Hv; cbn [run forallb].
  - rewrite app_nil_r. destruct s; cbn in *; subst; reflexivity.
  - unfold step. rewrite Hv. unfold add_known. destruct (compatible v k); cbn [rbind andb]; [|reflexivity].
    rewrite IH by exact Hv. cbn [s_version s_guess s_queue s_added]. rewrite <- app_assoc. reflexivity.
Qed.

Lemma process_queue_spec v s :
  process_queue v s = if forallb (compatible v) (s_queue s)
                      then Ok (mkSt (Some v) (s_guess s) [] (s_added s ++ s_queue s)) else Err (G EVersion).
Proof.
  unfold process_queue. rewrite add_all_spec. destruct (forallb (compatible v) (s_queue s)); reflexivity.
Qed.

(* finishing from a state: what build does after the last line *)
Definition finish (rgfa : bool) (r : res st) : outcome :=
  match r with
  | Err _ => Rejected
  | Ok s =>
      let v := match s_version s with Some v => v | None => s_guess s end in
      match process_queue v s with
      | Err _ => Rejected
      | Ok s' => if rgfa && negb (ver_eqb v V1) then Rejected else Accepted v (s_added s')
      end
  end.

Lemma build_finish c ks : build c ks = finish (c_rgfa c) (run (init c) ks).
Proof. reflexivity. Qed.

Definition rgfa_ok (rgfa : bool) (v : ver) : bool := negb (rgfa && negb (ver_eqb v V1)).

(* ---------- facts about the specification ---------- *)
Lemma decides_compatible k w v : decides k = Some w -> compatible v k = ver_eqb v w.
Proof. destruct k as [[u|]|  |u|[|]| |]; cbn; intros H; try discriminate; injection H as <-; reflexivity. Qed.

Lemma says_In v l : says v l = true <-> exists k, In k l /\ decides k = Some v.
Proof.
  unfold says. rewrite existsb_exists. split.
  - intros [k [Hin H]]. exists k. split; [exact Hin|]. destruct (decides k) as [w|]; [|discriminate].
    apply ver_eqb_eq in H. subst. reflexivity.
  - intros [k [Hin H]]. exists k. split; [exact Hin|]. rewrite H. apply ver_eqb_refl.
Qed.

Lemma valid_in_In v l k : valid_in v l = true -> In k l -> compatible v k = true.
Proof. unfold valid_in. rewrite forallb_forall. auto. Qed.

(* a line that decides v pins the specification to v *)
Lemma decide_with_decider rgfa l k v :
  In k l -> decides k = Some v ->
  decide (mkCfg None rgfa) l = if valid_in v l && rgfa_ok rgfa v then Some v else None.
Proof.
  intros Hin Hd. unfold decide, content_version, rgfa_ok. cbn [c_version c_rgfa].
  destruct v.
  - assert (S1 : says V1 l = true) by (apply says_In; exists k; auto). rewrite S1. reflexivity.
  - destruct (says V1 l) eqn:S1.
    + (* someone says V1: invalid in both versions *)
      apply says_In in S1. destruct S1 as [k1 [Hin1 Hd1]].
      assert (A : valid_in V1 l = false).
      { destruct (valid_in V1 l) eqn:E; [|reflexivity].
        pose proof (valid_in_In _ _ _ E Hin) as C. rewrite (decides_compatible k V2 V1 Hd) in C. discriminate. }
      assert (B : valid_in V2 l = false).
      { destruct (valid_in V2 l) eqn:E; [|reflexivity].
        pose proof (valid_in_In _ _ _ E Hin1) as C. rewrite (decides_compatible k1 V1 V2 Hd1) in C. discriminate. }
      rewrite A, B. reflexivity.
    + assert (S2 : says V2 l = true) by (apply says_In; exists k; auto). rewrite S2. reflexivity.
Qed.

Definition neutral (k : kind) : bool := match k with KComment | KH => true | _ => false end.
Definition queued (k : kind) : bool := match k with KG V1 | KCustom => true | _ => false end.

Lemma says_app v a b : says v (a ++ b) = says v a || says v b.
Proof. unfold says. apply existsb_app. Qed.
Lemma has_g1_app a b : has_g1 (a ++ b) = has_g1 a || has_g1 b.
Proof. unfold has_g1. apply existsb_app. Qed.
Lemma valid_in_app v a b : valid_in v (a ++ b) = valid_in v a && valid_in v b.
Proof. unfold valid_in. apply forallb_app. Qed.

Lemma says_queued v q : forallb queued q = true -> says v q = false.
Proof.
  intros H. unfold says. destruct (existsb _ q) eqn:E; [|reflexivity].
  apply existsb_exists in E. destruct E as [k [Hin Hk]]. rewrite forallb_forall in H. specialize (H k Hin).
  destruct k as [[u|]| |u|[|]| |]; cbn in *; discriminate.
Qed.

(* inserting a comment or a VN-less header anywhere changes nothing *)
Lemma decide_neutral c a k b : neutral k = true -> decide c (a ++ k :: b) = decide c (a ++ b).
Proof.
  intros Hn. unfold decide, content_version.
  assert (E1 : forall v, says v (a ++ k :: b) = says v (a ++ b)).
  { intros v. rewrite !says_app. cbn [says existsb]. unfold says. cbn [existsb].
    destruct k; cbn in Hn; try discriminate; reflexivity. }
  assert (E2 : has_g1 (a ++ k :: b) = has_g1 (a ++ b)).
  { rewrite !has_g1_app. unfold has_g1. cbn [existsb]. destruct k; cbn in Hn; try discriminate; reflexivity. }
  assert (E3 : forall v, valid_in v (a ++ k :: b) = valid_in v (a ++ b)).
  { intros v. rewrite !valid_in_app. unfold valid_in. cbn [forallb].
    destruct k; cbn in Hn; try discriminate; reflexivity. }
  rewrite !E1, E2. destruct (c_version c); rewrite ?E3; reflexivity.
Qed.

(* ---------- the automaton from an unknown-version state ---------- *)
Definition guess_of (q : list kind) : ver := if has_g1 q then V1 else V2.

Lemma valid_queue v q : forallb queued q = true ->
  forallb (compatible v) q = valid_in v q.
Proof. reflexivity. Qed.

Theorem run_unknown rgfa : forall ks q a,
  forallb queued q = true ->
  outcome_ver (finish rgfa (run (mkSt None (guess_of q) q a) ks)) = decide (mkCfg None rgfa) (q ++ ks).
Proof.
  induction ks as [|k ks IH]; intros q a Hq.
  - (* end of input: the guessed version *)
    cbn [run finish s_version s_guess]. rewrite process_queue_spec. cbn [s_queue s_added s_guess].
    rewrite app_nil_r. unfold decide, content_version. cbn [c_version c_rgfa].
    rewrite (says_queued V1 q Hq), (says_queued V2 q Hq). fold (guess_of q).
    change (forallb (compatible (guess_of q)) q) with (valid_in (guess_of q) q).
    destruct (valid_in (guess_of q) q); cbn [andb]; [|reflexivity].
    destruct (rgfa && negb (ver_eqb (guess_of q) V1)); reflexivity.
  - cbn [run]. unfold step at 1. cbn [s_version].
    destruct k as [[v|]| |v|[|]| |].
    + (* H with a supported VN: decides v *)
      cbn [s_guess s_queue s_added]. rewrite process_queue_spec. cbn [s_queue s_added s_guess].
      rewrite (decide_with_decider rgfa (q ++ KVN (Some v) :: ks) (KVN (Some v)) v)
        by (try (apply in_or_app; right; left; reflexivity); reflexivity).
      rewrite valid_in_app. change (valid_in v (KVN (Some v) :: ks)) with (compatible v (KVN (Some v)) && valid_in v ks).
      cbn [compatible]. rewrite ver_eqb_refl. cbn [andb].
      change (forallb (compatible v) q) with (valid_in v q).
      destruct (valid_in v q); cbn [rbind andb]; [|reflexivity].
      rewrite (run_known v) by reflexivity. change (forallb (compatible v) ks) with (valid_in v ks).
      destruct (valid_in v ks); cbn [finish andb]; [|reflexivity].
      cbn [s_version]. rewrite process_queue_spec. cbn [s_queue forallb].
      unfold rgfa_ok. destruct (rgfa && negb (ver_eqb v V1)); reflexivity.
    + (* unsupported VN *)
      cbn [rbind finish outcome_ver]. unfold decide.
      assert (A : forall v, valid_in v (q ++ KVN None :: ks) = false).
      { intros v. rewrite valid_in_app. unfold valid_in at 2. cbn [forallb compatible]. apply andb_false_r. }
      rewrite A. reflexivity.
    + (* H without VN *)
      rewrite (decide_neutral _ q KH ks eq_refl). apply IH. exact Hq.
    + (* S line: decides v *)
      rewrite process_queue_spec. cbn [s_queue s_added s_guess].
      rewrite (decide_with_decider rgfa (q ++ KS v :: ks) (KS v) v)
        by (try (apply in_or_app; right; left; reflexivity); reflexivity).
      rewrite valid_in_app. change (valid_in v (KS v :: ks)) with (compatible v (KS v) && valid_in v ks).
      cbn [compatible]. rewrite ver_eqb_refl. cbn [andb].
      change (forallb (compatible v) q) with (valid_in v q).
      destruct (valid_in v q); cbn [rbind andb]; [|reflexivity].
      cbn [s_version s_guess s_queue s_added].
      rewrite (run_known v) by reflexivity. change (forallb (compatible v) ks) with (valid_in v ks).
      destruct (valid_in v ks); cbn [finish andb]; [|reflexivity].
      cbn [s_version]. rewrite process_queue_spec. cbn [s_queue forallb].
      unfold rgfa_ok. destruct (rgfa && negb (ver_eqb v V1)); reflexivity.
    + (* L C P: queued, guess becomes GFA1 *)
      cbn [s_guess s_queue s_added].
      replace (q ++ KG V1 :: ks) with ((q ++ [KG V1]) ++ ks) by (rewrite <- app_assoc; reflexivity).
      assert (G : guess_of (q ++ [KG V1]) = V1) by (unfold guess_of; rewrite has_g1_app; cbn; rewrite orb_true_r; reflexivity).
      rewrite <- G at 1. apply IH. rewrite forallb_app, Hq. reflexivity.
    + (* E F G O U: decides GFA2 *)
      rewrite process_queue_spec. cbn [s_queue s_added s_guess].
      rewrite (decide_with_decider rgfa (q ++ KG V2 :: ks) (KG V2) V2)
        by (try (apply in_or_app; right; left; reflexivity); reflexivity).
      rewrite valid_in_app. change (valid_in V2 (KG V2 :: ks)) with (compatible V2 (KG V2) && valid_in V2 ks).
      cbn [compatible ver_eqb andb].
      change (forallb (compatible V2) q) with (valid_in V2 q).
      destruct (valid_in V2 q); cbn [rbind andb]; [|reflexivity].
      cbn [s_version s_guess s_queue s_added].
      rewrite (run_known V2) by reflexivity. change (forallb (compatible V2) ks) with (valid_in V2 ks).
      destruct (valid_in V2 ks); cbn [finish andb]; [|reflexivity].
      cbn [s_version]. rewrite process_queue_spec. cbn [s_queue forallb].
      unfold rgfa_ok. destruct (rgfa && negb (ver_eqb V2 V1)); reflexivity.
    + (* comment *)
      rewrite (decide_neutral _ q KComment ks eq_refl). apply IH. exact Hq.
    + (* custom record: queued *)
      cbn [s_guess s_queue s_added].
      replace (q ++ KCustom :: ks) with ((q ++ [KCustom]) ++ ks) by (rewrite <- app_assoc; reflexivity).
      assert (G : guess_of (q ++ [KCustom]) = guess_of q) by (unfold guess_of; rewrite has_g1_app; cbn; rewrite orb_false_r; reflexivity).
      rewrite <- G. apply IH. rewrite forallb_app, Hq. reflexivity.
Qed.

(* the whole construction, explicit or inferred version *)
Theorem build_is_decide c ks : outcome_ver (build c ks) = decide c ks.
Proof.
  rewrite build_finish. destruct c as [[v0|] rgfa]; cbn [c_rgfa].
  - (* explicit version *)
    unfold init. cbn [c_version]. rewrite (run_known v0) by reflexivity.
    unfold decide, content_version. cbn [c_version c_rgfa s_guess s_queue s_added].
    change (forallb (compatible v0) ks) with (valid_in v0 ks).
    destruct (valid_in v0 ks); cbn [finish andb]; [|reflexivity].
    cbn [s_version]. rewrite process_queue_spec. cbn [s_queue forallb].
    destruct (rgfa && negb (ver_eqb v0 V1)); reflexivity.
  - apply (run_unknown rgfa ks [] []). reflexivity.
Qed.

(* ---------- order independence ---------- *)
Lemma existsb_perm {A} (p : A -> bool) l l' : Permutation l l' -> existsb p l = existsb p l'.
Proof.
  induction 1 as [|x l l' _ IH|x y l|l l' l'' _ IH1 _ IH2]; cbn; try congruence.
  destruct (p x), (p y); reflexivity.
Qed.

Lemma forallb_perm {A} (p : A -> bool) l l' : Permutation l l' -> forallb p l = forallb p l'.
Proof.
  induction 1 as [|x l l' _ IH|x y l|l l' l'' _ IH1 _ IH2]; cbn; try congruence.
  destruct (p x), (p y); reflexivity.
Qed.

Theorem decide_perm c ks ks' : Permutation ks ks' -> decide c ks = decide c ks'.
Proof.
  intros P. unfold decide, content_version, says, has_g1, valid_in.
  rewrite !(existsb_perm _ _ _ P). destruct (c_version c); rewrite ?(forallb_perm _ _ _ P); reflexivity.
Qed.

Theorem version_order_independent c ks ks' :
  Permutation ks ks' -> outcome_ver (build c ks) = outcome_ver (build c ks').
Proof. intros P. rewrite !build_is_decide. apply decide_perm. exact P. Qed.

(* ---------- every line is added exactly once ---------- *)
Lemma run_known_added v ks s s' : s_version s = Some v -> run s ks = Ok s' -> s_added s' = s_added s ++ ks.
Proof.
  intros Hv. rewrite (run_known v) by exact Hv. destruct (forallb _ ks); [|discriminate].
  intros H. injection H as <-. reflexivity.
Qed.

Theorem run_unknown_added rgfa : forall ks q a v added,
  forallb queued q = true ->
  finish rgfa (run (mkSt None (guess_of q) q a) ks) = Accepted v added ->
  Permutation added (a ++ q ++ ks).
Proof.
  induction ks as [|k ks IH]; intros q a v added Hq.
  - cbn [run finish s_version s_guess]. rewrite process_queue_spec. cbn [s_queue s_added].
    destruct (forallb (compatible (guess_of q)) q); [|discriminate]. destruct (rgfa && _); [discriminate|].
    intros H. injection H as _ <-. rewrite app_nil_r. apply Permutation_refl.
  - cbn [run]. unfold step at 1. cbn [s_version].
    destruct k as [[w|]| |w|[|]| |].
    + cbn [s_guess s_queue s_added]. rewrite process_queue_spec. cbn [s_queue s_added s_guess].
      destruct (forallb (compatible w) q); cbn [rbind]; [|discriminate].
      rewrite (run_known w) by reflexivity. destruct (forallb (compatible w) ks); cbn [finish]; [|discriminate].
      cbn [s_version]. rewrite process_queue_spec. cbn [s_queue s_added forallb].
      destruct (rgfa && _); [discriminate|]. intros H. injection H as _ <-.
      rewrite app_nil_r. rewrite <- !app_assoc. apply Permutation_app_head.
      cbn. apply Permutation_middle.
    + discriminate.
    + intros H. pose proof (IH q (a ++ [KH]) v added Hq H) as P.
      eapply Permutation_trans; [exact P|]. rewrite <- !app_assoc. apply Permutation_app_head.
      cbn. apply Permutation_middle.
    + rewrite process_queue_spec. cbn [s_queue s_added s_guess].
      destruct (forallb (compatible w) q); cbn [rbind]; [|discriminate].
      cbn [s_version s_guess s_queue s_added].
      rewrite (run_known w) by reflexivity. destruct (forallb (compatible w) ks); cbn [finish]; [|discriminate].
      cbn [s_version]. rewrite process_queue_spec. cbn [s_queue s_added forallb].
      destruct (rgfa && _); [discriminate|]. intros H. injection H as _ <-.
      rewrite app_nil_r. rewrite <- !app_assoc. reflexivity.
    + cbn [s_guess s_queue s_added].
      assert (G : guess_of (q ++ [KG V1]) = V1) by (unfold guess_of; rewrite has_g1_app; cbn; rewrite orb_true_r; reflexivity).
      rewrite <- G at 1. intros H.
      pose proof (IH (q ++ [KG V1]) a v added ltac:(rewrite forallb_app, Hq; reflexivity) H) as P.
      rewrite <- app_assoc in P. exact P.
    + rewrite process_queue_spec. cbn [s_queue s_added s_guess].
      destruct (forallb (compatible V2) q); cbn [rbind]; [|discriminate].
      cbn [s_version s_guess s_queue s_added].
      rewrite (run_known V2) by reflexivity. destruct (forallb (compatible V2) ks); cbn [finish]; [|discriminate].
      cbn [s_version]. rewrite process_queue_spec. cbn [s_queue s_added forallb].
      destruct (rgfa && _); [discriminate|]. intros H. injection H as _ <-.
      rewrite app_nil_r. rewrite <- !app_assoc. reflexivity.
    + intros H. pose proof (IH q (a ++ [KComment]) v added Hq H) as P.
      eapply Permutation_trans; [exact P|]. rewrite <- !app_assoc. apply Permutation_app_head.
      cbn. apply Permutation_middle.
    + cbn [s_guess s_queue s_added].
      assert (G : guess_of (q ++ [KCustom]) = guess_of q) by (unfold guess_of; rewrite has_g1_app; cbn; rewrite orb_false_r; reflexivity).
      rewrite <- G. intros H.
      pose proof (IH (q ++ [KCustom]) a v added ltac:(rewrite forallb_app, Hq; reflexivity) H) as P.
      rewrite <- app_assoc in P. exact P.
Qed.

Theorem each_line_added_once c ks v added :
  build c ks = Accepted v added -> Permutation added ks.
Proof.
  rewrite build_finish. destruct c as [[v0|] rgfa]; cbn [c_rgfa].
  - unfold init. cbn [c_version]. rewrite (run_known v0) by reflexivity.
    destruct (forallb (compatible v0) ks); cbn [finish]; [|discriminate].
    cbn [s_version]. rewrite process_queue_spec. cbn [s_queue s_added forallb].
    destruct (rgfa && _); [discriminate|]. intros H. injection H as _ <-. rewrite app_nil_r. apply Permutation_refl.
  - intros H. apply (run_unknown_added rgfa ks [] [] v added eq_refl H).
Qed.
