(* Proofs/OrdersBackrefsP.v — the same back-reference sets in every order (C03): back-references are a function of the
   records, so two states holding the same records (as a multiset) and no placeholder have, for every identifier and
   collection, the same back-references (as a multiset). *)
From Coq Require Import List String Ascii ZArith Bool Lia Permutation.
From GfaV Require Import Base.Py Base.Regex Gen.Tables Model.Align Model.Link Model.Codec Model.Line Model.Graph
  Proofs.GraphP Proofs.FrameP Proofs.RealsP.
Import ListNotations.
Open Scope string_scope.
Open Scope list_scope.

Definition body_t := (rk * list string * list string)%type.
Definition gl_of_body (b : body_t) : gl := mkGl 0 (fst (fst b)) (snd (fst b)) (snd b) false.

Lemma mentions_of_body l : mentions (gl_of_body (body l)) = mentions l.
Proof. destruct l as [i k p t v]. reflexivity. Qed.

(* the back-references computed on the records alone *)
Definition backrefs_b (bs : list body_t) (target coll : string) : list body_t :=
  flat_map (fun b => map (fun _ => b)
                       (filter (fun m => String.eqb (m_target m) target && String.eqb (m_coll m) coll)
                               (mentions (gl_of_body b)))) bs.

Lemma backrefs_bodies s n c : map body (backrefs s n c) = backrefs_b (map body (lines s)) n c.
Proof.
  unfold backrefs, backrefs_b. induction (lines s) as [|l ls IH]; [reflexivity|].
  cbn [flat_map map]. rewrite map_app, IH, mentions_of_body. f_equal. rewrite map_map. apply map_ext. reflexivity.
Qed.

Lemma Permutation_flat_map' {A B} (f : A -> list B) l l' : Permutation l l' -> Permutation (flat_map f l) (flat_map f l').
Proof.
  induction 1 as [|x l l' _ IH|x y l|l l' l'' _ IH1 _ IH2]; cbn [flat_map].
  - constructor.
  - apply Permutation_app_head. exact IH.
  - rewrite !app_assoc. apply Permutation_app_tail. apply Permutation_app_comm.
  - exact (Permutation_trans IH1 IH2).
Qed.

Definition no_placeholder (s : gfa) : Prop := forall l, In l (lines s) -> g_virtual l = false.

Lemma reals_all s : no_placeholder s -> reals s = lines s.
Proof.
  unfold reals, no_placeholder. induction (lines s) as [|l ls IH]; intros H; [reflexivity|]. cbn [filter].
  unfold real at 1. rewrite (H l (or_introl eq_refl)). cbn [negb]. f_equal. apply IH. intros x Hx. apply H. right. exact Hx.
Qed.

Theorem same_records_same_backrefs s1 s2 :
  no_placeholder s1 -> no_placeholder s2 ->
  Permutation (map body (reals s1)) (map body (reals s2)) ->
  forall n c, Permutation (map body (backrefs s1 n c)) (map body (backrefs s2 n c)).
Proof.
  intros H1 H2 P n c. rewrite !backrefs_bodies. rewrite (reals_all s1 H1), (reals_all s2 H2) in P.
  unfold backrefs_b. apply Permutation_flat_map'. exact P.
Qed.

(* two arrival orders of the same lines, both read completely and leaving no placeholder: the same back-references *)
Theorem orders_same_backrefs ls ls' s1 s2 v vl :
  Permutation ls ls' ->
  guards_all (init_gfa v vl) ls -> guards_all (init_gfa v vl) ls' ->
  connect_all (init_gfa v vl) ls = Ok s1 -> connect_all (init_gfa v vl) ls' = Ok s2 ->
  no_placeholder s1 -> no_placeholder s2 ->
  forall n c, Permutation (map body (backrefs s1 n c)) (map body (backrefs s2 n c)).
Proof.
  intros P G1 G2 E1 E2 N1 N2. apply same_records_same_backrefs; try assumption.
  apply (orders_same_records ls ls' s1 s2 v vl P G1 G2 E1 E2).
Qed.

(* and the same reference targets: a mention resolves in one state iff it resolves in the other *)
Lemma pred_of_body m l : pred_of m (gl_of_body (body l)) = pred_of m l.
Proof. destruct l as [i k p t v]. unfold pred_of. destruct (m_seg m); reflexivity. Qed.

Theorem same_records_same_targets s1 s2 :
  no_placeholder s1 -> no_placeholder s2 ->
  Permutation (map body (reals s1)) (map body (reals s2)) ->
  forall m, rl (lines s1) m -> rl (lines s2) m.
Proof.
  intros H1 H2 P m [x [Hx Px]]. rewrite (reals_all s1 H1), (reals_all s2 H2) in P.
  assert (Hb : In (body x) (map body (lines s2))).
  { apply (Permutation_in _ P). apply in_map. exact Hx. }
  apply in_map_iff in Hb. destruct Hb as [y [Ey Hy]]. exists y. split; [exact Hy|].
  rewrite <- (pred_of_body m y), Ey, pred_of_body. exact Px.
Qed.
