(* Proofs/RenameP.v — renaming keeps the reference graph closed (C02, C05, C09): every mention of the old identifier
   follows the new one, every other mention still resolves to the line it resolved to. *)
From Coq Require Import List String Ascii ZArith Bool Lia.
From GfaV Require Import Base.Py Base.Regex Gen.Tables Model.Align Model.Link Model.Codec Model.Line Model.Graph
  Gen.K_edge2 Gen.K_fromto Proofs.RoundTripP Proofs.GraphP.
Import ListNotations.
Open Scope string_scope.
Open Scope list_scope.

(* ---------- strings ---------- *)
Lemma last_char_app1 a c : last_char (a ++ String c EmptyString)%string = Some c.
Proof.
  induction a as [|x a IH]; [reflexivity|]. cbn [String.append last_char].
  destruct (a ++ String c "")%string eqn:E; [destruct a; discriminate|]. exact IH.
Qed.

Lemma drop_last_app1 a c : drop_last (a ++ String c EmptyString)%string = a.
Proof.
  induction a as [|x a IH]; [reflexivity|]. destruct a as [|y a']; [reflexivity|].
  change (String x (drop_last (String y a' ++ String c "")%string) = String x (String y a')). rewrite IH. reflexivity.
Qed.

Lemma last_char_none s : last_char s = None -> s = "".
Proof.
  induction s as [|a r IH]; [reflexivity|]. cbn [last_char]. destruct r as [|b r']; [discriminate|].
  intros H. specialize (IH H). discriminate.
Qed.

Lemma has_char_last s c : last_char s = Some c -> has_char c s = true.
Proof.
  induction s as [|a r IH]; [discriminate|]. cbn [last_char has_char]. destruct r as [|b r'].
  - intros H. injection H as ->. rewrite Ascii.eqb_refl. reflexivity.
  - intros H. rewrite (IH H). apply orb_true_r.
Qed.

Lemma has_char_app c a b : has_char c (a ++ b)%string = has_char c a || has_char c b.
Proof. induction a as [|x a IH]; [reflexivity|]. cbn [String.append has_char]. rewrite IH. apply orb_assoc. Qed.

Lemma split_on_nonempty c s : split_on c s <> [].
Proof.
  induction s as [|a r IH]; cbn [split_on]; [discriminate|]. destruct (Ascii.eqb a c); [discriminate|].
  destruct (split_on c r); [contradiction | discriminate].
Qed.

Lemma split_on_items c s : forallb (fun x => negb (has_char c x)) (split_on c s) = true.
Proof.
  induction s as [|a r IH]; cbn [split_on]; [reflexivity|]. destruct (Ascii.eqb a c) eqn:E.
  - cbn [forallb has_char negb andb]. exact IH.
  - destruct (split_on c r) as [|x xs] eqn:S.
    + cbn [forallb has_char]. rewrite E. reflexivity.
    + cbn [forallb] in *. apply andb_true_iff in IH. destruct IH as [H1 H2]. cbn [has_char]. rewrite E. cbn [orb].
      rewrite H1, H2. reflexivity.
Qed.

Lemma nth_skipn {A} (d : A) : forall n k (p : list A), nth k (skipn n p) d = nth (n + k) p d.
Proof.
  induction n as [|n IH]; intros k p; [reflexivity|]. destruct p as [|x p]; cbn [skipn plus nth].
  - destruct k; reflexivity.
  - apply IH.
Qed.

(* ---------- the renaming of one line ---------- *)
Definition clean (n : string) : bool :=
  negb (has_char comma n) && negb (has_char space n) && negb (String.eqb n "") && negb (is_star n).

Definition on_o (old new x : string) : string := if String.eqb (oname x) old then (new ++ oorient x)%string else x.
Definition on_n (old new x : string) : string := if String.eqb x old then new else x.

Definition ren (old new : string) (l : gl) : gl :=
  mkGl (g_id l) (g_rk l) (rename_in (g_rk l) old new (g_pos l)) (g_tags l) (g_virtual l).

Definition retarget (old new : string) (m : mention) : mention :=
  if String.eqb (m_target m) old then mkM (m_field m) new (m_coll m) (m_seg m) else m.

Lemma rename_in_eq k old new p :
  rename_in k old new p =
  match k with
  | KL | KC => [on_n old new (nth_s 0 p); nth_s 1 p; on_n old new (nth_s 2 p); nth_s 3 p] ++ skipn 4 p
  | KP => [nth_s 0 p; join_with "," (map (on_o old new) (split_on comma (nth_s 1 p)))] ++ skipn 2 p
  | KE | KGp => [nth_s 0 p; on_o old new (nth_s 1 p); on_o old new (nth_s 2 p)] ++ skipn 3 p
  | KF => on_n old new (nth_s 0 p) :: skipn 1 p
  | KO => [nth_s 0 p; join_with " " (map (on_o old new) (split_on space (nth_s 1 p)))] ++ skipn 2 p
  | KU => [nth_s 0 p; join_with " " (map (on_n old new) (split_on space (nth_s 1 p)))] ++ skipn 2 p
  | _ => p
  end.
Proof. destruct k; reflexivity. Qed.

Lemma oname_on_o old new x :
  old <> "" -> oname (on_o old new x) = if String.eqb (oname x) old then new else oname x.
Proof.
  intros Ho. unfold on_o. destruct (String.eqb (oname x) old) eqn:E; [|reflexivity].
  unfold oorient. destruct (last_char x) as [c|] eqn:L.
  - unfold oname. apply drop_last_app1.
  - apply last_char_none in L. subst x. apply String.eqb_eq in E. cbn in E. congruence.
Qed.

Lemma oorient_on_o old new x : old <> "" -> oorient (on_o old new x) = oorient x.
Proof.
  intros Ho. unfold on_o. destruct (String.eqb (oname x) old) eqn:E; [|reflexivity].
  unfold oorient at 2 3. destruct (last_char x) as [c|] eqn:L.
  - unfold oorient. rewrite last_char_app1. reflexivity.
  - apply last_char_none in L. subst x. apply String.eqb_eq in E. cbn in E. congruence.
Qed.

Lemma has_char_on_o c old new x : has_char c new = false -> has_char c x = false -> has_char c (on_o old new x) = false.
Proof.
  intros Hn Hx. unfold on_o. destruct (String.eqb (oname x) old); [|exact Hx].
  rewrite has_char_app, Hn. cbn [orb]. unfold oorient. destruct (last_char x) as [d|] eqn:L; [|reflexivity].
  cbn [has_char]. rewrite orb_false_r. destruct (Ascii.eqb d c) eqn:E; [|reflexivity].
  apply Ascii.eqb_eq in E. subst d. apply has_char_last in L. congruence.
Qed.

Lemma has_char_on_n c old new x : has_char c new = false -> has_char c x = false -> has_char c (on_n old new x) = false.
Proof. intros Hn Hx. unfold on_n. destruct (String.eqb x old); assumption. Qed.

Lemma items_map c (f : string -> string) l :
  (forall x, has_char c x = false -> has_char c (f x) = false) ->
  forallb (fun x => negb (has_char c x)) l = true -> forallb (fun x => negb (has_char c x)) (map f l) = true.
Proof.
  intros Hf. induction l as [|x l IH]; [reflexivity|]. cbn [forallb map]. intros H. apply andb_true_iff in H.
  destruct H as [H1 H2]. apply negb_true_iff in H1. rewrite (Hf x H1). cbn [negb andb]. apply IH. exact H2.
Qed.

Lemma split_join_map c (f : string -> string) s :
  (forall x, has_char c x = false -> has_char c (f x) = false) ->
  split_on c (join_with (String c EmptyString) (map f (split_on c s))) = map f (split_on c s).
Proof.
  intros Hf. apply split_join.
  - destruct (split_on c s) eqn:E; [contradiction (split_on_nonempty c s) | discriminate].
  - apply items_map; [exact Hf | apply split_on_items].
Qed.

Lemma clean_parts n : clean n = true ->
  has_char comma n = false /\ has_char space n = false /\ n <> "" /\ is_star n = false.
Proof.
  unfold clean. intros H. repeat (apply andb_true_iff in H; destruct H as [H ?]).
  repeat match goal with X : negb _ = true |- _ => apply negb_true_iff in X end.
  repeat split; try assumption. intros ->. discriminate.
Qed.

Lemma retarget_mk old new f t c b :
  retarget old new (mkM f t c b) = mkM f (if String.eqb t old then new else t) c b.
Proof. unfold retarget. cbn [m_target m_field m_coll m_seg]. destruct (String.eqb t old); reflexivity. Qed.

Lemma nth_s_app3 a b c (r : list string) k : nth_s (3 + k) ([a; b; c] ++ r) = nth_s k r.
Proof. reflexivity. Qed.

Lemma nth_s_skipn n k p : nth_s k (skipn n p) = nth_s (n + k) p.
Proof. apply nth_skipn. Qed.

Lemma nth_s_keep3 a b c p k : nth_s (3 + k) ([a; b; c] ++ skipn 3 p) = nth_s (3 + k) p.
Proof. change (nth_s (3 + k) ([a; b; c] ++ skipn 3 p)) with (nth_s k (skipn 3 p)). apply nth_s_skipn. Qed.

Lemma edge_colls_ren old new p : old <> "" -> edge_colls (rename_in KE old new p) = edge_colls p.
Proof.
  intros Ho. rewrite rename_in_eq. unfold edge_colls.
  change (nth_s 1 ([nth_s 0 p; on_o old new (nth_s 1 p); on_o old new (nth_s 2 p)] ++ skipn 3 p)) with (on_o old new (nth_s 1 p)).
  change (nth_s 2 ([nth_s 0 p; on_o old new (nth_s 1 p); on_o old new (nth_s 2 p)] ++ skipn 3 p)) with (on_o old new (nth_s 2 p)).
  pose proof (nth_s_keep3 (nth_s 0 p) (on_o old new (nth_s 1 p)) (on_o old new (nth_s 2 p)) p 0) as H3.
  pose proof (nth_s_keep3 (nth_s 0 p) (on_o old new (nth_s 1 p)) (on_o old new (nth_s 2 p)) p 1) as H4.
  pose proof (nth_s_keep3 (nth_s 0 p) (on_o old new (nth_s 1 p)) (on_o old new (nth_s 2 p)) p 2) as H5.
  pose proof (nth_s_keep3 (nth_s 0 p) (on_o old new (nth_s 1 p)) (on_o old new (nth_s 2 p)) p 3) as H6.
  cbn [Nat.add] in H3, H4, H5, H6. rewrite H3, H4, H5, H6, !oorient_on_o by exact Ho. reflexivity.
Qed.

Theorem mentions_ren old new l :
  clean old = true -> clean new = true -> mentions (ren old new l) = map (retarget old new) (mentions l).
Proof.
  intros Co Cn. apply clean_parts in Co. destruct Co as [_ [_ [Ho _]]].
  apply clean_parts in Cn. destruct Cn as [Nc [Ns [_ _]]].
  destruct l as [i k p t v]. unfold ren. cbn [g_id g_rk g_pos g_tags g_virtual].
  destruct k; try reflexivity.
  - (* L *) rewrite rename_in_eq. unfold mentions. cbn [g_rk g_pos map app nth_s nth]. rewrite !retarget_mk. reflexivity.
  - (* C *) rewrite rename_in_eq. unfold mentions. cbn [g_rk g_pos map app nth_s nth]. rewrite !retarget_mk. reflexivity.
  - (* P *) rewrite rename_in_eq. unfold mentions. cbn [g_rk g_pos].
    change (nth_s 1 ([nth_s 0 p; join_with "," (map (on_o old new) (split_on comma (nth_s 1 p)))] ++ skipn 2 p))
      with (join_with (String comma EmptyString) (map (on_o old new) (split_on comma (nth_s 1 p)))).
    rewrite split_join_map by (intros x Hx; apply has_char_on_o; assumption).
    rewrite !map_map. apply map_ext. intros x. rewrite retarget_mk, oname_on_o by exact Ho. reflexivity.
  - (* E *) unfold mentions. cbn [g_rk g_pos]. rewrite edge_colls_ren by exact Ho.
    destruct (edge_colls p) as [[c1 c2]|e]; [|reflexivity]. rewrite rename_in_eq.
    change (nth_s 1 ([nth_s 0 p; on_o old new (nth_s 1 p); on_o old new (nth_s 2 p)] ++ skipn 3 p)) with (on_o old new (nth_s 1 p)).
    change (nth_s 2 ([nth_s 0 p; on_o old new (nth_s 1 p); on_o old new (nth_s 2 p)] ++ skipn 3 p)) with (on_o old new (nth_s 2 p)).
    cbn [map]. rewrite !retarget_mk, !oname_on_o by exact Ho. reflexivity.
  - (* G *) unfold mentions. cbn [g_rk g_pos]. rewrite rename_in_eq.
    change (nth_s 1 ([nth_s 0 p; on_o old new (nth_s 1 p); on_o old new (nth_s 2 p)] ++ skipn 3 p)) with (on_o old new (nth_s 1 p)).
    change (nth_s 2 ([nth_s 0 p; on_o old new (nth_s 1 p); on_o old new (nth_s 2 p)] ++ skipn 3 p)) with (on_o old new (nth_s 2 p)).
    rewrite !oorient_on_o by exact Ho.
    destruct (k_gap_refkey_for_s (oorient (nth_s 1 p)) (oorient (nth_s 2 p)) 1) as [c1|e1]; [|reflexivity].
    destruct (k_gap_refkey_for_s (oorient (nth_s 1 p)) (oorient (nth_s 2 p)) 2) as [c2|e2]; [|reflexivity].
    cbn [map]. rewrite !retarget_mk, !oname_on_o by exact Ho. reflexivity.
  - (* F *) rewrite rename_in_eq. unfold mentions. cbn [g_rk g_pos map nth_s nth]. rewrite !retarget_mk. reflexivity.
  - (* O *) rewrite rename_in_eq. unfold mentions. cbn [g_rk g_pos].
    change (nth_s 1 ([nth_s 0 p; join_with " " (map (on_o old new) (split_on space (nth_s 1 p)))] ++ skipn 2 p))
      with (join_with (String space EmptyString) (map (on_o old new) (split_on space (nth_s 1 p)))).
    rewrite split_join_map by (intros x Hx; apply has_char_on_o; assumption).
    rewrite !map_map. apply map_ext. intros x. rewrite retarget_mk, oname_on_o by exact Ho. reflexivity.
  - (* U *) rewrite rename_in_eq. unfold mentions. cbn [g_rk g_pos].
    change (nth_s 1 ([nth_s 0 p; join_with " " (map (on_n old new) (split_on space (nth_s 1 p)))] ++ skipn 2 p))
      with (join_with (String space EmptyString) (map (on_n old new) (split_on space (nth_s 1 p)))).
    rewrite split_join_map by (intros x Hx; apply has_char_on_n; assumption).
    rewrite !map_map. apply map_ext. intros x. rewrite retarget_mk. reflexivity.
Qed.

(* ---------- who answers for an identifier before and after ---------- *)
Lemma named_pred_ren old new n l : named_pred n (ren old new l) = named_pred n l.
Proof. destruct l as [i k p t v]. destruct k; reflexivity. Qed.

Lemma seg_pred_ren old new n l : seg_pred n (ren old new l) = seg_pred n l.
Proof. destruct l as [i k p t v]. destruct k; reflexivity. Qed.

Lemma pred_of_ren old new m l : pred_of m (ren old new l) = pred_of m l.
Proof. unfold pred_of. destruct (m_seg m); [apply seg_pred_ren | apply named_pred_ren]. Qed.

Definition renamed (new : string) (x : gl) : gl :=
  mkGl (g_id x) (g_rk x) (new :: skipn 1 (g_pos x)) (g_tags x) (g_virtual x).

Lemma named_pred_ns_name n l : named_pred n l = true -> ns_name l = [n].
Proof.
  unfold named_pred, ns_name. intros H. apply andb_true_iff in H. destruct H as [H1 H2]. rewrite H1.
  destruct (name_of l) as [m|]; [|discriminate]. apply String.eqb_eq in H2. subst m. reflexivity.
Qed.

Lemma seg_pred_renamed old new x : seg_pred old x = true -> seg_pred new (renamed new x) = true.
Proof.
  unfold seg_pred, renamed, is_segment. cbn [g_rk g_pos nth_s nth]. intros H. apply andb_true_iff in H.
  destruct H as [H _]. rewrite H. cbn [andb]. apply String.eqb_refl.
Qed.

Lemma named_pred_renamed old new x :
  is_star new = false -> named_pred old x = true -> named_pred new (renamed new x) = true.
Proof.
  intros Hs. destruct x as [i k p t v]. unfold named_pred, renamed, in_namespace, name_of.
  cbn [g_id g_rk g_pos g_tags g_virtual nth_s nth]. intros H. apply andb_true_iff in H. destruct H as [H1 H2].
  rewrite H1. cbn [andb].
  destruct k; try discriminate; try (rewrite ?Hs; apply String.eqb_refl);
    try (vm_compute in H1; discriminate).
Qed.

Lemma skipn1_nth k new (p : list string) : nth_s (S k) (new :: skipn 1 p) = nth_s (S k) p.
Proof. unfold nth_s. cbn [nth]. apply (nth_skipn "" 1 k p). Qed.

Lemma mentions_renamed new x : in_namespace x = true -> mentions (renamed new x) = mentions x.
Proof.
  destruct x as [i k p t v]. unfold renamed, in_namespace. cbn [g_id g_rk g_pos g_tags g_virtual]. intros H.
  destruct k; try reflexivity; try (vm_compute in H; discriminate);
    unfold mentions, edge_colls; cbn [g_rk g_pos]; rewrite !skipn1_nth; reflexivity.
Qed.

(* ---------- the theorem ---------- *)
Definition rename_guard (s : gfa) (old new : string) : Prop :=
  clean old = true /\ clean new = true /\
  (forall x, find_named s old = Some x -> forall m, In m (mentions x) -> m_target m <> old).

Lemma in_filter_ne (s : gfa) (x y : gl) :
  In y (lines s) -> g_id y <> g_id x -> In y (filter (fun l => negb (Nat.eqb (g_id l) (g_id x))) (lines s)).
Proof. intros Hy Hne. apply filter_In. split; [exact Hy|]. apply negb_true_iff. apply Nat.eqb_neq. exact Hne. Qed.

Theorem rename_inv s old new s' :
  Inv s -> rename_guard s old new -> rename s old new = Ok s' -> Inv s'.
Proof.
  intros [Hids [Hu Hc]] [Co [Cn Hself]] Hr. pose proof (rename_names s old new s' Hu Hr) as Hn'.
  unfold rename in Hr. destruct (find_named s old) as [x|] eqn:Ex; [|discriminate].
  destruct (negb _ && _); [discriminate|]. destruct (Nat.leb 1 (g_vlevel s) && _); [discriminate|].
  destruct (find_named s new) as [y|] eqn:Ey.
  { destruct (Nat.eqb (g_id y) (g_id x)); [injection Hr as <-; exact (conj Hids (conj Hu Hc)) | discriminate]. }
  injection Hr as <-. specialize (Hself x eq_refl).
  apply find_named_some in Ex as Hx. destruct Hx as [Hxin Hxname].
  pose proof (clean_parts _ Cn) as [_ [_ [_ Hstar]]].
  assert (Hxns : in_namespace x = true).
  { unfold ns_name in Hxname. destruct (in_namespace x); [reflexivity | discriminate]. }
  set (others := filter (fun l => negb (Nat.eqb (g_id l) (g_id x))) (lines s)).
  fold (renamed new x). change (map (fun l => mkGl (g_id l) (g_rk l) (rename_in (g_rk l) old new (g_pos l)) (g_tags l) (g_virtual l)) others)
    with (map (ren old new) others).
  assert (Hsub : forall l, In l others -> In l (lines s)).
  { intros l Hl. apply filter_In in Hl. exact (proj1 Hl). }
  split; [|split; [exact Hn'|]].
  - (* identities *)
    destruct Hids as [Hnd Hb]. split; cbn [lines next_id].
    + rewrite map_app, map_map. cbn [map renamed g_id ren].
      apply NoDup_app_iff. repeat split.
      * apply (NoDup_map_filter g_id _ (lines s) Hnd).
      * repeat constructor. intros [].
      * intros i Hi [<-|[]]. apply in_map_iff in Hi. destruct Hi as [l [Hl1 Hl2]]. apply filter_In in Hl2.
        destruct Hl2 as [_ Hl2]. apply negb_true_iff in Hl2. apply Nat.eqb_neq in Hl2. congruence.
    + intros l Hl. apply in_app_iff in Hl. destruct Hl as [Hl|[<-|[]]].
      * apply in_map_iff in Hl. destruct Hl as [l0 [<- Hl0]]. cbn [ren g_id]. apply Hb. apply Hsub. exact Hl0.
      * cbn [renamed g_id]. apply Hb. exact Hxin.
  - (* closure: every mention of the new state is the retargeted image of a mention of the old one *)
    assert (T : forall l m, In l (lines s) -> In m (mentions l) ->
                rl (map (ren old new) others ++ [renamed new x]) (retarget old new m)).
    { intros l m Hl Hm. pose proof (Hc l Hl m Hm) as R. apply resolves_rl in R. destruct R as [y [Hy Py]].
      unfold retarget. destruct (String.eqb (m_target m) old) eqn:E.
      - apply String.eqb_eq in E.
        (* the line that answered is x itself *)
        assert (Pn : named_pred old y = true).
        { unfold pred_of in Py. rewrite E in Py. destruct (m_seg m); [apply seg_pred_named|]; exact Py. }
        assert (y = x) as ->.
        { pose proof (lookup_coherent s old Hu) as [_ [_ L]].
          destruct (L y x Hy Hxin (named_pred_ns_name _ _ Pn) Hxname) as [Hid|Heq]; [|exact Heq].
          apply (same_id_same_line s y x Hids Hy Hxin Hid). }
        exists (renamed new x). split; [apply in_app_iff; right; left; reflexivity|].
        unfold pred_of in *. cbn [m_seg m_target]. rewrite E in Py. destruct (m_seg m).
        + apply (seg_pred_renamed old). exact Py.
        + apply (named_pred_renamed old); assumption.
      - apply String.eqb_neq in E.
        assert (Hne : g_id y <> g_id x).
        { intros Hid. pose proof (same_id_same_line s y x Hids Hy Hxin Hid) as ->.
          assert (Pn : named_pred (m_target m) x = true).
          { unfold pred_of in Py. destruct (m_seg m); [apply seg_pred_named|]; exact Py. }
          apply named_pred_ns_name in Pn. rewrite Hxname in Pn. congruence. }
        exists (ren old new y). split.
        + apply in_app_iff. left. apply in_map. apply in_filter_ne; assumption.
        + rewrite pred_of_ren. exact Py. }
    intros l' Hl' m' Hm'. apply resolves_rl. cbn [lines] in *.
    apply in_app_iff in Hl'. destruct Hl' as [Hl'|[<-|[]]].
    + apply in_map_iff in Hl'. destruct Hl' as [l [<- Hl]]. rewrite (mentions_ren old new l Co Cn) in Hm'.
      apply in_map_iff in Hm'. destruct Hm' as [m [<- Hm]]. apply (T l m (Hsub l Hl) Hm).
    + change (In m' (mentions (renamed new x))) in Hm'. rewrite (mentions_renamed new x Hxns) in Hm'. pose proof (T x m' Hxin Hm') as R.
      unfold retarget in R. destruct (String.eqb (m_target m') old) eqn:E; [|exact R].
      apply String.eqb_eq in E. contradiction (Hself m' Hm' E).
Qed.

(* histories with renames *)
Definition op_guard3 (O : oracle) (s : gfa) (o : op) : Prop :=
  match o with
  | ORename a b => rename_guard s a b
  | _ => op_guard2 O s o
  end.

Theorem step_inv3 O s o s' : Inv s -> op_guard3 O s o -> step O s o = Ok s' -> Inv s'.
Proof.
  intros Hi Hg Hs. destruct o as [t|n|a b|t].
  - apply (step_inv O s (OAdd t) s' Hi Hg Hs).
  - apply (step_inv O s (ORm n) s' Hi Hg Hs).
  - apply (rename_inv s a b s' Hi Hg Hs).
  - apply (step_inv O s (ORmLine t) s' Hi Hg Hs).
Qed.

Fixpoint guards3_hold (O : oracle) (s : gfa) (ops : list op) : Prop :=
  match ops with [] => True | o :: r => op_guard3 O s o /\ guards3_hold O (fst (apply O s o)) r end.

Theorem inv_reachable3 O : forall ops s, Inv s -> guards3_hold O s ops -> Inv (run_ops O s ops).
Proof.
  induction ops as [|o ops IH]; intros s Hi Hg; cbn [run_ops]; [exact Hi|].
  destruct Hg as [G1 G2]. apply IH; [|exact G2].
  unfold apply. destruct (step O s o) as [s1|e] eqn:E; cbn [fst]; [|exact Hi].
  apply (step_inv3 O s o s1 Hi G1 E).
Qed.

(* what a rename does to the text: the renamed line carries the new identifier, every other line is rewritten by
   [rename_in] and nothing else changes; mentions follow (mentions_ren) *)
Theorem rename_lines s old new s' x :
  find_named s old = Some x -> find_named s new = None -> rename s old new = Ok s' ->
  lines s' = map (ren old new) (filter (fun l => negb (Nat.eqb (g_id l) (g_id x))) (lines s)) ++ [renamed new x].
Proof.
  intros Ex Ey. unfold rename. rewrite Ex, Ey. destruct (negb _ && _); [discriminate|].
  destruct (Nat.leb 1 (g_vlevel s) && _); [discriminate|]. intros H. injection H as <-. reflexivity.
Qed.

(* a line that does not mention the old identifier is left exactly as it was *)
Theorem ren_untouched old new l :
  clean old = true -> clean new = true -> (forall m, In m (mentions l) -> m_target m <> old) ->
  mentions (ren old new l) = mentions l.
Proof.
  intros Co Cn H. rewrite mentions_ren by assumption. rewrite <- (map_id (mentions l)) at 2. apply map_ext_in.
  intros m Hm. unfold retarget. destruct (String.eqb (m_target m) old) eqn:E; [|reflexivity].
  apply String.eqb_eq in E. contradiction (H m Hm E).
Qed.
