(* Proofs/FrameP.v — what an addition leaves alone: every line that is not a placeholder stays in the Gfa, as it is,
   when another line is connected (C15: the rest of the graph is untouched by a multiplication; C02/C05: frame of add). *)
From Coq Require Import List String Ascii ZArith Bool Lia.
From GfaV Require Import Base.Py Base.Regex Gen.Tables Model.Align Model.Link Model.Codec Model.Line Model.Graph
  Model.Multiply Proofs.GraphP.
Import ListNotations.
Open Scope string_scope.
Open Scope list_scope.

Definition keeps (s s' : gfa) : Prop := forall x, In x (lines s) -> g_virtual x = false -> In x (lines s').

Lemma keeps_refl s : keeps s s. Proof. intros x H _. exact H. Qed.
Lemma keeps_trans a b c : keeps a b -> keeps b c -> keeps a c.
Proof. intros H1 H2 x Hx Hv. apply H2; [apply H1; assumption | exact Hv]. Qed.

Lemma keeps_add_raw s l : keeps s (add_raw s l).
Proof. intros x Hx _. apply lines_add_raw. exact Hx. Qed.

(* removing a placeholder removes no other line *)
Lemma keeps_remove_virtual s prev :
  ids_ok s -> In prev (lines s) -> g_virtual prev = true -> keeps s (remove_id s (g_id prev)).
Proof.
  intros Hids Hp Hv x Hx Hxv. apply in_remove_id. split; [exact Hx|]. intros Hid.
  pose proof (same_id_same_line s x prev Hids Hx Hp Hid) as E. subst x. congruence.
Qed.

Lemma ensure_target_keeps s m s' : ids_ok s -> ensure_target (Ok s) m = Ok s' -> keeps s s'.
Proof.
  intros Hids. unfold ensure_target. cbn [rbind]. destruct (m_seg m).
  - destruct (find_segment s (m_target m)); [intros H; injection H as <-; apply keeps_refl|].
    destruct (find_named s (m_target m)) as [prev|] eqn:Efn.
    + destruct (g_virtual prev) eqn:Ev; [|discriminate]. intros H. injection H as <-.
      apply find_some in Efn. destruct Efn as [Hp _].
      apply (keeps_trans _ (remove_id s (g_id prev))); [apply keeps_remove_virtual; assumption | apply keeps_add_raw].
    + intros H. injection H as <-. apply keeps_add_raw.
  - destruct (find_named s (m_target m)); intros H; injection H as <-; [apply keeps_refl | apply keeps_add_raw].
Qed.

Lemma ensure_targets_keeps ms : forall s s', ids_ok s -> fold_left ensure_target ms (Ok s) = Ok s' -> keeps s s'.
Proof.
  induction ms as [|m ms IH]; intros s s' Hids H; cbn [fold_left] in H.
  - injection H as <-. apply keeps_refl.
  - destruct (ensure_target (Ok s) m) as [s1|e] eqn:E1; [|rewrite fold_ensure_target_err in H; discriminate].
    destruct (ensure_target_spec s m s1 Hids E1) as [I1 _].
    apply (keeps_trans _ s1); [apply (ensure_target_keeps s m s1 Hids E1) | apply (IH s1 s' I1 H)].
Qed.

Lemma ensure_step_keeps s st s' : ids_ok s -> ensure_step (Ok s) st = Ok s' -> keeps s s'.
Proof.
  intros Hids. unfold ensure_step. cbn [rbind]. destruct st as [[a b] ov].
  match goal with |- context [match ?c with Some _ => Ok s | None => _ end] => destruct c end.
  - intros H. injection H as <-. apply keeps_refl.
  - unfold ensure_targets.
    match goal with |- context [fold_left ensure_target ?ms (Ok s)] =>
      destruct (fold_left ensure_target ms (Ok s)) as [s1|e] eqn:E1 end; cbn [rbind]; [|discriminate].
    intros H. injection H as <-.
    apply (keeps_trans _ s1); [apply (ensure_targets_keeps _ s s1 Hids E1) | apply keeps_add_raw].
Qed.

Lemma ensure_steps_keeps sts : forall s s', ids_ok s -> fold_left ensure_step sts (Ok s) = Ok s' -> keeps s s'.
Proof.
  induction sts as [|st sts IH]; intros s s' Hids H; cbn [fold_left] in H.
  - injection H as <-. apply keeps_refl.
  - destruct (ensure_step (Ok s) st) as [s1|e] eqn:E1; [|rewrite fold_ensure_step_err in H; discriminate].
    destruct (ensure_step_spec s st s1 Hids E1) as [I1 _].
    apply (keeps_trans _ s1); [apply (ensure_step_keeps s st s1 Hids E1) | apply (IH s1 s' I1 H)].
Qed.

Lemma place_keeps s l s' : ids_ok s -> place s l = Ok s' -> keeps s s' /\ ids_ok s'.
Proof.
  intros Hids. unfold place.
  destruct (match g_rk l with KP => fold_left ensure_step (path_steps (g_pos l)) (Ok s) | _ => Ok s end) as [s1|e] eqn:E1;
    cbn [rbind]; [|discriminate].
  unfold ensure_targets. destruct (fold_left ensure_target (mentions l) (Ok s1)) as [s2|e] eqn:E2; cbn [rbind]; [|discriminate].
  intros H. injection H as <-.
  assert (S1 : ids_ok s1 /\ keeps s s1).
  { destruct (g_rk l); try (injection E1 as <-; split; [exact Hids | apply keeps_refl]).
    split; [apply (ensure_steps_spec _ s s1 Hids E1) | apply (ensure_steps_keeps _ s s1 Hids E1)]. }
  destruct S1 as [I1 K1]. destruct (ensure_targets_spec _ s1 s2 I1 E2) as [I2 _].
  split.
  - apply (keeps_trans _ s1); [exact K1|]. apply (keeps_trans _ s2); [apply (ensure_targets_keeps _ s1 s2 I1 E2) | apply keeps_add_raw].
  - apply (ids_ok_add_raw s2 (mkGl (next_id s2) (g_rk l) (g_pos l) (g_tags l) false) I2 eq_refl).
Qed.

(* connecting a line that is not a group: every line that is not a placeholder stays *)
Theorem connect_keeps s l s' :
  ids_ok s -> g_rk l <> KO -> g_rk l <> KU -> connect s l = Ok s' -> keeps s s' /\ ids_ok s'.
Proof.
  intros Hids HO HU. unfold connect.
  destruct (match g_rk l with KE => rmap (fun _ => tt) (edge_colls (g_pos l)) | _ => Ok tt end); cbn [rbind]; [|discriminate].
  destruct (duplicate_of s l) as [prev|] eqn:Ed; [|apply place_keeps; exact Hids].
  destruct (g_virtual prev) eqn:Ev.
  - intros H. pose proof (duplicate_in_lines s l prev Ed) as Hp.
    destruct (place_keeps _ l s' (ids_ok_remove s (g_id prev) Hids) H) as [K I]. split; [|exact I].
    apply (keeps_trans _ (remove_id s (g_id prev))); [apply keeps_remove_virtual; assumption | exact K].
  - destruct (g_rk l); try discriminate; try congruence.
    destruct (is_complement _ _); [|discriminate]. intros H. injection H as <-. split; [apply keeps_refl | exact Hids].
Qed.

(* ---------- multiplication leaves the rest of the graph alone ---------- *)
Lemma backrefs_not_group s n coll e :
  In e (backrefs s n coll) -> coll <> "paths" -> coll <> "sets" -> g_rk e <> KO /\ g_rk e <> KU.
Proof.
  unfold backrefs. intros H Hp Hs. apply in_flat_map in H. destruct H as [l [_ H]].
  apply in_map_iff in H. destruct H as [m [<- Hm]]. apply filter_In in Hm. destruct Hm as [Hm Hc].
  apply andb_true_iff in Hc. destruct Hc as [_ Hc]. apply String.eqb_eq in Hc.
  split; intros Hk; unfold mentions in Hm; rewrite Hk in Hm; apply in_map_iff in Hm; destruct Hm as [x [<- _]];
    cbn [m_coll] in Hc; congruence.
Qed.

Lemma seg_edges_not_group s n e : In e (seg_edges s n) -> g_rk e <> KO /\ g_rk e <> KU.
Proof.
  unfold seg_edges. intros H. repeat (apply in_app_or in H; destruct H as [H|H]);
    apply (backrefs_not_group _ _ _ _ H); discriminate.
Qed.

Lemma fold_connect_err (f : gl -> gl) edges e :
  fold_left (fun acc x => do a <- acc ;; connect a (f x)) edges (Err e) = Err e.
Proof. induction edges as [|x xs IH]; cbn; [reflexivity | exact IH]. Qed.

Lemma fold_connect_keeps (f : gl -> gl) : forall edges s s',
  ids_ok s -> (forall x, In x edges -> g_rk (f x) <> KO /\ g_rk (f x) <> KU) ->
  fold_left (fun acc x => do a <- acc ;; connect a (f x)) edges (Ok s) = Ok s' -> keeps s s' /\ ids_ok s'.
Proof.
  induction edges as [|x xs IH]; intros s s' Hids Hk H; cbn [fold_left] in H.
  - injection H as <-. split; [apply keeps_refl | exact Hids].
  - cbn [rbind] in H. destruct (connect s (f x)) as [s1|e] eqn:E1; [|rewrite fold_connect_err in H; discriminate].
    destruct (Hk x (or_introl eq_refl)) as [HO HU].
    destruct (connect_keeps s (f x) s1 Hids HO HU E1) as [K1 I1].
    destruct (IH s1 s' I1 (fun y Hy => Hk y (or_intror Hy)) H) as [K2 I2].
    split; [apply (keeps_trans _ s1); assumption | exact I2].
Qed.

Lemma clone_into_err seg edges e cn : clone_into seg edges (Err e) cn = Err e.
Proof. reflexivity. Qed.

Lemma fold_clone_err seg edges cns e : fold_left (clone_into seg edges) cns (Err e) = Err e.
Proof. induction cns as [|c cs IH]; cbn [fold_left]; [reflexivity | rewrite clone_into_err; exact IH]. Qed.

Lemma clone_into_keeps seg edges s cn s' :
  ids_ok s -> is_segment seg = true -> (forall e, In e edges -> g_rk e <> KO /\ g_rk e <> KU) ->
  clone_into seg edges (Ok s) cn = Ok s' -> keeps s s' /\ ids_ok s'.
Proof.
  intros Hids Hseg He. unfold clone_into. cbn [rbind].
  destruct (connect s (mkGl 0 (g_rk seg) (cn :: skipn 1 (g_pos seg)) (g_tags seg) false)) as [s1|e] eqn:E1; cbn [rbind]; [|discriminate].
  assert (Hrk : g_rk seg <> KO /\ g_rk seg <> KU).
  { unfold is_segment in Hseg. destruct (g_rk seg); try discriminate; split; discriminate. }
  destruct (connect_keeps s (mkGl 0 (g_rk seg) (cn :: skipn 1 (g_pos seg)) (g_tags seg) false) s1 Hids (proj1 Hrk) (proj2 Hrk) E1) as [K1 I1].
  intros H. destruct (fold_connect_keeps (rename_edge (nth_s 0 (g_pos seg)) cn) edges s1 s' I1) as [K2 I2].
  - intros x Hx. exact (He x Hx).
  - exact H.
  - split; [apply (keeps_trans _ s1); assumption | exact I2].
Qed.

Lemma fold_clone_keeps seg edges : forall cns s s',
  ids_ok s -> is_segment seg = true -> (forall e, In e edges -> g_rk e <> KO /\ g_rk e <> KU) ->
  fold_left (clone_into seg edges) cns (Ok s) = Ok s' -> keeps s s' /\ ids_ok s'.
Proof.
  induction cns as [|c cs IH]; intros s s' Hids Hseg He H; cbn [fold_left] in H.
  - injection H as <-. split; [apply keeps_refl | exact Hids].
  - destruct (clone_into seg edges (Ok s) c) as [s1|e] eqn:E1; [|rewrite fold_clone_err in H; discriminate].
    destruct (clone_into_keeps seg edges s c s1 Hids Hseg He E1) as [K1 I1].
    destruct (IH s1 s' I1 Hseg He H) as [K2 I2]. split; [apply (keeps_trans _ s1); assumption | exact I2].
Qed.

Lemma ids_ok_map (f : gl -> gl) s :
  (forall l, g_id (f l) = g_id l) -> ids_ok s -> ids_ok (mkGfa (map f (lines s)) (next_id s) (g_version s) (g_vlevel s)).
Proof.
  intros Hf [Hn Hb]. split; cbn [lines next_id].
  - rewrite map_map. rewrite (map_ext _ g_id Hf). exact Hn.
  - intros l Hl. apply in_map_iff in Hl. destruct Hl as [l0 [<- Hl0]]. rewrite Hf. apply Hb. exact Hl0.
Qed.

Lemma find_segment_is_segment s n x : find_segment s n = Some x -> is_segment x = true.
Proof. unfold find_segment. intros H. apply find_some in H. destruct H as [_ H]. apply andb_true_iff in H. exact (proj1 H). Qed.

(* Gfa.multiply(n, k) without distribution: a line that is not a placeholder, not the multiplied segment and not one
   of its dovetails or containments is in the graph afterwards exactly as it was *)
Theorem multiply_frame s n k names s' :
  ids_ok s -> (2 <= k)%Z -> multiply s n k names None = Ok s' ->
  forall x, In x (lines s) -> g_virtual x = false ->
            (forall seg0, find_segment s n = Some seg0 -> g_id x <> g_id seg0) ->
            ~ In (g_id x) (map g_id (seg_edges s n)) ->
            In x (lines s').
Proof.
  intros Hids Hk. unfold multiply.
  destruct (Z.ltb_spec k 0) as [?|_]; [lia|]. destruct (Z.eqb_spec k 0) as [?|_]; [lia|].
  destruct (Z.eqb_spec k 1) as [?|_]; [lia|].
  destruct (find_segment s n) as [seg0|] eqn:E0; [|discriminate].
  set (f := fun l : gl => if Nat.eqb (g_id l) (g_id seg0) || mem_id (g_id l) (map g_id (seg_edges s n)) then div_counts k l else l).
  set (s1 := mkGfa (map f (lines s)) (next_id s) (g_version s) (g_vlevel s)).
  destruct (find_segment s1 n) as [seg|] eqn:E1; [|discriminate].
  destruct (match names with Some l => Ok l | None => _ end) as [cns|e]; cbn [rbind]; [|discriminate].
  destruct (fold_left (clone_into seg (seg_edges s1 n)) cns (Ok s1)) as [s2|e] eqn:E2; cbn [rbind]; [|discriminate].
  intros H. injection H as <-. intros x Hx Hv Hseg Hedge.
  assert (I1 : ids_ok s1).
  { apply ids_ok_map; [|exact Hids]. intros l. unfold f. destruct (_ || _); reflexivity. }
  destruct (fold_clone_keeps seg (seg_edges s1 n) cns s1 s2 I1 (find_segment_is_segment s1 n seg E1)
              (fun e He => seg_edges_not_group s1 n e He) E2) as [K _].
  apply K; [|exact Hv]. change (lines s1) with (map f (lines s)).
  assert (Efx : f x = x).
  { unfold f. destruct (Nat.eqb_spec (g_id x) (g_id seg0)) as [E|_]; [contradiction (Hseg seg0 eq_refl E)|].
    destruct (mem_id (g_id x) (map g_id (seg_edges s n))) eqn:Em; [|reflexivity].
    apply mem_id_In in Em. contradiction. }
  rewrite <- Efx. apply in_map. exact Hx.
Qed.
