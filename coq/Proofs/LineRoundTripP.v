(* Proofs/LineRoundTripP.v — writing a constructed line gives back the text it was constructed from (C01):
   every positional field and every tag reappears, in place, nothing is added or dropped; the only differences are the
   canonical spellings of the field values. *)
From Coq Require Import List String Ascii ZArith Bool Lia.
From GfaV Require Import Base.Py Base.Regex Base.RegexIncl Gen.Tables Gen.Regexes Model.Align Model.Codec Model.Line
  Proofs.RoundTripP.
Import ListNotations.
Open Scope string_scope.
Open Scope list_scope.

(* ---------- joining what was split ---------- *)
Lemma split_on_nonempty' c s : split_on c s <> [].
Proof.
  induction s as [|a r IH]; cbn [split_on]; [discriminate|]. destruct (Ascii.eqb a c); [discriminate|].
  destruct (split_on c r); [contradiction | discriminate].
Qed.

Theorem join_split c s : join_with (String c EmptyString) (split_on c s) = s.
Proof.
  induction s as [|a r IH]; [reflexivity|]. cbn [split_on].
  destruct (split_on c r) as [|x xs] eqn:S; [contradiction (split_on_nonempty' c r)|].
  destruct (Ascii.eqb a c) eqn:E.
  - apply Ascii.eqb_eq in E. subst a.
    change (join_with (String c "") ("" :: x :: xs)) with (String c (join_with (String c "") (x :: xs))).
    rewrite IH. reflexivity.
  - destruct xs as [|y ys].
    + cbn [join_with] in *. rewrite IH. reflexivity.
    + change (join_with (String c "") (String a x :: y :: ys))
        with (String a (x ++ String c "" ++ join_with (String c "") (y :: ys))%string).
      change (join_with (String c "") (x :: y :: ys)) with (x ++ String c "" ++ join_with (String c "") (y :: ys))%string in IH.
      rewrite IH. reflexivity.
Qed.

(* ---------- the shape of a tag ---------- *)
Lemma cls_inv cs w : lang (Cls cs) w -> exists c, w = String c EmptyString /\ in_cset c cs = true.
Proof. intros H. inversion H; subst. eauto. Qed.

Lemma colon_only c : in_cset c [(58, 58)]%N = true -> c = ":"%char.
Proof. destruct c as [[] [] [] [] [] [] [] []]; intros H; try (vm_compute in H; discriminate); reflexivity. Qed.

Lemma tag_lang_shape w : lang re_field_parser__parse_gfa_tag w ->
  exists a b t v, w = String a (String b (String ":" (String t (String ":" v)))).
Proof.
  unfold re_field_parser__parse_gfa_tag. intros H.
  apply cat_inv in H. destruct H as [n [r1 [-> [Hn H]]]].
  apply cat_inv in Hn. destruct Hn as [a' [b' [-> [Ha Hb]]]].
  apply cls_inv in Ha. destruct Ha as [a [-> _]]. apply cls_inv in Hb. destruct Hb as [b [-> _]].
  apply cat_inv in H. destruct H as [c1 [r2 [-> [Hc1 H]]]]. apply cls_inv in Hc1. destruct Hc1 as [k1 [-> Hk1]].
  apply colon_only in Hk1. subst k1.
  apply cat_inv in H. destruct H as [t' [r3 [-> [Ht H]]]]. apply cls_inv in Ht. destruct Ht as [t [-> _]].
  apply cat_inv in H. destruct H as [c2 [v [-> [Hc2 _]]]]. apply cls_inv in Hc2. destruct Hc2 as [k2 [-> Hk2]].
  apply colon_only in Hk2. subst k2.
  exists a, b, t, v. reflexivity.
Qed.

Lemma tag_shape s : py_fullmatch re_field_parser__parse_gfa_tag s = true ->
  exists a b t v, s = String a (String b (String ":" (String t (String ":" v)))).
Proof.
  unfold py_fullmatch. intros H. apply orb_true_iff in H. destruct H as [H|H].
  - apply matches_spec in H. apply tag_lang_shape. exact H.
  - destruct (drop_last_nl s) as [t0|] eqn:D; [|discriminate]. apply drop_last_nl_spec in D. subst s.
    apply matches_spec in H. apply tag_lang_shape in H. destruct H as [a [b [t [v ->]]]].
    exists a, b, t, (v ++ String nl EmptyString)%string. reflexivity.
Qed.

Definition tag_raw (f : string * string * string) : string :=
  let '(n, dt, v) := f in (n ++ ":" ++ dt ++ ":" ++ v)%string.

Lemma parse_tag_raw s f : parse_tag s = Ok f -> tag_raw f = s.
Proof.
  unfold parse_tag. destruct (py_fullmatch re_field_parser__parse_gfa_tag s) eqn:M; cbn [negb]; [|discriminate].
  apply tag_shape in M. destruct M as [a [b [t [v ->]]]]. intros H. injection H as <-. reflexivity.
Qed.

Lemma init_tags_raw O vl c : forall tags seen ts, init_tags O vl c seen tags = Ok ts -> map tag_raw ts = tags.
Proof.
  induction tags as [|s r IH]; intros seen ts; cbn [init_tags].
  - intros H. injection H as <-. reflexivity.
  - destruct (parse_tag s) as [t|e] eqn:P; cbn [rbind]; [|discriminate].
    destruct (init_tag O vl c seen t); cbn [rbind]; [|discriminate].
    destruct (init_tags O vl c (seen ++ [t]) r) as [ts'|e] eqn:I; cbn [rbind]; [|discriminate].
    intros H. injection H as <-. cbn [map]. rewrite (parse_tag_raw s t P), (IH _ _ I). reflexivity.
Qed.

(* ---------- positional fields ---------- *)
Lemma zip_fields_values dts : forall names vals,
  List.length names <= List.length vals ->
  map (fun f : string * string * string => snd f) (zip_fields names dts vals) = firstn (List.length names) vals.
Proof.
  induction names as [|n ns IH]; intros vals Hl; [reflexivity|]. destruct vals as [|v vs]; [cbn in Hl; lia|].
  cbn [zip_fields map List.length firstn snd]. rewrite IH; [reflexivity | cbn in Hl; lia].
Qed.

Definition canonical_field (O : oracle) (f : string * string * string) : Prop :=
  canon O (snd (fst f)) (snd f) = snd f.

Lemma field_text_canonical O fs : Forall (canonical_field O) fs -> map (field_text O) fs = map (fun f => snd f) fs.
Proof.
  induction 1 as [|[[n dt] v] fs H _ IH]; [reflexivity|]. cbn [map]. rewrite IH. f_equal. exact H.
Qed.

Lemma tag_text_canonical O fs : Forall (canonical_field O) fs -> map (tag_text O) fs = map tag_raw fs.
Proof.
  induction 1 as [|[[n dt] v] fs H _ IH]; [reflexivity|]. cbn [map]. rewrite IH. f_equal.
  unfold tag_text, tag_raw. unfold canonical_field in H. cbn [fst snd] in H. rewrite H. reflexivity.
Qed.

(* ---------- the class chosen for a record type writes that record type ---------- *)
Definition standard (c : rclass) : Prop := rc_name c <> "Comment" /\ rc_name c <> "CustomRecord".

Ltac on_rt rt :=
  match goal with
  | |- context [String.eqb rt ?k] =>
      let E := fresh "E" in destruct (String.eqb rt k) eqn:E; [apply String.eqb_eq in E; subst rt | clear E]
  end.

Lemma subclass_gfa1_rt rt c : subclass_gfa1 rt = Ok c -> standard c -> rc_rt c = Some rt.
Proof.
  unfold subclass_gfa1, standard.
  repeat (on_rt rt; [intros H; injection H as <-; intros [H1 H2];
                     first [reflexivity | contradiction H1; reflexivity | contradiction H2; reflexivity] |]).
  discriminate.
Qed.

Lemma subclass_gfa2_rt rt : standard (subclass_gfa2 rt) -> rc_rt (subclass_gfa2 rt) = Some rt.
Proof.
  unfold subclass_gfa2, standard.
  repeat (on_rt rt; [intros [H1 H2];
                     first [reflexivity | contradiction H1; reflexivity | contradiction H2; reflexivity] |]).
  intros [_ H]. contradiction H. reflexivity.
Qed.

Lemma subclass_rt data version c : subclass data version = Ok c -> standard c -> rc_rt c = Some (hd "" data).
Proof.
  unfold subclass. set (rt := hd "" data).
  assert (K : forall r, (match version with
                         | None => subclass_unknown data
                         | Some v => if String.eqb v "gfa1" then subclass_gfa1 rt
                                     else if String.eqb v "gfa2" then Ok (subclass_gfa2 rt) else Err (G EVersion)
                         end) = Ok r -> standard r -> rc_rt r = Some rt).
  { intros r. destruct version as [v|].
    - destruct (String.eqb v "gfa1"); [apply subclass_gfa1_rt|]. destruct (String.eqb v "gfa2"); [|discriminate].
      intros H. injection H as <-. apply subclass_gfa2_rt.
    - unfold subclass_unknown. fold rt. destruct (String.eqb rt "S") eqn:ES.
      + apply String.eqb_eq in ES. unfold segment_subclass.
        destruct (Nat.eqb _ 2); [intros H; injection H as <-; intros _; rewrite ES; reflexivity|].
        destruct (Nat.eqb _ 3); [intros H; injection H as <-; intros _; rewrite ES; reflexivity | discriminate].
      + destruct (String.eqb rt "L") eqn:EL; [apply String.eqb_eq in EL; rewrite EL; intros H; injection H as <-; reflexivity|].
        destruct (String.eqb rt "C") eqn:EC; [apply String.eqb_eq in EC; rewrite EC; intros H; injection H as <-; reflexivity|].
        destruct (String.eqb rt "P") eqn:EP; [apply String.eqb_eq in EP; rewrite EP; intros H; injection H as <-; reflexivity|].
        intros H. injection H as <-. apply subclass_gfa2_rt. }
  destruct (first_char rt) as [ch|]; [|apply K].
  destruct (Ascii.eqb ch "#") eqn:E.
  - apply Ascii.eqb_eq in E. subst ch. intros H. injection H as <-. intros [H _]. contradiction H. reflexivity.
  - intros H S. apply K; [|exact S]. revert H.
    destruct ch as [[] [] [] [] [] [] [] []]; try (intros H; exact H). discriminate.
Qed.

(* ---------- the theorem for the standard record types ---------- *)
Lemma data_cons s : exists rt fs, split_on tab s = rt :: fs.
Proof. destruct (split_on tab s) as [|rt fs] eqn:E; [contradiction (split_on_nonempty' tab s) | eauto]. Qed.

Lemma parse_comment_class O vl s l : parse_comment O vl s = Ok l -> rc_name (ln_class l) = "Comment".
Proof.
  unfold parse_comment. destruct s as [|ch r]; [discriminate|].
  destruct ch as [[] [] [] [] [] [] [] []]; try discriminate.
  destruct (span_spaces r) as [sp ct]. destruct (negb _); [discriminate|].
  destruct (init_field O vl "comment" ct); cbn [rbind]; [|discriminate].
  destruct (init_field O vl "comment" sp); cbn [rbind]; [|discriminate].
  intros H. injection H as <-. reflexivity.
Qed.

Theorem write_of_parsed_line O vl version s l :
  parse_line O vl version s = Ok l -> standard (ln_class l) ->
  Forall (canonical_field O) (ln_pos l) -> Forall (canonical_field O) (ln_tags l) ->
  line_to_s O l = s.
Proof.
  unfold parse_line. destruct (data_cons s) as [rt [fs Ed]]. rewrite Ed.
  destruct (subclass (rt :: fs) version) as [c|e] eqn:Sc; cbn [rbind]; [|discriminate].
  destruct (String.eqb (rc_name c) "Comment") eqn:Ecm.
  { (* a comment: excluded by [standard] *)
    destruct (parse_comment O vl s) as [l0|e] eqn:Pc; cbn [rbind]; [|discriminate].
    destruct version as [v|].
    - destruct (validate_version C_Comment v); cbn [rbind]; [|discriminate]. intros H. injection H as <-.
      intros [H _]. contradiction H. reflexivity.
    - intros H. injection H as <-. intros [H _]. contradiction H. apply (parse_comment_class O vl s l0 Pc). }
  cbn [hd].
  match goal with |- context [rbind ?p _] => destruct p as [v|e] eqn:Ev end; cbn [rbind]; [|discriminate].
  destruct (String.eqb (rc_name c) "CustomRecord") eqn:Ecu.
  { destruct (parse_custom O vl (rt :: fs)) as [l0|e]; cbn [rbind]; [|discriminate]. intros H. injection H as <-.
    intros [_ H]. contradiction H. reflexivity. }
  destruct (Nat.ltb (List.length (rt :: fs) - 1) (List.length (rc_pos c))) eqn:Hlen; [discriminate|].
  cbn [tl].
  destruct (init_fields O vl (zip_fields (rc_pos c) (rc_dt c) fs)); cbn [rbind]; [|discriminate].
  destruct (init_tags O vl c (zip_fields (rc_pos c) (rc_dt c) fs) (skipn (List.length (rc_pos c)) fs)) as [tags|e] eqn:It;
    cbn [rbind]; [|discriminate].
  match goal with |- context [rbind ?p _] => destruct p end; cbn [rbind]; [|discriminate].
  intros H. injection H as <-. cbn [ln_class ln_pos ln_tags]. intros St Fp Ft.
  unfold line_to_s. cbn [ln_class ln_pos ln_tags]. rewrite Ecm.
  rewrite (subclass_rt (rt :: fs) version c Sc St). cbn [hd].
  rewrite (field_text_canonical O _ Fp), (tag_text_canonical O _ Ft), (init_tags_raw O vl c _ _ _ It).
  apply Nat.ltb_ge in Hlen. cbn [List.length] in Hlen.
  rewrite zip_fields_values by lia. rewrite firstn_skipn. rewrite <- Ed. apply join_split.
Qed.

(* ---------- comments: the text is kept whole ---------- *)
Lemma span_spaces_app r : forall sp ct, span_spaces r = (sp, ct) -> (sp ++ ct)%string = r.
Proof.
  induction r as [|c r IH]; cbn [span_spaces]; intros sp ct H.
  - injection H as <- <-. reflexivity.
  - destruct (is_space c).
    + destruct (span_spaces r) as [a b]. injection H as <- <-. cbn [String.append]. rewrite (IH a b eq_refl). reflexivity.
    + injection H as <- <-. reflexivity.
Qed.

Lemma parse_comment_text O vl s l : parse_comment O vl s = Ok l -> line_to_s O l = s.
Proof.
  unfold parse_comment. destruct s as [|ch r]; [discriminate|].
  destruct ch as [[] [] [] [] [] [] [] []]; try discriminate.
  destruct (span_spaces r) as [sp ct] eqn:Sp. destruct (negb _); [discriminate|].
  destruct (init_field O vl "comment" ct); cbn [rbind]; [|discriminate].
  destruct (init_field O vl "comment" sp); cbn [rbind]; [|discriminate].
  intros H. injection H as <-. unfold line_to_s. cbn [ln_class ln_pos rc_name C_Comment String.eqb Ascii.eqb Bool.eqb].
  cbn [String.append]. rewrite (span_spaces_app r sp ct Sp). reflexivity.
Qed.

Theorem write_of_parsed_comment O vl version s l :
  parse_line O vl version s = Ok l -> rc_name (ln_class l) = "Comment" -> line_to_s O l = s.
Proof.
  unfold parse_line. destruct (data_cons s) as [rt [fs Ed]]. rewrite Ed.
  destruct (subclass (rt :: fs) version) as [c|e] eqn:Sc; cbn [rbind]; [|discriminate].
  destruct (String.eqb (rc_name c) "Comment") eqn:Ecm.
  - destruct (parse_comment O vl s) as [l0|e] eqn:Pc; cbn [rbind]; [|discriminate].
    pose proof (parse_comment_text O vl s l0 Pc) as T. destruct version as [v|].
    + destruct (validate_version C_Comment v); cbn [rbind]; [|discriminate]. intros H. injection H as <-. intros _.
      rewrite <- T. unfold line_to_s. cbn [ln_class ln_pos].
      rewrite (parse_comment_class O vl s l0 Pc). reflexivity.
    + intros H. injection H as <-. intros _. exact T.
  - (* a line of another class is not a comment *)
    cbn [hd].
    match goal with |- context [rbind ?p _] => destruct p as [v|e] eqn:Ev end; cbn [rbind]; [|discriminate].
    destruct (String.eqb (rc_name c) "CustomRecord") eqn:Ecu.
    { destruct (parse_custom O vl (rt :: fs)) as [l0|e]; cbn [rbind]; [|discriminate]. intros H. injection H as <-.
      cbn [ln_class]. discriminate. }
    destruct (Nat.ltb _ _); [discriminate|].
    destruct (init_fields O vl _); cbn [rbind]; [|discriminate].
    destruct (init_tags O vl c _ _); cbn [rbind]; [|discriminate].
    match goal with |- context [rbind ?p _] => destruct p end; cbn [rbind]; [|discriminate].
    intros H. injection H as <-. cbn [ln_class]. intros H. rewrite H in Ecm. discriminate.
Qed.

(* ---------- reading back what was written ---------- *)
Theorem parse_of_written_line O vl version s l :
  parse_line O vl version s = Ok l -> standard (ln_class l) ->
  Forall (canonical_field O) (ln_pos l) -> Forall (canonical_field O) (ln_tags l) ->
  parse_line O vl version (line_to_s O l) = Ok l.
Proof. intros H S Fp Ft. rewrite (write_of_parsed_line O vl version s l H S Fp Ft). exact H. Qed.

(* the fields of the written line are the fields of the text, one for one: same number, same order *)
Theorem written_fields_are_the_fields O vl version s l :
  parse_line O vl version s = Ok l -> standard (ln_class l) ->
  Forall (canonical_field O) (ln_pos l) -> Forall (canonical_field O) (ln_tags l) ->
  split_on tab (line_to_s O l) = split_on tab s.
Proof. intros H S Fp Ft. rewrite (write_of_parsed_line O vl version s l H S Fp Ft). reflexivity. Qed.

(* ---------- without the hypothesis on spellings: the written line is the text, field by field, each value
   replaced by its canonical spelling; names, datatypes, number and order of the fields are those of the text ---------- *)
Definition canon_tag (O : oracle) (s : string) : string :=
  match parse_tag s with Ok f => tag_text O f | Err _ => s end.

Fixpoint canon_pos (O : oracle) (names : list string) (dts : list (string * string)) (vals : list string) : list string :=
  match names, vals with
  | n :: ns, v :: vs => canon O (match assoc n dts with Some d => d | None => "" end) v :: canon_pos O ns dts vs
  | _, _ => []
  end.

Lemma field_text_zip O dts : forall names vals,
  map (field_text O) (zip_fields names dts vals) = canon_pos O names dts vals.
Proof.
  induction names as [|n ns IH]; intros vals; [reflexivity|]. destruct vals as [|v vs]; [reflexivity|].
  cbn [zip_fields map canon_pos field_text]. rewrite IH. reflexivity.
Qed.

Lemma init_tags_text O vl c : forall tags seen ts,
  init_tags O vl c seen tags = Ok ts -> map (tag_text O) ts = map (canon_tag O) tags.
Proof.
  induction tags as [|s r IH]; intros seen ts; cbn [init_tags].
  - intros H. injection H as <-. reflexivity.
  - destruct (parse_tag s) as [t|e] eqn:P; cbn [rbind]; [|discriminate].
    destruct (init_tag O vl c seen t); cbn [rbind]; [|discriminate].
    destruct (init_tags O vl c (seen ++ [t]) r) as [ts'|e] eqn:I; cbn [rbind]; [|discriminate].
    intros H. injection H as <-. cbn [map]. rewrite (IH _ _ I). change (canon_tag O s) with (match parse_tag s with Ok f => tag_text O f | Err _ => s end). rewrite P. reflexivity.
Qed.

Theorem write_is_the_text_with_canonical_values O vl version s l rt fs :
  parse_line O vl version s = Ok l -> standard (ln_class l) -> split_on tab s = rt :: fs ->
  line_to_s O l =
  join_with (String tab EmptyString)
    (rt :: canon_pos O (rc_pos (ln_class l)) (rc_dt (ln_class l)) fs
        ++ map (canon_tag O) (skipn (List.length (rc_pos (ln_class l))) fs)).
Proof.
  unfold parse_line. intros H St Ed. revert H St. rewrite Ed.
  destruct (subclass (rt :: fs) version) as [c|e] eqn:Sc; cbn [rbind]; [|discriminate].
  destruct (String.eqb (rc_name c) "Comment") eqn:Ecm.
  { destruct (parse_comment O vl s) as [l0|e] eqn:Pc; cbn [rbind]; [|discriminate].
    destruct version as [v|].
    - destruct (validate_version C_Comment v); cbn [rbind]; [|discriminate]. intros H. injection H as <-.
      intros [H _]. contradiction H. reflexivity.
    - intros H. injection H as <-. intros [H _]. contradiction H. apply (parse_comment_class O vl s l0 Pc). }
  cbn [hd].
  match goal with |- context [rbind ?p _] => destruct p as [v|e] eqn:Ev end; cbn [rbind]; [|discriminate].
  destruct (String.eqb (rc_name c) "CustomRecord") eqn:Ecu.
  { destruct (parse_custom O vl (rt :: fs)) as [l0|e]; cbn [rbind]; [|discriminate]. intros H. injection H as <-.
    intros [_ H]. contradiction H. reflexivity. }
  destruct (Nat.ltb (List.length (rt :: fs) - 1) (List.length (rc_pos c))) eqn:Hlen; [discriminate|].
  cbn [tl].
  destruct (init_fields O vl (zip_fields (rc_pos c) (rc_dt c) fs)); cbn [rbind]; [|discriminate].
  destruct (init_tags O vl c (zip_fields (rc_pos c) (rc_dt c) fs) (skipn (List.length (rc_pos c)) fs)) as [tags|e] eqn:It;
    cbn [rbind]; [|discriminate].
  match goal with |- context [rbind ?p _] => destruct p end; cbn [rbind]; [|discriminate].
  intros H. injection H as <-. cbn [ln_class ln_pos ln_tags]. intros St.
  unfold line_to_s. cbn [ln_class ln_pos ln_tags]. rewrite Ecm.
  rewrite (subclass_rt (rt :: fs) version c Sc St). cbn [hd].
  rewrite field_text_zip, (init_tags_text O vl c _ _ _ It). reflexivity.
Qed.

(* a tag keeps its name and its datatype; only the value is respelled *)
Theorem canon_tag_keeps_name_and_type O s n dt v :
  parse_tag s = Ok (n, dt, v) -> canon_tag O s = (n ++ ":" ++ dt ++ ":" ++ canon O dt v)%string.
Proof. intros P. unfold canon_tag. rewrite P. reflexivity. Qed.

Lemma canon_pos_length O dts : forall names vals,
  List.length names <= List.length vals -> List.length (canon_pos O names dts vals) = List.length names.
Proof.
  induction names as [|n ns IH]; intros vals H; [reflexivity|]. destruct vals as [|v vs]; [cbn in H; lia|].
  cbn [canon_pos List.length]. rewrite IH; [reflexivity | cbn in H; lia].
Qed.
