(* Proofs/EdgeSpecP.v — the GENERATED classification kernels agree with Spec/EdgeSpec.v on the
   whole (infinite) domain: every orientation pair, every well-formed pair of intervals. *)
From Coq Require Import List String Ascii ZArith Bool Lia.
From GfaV Require Import Base.Py Gen.K_edge2 Gen.K_fromto Gen.K_togfa1 Spec.EdgeSpec.
Import ListNotations.
Open Scope string_scope.

Definition st_name (k : ikind) : string :=
  match k with KWhole => "whole" | KPfx => "pfx" | KSfx => "sfx" | KInternal => "internal" end.

Definition orient_ok (o : string) : Prop := o = "+" \/ o = "-".

Lemma substring_type_spec b e :
  wf_interval b e = true -> exists fl, k_substring_type b e = Ok (st_name (ikind_of b e), fl).
Proof.
  destruct b as [bv bl], e as [ev el]. unfold wf_interval, k_substring_type, ikind_of. cbn [fst snd].
  intros H. apply andb_true_iff in H. destruct H as [H H4]. apply andb_true_iff in H. destruct H as [H H3].
  apply andb_true_iff in H. destruct H as [H1 H2]. apply Z.leb_le in H1. apply Z.leb_le in H2.
  assert (G : Z.gtb bv ev = false) by (rewrite Z.gtb_ltb; apply Z.ltb_ge; lia). rewrite G.
  destruct (Z.eqb_spec bv 0) as [->|Hb].
  - destruct (Z.eqb_spec ev 0) as [->|He].
    + destruct el; [cbn in H4; discriminate|]. eexists; reflexivity.
    + destruct el; eexists; reflexivity.
  - destruct bl.
    + cbn in H3. apply andb_true_iff in H3. destruct H3 as [-> _]. eexists; reflexivity.
    + destruct el; eexists; reflexivity.
Qed.

Theorem refkey_for_s_spec o1 o2 snum k1 k2 :
  orient_ok o1 -> orient_ok o2 -> (snum = 1 \/ snum = 2)%Z ->
  k_edge2_refkey_for_s o1 o2 snum (st_name k1) (st_name k2) = collection_of_E o1 o2 snum k1 k2.
Proof.
  intros [->| ->] [->| ->] [->| ->]; destruct k1, k2; reflexivity.
Qed.

Theorem alignment_type_spec o1 o2 k1 k2 :
  orient_ok o1 -> orient_ok o2 ->
  k_alignment_type_for_substring_types o1 o2 (st_name k1) (st_name k2) = class_letter (edge_class o1 o2 k1 k2).
Proof.
  intros [->| ->] [->| ->]; destruct k1, k2; reflexivity.
Qed.

Theorem edge_collection_spec o1 o2 snum b1 e1 b2 e2 :
  orient_ok o1 -> orient_ok o2 -> (snum = 1 \/ snum = 2)%Z ->
  wf_interval b1 e1 = true -> wf_interval b2 e2 = true ->
  exists st1 f1 st2 f2,
    k_substring_type b1 e1 = Ok (st1, f1) /\ k_substring_type b2 e2 = Ok (st2, f2) /\
    k_edge2_refkey_for_s o1 o2 snum st1 st2 = collection_of_E o1 o2 snum (ikind_of b1 e1) (ikind_of b2 e2) /\
    k_alignment_type_for_substring_types o1 o2 st1 st2 =
      class_letter (edge_class o1 o2 (ikind_of b1 e1) (ikind_of b2 e2)).
Proof.
  intros H1 H2 Hs W1 W2.
  destruct (substring_type_spec b1 e1 W1) as [f1 E1]. destruct (substring_type_spec b2 e2 W2) as [f2 E2].
  exists (st_name (ikind_of b1 e1)), f1, (st_name (ikind_of b2 e2)), f2.
  repeat split; try assumption.
  - apply refkey_for_s_spec; assumption.
  - apply alignment_type_spec; assumption.
Qed.

(* consistency of the classification itself: a dovetail is filed on opposite kinds of ends
   exactly when the orientations agree *)
Lemma dovetail_ends o1 o2 k1 k2 :
  orient_ok o1 -> orient_ok o2 -> edge_class o1 o2 k1 k2 = Dovetail ->
  (end_of k1 = end_of k2 <-> o1 <> o2).
Proof.
  intros [->| ->] [->| ->]; destruct k1, k2; cbn; intros H; try discriminate; split; intros G;
    try discriminate; try congruence; try reflexivity; exfalso; apply G; reflexivity.
Qed.

Theorem gap_collection_spec o1 o2 snum :
  orient_ok o1 -> orient_ok o2 -> (snum = 1 \/ snum = 2)%Z ->
  k_gap_refkey_for_s o1 o2 snum = Ok (collection_of_G o1 o2 snum).
Proof. intros [->| ->] [->| ->] [->| ->]; reflexivity. Qed.

Theorem link_collection_spec seg fo too :
  orient_ok fo -> orient_ok too ->
  "dovetails_" ++ snd (k_from_end seg fo) = collection_of_L fo too true /\
  "dovetails_" ++ snd (k_to_end seg too) = collection_of_L fo too false /\
  fst (k_from_end seg fo) = seg /\ fst (k_to_end seg too) = seg.
Proof. intros [->| ->] [->| ->]; repeat split; reflexivity. Qed.

(* the conversion role used by to_gfa1 agrees with the collections: the 'from' segment of a
   dovetail is the one whose effective kind is a suffix, of a containment the container *)
Definition role_name (o : string) (k : ikind) : string :=
  match k with KWhole => "contained" | KInternal => "other" | _ => st_name (eff o k) end.

Lemma segment_role_spec b e o :
  orient_ok o -> wf_interval b e = true -> k_segment_role b e o = role_name o (ikind_of b e).
Proof.
  intros Ho. destruct b as [bv bl], e as [ev el]. unfold wf_interval, k_segment_role, ikind_of, role_name. cbn [fst snd].
  intros _. destruct Ho as [->| ->]; destruct (Z.eqb bv 0), el; reflexivity.
Qed.

Theorem is_sid1_from_spec o1 o2 b1 e1 b2 e2 :
  orient_ok o1 -> orient_ok o2 -> wf_interval b1 e1 = true -> wf_interval b2 e2 = true ->
  match edge_class o1 o2 (ikind_of b1 e1) (ikind_of b2 e2) with
  | Internal => k_is_sid1_from b1 e1 o1 b2 e2 o2 = Err (G EValue)
  | Containment => k_is_sid1_from b1 e1 o1 b2 e2 o2 =
                   Ok (match ikind_of b2 e2 with KWhole => true | _ => false end)
  | Dovetail => k_is_sid1_from b1 e1 o1 b2 e2 o2 =
                Ok (match eff o1 (ikind_of b1 e1) with KSfx => true | _ => false end)
  end.
Proof.
  intros H1 H2 W1 W2. unfold k_is_sid1_from.
  rewrite (segment_role_spec b1 e1 o1 H1 W1), (segment_role_spec b2 e2 o2 H2 W2).
  destruct H1 as [->| ->], H2 as [->| ->]; destruct (ikind_of b1 e1), (ikind_of b2 e2); reflexivity.
Qed.
