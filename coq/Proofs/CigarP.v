(* Proofs/CigarP.v — algebra of the GENERATED CIGAR kernels. *)
From Coq Require Import List String Ascii ZArith Bool Lia.
From GfaV Require Import Base.Py Gen.Tables Gen.K_cigar Model.Align.
Import ListNotations.
Open Scope string_scope.
Open Scope list_scope.

(* the per-operation recoding done by complement, read off the generated kernel *)
Definition recode (op : cigop) : cigop :=
  (fst op, if String.eqb (snd op) "I" then "D" else if String.eqb (snd op) "S" then "D"
           else if String.eqb (snd op) "D" then "I" else if String.eqb (snd op) "N" then "I" else snd op).

Lemma complement_unfold c : k_cigar_complement c = map recode (rev c).
Proof. reflexivity. Qed.

Lemma recode_involutive_on op :
  in_strs (snd op) involutive_codes = true -> recode (recode op) = op.
Proof.
  destruct op as [n code]. unfold involutive_codes. intros H.
  apply in_strs_In in H. simpl in H.
  repeat (destruct H as [H|H]; [subst code; reflexivity|]). contradiction.
Qed.

Lemma complement_involutive c :
  cigar_codes_in involutive_codes c = true -> k_cigar_complement (k_cigar_complement c) = c.
Proof.
  intros H. rewrite !complement_unfold. rewrite <- map_rev, rev_involutive, map_map.
  unfold cigar_codes_in in H. rewrite forallb_forall in H.
  rewrite <- (map_id c) at 2. apply map_ext_in. intros op Hop.
  apply recode_involutive_on. apply H. exact Hop.
Qed.

(* the codes stay within the 7 under complement, so the hypothesis is stable *)
Lemma recode_codes_in op :
  in_strs (snd op) involutive_codes = true -> in_strs (snd (recode op)) involutive_codes = true.
Proof.
  destruct op as [n code]. intros H. apply in_strs_In in H. simpl in H.
  repeat (destruct H as [H|H]; [subst code; reflexivity|]). contradiction.
Qed.

Lemma complement_codes_in c :
  cigar_codes_in involutive_codes c = true ->
  cigar_codes_in involutive_codes (k_cigar_complement c) = true.
Proof.
  unfold cigar_codes_in. rewrite !forallb_forall. intros H op Hin.
  rewrite complement_unfold in Hin. apply in_map_iff in Hin. destruct Hin as [op0 [<- Hin0]].
  apply recode_codes_in. apply H. apply in_rev. exact Hin0.
Qed.

(* sums: fold_left with a per-element weight is order independent *)
Definition wsum (w : cigop -> Z) (c : cigar) : Z := fold_left (fun l op => Z.add l (w op)) c 0%Z.

Lemma fold_w_acc w c : forall a, fold_left (fun l op => Z.add l (w op)) c a = (a + wsum w c)%Z.
Proof.
  unfold wsum. induction c as [|x c IH]; intros a; cbn [fold_left].
  - lia.
  - rewrite IH. rewrite (IH (0 + w x)%Z). lia.
Qed.

Lemma wsum_cons w x c : wsum w (x :: c) = (w x + wsum w c)%Z.
Proof. unfold wsum at 1. simpl. rewrite fold_w_acc. lia. Qed.

Lemma wsum_app w a b : wsum w (a ++ b) = (wsum w a + wsum w b)%Z.
Proof.
  induction a as [|x a IH].
  - change ([] ++ b) with b. unfold wsum at 2. cbn [fold_left]. lia.
  - change ((x :: a) ++ b) with (x :: (a ++ b)). rewrite !wsum_cons, IH. lia.
Qed.

Lemma wsum_rev w c : wsum w (rev c) = wsum w c.
Proof.
  induction c as [|x c IH]; [reflexivity|].
  change (rev (x :: c)) with (rev c ++ [x]).
  rewrite wsum_app, IH, !wsum_cons. unfold wsum at 2. cbn [fold_left]. lia.
Qed.

Lemma wsum_map w f c : wsum w (map f c) = wsum (fun op => w (f op)) c.
Proof. induction c as [|x c IH]; simpl; [reflexivity|]. rewrite !wsum_cons, IH. reflexivity. Qed.

Lemma wsum_ext w1 w2 c : (forall op, w1 op = w2 op) -> wsum w1 c = wsum w2 c.
Proof. intros H. induction c as [|x c IH]; [reflexivity|]. rewrite !wsum_cons, IH, H. reflexivity. Qed.

Definition wref (op : cigop) : Z := if in_strs (snd op) ["M"; "="; "X"; "D"; "N"] then fst op else 0%Z.
Definition wqry (op : cigop) : Z := if in_strs (snd op) ["M"; "="; "X"; "I"; "S"] then fst op else 0%Z.

Lemma fold_if_w (codes : list string) c a :
  fold_left (fun l (op : cigop) => if in_strs (snd op) codes then Z.add l (fst op) else l) c a
  = fold_left (fun l op => Z.add l (if in_strs (snd op) codes then fst op else 0%Z)) c a.
Proof.
  revert a. induction c as [|x c IH]; intros a; simpl; [reflexivity|].
  rewrite IH. destruct (in_strs (snd x) codes); [reflexivity | f_equal; lia].
Qed.

Lemma length_on_reference_wsum c : k_cigar_length_on_reference c = wsum wref c.
Proof. unfold k_cigar_length_on_reference, wsum, wref. apply fold_if_w. Qed.

Lemma length_on_query_wsum c : k_cigar_length_on_query c = wsum wqry c.
Proof. unfold k_cigar_length_on_query, wsum, wqry. apply fold_if_w. Qed.

(* the exchange holds for EVERY code string, also S, N and unknown ones *)
Lemma wref_recode op : wref (recode op) = wqry op.
Proof.
  destruct op as [n code]. unfold wref, wqry, recode. cbn [fst snd].
  destruct (String.eqb_spec code "I") as [->|HI]; [reflexivity|].
  destruct (String.eqb_spec code "S") as [->|HS]; [reflexivity|].
  destruct (String.eqb_spec code "D") as [->|HD]; [reflexivity|].
  destruct (String.eqb_spec code "N") as [->|HN]; [reflexivity|].
  unfold in_strs. cbn [existsb].
  apply String.eqb_neq in HI, HS, HD, HN. rewrite HI, HS, HD, HN.
  rewrite !orb_false_r. reflexivity.
Qed.

Lemma wqry_recode op : wqry (recode op) = wref op.
Proof.
  destruct op as [n code]. unfold wref, wqry, recode. cbn [fst snd].
  destruct (String.eqb_spec code "I") as [->|HI]; [reflexivity|].
  destruct (String.eqb_spec code "S") as [->|HS]; [reflexivity|].
  destruct (String.eqb_spec code "D") as [->|HD]; [reflexivity|].
  destruct (String.eqb_spec code "N") as [->|HN]; [reflexivity|].
  unfold in_strs. cbn [existsb].
  apply String.eqb_neq in HI, HS, HD, HN. rewrite HI, HS, HD, HN.
  rewrite !orb_false_r. reflexivity.
Qed.

Lemma complement_exchanges_lengths c :
  k_cigar_length_on_reference (k_cigar_complement c) = k_cigar_length_on_query c /\
  k_cigar_length_on_query (k_cigar_complement c) = k_cigar_length_on_reference c.
Proof.
  rewrite !length_on_reference_wsum, !length_on_query_wsum, complement_unfold.
  rewrite !wsum_map, !wsum_rev. split; apply wsum_ext; [apply wref_recode | apply wqry_recode].
Qed.

(* complement keeps the number of operations and every length, whatever the codes *)
Lemma complement_length c : List.length (k_cigar_complement c) = List.length c.
Proof. rewrite complement_unfold, map_length, rev_length. reflexivity. Qed.

(* equality test is an equivalence on well-formed values *)
Lemma cigop_eqb_eq a b : cigop_eqb a b = true <-> a = b.
Proof.
  destruct a as [n1 c1], b as [n2 c2]. unfold cigop_eqb. cbn [fst snd].
  rewrite andb_true_iff, Z.eqb_eq, String.eqb_eq. split; [intros [-> ->]; reflexivity | intros H; injection H; auto].
Qed.

Lemma cigar_eqb_eq a : forall b, cigar_eqb a b = true <-> a = b.
Proof.
  induction a as [|x a IH]; intros [|y b]; simpl; split; intros H; try discriminate; try reflexivity.
  - apply andb_true_iff in H. destruct H as [H1 H2]. apply cigop_eqb_eq in H1. apply IH in H2. subst. reflexivity.
  - injection H as -> ->. apply andb_true_iff. split; [apply cigop_eqb_eq | apply IH]; reflexivity.
Qed.

Lemma zlist_eqb_eq a : forall b, zlist_eqb a b = true <-> a = b.
Proof.
  induction a as [|x a IH]; intros [|y b]; simpl; split; intros H; try discriminate; try reflexivity.
  - apply andb_true_iff in H. destruct H as [H1 H2]. apply Z.eqb_eq in H1. apply IH in H2. subst. reflexivity.
  - injection H as -> ->. apply andb_true_iff. split; [apply Z.eqb_refl | apply IH; reflexivity].
Qed.

Lemma aln_eqb_refl a : aln_eqb a a = true.
Proof. destruct a; simpl; [reflexivity | apply cigar_eqb_eq | apply zlist_eqb_eq]; reflexivity. Qed.

Lemma aln_eqb_sym a b : aln_eqb a b = aln_eqb b a.
Proof.
  destruct a as [|x|x], b as [|y|y]; simpl; try reflexivity.
  - destruct (cigar_eqb x y) eqn:E1, (cigar_eqb y x) eqn:E2; try reflexivity.
    + apply cigar_eqb_eq in E1. subst. rewrite (proj2 (cigar_eqb_eq y y) eq_refl) in E2. discriminate.
    + apply cigar_eqb_eq in E2. subst. rewrite (proj2 (cigar_eqb_eq x x) eq_refl) in E1. discriminate.
  - apply andb_comm.
  - apply andb_comm.
  - destruct (zlist_eqb x y) eqn:E1, (zlist_eqb y x) eqn:E2; try reflexivity.
    + apply zlist_eqb_eq in E1. subst. rewrite (proj2 (zlist_eqb_eq y y) eq_refl) in E2. discriminate.
    + apply zlist_eqb_eq in E2. subst. rewrite (proj2 (zlist_eqb_eq x x) eq_refl) in E1. discriminate.
Qed.

Lemma aln_complement_involutive a :
  aln_codes_in involutive_codes a = true ->
  (forall t, a <> ATrace t) ->
  aln_complement (aln_complement a) = a.
Proof.
  destruct a as [|c|t]; simpl; intros H Ht.
  - reflexivity.
  - f_equal. apply complement_involutive. exact H.
  - exfalso. apply (Ht t). reflexivity.
Qed.
