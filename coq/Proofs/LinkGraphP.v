(* Proofs/LinkGraphP.v — a link and its complement in the Gfa (C12): adding the complement of a stored link adds nothing
   and raises nothing, a link that meets a stored one without being its complement is refused, and the lookup by oriented
   segment pair answers with a stored link that is compatible with the step in direct or complement form. *)
From Coq Require Import List String Ascii ZArith Bool Lia.
From GfaV Require Import Base.Py Base.Regex Gen.Tables Model.Align Model.Link Model.Codec Model.Line Model.Graph Proofs.GraphP.
Import ListNotations.
Open Scope string_scope.
Open Scope list_scope.

Theorem complement_of_stored_link_adds_nothing s l prev :
  g_rk l = KL -> duplicate_of s l = Some prev -> g_virtual prev = false ->
  is_complement (link_value l) (link_value prev) = true -> connect s l = Ok s.
Proof.
  intros Hk Hd Hv Hc. unfold connect. rewrite Hk. cbn [rbind]. rewrite Hd, Hv, Hc. reflexivity.
Qed.

Theorem other_link_on_a_stored_pair_is_refused s l prev :
  g_rk l = KL -> duplicate_of s l = Some prev -> g_virtual prev = false ->
  is_complement (link_value l) (link_value prev) = false -> connect s l = Err (G ENotUnique).
Proof.
  intros Hk Hd Hv Hc. unfold connect. rewrite Hk. cbn [rbind]. rewrite Hd, Hv, Hc. reflexivity.
Qed.

(* what the lookup returns is a link of the Gfa on the from-segment of the step, compatible with it *)
Theorem search_link_sound s a b ov x :
  search_link s a b ov = Some x ->
  In x (lines s) /\ g_rk x = KL /\ is_compatible (link_value x) a b ov true = Ok true.
Proof.
  unfold search_link. intros H. apply find_some in H. destruct H as [Hin H]. split; [exact Hin|].
  destruct (g_rk x); try discriminate. split; [reflexivity|].
  apply andb_true_iff in H. destruct H as [_ H].
  destruct (is_compatible (link_value x) a b ov true) as [[|]|e]; try discriminate. reflexivity.
Qed.

(* and it misses no link: if some link of the Gfa that touches the from-segment is compatible, the lookup answers *)
Theorem search_link_complete s a b ov x :
  In x (lines s) -> g_rk x = KL ->
  (nth_s 0 (g_pos x) = fst a \/ nth_s 2 (g_pos x) = fst a) ->
  is_compatible (link_value x) a b ov true = Ok true ->
  search_link s a b ov <> None.
Proof.
  intros Hin Hk Hseg Hc. unfold search_link. apply (find_exists _ _ x Hin).
  rewrite Hk, Hc. rewrite andb_true_r. destruct Hseg as [E|E]; rewrite E, String.eqb_refl; [reflexivity | apply orb_true_r].
Qed.

(* direct or complement: the two ways a stored link answers for a step *)
Theorem compatible_is_direct_or_complement l a b ov :
  is_compatible l a b ov true = Ok true ->
  is_compatible_direct l a b ov = true \/ is_compatible_complement l a b ov = Ok true.
Proof. unfold is_compatible. destruct (is_compatible_direct l a b ov); [left; reflexivity | right; assumption]. Qed.
