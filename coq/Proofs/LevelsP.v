(* Proofs/LevelsP.v — validation levels change when an error surfaces, not the result. *)
From Coq Require Import List String Ascii ZArith Bool Lia.
From GfaV Require Import Base.Py Base.Regex Base.RegexIncl Gen.Tables Gen.Regexes Model.Align Model.Codec Model.Line Model.Levels.
Import ListNotations.
Open Scope string_scope.
Open Scope list_scope.

(* ---------------------------------------------------------------- construction: levels 1, 2 and 3 agree *)
Lemma init_field_S O k dt s : init_field O (S k) dt s = init_field O 1 dt s.
Proof. reflexivity. Qed.

Lemma init_tag_S O k c seen t : init_tag O (S k) c seen t = init_tag O 1 c seen t.
Proof. reflexivity. Qed.

Lemma init_tags_S O k c : forall tags seen, init_tags O (S k) c seen tags = init_tags O 1 c seen tags.
Proof.
  induction tags as [|s r IH]; intro seen; cbn [init_tags]; [reflexivity|].
  destruct (parse_tag s) as [t|e]; cbn [rbind]; [|reflexivity]. rewrite init_tag_S.
  destruct (init_tag O 1 c seen t); cbn [rbind]; [|reflexivity]. now rewrite IH.
Qed.

Lemma init_fields_S O k : forall fs, init_fields O (S k) fs = init_fields O 1 fs.
Proof.
  induction fs as [|[[n dt] v] r IH]; cbn [init_fields]; [reflexivity|]. rewrite init_field_S.
  destruct (init_field O 1 dt v); cbn [rbind]; [exact IH|reflexivity].
Qed.

Lemma peel_tags_S O k : forall rf acc, peel_tags O (S k) rf acc = peel_tags O 1 rf acc.
Proof.
  induction rf as [|f r IH]; intro acc; cbn [peel_tags]; [reflexivity|].
  destruct (parse_tag f) as [t|e]; [|reflexivity]. rewrite init_tag_S.
  destruct (init_tag O 1 C_Custom acc t); [apply IH|reflexivity].
Qed.

Lemma parse_comment_S O k s : parse_comment O (S k) s = parse_comment O 1 s.
Proof. reflexivity. Qed.

Lemma parse_custom_S O k data : parse_custom O (S k) data = parse_custom O 1 data.
Proof. unfold parse_custom. rewrite peel_tags_S. destruct (peel_tags O 1 (rev (tl data)) []) as [a b].
  destruct (in_strs _ _); [reflexivity|]. rewrite init_field_S. destruct (init_field O 1 _ _); cbn [rbind]; [|reflexivity].
  now rewrite init_fields_S.
Qed.

(* every validation level from 1 up constructs the same line, or fails with the same error, from the same text *)
Theorem levels_above_zero_agree O k version s : parse_line O (S k) version s = parse_line O 1 version s.
Proof.
  unfold parse_line. destruct (subclass (split_on tab s) version) as [c|e]; cbn [rbind]; [|reflexivity].
  destruct (String.eqb (rc_name c) "Comment"); [now rewrite parse_comment_S|].
  destruct (match version with None => _ | Some v => _ end) as [v|e]; cbn [rbind]; [|reflexivity].
  destruct (String.eqb (rc_name c) "CustomRecord"); [now rewrite parse_custom_S|].
  destruct (Nat.ltb _ _); [reflexivity|]. rewrite init_fields_S.
  destruct (init_fields O 1 _); cbn [rbind]; [|reflexivity]. rewrite init_tags_S. reflexivity.
Qed.

(* ---------------------------------------------------------------- what is accepted above is accepted at level 0 *)
(* the safe decoders accept less than the unsafe ones: inclusions of the regenerated grammars in the grammars of
   Python's int() and float(), certified by the checked inclusion procedure of Base/RegexIncl.v *)
Lemma int_in_pyint : included (Cat re_field_integer_validate_encoded (Opt (Chr nl))) re_py_int = true.
Proof. vm_compute. reflexivity. Qed.
Lemma pos1_in_pyint : included (Cat re_field_position_gfa1_validate_encoded (Opt (Chr nl))) re_py_int = true.
Proof. vm_compute. reflexivity. Qed.
Lemma float_in_pyfloat : included (Cat re_field_float_validate_encoded (Opt (Chr nl))) re_py_float = true.
Proof. vm_compute. reflexivity. Qed.
Lemma optint_in_pyint :
  included (Cat re_field_optional_integer_validate_encoded (Opt (Chr nl))) (Alt (Cat (Chr "*") (Opt (Chr nl))) re_py_int) = true.
Proof. vm_compute. reflexivity. Qed.

Lemma safe_regex_unsafe r r' s : included (Cat r (Opt (Chr nl))) r' = true -> m r s = true -> matches r' s = true.
Proof. intros I H. apply (included_sound _ _ I). apply py_fullmatch_regex. exact H. Qed.

Definition hard_module (md : string) : bool :=
  String.eqb md "position_gfa2" || String.eqb md "oriented_identifier_list_gfa2".

Lemma star_nl_cases s : lang (Cat (Chr "*") (Opt (Chr nl))) s -> s = "*" \/ s = String "*" (String nl EmptyString).
Proof.
  intro H. apply cat_inv in H. destruct H as [s1 [s2 [ -> [H1 H2]]]].
  apply cls_inv in H1. destruct H1 as [c [-> Hc]].
  assert (c = "*"%char).
  { unfold in_cset in Hc. cbn in Hc. destruct c as [[] [] [] [] [] [] [] []]; cbn in Hc; try discriminate; reflexivity. }
  subst c. apply alt_inv in H2. destruct H2 as [H2|H2].
  - inversion H2; subst. left; reflexivity.
  - apply cls_inv in H2. destruct H2 as [d [-> Hd]].
    assert (d = nl).
    { unfold in_cset in Hd. cbn in Hd. destruct d as [[] [] [] [] [] [] [] []]; cbn in Hd; try discriminate; reflexivity. }
    subst d. right; reflexivity.
Qed.

(* for every datatype module but the two listed in hard_module: what the safe decoder accepts, the unsafe one accepts *)
Theorem safe_accepts_unsafe_accepts O md s : hard_module md = false ->
  accepts_module O md s = true -> unsafe_accepts_module md s = Ok tt.
Proof.
  intros Hh H. unfold hard_module in Hh. apply Bool.orb_false_iff in Hh. destruct Hh as [Hp Hl].
  unfold unsafe_accepts_module.
  destruct (String.eqb md "integer") eqn:E1.
  { apply String.eqb_eq in E1. subst md. cbn [orb]. cbv beta iota delta [accepts_module String.eqb Ascii.eqb Bool.eqb] in H.
    rewrite (safe_regex_unsafe _ _ _ int_in_pyint H). reflexivity. }
  destruct (String.eqb md "position_gfa1") eqn:E2.
  { apply String.eqb_eq in E2. subst md. cbn [orb]. cbv beta iota delta [accepts_module String.eqb Ascii.eqb Bool.eqb] in H.
    rewrite (safe_regex_unsafe _ _ _ pos1_in_pyint H). reflexivity. }
  cbn [orb].
  destruct (String.eqb md "optional_integer") eqn:E3.
  { apply String.eqb_eq in E3. subst md. cbv beta iota delta [accepts_module String.eqb Ascii.eqb Bool.eqb] in H.
    apply Bool.andb_true_iff in H. destruct H as [H1 H2].
    destruct (String.eqb s "*") eqn:Es; [reflexivity|]. cbn [orb] in H2.
    pose proof (safe_regex_unsafe _ _ _ optint_in_pyint H1) as M. apply matches_spec in M. apply alt_inv in M.
    destruct M as [M|M].
    - destruct (star_nl_cases _ M) as [ -> | -> ]; [discriminate|]. vm_compute in H2. discriminate.
    - apply matches_spec in M. rewrite M. reflexivity. }
  destruct (String.eqb md "float") eqn:E4.
  { apply String.eqb_eq in E4. subst md. cbv beta iota delta [accepts_module String.eqb Ascii.eqb Bool.eqb] in H.
    apply Bool.andb_true_iff in H. destruct H as [H1 _].
    rewrite (safe_regex_unsafe _ _ _ float_in_pyfloat H1). reflexivity. }
  destruct (String.eqb md "char") eqn:E5.
  { apply String.eqb_eq in E5. subst md. cbv beta iota delta [accepts_module String.eqb Ascii.eqb Bool.eqb] in H.
    rewrite H. reflexivity. }
  destruct (String.eqb md "oriented_identifier_gfa2") eqn:E6.
  { apply String.eqb_eq in E6. subst md. cbv beta iota delta [accepts_module String.eqb Ascii.eqb Bool.eqb] in H.
    destruct s as [|c r]; [cbn in H; discriminate|reflexivity]. }
  destruct (String.eqb md "oriented_identifier_list_gfa1") eqn:E7.
  { apply String.eqb_eq in E7. subst md. cbv beta iota delta [accepts_module String.eqb Ascii.eqb Bool.eqb] in H.
    apply Bool.andb_true_iff in H. destruct H as [_ H2].
    assert (F : forallb (fun e => negb (String.eqb e "")) (split_on comma s) = true).
    { apply forallb_forall. intros e He. rewrite forallb_forall in H2. specialize (H2 e He).
      destruct e as [|c r]; [cbn in H2; discriminate|reflexivity]. }
    rewrite F. reflexivity. }
  rewrite Hl, Hp. reflexivity.
Qed.

(* the two remaining modules (GFA2 positions: value >= 0 after int(); GFA2 oriented lists: non-empty elements) are
   an explicit hypothesis of the theorem below; it is checked by evaluation on all short strings in Props/C18.v *)
Definition hard_ok (O : oracle) : Prop :=
  forall md s, hard_module md = true -> accepts_module O md s = true -> unsafe_accepts_module md s = Ok tt.

Lemma init_field_0 O dt s : hard_ok O -> init_field O 1 dt s = Ok tt -> init_field O 0 dt s = Ok tt.
Proof.
  intros Hh H. unfold init_field in *. cbn [Nat.leb] in *. destruct (accepts O dt s) eqn:A; [|discriminate].
  destruct (in_strs dt T_DELAYED_PARSING_DATATYPES); [reflexivity|].
  unfold accepts in A. destruct (module_of dt) as [md|]; [|reflexivity].
  destruct (hard_module md) eqn:Hm; [exact (Hh md s Hm A)|exact (safe_accepts_unsafe_accepts O md s Hm A)].
Qed.

Lemma init_field_1_tt O dt s u : init_field O 1 dt s = Ok u -> init_field O 1 dt s = Ok tt.
Proof. destruct u. intro H; exact H. Qed.

Lemma init_fields_0 O : hard_ok O -> forall fs, init_fields O 1 fs = Ok tt -> init_fields O 0 fs = Ok tt.
Proof.
  intro Hh. induction fs as [|[[n dt] v] r IH]; cbn [init_fields]; [reflexivity|].
  destruct (init_field O 1 dt v) as [[]|e] eqn:E; cbn [rbind]; [|discriminate].
  rewrite (init_field_0 O dt v Hh E). cbn [rbind]. exact IH.
Qed.

Lemma init_tag_0 O c seen t : hard_ok O -> init_tag O 1 c seen t = Ok tt -> init_tag O 0 c seen t = Ok tt.
Proof.
  intros Hh H. destruct t as [[n dt] v]. unfold init_tag in *. cbn [Nat.leb] in *.
  apply (init_field_0 O dt v Hh).
  destruct (has_tag n seen); [discriminate|].
  destruct (match assoc n (rc_alias c) with Some _ => true | None => false end); [discriminate|].
  destruct (in_strs n (rc_predef c)).
  - destruct (assoc n (rc_dt c)) as [want|]; [|discriminate]. destruct (String.eqb want dt); [exact H|discriminate].
  - destruct (py_fullmatch _ n); [exact H|discriminate].
Qed.

Lemma init_tags_0 O c : hard_ok O -> forall tags seen ts, init_tags O 1 c seen tags = Ok ts -> init_tags O 0 c seen tags = Ok ts.
Proof.
  intro Hh. induction tags as [|s r IH]; intros seen ts H; cbn [init_tags] in *; [exact H|].
  destruct (parse_tag s) as [t|e]; cbn [rbind] in *; [|discriminate].
  destruct (init_tag O 1 c seen t) as [[]|e] eqn:E; cbn [rbind] in H; [|discriminate].
  rewrite (init_tag_0 O c seen t Hh E). cbn [rbind].
  destruct (init_tags O 1 c (seen ++ [t]) r) as [ts'|e] eqn:E2; cbn [rbind] in H; [|discriminate].
  rewrite (IH _ _ E2). exact H.
Qed.

Lemma parse_comment_0 O s l : hard_ok O -> parse_comment O 1 s = Ok l -> parse_comment O 0 s = Ok l.
Proof.
  intro Hh. unfold parse_comment. destruct s as [|a r]; [discriminate|]. destruct a as [[] [] [] [] [] [] [] []]; try discriminate.
  destruct (span_spaces r) as [spacer content]. destruct (negb _); [discriminate|].
  destruct (init_field O 1 "comment" content) as [[]|e] eqn:E1; cbn [rbind]; [|discriminate].
  destruct (init_field O 1 "comment" spacer) as [[]|e] eqn:E2; cbn [rbind]; [|discriminate].
  rewrite (init_field_0 _ _ _ Hh E1), (init_field_0 _ _ _ Hh E2). cbn [rbind]. intro H; exact H.
Qed.

Lemma generic_fields_0 O : forall vals i, init_fields O 0 (number_fields i vals) = Ok tt.
Proof. induction vals as [|v r IH]; intro i; cbn [number_fields init_fields]; [reflexivity|]. exact (IH (S i)). Qed.

Lemma parse_custom_0 O data l : hard_ok O -> parse_custom O 1 data = Ok l -> exists l0, parse_custom O 0 data = Ok l0.
Proof.
  intro Hh. unfold parse_custom. destruct (peel_tags O 1 (rev (tl data)) []) as [t1 r1]. destruct (peel_tags O 0 (rev (tl data)) []) as [t0 r0].
  destruct (in_strs (hd "" data) ["P"; "C"; "L"]); [discriminate|].
  destruct (init_field O 1 "custom_record_type" (hd "" data)) as [[]|e] eqn:E; cbn [rbind]; [|discriminate]. intros _.
  rewrite (init_field_0 _ _ _ Hh E). cbn [rbind]. rewrite generic_fields_0. cbn [rbind]. eauto.
Qed.

(* a text accepted at a validation level above 0 is accepted at level 0, and for every record type with declared
   fields it builds the same line *)
Theorem accepted_above_is_accepted_at_zero O version s l : hard_ok O ->
  parse_line O 1 version s = Ok l ->
  exists l0, parse_line O 0 version s = Ok l0 /\ (rc_name (ln_class l) <> "CustomRecord" -> l0 = l).
Proof.
  intro Hh. unfold parse_line. destruct (subclass (split_on tab s) version) as [c|e]; cbn [rbind]; [|discriminate].
  destruct (String.eqb (rc_name c) "Comment") eqn:EC.
  - destruct (parse_comment O 1 s) as [lc|e] eqn:PC; cbn [rbind]; [|discriminate].
    rewrite (parse_comment_0 _ _ _ Hh PC). cbn [rbind]. intro H. exists l. split; [exact H|reflexivity].
  - destruct (match version with None => _ | Some v => _ end) as [v|e]; cbn [rbind]; [|discriminate].
    destruct (String.eqb (rc_name c) "CustomRecord") eqn:ECu.
    + destruct (parse_custom O 1 (split_on tab s)) as [lc|e] eqn:PC; cbn [rbind]; [|discriminate].
      destruct (parse_custom_0 _ _ _ Hh PC) as [l0 P0]. rewrite P0. cbn [rbind]. intro H. injection H as <-.
      eexists. split; [reflexivity|]. cbn [ln_class rc_name C_Custom]. intro N. exfalso. apply N. reflexivity.
    + destruct (Nat.ltb _ _); [discriminate|].
      destruct (init_fields O 1 _) as [[]|e] eqn:IF; cbn [rbind]; [|discriminate].
      rewrite (init_fields_0 O Hh _ IF). cbn [rbind].
      destruct (init_tags O 1 c _ _) as [ts|e] eqn:IT; cbn [rbind]; [|discriminate].
      rewrite (init_tags_0 _ _ Hh _ _ _ IT). cbn [rbind Nat.leb].
      destruct (specific_validation c _ ts); cbn [rbind]; [|discriminate]. intro H. exists l. split; [exact H|reflexivity].
Qed.

(* ---------------------------------------------------------------- assignments *)
(* the thresholds read from the source *)
Lemma set_level_3 : set_level = 3%nat. Proof. reflexivity. Qed.
Lemma write_level_2 : write_level = 2%nat. Proof. reflexivity. Qed.
Lemma init_level_1 : init_level = 1%nat. Proof. reflexivity. Qed.

(* level 3: an invalid value is refused at the assignment and the stored value stays as it was *)
Theorem invalid_assignment_level3 O c v : valid O (mkF (f_dt c) v) = false ->
  lstep O 3 c (LSet v) = (c, Err (G EFormat)).
Proof. intro H. unfold lstep; rewrite ?set_level_3, ?write_level_2. cbn [Nat.leb andb]. rewrite H. reflexivity. Qed.

(* level 2: the assignment is accepted, the next write of the field reports it *)
Theorem invalid_assignment_level2 O c v : valid O (mkF (f_dt c) v) = false ->
  snd (lstep O 2 c (LSet v)) = Ok "" /\ snd (lstep O 2 (fst (lstep O 2 c (LSet v))) LWrite) = Err (G EFormat).
Proof. intro H. unfold lstep; rewrite ?set_level_3, ?write_level_2. cbn [Nat.leb andb fst snd]. rewrite H. split; reflexivity. Qed.

(* every level: an explicit validation reports a stored invalid value *)
Theorem invalid_value_found_by_validate O level c : valid O c = false -> snd (lstep O level c LValidate) = Err (G EFormat).
Proof. intro H. unfold lstep; rewrite ?set_level_3, ?write_level_2. rewrite H. reflexivity. Qed.

(* a valid assignment is never rejected, is written as assigned and validates, at every level *)
Theorem valid_assignment_accepted O level c v : valid O (mkF (f_dt c) v) = true ->
  lstep O level c (LSet v) = (mkF (f_dt c) v, Ok "") /\
  snd (lstep O level (mkF (f_dt c) v) LWrite) = Ok v /\
  snd (lstep O level (mkF (f_dt c) v) LValidate) = Ok "".
Proof.
  intro H. unfold lstep; rewrite ?set_level_3, ?write_level_2. rewrite H. cbn [negb]. rewrite !Bool.andb_false_r. repeat split.
Qed.

(* over any sequence of operations: at level 3 the stored value is always valid (if it was to begin with); at level
   >= 2 every text that was written is valid *)
Lemma lstep_level3_keeps_valid O c o : valid O c = true -> valid O (fst (lstep O 3 c o)) = true.
Proof.
  intro H. destruct o as [v| |]; unfold lstep; rewrite ?set_level_3, ?write_level_2; cbn [Nat.leb andb].
  - destruct (valid O (mkF (f_dt c) v)) eqn:E; cbn [negb fst]; [exact E|exact H].
  - rewrite H. exact H.
  - rewrite H. exact H.
Qed.

Theorem level3_always_valid O : forall ops c, valid O c = true -> valid O (fst (lrun O 3 c ops)) = true.
Proof.
  induction ops as [|o r IH]; intros c H; cbn [lrun]; [exact H|].
  pose proof (lstep_level3_keeps_valid O c o H) as H1. destruct (lstep O 3 c o) as [c1 out]. cbn [fst] in H1.
  specialize (IH c1 H1). destruct (lrun O 3 c1 r) as [c2 outs]. exact IH.
Qed.

Theorem level2_writes_only_valid O level c : (2 <= level)%nat ->
  forall t, snd (lstep O level c LWrite) = Ok t -> t = f_text c /\ valid O c = true.
Proof.
  intros L t. unfold lstep; rewrite ?set_level_3, ?write_level_2. destruct (Nat.leb_spec 2 level) as [_|C]; [|lia]. cbn [andb].
  destruct (valid O c); cbn [negb snd]; [intro H; injection H as <-; auto|discriminate].
Qed.
