(* Proofs/RealsP.v — the records of a Gfa that are not placeholders: an accepted addition appends exactly the added
   line to them and changes no other; hence two arrival orders of one document hold the same records (C03, C05). *)
From Coq Require Import List String Ascii ZArith Bool Lia Permutation.
From GfaV Require Import Base.Py Base.Regex Gen.Tables Model.Align Model.Link Model.Codec Model.Line Model.Graph
  Proofs.GraphP Proofs.FrameP.
Import ListNotations.
Open Scope string_scope.
Open Scope list_scope.

Definition real (x : gl) : bool := negb (g_virtual x).
Definition reals (s : gfa) : list gl := filter real (lines s).
(* what a record says, without the identity the Gfa gave it *)
Definition body (x : gl) : rk * list string * list string := (g_rk x, g_pos x, g_tags x).

Lemma reals_add_raw s l : reals (add_raw s l) = reals s ++ (if g_virtual l then [] else [l]).
Proof.
  unfold reals, add_raw. cbn [lines]. rewrite filter_app. cbn [filter]. unfold real at 2. destruct (g_virtual l); reflexivity.
Qed.

Lemma reals_remove_virtual s prev :
  ids_ok s -> In prev (lines s) -> g_virtual prev = true -> reals (remove_id s (g_id prev)) = reals s.
Proof.
  intros Hids Hp Hv. unfold reals, remove_id. cbn [lines].
  assert (H : forall ls, (forall x, In x ls -> In x (lines s)) ->
                filter real (filter (fun l => negb (Nat.eqb (g_id l) (g_id prev))) ls) = filter real ls).
  { induction ls as [|x ls IH]; intros Hin; [reflexivity|]. cbn [filter].
    destruct (Nat.eqb_spec (g_id x) (g_id prev)) as [E|E]; cbn [negb].
    - pose proof (same_id_same_line s x prev Hids (Hin x (or_introl eq_refl)) Hp E) as ->.
      unfold real at 2. rewrite Hv. cbn [negb]. apply IH. intros y Hy. apply Hin. right. exact Hy.
    - cbn [filter]. destruct (real x); [f_equal|]; apply IH; intros y Hy; apply Hin; right; exact Hy. }
  apply H. auto.
Qed.

Lemma virtual_segment_is_virtual s n : g_virtual (mk_virtual_segment s n) = true.
Proof. unfold mk_virtual_segment. destruct (String.eqb _ _); reflexivity. Qed.

Lemma ensure_target_reals s m s' : ids_ok s -> ensure_target (Ok s) m = Ok s' -> reals s' = reals s.
Proof.
  intros Hids. unfold ensure_target. cbn [rbind]. destruct (m_seg m).
  - destruct (find_segment s (m_target m)); [intros H; injection H as <-; reflexivity|].
    destruct (find_named s (m_target m)) as [prev|] eqn:Efn.
    + destruct (g_virtual prev) eqn:Ev; [|discriminate]. intros H. injection H as <-.
      apply find_some in Efn. destruct Efn as [Hp _].
      rewrite reals_add_raw, virtual_segment_is_virtual, app_nil_r. apply reals_remove_virtual; assumption.
    + intros H. injection H as <-. rewrite reals_add_raw, virtual_segment_is_virtual, app_nil_r. reflexivity.
  - destruct (find_named s (m_target m)); intros H; injection H as <-; [reflexivity|].
    unfold fresh. rewrite reals_add_raw. cbn [g_virtual]. apply app_nil_r.
Qed.

Lemma ensure_targets_reals ms : forall s s', ids_ok s -> fold_left ensure_target ms (Ok s) = Ok s' -> reals s' = reals s.
Proof.
  induction ms as [|m ms IH]; intros s s' Hids H; cbn [fold_left] in H.
  - injection H as <-. reflexivity.
  - destruct (ensure_target (Ok s) m) as [s1|e] eqn:E1; [|rewrite fold_ensure_target_err in H; discriminate].
    destruct (ensure_target_spec s m s1 Hids E1) as [I1 _].
    rewrite (IH s1 s' I1 H). apply (ensure_target_reals s m s1 Hids E1).
Qed.

Lemma ensure_step_reals s st s' : ids_ok s -> ensure_step (Ok s) st = Ok s' -> reals s' = reals s.
Proof.
  intros Hids. unfold ensure_step. cbn [rbind]. destruct st as [[a b] ov].
  match goal with |- context [match ?c with Some _ => Ok s | None => _ end] => destruct c end.
  - intros H. injection H as <-. reflexivity.
  - unfold ensure_targets.
    match goal with |- context [fold_left ensure_target ?ms (Ok s)] =>
      destruct (fold_left ensure_target ms (Ok s)) as [s1|e] eqn:E1 end; cbn [rbind]; [|discriminate].
    intros H. injection H as <-. rewrite reals_add_raw. cbn [g_virtual]. rewrite app_nil_r.
    apply (ensure_targets_reals _ s s1 Hids E1).
Qed.

Lemma ensure_steps_reals sts : forall s s', ids_ok s -> fold_left ensure_step sts (Ok s) = Ok s' -> reals s' = reals s.
Proof.
  induction sts as [|st sts IH]; intros s s' Hids H; cbn [fold_left] in H.
  - injection H as <-. reflexivity.
  - destruct (ensure_step (Ok s) st) as [s1|e] eqn:E1; [|rewrite fold_ensure_step_err in H; discriminate].
    destruct (ensure_step_spec s st s1 Hids E1) as [I1 _].
    rewrite (IH s1 s' I1 H). apply (ensure_step_reals s st s1 Hids E1).
Qed.

(* filing a line whose identifier is free: the records are the old ones followed by the line *)
Lemma place_reals s l s' :
  ids_ok s -> place s l = Ok s' -> map body (reals s') = map body (reals s) ++ [body l].
Proof.
  intros Hids. unfold place.
  destruct (match g_rk l with KP => fold_left ensure_step (path_steps (g_pos l)) (Ok s) | _ => Ok s end) as [s1|e] eqn:E1;
    cbn [rbind]; [|discriminate].
  unfold ensure_targets. destruct (fold_left ensure_target (mentions l) (Ok s1)) as [s2|e] eqn:E2; cbn [rbind]; [|discriminate].
  intros H. injection H as <-.
  assert (S1 : ids_ok s1 /\ reals s1 = reals s).
  { destruct (g_rk l); try (injection E1 as <-; split; [exact Hids | reflexivity]).
    split; [apply (ensure_steps_spec _ s s1 Hids E1) | apply (ensure_steps_reals _ s s1 Hids E1)]. }
  destruct S1 as [I1 R1]. rewrite reals_add_raw. cbn [g_virtual]. rewrite map_app.
  rewrite (ensure_targets_reals _ s1 s2 I1 E2), R1. reflexivity.
Qed.

(* an addition that meets no stored record of the same identifier (or meets only its placeholder) *)
Definition no_real_duplicate (s : gfa) (l : gl) : Prop := forall prev, duplicate_of s l = Some prev -> g_virtual prev = true.

Theorem connect_reals s l s' :
  ids_ok s -> no_real_duplicate s l -> connect s l = Ok s' ->
  map body (reals s') = map body (reals s) ++ [body l].
Proof.
  intros Hids Hd. unfold connect.
  destruct (match g_rk l with KE => rmap (fun _ => tt) (edge_colls (g_pos l)) | _ => Ok tt end); cbn [rbind]; [|discriminate].
  destruct (duplicate_of s l) as [prev|] eqn:Ed; [|apply place_reals; exact Hids].
  rewrite (Hd prev Ed). intros H. pose proof (duplicate_in_lines s l prev Ed) as Hp.
  rewrite (place_reals _ l s' (ids_ok_remove s (g_id prev) Hids) H).
  rewrite (reals_remove_virtual s prev Hids Hp (Hd prev Ed)). reflexivity.
Qed.

(* ---------- a whole document, line by line ---------- *)
Fixpoint connect_all (s : gfa) (ls : list gl) : res gfa :=
  match ls with [] => Ok s | l :: r => do s1 <- connect s l ;; connect_all s1 r end.

Fixpoint guards_all (s : gfa) (ls : list gl) : Prop :=
  match ls with
  | [] => True
  | l :: r => no_real_duplicate s l /\ g_rk l <> KO /\ g_rk l <> KU /\
              (forall s1, connect s l = Ok s1 -> guards_all s1 r)
  end.

Theorem connect_all_reals : forall ls s s',
  ids_ok s -> guards_all s ls -> connect_all s ls = Ok s' ->
  map body (reals s') = map body (reals s) ++ map body ls.
Proof.
  induction ls as [|l r IH]; intros s s' Hids Hg H; cbn [connect_all] in H.
  - injection H as <-. cbn [map]. rewrite app_nil_r. reflexivity.
  - destruct (connect s l) as [s1|e] eqn:E1; cbn [rbind] in H; [|discriminate].
    destruct Hg as [Hd [HO [HU Hn]]].
    destruct (connect_keeps s l s1 Hids HO HU E1) as [_ I1].
    rewrite (IH s1 s' I1 (Hn s1 E1) H), (connect_reals s l s1 Hids Hd E1). cbn [map]. rewrite <- app_assoc. reflexivity.
Qed.

(* two arrival orders of the same lines, both read completely: the same records *)
Theorem orders_same_records ls ls' s1 s2 v vl :
  Permutation ls ls' ->
  guards_all (init_gfa v vl) ls -> guards_all (init_gfa v vl) ls' ->
  connect_all (init_gfa v vl) ls = Ok s1 -> connect_all (init_gfa v vl) ls' = Ok s2 ->
  Permutation (map body (reals s1)) (map body (reals s2)).
Proof.
  intros P G1 G2 H1 H2.
  assert (I0 : ids_ok (init_gfa v vl)) by (apply (proj1 (inv_init v vl))).
  rewrite (connect_all_reals ls _ s1 I0 G1 H1), (connect_all_reals ls' _ s2 I0 G2 H2).
  cbn [app]. apply Permutation_map. exact P.
Qed.

(* the guards as a computation along the run (for concrete documents) *)
Definition no_real_duplicate_b (s : gfa) (l : gl) : bool :=
  match duplicate_of s l with Some prev => g_virtual prev | None => true end.

Fixpoint guards_all_b (s : gfa) (ls : list gl) : bool :=
  match ls with
  | [] => true
  | l :: r => no_real_duplicate_b s l && negb (rk_eqb (g_rk l) KO) && negb (rk_eqb (g_rk l) KU) &&
              match connect s l with Ok s1 => guards_all_b s1 r | Err _ => true end
  end.

Lemma guards_all_b_spec : forall ls s, guards_all_b s ls = true -> guards_all s ls.
Proof.
  induction ls as [|l r IH]; intros s H; cbn [guards_all_b guards_all] in *; [exact I|].
  repeat (apply andb_true_iff in H; destruct H as [H ?]).
  repeat split.
  - intros prev Hp. unfold no_real_duplicate_b in H. rewrite Hp in H. exact H.
  - intros E. rewrite E in *. discriminate.
  - intros E. rewrite E in *. discriminate.
  - intros s1 E. rewrite E in *. apply IH. assumption.
Qed.
