(* Proofs/PurityP.v — on documents whose stored texts are canonical, no sequence of reads changes a written form or a
   later answer; in general a second read of the same field returns what the first returned. *)
From Coq Require Import List String Ascii ZArith Bool Lia.
From GfaV Require Import Base.Py Gen.Tables Model.Codec Model.Purity.
Import ListNotations.
Open Scope string_scope.
Open Scope list_scope.

Lemma get_cell_write O c : canonical_cell O c -> write_cell (fst (get_cell O c)) = write_cell c.
Proof.
  unfold get_cell, canonical_cell. intro H.
  destruct (c_decoded c || String.eqb (c_dt c) "Z" || String.eqb (c_dt c) "seq"); [reflexivity|].
  destruct H as [H|H]; [discriminate|]. unfold write_cell. cbn [fst c_prefix c_text]. now rewrite H.
Qed.

Lemma get_cell_answer O c : canonical_cell O c -> snd (get_cell O (fst (get_cell O c))) = snd (get_cell O c).
Proof.
  unfold get_cell, canonical_cell. intros _.
  destruct (c_decoded c || String.eqb (c_dt c) "Z" || String.eqb (c_dt c) "seq") eqn:E; cbn [fst snd]; [rewrite E; reflexivity|].
  cbn [c_decoded orb]. reflexivity.
Qed.

(* a second read returns what the first returned, canonical or not *)
Theorem read_twice O c : snd (get_cell O (fst (get_cell O c))) = snd (get_cell O c).
Proof.
  unfold get_cell.
  destruct (c_decoded c || String.eqb (c_dt c) "Z" || String.eqb (c_dt c) "seq") eqn:E; cbn [fst snd]; [rewrite E; reflexivity|].
  cbn [c_decoded orb]. reflexivity.
Qed.

Lemma get_cell_canonical O c : canonical_cell O c -> canonical_cell O (fst (get_cell O c)).
Proof.
  unfold get_cell, canonical_cell. intro H.
  destruct (c_decoded c || String.eqb (c_dt c) "Z" || String.eqb (c_dt c) "seq") eqn:E; cbn [fst].
  - left. exact E.
  - left. reflexivity.
Qed.

Lemma get_cell_same_text O c : canonical_cell O c -> c_text (fst (get_cell O c)) = c_text c /\
  c_dt (fst (get_cell O c)) = c_dt c /\ c_prefix (fst (get_cell O c)) = c_prefix c.
Proof.
  unfold get_cell, canonical_cell. intro H.
  destruct (c_decoded c || String.eqb (c_dt c) "Z" || String.eqb (c_dt c) "seq"); [auto|].
  destruct H as [H|H]; [discriminate|]. cbn [fst c_dt c_text c_prefix]. auto.
Qed.

(* two cells that differ at most in the "decoded" flag give the same answers and the same written form *)
Definition same_cell (a b : cell) : Prop :=
  c_prefix a = c_prefix b /\ c_dt a = c_dt b /\ c_text a = c_text b /\ (c_decoded a = true -> c_decoded b = true).
Definition same_line (a b : pline) : Prop := Forall2 same_cell a b.
Definition same_doc (a b : doc) : Prop := Forall2 same_line a b.

Lemma same_cell_refl a : same_cell a a. Proof. repeat split; auto. Qed.
Lemma same_line_refl a : same_line a a. Proof. induction a; constructor; [apply same_cell_refl|assumption]. Qed.
Lemma same_doc_refl a : same_doc a a. Proof. induction a; constructor; [apply same_line_refl|assumption]. Qed.

Lemma same_cell_trans a b c : same_cell a b -> same_cell b c -> same_cell a c.
Proof. intros [A1 [A2 [A3 A4]]] [B1 [B2 [B3 B4]]]. repeat split; try congruence. auto. Qed.

Lemma same_line_trans : forall a b c, same_line a b -> same_line b c -> same_line a c.
Proof.
  induction a as [|x a IH]; intros b c H1 H2; inversion H1; subst; inversion H2; subst; constructor.
  - eapply same_cell_trans; eassumption.
  - eapply IH; eassumption.
Qed.

Lemma same_doc_trans : forall a b c, same_doc a b -> same_doc b c -> same_doc a c.
Proof.
  induction a as [|x a IH]; intros b c H1 H2; inversion H1; subst; inversion H2; subst; constructor.
  - eapply same_line_trans; eassumption.
  - eapply IH; eassumption.
Qed.

Lemma same_cell_answer O a b : canonical_cell O a -> same_cell a b -> snd (get_cell O a) = snd (get_cell O b).
Proof.
  intros H [E1 [E2 [E3 E4]]]. unfold get_cell, canonical_cell in *. rewrite <- E2, <- E3.
  destruct (c_decoded a) eqn:Da.
  - rewrite (E4 eq_refl). reflexivity.
  - destruct (String.eqb (c_dt a) "Z"); destruct (String.eqb (c_dt a) "seq"); destruct (c_decoded b);
      cbn [orb snd] in *; try reflexivity; destruct H as [H|H]; try discriminate; congruence.
Qed.

Lemma same_cell_write a b : same_cell a b -> write_cell a = write_cell b.
Proof. intros [E1 [E2 [E3 _]]]. unfold write_cell. congruence. Qed.

Lemma same_line_write a b : same_line a b -> write_line a = write_line b.
Proof.
  intro H. unfold write_line. f_equal. induction H as [|x y a b Hxy Hab IH]; [reflexivity|].
  cbn [map]. rewrite (same_cell_write _ _ Hxy), IH. reflexivity.
Qed.

Lemma same_doc_write a b : same_doc a b -> write_doc a = write_doc b.
Proof.
  intro H. unfold write_doc. f_equal. induction H as [|x y a b Hxy Hab IH]; [reflexivity|].
  cbn [map]. rewrite (same_line_write _ _ Hxy), IH. reflexivity.
Qed.

Lemma Forall2_refl {A} (R : A -> A -> Prop) (Rr : forall a, R a a) : forall l, Forall2 R l l.
Proof. induction l; constructor; auto. Qed.

Lemma update_same {A} (R : A -> A -> Prop) (Rr : forall a, R a a) (f : A -> A) :
  forall l i, (forall x, In x l -> R x (f x)) -> Forall2 R l (update l i f).
Proof.
  induction l as [|x l IH]; intros i H; [destruct i; constructor|].
  destruct i as [|j]; cbn [update]; constructor.
  - apply H. left; reflexivity.
  - apply Forall2_refl. exact Rr.
  - apply Rr.
  - apply IH. intros y Hy. apply H. right; exact Hy.
Qed.

Lemma step_same O d q : canonical O d -> same_doc d (step O d q).
Proof.
  intro C. destruct q as [i j| |]; cbn [step]; try apply same_doc_refl.
  apply update_same; [apply same_line_refl|]. intros l Hl.
  apply update_same; [apply same_cell_refl|]. intros c Hc.
  destruct (get_cell_same_text O c (C l Hl c Hc)) as [A [B D]]. repeat split; try congruence.
  unfold get_cell. intro Dc. rewrite Dc. exact Dc.
Qed.

Lemma in_update {A} (f : A -> A) : forall l i y, In y (update l i f) -> In y l \/ exists x, In x l /\ y = f x.
Proof.
  induction l as [|x l IH]; intros i y H; [destruct i; destruct H|].
  destruct i as [|j]; cbn [update] in H; destruct H as [<-|H].
  - right. exists x. split; [left; reflexivity|reflexivity].
  - left. right; exact H.
  - left. left; reflexivity.
  - destruct (IH _ _ H) as [P|[z [P Q]]]; [left; right; exact P|right; exists z; split; [right; exact P|exact Q]].
Qed.

Lemma step_canonical O d q : canonical O d -> canonical O (step O d q).
Proof.
  intro C. destruct q as [i j| |]; cbn [step]; try exact C.
  intros l Hl c Hc. apply in_update in Hl. destruct Hl as [Hl|[l0 [Hl0 ->]]]; [exact (C l Hl c Hc)|].
  apply in_update in Hc. destruct Hc as [Hc|[c0 [Hc0 ->]]]; [exact (C l0 Hl0 c Hc)|].
  apply get_cell_canonical. exact (C l0 Hl0 c0 Hc0).
Qed.

Lemma run_same O : forall qs d, canonical O d -> same_doc d (run O d qs) /\ canonical O (run O d qs).
Proof.
  induction qs as [|q qs IH]; intros d C; cbn [run fold_left]; [split; [apply same_doc_refl|exact C]|].
  destruct (IH (step O d q) (step_canonical O d q C)) as [A B]. split; [|exact B].
  eapply same_doc_trans; [apply step_same; exact C|exact A].
Qed.

Lemma same_doc_nth a b : same_doc a b -> forall i, match nth_error a i, nth_error b i with
  | Some x, Some y => same_line x y | None, None => True | _, _ => False end.
Proof.
  induction 1 as [|x y a b Hxy Hab IH]; intro i; destruct i; cbn; auto. apply IH.
Qed.

Lemma same_line_nth a b : same_line a b -> forall i, match nth_error a i, nth_error b i with
  | Some x, Some y => same_cell x y | None, None => True | _, _ => False end.
Proof.
  induction 1 as [|x y a b Hxy Hab IH]; intro i; destruct i; cbn; auto. apply IH.
Qed.

Lemma same_doc_answer O a b q : canonical O a -> same_doc a b -> answer O a q = answer O b q.
Proof.
  intros C S. destruct q as [i j|i|]; cbn [answer].
  - pose proof (same_doc_nth _ _ S i) as N. destruct (nth_error a i) as [x|] eqn:Ea; destruct (nth_error b i) as [y|]; try tauto.
    pose proof (same_line_nth _ _ N j) as M. destruct (nth_error x j) as [c|] eqn:Ec; destruct (nth_error y j) as [c'|]; try tauto.
    apply same_cell_answer; [|exact M]. apply (C x (nth_error_In _ _ Ea) c (nth_error_In _ _ Ec)).
  - pose proof (same_doc_nth _ _ S i) as N. destruct (nth_error a i) as [x|]; destruct (nth_error b i) as [y|]; try tauto.
    apply same_line_write. exact N.
  - apply same_doc_write. exact S.
Qed.

(* the purity theorem: on a document whose stored texts are canonical, after any sequence of read-only calls the
   document is written as before and every query is answered as before *)
Theorem reads_change_nothing O d qs : canonical O d ->
  write_doc (run O d qs) = write_doc d /\ forall q, answer O (run O d qs) q = answer O d q.
Proof.
  intro C. destruct (run_same O qs d C) as [S _]. split.
  - symmetry. apply same_doc_write. exact S.
  - intro q. symmetry. apply same_doc_answer; assumption.
Qed.

(* at validation level >= 1 every field is decoded when the line is built *)
Theorem init_settled O vlevel prefix dt text : (1 <= vlevel)%nat -> canonical_cell O (init_cell O vlevel prefix dt text).
Proof.
  intro H. unfold init_cell. destruct (Nat.leb_spec 1 vlevel) as [_|C]; [|lia]. cbn [orb]. left. reflexivity.
Qed.
