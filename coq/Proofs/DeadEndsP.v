(* Proofs/DeadEndsP.v — the number of dead ends is the number of segment ends on which the document puts no dovetail
   (C16): counted from the lines of the document, not from stored collections. *)
From Coq Require Import List String Ascii ZArith Bool Lia Arith.
From GfaV Require Import Base.Py Gen.Tables Model.Codec Model.Graph Model.Topology Proofs.CountersP.
Import ListNotations.
Open Scope string_scope.
Open Scope list_scope.

(* a line of the document puts a dovetail on end [e] of segment [n] *)
Definition puts_dovetail (n e : string) (l : gl) : bool :=
  existsb (fun m => String.eqb (m_target m) n && String.eqb (m_coll m) ("dovetails_" ++ e)) (mentions l).

Definition end_is_dead (s : gfa) (n e : string) : bool := forallb (fun l => negb (puts_dovetail n e l)) (lines s).

Lemma filter_nil_forallb {A} (p : A -> bool) l : filter p l = [] <-> forallb (fun x => negb (p x)) l = true.
Proof.
  induction l as [|x l IH]; cbn [filter forallb]; [tauto|]. destruct (p x); cbn [negb andb]; [split; discriminate | exact IH].
Qed.

Lemma existsb_filter {A} (p : A -> bool) l : existsb p l = negb (match filter p l with [] => true | _ => false end).
Proof. induction l as [|x l IH]; [reflexivity|]. cbn [existsb filter]. destruct (p x); [reflexivity | exact IH]. Qed.

Lemma coll_size_zero s n e : Nat.eqb (coll_size s n ("dovetails_" ++ e)) 0 = end_is_dead s n e.
Proof.
  unfold coll_size, backrefs, end_is_dead, puts_dovetail.
  induction (lines s) as [|l ls IH]; [reflexivity|]. cbn [flat_map forallb]. rewrite app_length, map_length.
  rewrite existsb_filter.
  destruct (filter (fun m => String.eqb (m_target m) n && String.eqb (m_coll m) ("dovetails_" ++ e)) (mentions l)) as [|m ms];
    cbn [List.length negb andb plus]; [exact IH | reflexivity].
Qed.

Theorem dead_ends_counted_from_the_document s :
  n_dead_ends s =
  sum_nat (map (fun n => (if end_is_dead s n "L" then 1 else 0) + (if end_is_dead s n "R" then 1 else 0)) (segment_names s)).
Proof.
  unfold n_dead_ends. apply sum_nat_ext. intros n _.
  change "dovetails_L" with ("dovetails_" ++ "L")%string. change "dovetails_R" with ("dovetails_" ++ "R")%string.
  rewrite !coll_size_zero. reflexivity.
Qed.

(* an end is dead exactly when no line of the document mentions it as the end of a dovetail *)
Theorem end_is_dead_spec s n e :
  end_is_dead s n e = true <->
  forall l m, In l (lines s) -> In m (mentions l) -> m_target m = n -> m_coll m <> ("dovetails_" ++ e)%string.
Proof.
  unfold end_is_dead, puts_dovetail. rewrite forallb_forall. split.
  - intros H l m Hl Hm Ht Hc. specialize (H l Hl). apply negb_true_iff in H.
    assert (X : existsb (fun m0 => String.eqb (m_target m0) n && String.eqb (m_coll m0) ("dovetails_" ++ e)) (mentions l) = true).
    { apply existsb_exists. exists m. split; [exact Hm|]. rewrite Ht, Hc, !String.eqb_refl. reflexivity. }
    congruence.
  - intros H l Hl. apply negb_true_iff.
    destruct (existsb _ (mentions l)) eqn:E; [|reflexivity]. apply existsb_exists in E. destruct E as [m [Hm Hp]].
    apply andb_true_iff in Hp. destruct Hp as [Ht Hc]. apply String.eqb_eq in Ht. apply String.eqb_eq in Hc.
    contradiction (H l m Hl Hm Ht Hc).
Qed.
