(* Proofs/NumArrP.v — NumericArray.integer_type (GENERATED kernel over the GENERATED range table) picks the
   smallest subtype that holds the values, and fails exactly when none does (C20). *)
From Coq Require Import List String Ascii ZArith Bool Lia.
From GfaV Require Import Base.Py Gen.Tables Gen.K_numarr.
Import ListNotations.
Open Scope string_scope.

(* the documented rule: signed subtypes c s i (8/16/32 bit) when the minimum is negative, else unsigned C S I;
   the narrowest one whose range holds all values *)
Definition fits (a b lo hi : Z) : bool := Z.leb a lo && Z.ltb hi b.

Definition spec_type (lo hi : Z) : option string :=
  if Z.ltb lo 0 then
    if fits (-128) 128 lo hi then Some "c" else if fits (-32768) 32768 lo hi then Some "s"
    else if fits (-2147483648) 2147483648 lo hi then Some "i" else None
  else
    if Z.ltb hi 256 then Some "C" else if Z.ltb hi 65536 then Some "S"
    else if Z.ltb hi 4294967296 then Some "I" else None.

Theorem integer_type_is_spec lo hi :
  k_integer_type (lo, hi) = match spec_type lo hi with Some st => Ok st | None => Err (G EValue) end.
Proof.
  unfold k_integer_type, spec_type, fits. cbn [fst snd].
  destruct (Z.ltb lo 0).
  - unfold T_NA_SIGNED_INT_SUBTYPE, T_NA_SUBTYPE_RANGE. cbn -[Z.leb Z.gtb Z.ltb].
    rewrite !Z.gtb_ltb.
    destruct (Z.leb (-128) lo && Z.ltb hi 128); [reflexivity|].
    destruct (Z.leb (-32768) lo && Z.ltb hi 32768); [reflexivity|].
    destruct (Z.leb (-2147483648) lo && Z.ltb hi 2147483648); reflexivity.
  - unfold T_NA_UNSIGNED_INT_SUBTYPE, T_NA_SUBTYPE_RANGE. cbn -[Z.leb Z.gtb Z.ltb].
    rewrite !Z.gtb_ltb.
    destruct (Z.ltb hi 256); [reflexivity|]. destruct (Z.ltb hi 65536); [reflexivity|].
    destruct (Z.ltb hi 4294967296); reflexivity.
Qed.

(* the specification itself: range of each subtype and the order of increasing width *)
Definition range_of (st : string) : Z * Z :=
  if String.eqb st "c" then (-128, 128)%Z else if String.eqb st "s" then (-32768, 32768)%Z
  else if String.eqb st "i" then (-2147483648, 2147483648)%Z
  else if String.eqb st "C" then (0, 256)%Z else if String.eqb st "S" then (0, 65536)%Z
  else (0, 4294967296)%Z.

Definition holds (st : string) (lo hi : Z) : Prop := (fst (range_of st) <= lo /\ hi < snd (range_of st))%Z.

Theorem spec_type_smallest lo hi st :
  (lo <= hi)%Z -> spec_type lo hi = Some st ->
  holds st lo hi /\
  ((lo < 0)%Z -> In st ["c"; "s"; "i"] /\
                 (st = "s" -> ~ holds "c" lo hi) /\ (st = "i" -> ~ holds "c" lo hi /\ ~ holds "s" lo hi)) /\
  ((0 <= lo)%Z -> In st ["C"; "S"; "I"] /\
                  (st = "S" -> ~ holds "C" lo hi) /\ (st = "I" -> ~ holds "C" lo hi /\ ~ holds "S" lo hi)).
Proof.
  intros Hle. unfold spec_type, fits, holds.
  destruct (Z.ltb_spec lo 0) as [Hn|Hp].
  - destruct (Z.leb_spec (-128) lo), (Z.ltb_spec hi 128); cbn [andb];
      try (intros Heq; injection Heq as <-; cbn; repeat split; intros; try lia; try discriminate; tauto);
    destruct (Z.leb_spec (-32768) lo), (Z.ltb_spec hi 32768); cbn [andb];
      try (intros Heq; injection Heq as <-; cbn; repeat split; intros; try lia; try discriminate; tauto);
    destruct (Z.leb_spec (-2147483648) lo), (Z.ltb_spec hi 2147483648); cbn [andb];
      try (intros Heq; injection Heq as <-; cbn; repeat split; intros; try lia; try discriminate; tauto);
    intros Heq; discriminate.
  - destruct (Z.ltb_spec hi 256);
      try (intros Heq; injection Heq as <-; cbn; repeat split; intros; try lia; try discriminate; tauto).
    destruct (Z.ltb_spec hi 65536);
      try (intros Heq; injection Heq as <-; cbn; repeat split; intros; try lia; try discriminate; tauto).
    destruct (Z.ltb_spec hi 4294967296);
      try (intros Heq; injection Heq as <-; cbn; repeat split; intros; try lia; try discriminate; tauto).
    intros Heq; discriminate.
Qed.

Theorem spec_type_none_iff lo hi :
  (lo <= hi)%Z ->
  (spec_type lo hi = None <->
   ((lo < 0)%Z -> ~ holds "i" lo hi) /\ ((0 <= lo)%Z -> ~ holds "I" lo hi)).
Proof.
  intros Hle. unfold spec_type, fits, holds.
  destruct (Z.ltb_spec lo 0) as [Hn|Hp].
  - destruct (Z.leb_spec (-128) lo), (Z.ltb_spec hi 128); cbn [andb];
    destruct (Z.leb_spec (-32768) lo), (Z.ltb_spec hi 32768); cbn [andb];
    destruct (Z.leb_spec (-2147483648) lo), (Z.ltb_spec hi 2147483648); cbn [andb];
    (split; [intros Heq; try discriminate; split; intros; cbn; lia
            | intros [Ga Gb]; try reflexivity; exfalso; apply (Ga Hn); cbn; lia]).
  - destruct (Z.ltb_spec hi 256); destruct (Z.ltb_spec hi 65536); destruct (Z.ltb_spec hi 4294967296);
    (split; [intros Heq; try discriminate; split; intros; cbn; lia
            | intros [Ga Gb]; try reflexivity; exfalso; apply (Gb Hp); cbn; lia]).
Qed.
