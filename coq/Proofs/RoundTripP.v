(* Proofs/RoundTripP.v — lemmas behind the parse/write round trip (C01). *)
From Coq Require Import List String Ascii ZArith Bool Lia DecimalString DecimalZ.
From GfaV Require Import Base.Py Base.Regex Model.Align Model.Codec Model.Line Model.Doc Proofs.CodecP.
Import ListNotations.
Open Scope string_scope.
Open Scope list_scope.

(* ---------- joining and splitting ---------- *)
Fixpoint has_char (c : ascii) (s : string) : bool :=
  match s with EmptyString => false | String a r => Ascii.eqb a c || has_char c r end.

Lemma split_on_no_sep c s : has_char c s = false -> split_on c s = [s].
Proof.
  induction s as [|a r IH]; cbn; [reflexivity|]. intros H. apply orb_false_iff in H. destruct H as [H1 H2].
  rewrite H1, (IH H2). reflexivity.
Qed.

Lemma split_on_app c x r :
  has_char c x = false ->
  split_on c (x ++ String c r)%string = x :: split_on c r.
Proof.
  induction x as [|a x IH]; cbn.
  - intros _. rewrite Ascii.eqb_refl. reflexivity.
  - intros H. apply orb_false_iff in H. destruct H as [H1 H2]. rewrite H1, (IH H2). reflexivity.
Qed.

(* splitting a joined list gives the list back, whatever the fields are, as long as none contains the separator *)
Theorem split_join c l :
  l <> [] -> forallb (fun x => negb (has_char c x)) l = true ->
  split_on c (join_with (String c EmptyString) l) = l.
Proof.
  induction l as [|x l IH]; [congruence|]. intros _ H. cbn [forallb] in H.
  apply andb_true_iff in H. destruct H as [Hx Hl]. apply negb_true_iff in Hx.
  destruct l as [|y l'].
  - cbn. apply split_on_no_sep. exact Hx.
  - change (join_with (String c "") (x :: y :: l')) with (x ++ String c EmptyString ++ join_with (String c "") (y :: l'))%string.
    change (String c EmptyString ++ join_with (String c "") (y :: l'))%string with (String c (join_with (String c "") (y :: l'))).
    rewrite split_on_app by exact Hx. f_equal. apply IH; [discriminate | exact Hl].
Qed.

(* ---------- canonical decimal spelling is idempotent ---------- *)
Lemma string_of_uint_digits d :
  forall c, has_char c (NilEmpty.string_of_uint d) = true -> is_digit c = true.
Proof.
  induction d as [|d IH|d IH|d IH|d IH|d IH|d IH|d IH|d IH|d IH|d IH];
    cbn [NilEmpty.string_of_uint has_char]; intros c H; try discriminate;
    apply orb_true_iff in H; destruct H as [H|H]; try (apply IH; exact H);
    apply Ascii.eqb_eq in H; subst c; reflexivity.
Qed.

Lemma str_of_Z_chars z c : has_char c (str_of_Z z) = true -> is_digit c = true \/ c = "-"%char.
Proof.
  assert (U : forall d, has_char c (NilZero.string_of_uint d) = true -> is_digit c = true).
  { intros d. unfold NilZero.string_of_uint. destruct d; try (apply string_of_uint_digits).
    cbn [has_char]. intros H. apply orb_true_iff in H. destruct H as [H|H]; [|discriminate].
    apply Ascii.eqb_eq in H. subst c. reflexivity. }
  unfold str_of_Z. destruct (Z.to_int z) as [d|d]; cbn [NilZero.string_of_int].
  - intros H. left. exact (U d H).
  - cbn [has_char]. intros H. apply orb_true_iff in H. destruct H as [H|H].
    + right. apply Ascii.eqb_eq in H. congruence.
    + left. exact (U d H).
Qed.

Lemma drop_last_nl_none s : has_char nl s = false -> drop_last_nl s = None.
Proof.
  induction s as [|a r IH]; [reflexivity|]. cbn [has_char]. intros H. apply orb_false_iff in H. destruct H as [H1 H2].
  cbn [drop_last_nl]. destruct r as [|b r'].
  - rewrite H1. reflexivity.
  - rewrite (IH H2). reflexivity.
Qed.

Lemma str_of_Z_no_nl z : has_char nl (str_of_Z z) = false.
Proof.
  destruct (has_char nl (str_of_Z z)) eqn:E; [|reflexivity].
  apply str_of_Z_chars in E. destruct E as [E|E]; [vm_compute in E; discriminate | vm_compute in E; discriminate].
Qed.

Theorem py_int_str_of_Z_full z : py_int (str_of_Z z) = Some z.
Proof. unfold py_int. rewrite (drop_last_nl_none _ (str_of_Z_no_nl z)). apply py_int_str_of_Z. Qed.

Theorem canon_int_idempotent s : canon_int (canon_int s) = canon_int s.
Proof.
  unfold canon_int at 2 3. destruct (py_int s) as [z|] eqn:E.
  - unfold canon_int. rewrite py_int_str_of_Z_full. reflexivity.
  - unfold canon_int. rewrite E. reflexivity.
Qed.

(* ---------- the grouping of the writer: a stable partition by record class ---------- *)
Lemma filter_filter_same {A} (p : A -> bool) l : filter p (filter p l) = filter p l.
Proof.
  induction l as [|x l IH]; cbn; [reflexivity|]. destruct (p x) eqn:E; cbn; rewrite ?E, IH; reflexivity.
Qed.

Lemma filter_filter_disjoint {A} (p q : A -> bool) l :
  (forall x, p x = true -> q x = false) -> filter q (filter p l) = [].
Proof.
  intros H. induction l as [|x l IH]; cbn; [reflexivity|]. destruct (p x) eqn:E; cbn; [rewrite (H x E)|]; exact IH.
Qed.

Lemma is_class_disjoint a b l : a <> b -> is_class a l = true -> is_class b l = false.
Proof.
  unfold is_class. intros Hab H. apply String.eqb_eq in H. apply String.eqb_neq. congruence.
Qed.

(* every record of a class is written exactly once, in arrival order: the segment block as the example
   the other static blocks follow the same lemma *)
Theorem class_block_stable a l :
  filter (is_class a) (filter (is_class a) l) = filter (is_class a) l.
Proof. apply filter_filter_same. Qed.

Theorem class_blocks_do_not_mix a b l :
  a <> b -> filter (is_class b) (filter (is_class a) l) = [].
Proof. intros H. apply filter_filter_disjoint. intros x. apply is_class_disjoint. exact H. Qed.

Lemma filter_app_ {A} (p : A -> bool) l1 l2 : filter p (l1 ++ l2) = filter p l1 ++ filter p l2.
Proof. induction l1 as [|x l1 IH]; cbn; [reflexivity|]. destruct (p x); cbn; rewrite IH; reflexivity. Qed.

(* regrouping an already grouped list of segments/containments/edges/... (the blocks whose key is static)
   changes nothing: stated for two blocks, the n-ary statement is its iteration *)
Theorem two_blocks_idempotent a b l :
  a <> b ->
  let g := fun l => filter (is_class a) l ++ filter (is_class b) l in
  g (g l) = g l.
Proof.
  intros Hab g. unfold g. rewrite !filter_app_.
  rewrite (filter_filter_same (is_class a)), (filter_filter_same (is_class b)).
  rewrite (class_blocks_do_not_mix a b l Hab).
  assert (Hba : b <> a) by congruence. rewrite (class_blocks_do_not_mix b a l Hba).
  cbn. rewrite app_nil_r. reflexivity.
Qed.
