(* Proofs/NoForeignP.v — the construction of a line never ends in a foreign exception. *)
From Coq Require Import List String Ascii ZArith Bool Lia.
From GfaV Require Import Base.Py Base.Regex Gen.Tables Gen.Regexes Model.Align Model.Codec Model.Line Model.Doc.
Import ListNotations.
Open Scope string_scope.
Open Scope list_scope.

Definition nf {A} (r : res A) : Prop := is_foreign r = false.

Lemma nf_ok {A} (a : A) : nf (Ok a). Proof. reflexivity. Qed.
Lemma nf_g {A} e : nf (@Err A (G e)). Proof. reflexivity. Qed.

Lemma nf_bind {A B} (m : res A) (f : A -> res B) : nf m -> (forall a, m = Ok a -> nf (f a)) -> nf (rbind m f).
Proof. destruct m as [a|[e|p]]; cbn; intros H1 H2; [apply H2; reflexivity|reflexivity|discriminate]. Qed.

Ltac split_ifs :=
  repeat match goal with
         | |- context [if ?b then _ else _] => destruct b
         | |- context [match ?x with _ => _ end] => destruct x
         end.

(* every predefined tag of the class has a datatype (a fact about the regenerated tables) *)
Definition good_class (c : rclass) : bool :=
  forallb (fun n => match assoc n (rc_dt c) with Some _ => true | None => false end) (rc_predef c).

Definition all_classes : list rclass :=
  [C_Header; C_Comment; C_S1; C_S2; C_Link; C_Cont; C_Edge; C_Gap; C_Fragment; C_Path; C_Ordered; C_Unordered; C_Custom].

Lemma all_classes_good : forallb good_class all_classes = true.
Proof. vm_compute. reflexivity. Qed.

Lemma class_good c : In c all_classes -> good_class c = true.
Proof. intro H. exact (proj1 (forallb_forall _ _) all_classes_good c H). Qed.

Lemma subclass_gfa2_in rt : In (subclass_gfa2 rt) all_classes.
Proof. unfold subclass_gfa2, all_classes. split_ifs; cbn [In]; tauto. Qed.

Lemma subclass_in data v c : subclass data v = Ok c -> In c all_classes.
Proof.
  unfold subclass, subclass_unknown, subclass_gfa1, segment_subclass.
  pose proof (subclass_gfa2_in (hd "" data)) as G2.
  split_ifs; intro H; try discriminate; injection H as <-; try exact G2; unfold all_classes; cbn [In]; tauto.
Qed.

Lemma subclass_nf data v : nf (subclass data v).
Proof. unfold subclass, subclass_unknown, subclass_gfa1, segment_subclass. split_ifs; reflexivity. Qed.

Lemma unsafe_nf md s : nf (unsafe_accepts_module md s).
Proof. unfold unsafe_accepts_module. split_ifs; reflexivity. Qed.

Lemma init_field_nf O vl dt s : nf (init_field O vl dt s).
Proof.
  unfold init_field. destruct (Nat.leb 1 vl); [split_ifs; reflexivity|].
  destruct (in_strs dt T_DELAYED_PARSING_DATATYPES); [reflexivity|]. destruct (module_of dt); [apply unsafe_nf|reflexivity].
Qed.

Lemma parse_tag_nf s : nf (parse_tag s).
Proof. unfold parse_tag. split_ifs; reflexivity. Qed.

Lemma in_strs_In x l : in_strs x l = true -> In x l.
Proof.
  unfold in_strs. intro H. apply existsb_exists in H. destruct H as [y [Hy E]]. apply String.eqb_eq in E. subst. exact Hy.
Qed.

Lemma init_tag_nf O vl c seen t : good_class c = true -> nf (init_tag O vl c seen t).
Proof.
  intro Gc. unfold init_tag. destruct t as [[n dt] v].
  destruct (Nat.leb 1 vl); [|apply init_field_nf].
  destruct (has_tag n seen); [reflexivity|].
  destruct (match assoc n (rc_alias c) with Some _ => true | None => false end); [reflexivity|].
  destruct (in_strs n (rc_predef c)) eqn:P.
  - pose proof (proj1 (forallb_forall _ _) Gc n (in_strs_In _ _ P)) as D. cbn in D.
    destruct (assoc n (rc_dt c)) as [want|]; [|discriminate].
    destruct (String.eqb want dt); [apply init_field_nf|reflexivity].
  - destruct (py_fullmatch _ n); [apply init_field_nf|reflexivity].
Qed.

Lemma init_tags_nf O vl c : good_class c = true -> forall tags seen, nf (init_tags O vl c seen tags).
Proof.
  intro Gc. induction tags as [|s r IH]; intro seen; cbn [init_tags]; [reflexivity|].
  apply nf_bind; [apply parse_tag_nf|]. intros t _.
  apply nf_bind; [apply init_tag_nf; exact Gc|]. intros _ _.
  apply nf_bind; [apply IH|]. intros ts _. reflexivity.
Qed.

Lemma init_fields_nf O vl : forall fs, nf (init_fields O vl fs).
Proof.
  induction fs as [|[[n dt] v] r IH]; cbn [init_fields]; [reflexivity|].
  apply nf_bind; [apply init_field_nf|]. intros _ _. exact IH.
Qed.

Lemma specific_validation_nf c pos tags : nf (specific_validation c pos tags).
Proof.
  unfold specific_validation.
  destruct (String.eqb (rc_name c) "SegmentGFA1"); [split_ifs; reflexivity|].
  destruct (String.eqb (rc_name c) "Fragment").
  - apply nf_bind; [split_ifs; reflexivity|]. intros _ _. split_ifs; reflexivity.
  - split_ifs; reflexivity.
Qed.

Lemma parse_comment_nf O vl s : nf (parse_comment O vl s).
Proof.
  unfold parse_comment. destruct s as [|a r]; [reflexivity|].
  destruct a as [[] [] [] [] [] [] [] []]; try reflexivity.
  destruct (span_spaces r) as [spacer content]. destruct (negb _); [reflexivity|].
  apply nf_bind; [apply init_field_nf|]. intros _ _. apply nf_bind; [apply init_field_nf|]. intros _ _. reflexivity.
Qed.

Lemma validate_version_nf c v : nf (validate_version c v).
Proof. unfold validate_version. split_ifs; reflexivity. Qed.

Lemma compute_version_nf c rt : nf (compute_version c rt).
Proof. unfold compute_version. split_ifs; reflexivity. Qed.

Lemma parse_custom_nf O vl data : nf (parse_custom O vl data).
Proof.
  unfold parse_custom. destruct (peel_tags O vl (rev (tl data)) []) as [tg rest].
  destruct (in_strs (hd "" data) ["P"; "C"; "L"]); [reflexivity|].
  apply nf_bind; [apply init_field_nf|]. intros _ _. apply nf_bind; [apply init_fields_nf|]. intros _ _. reflexivity.
Qed.

(* gfapy.Line(text, vlevel, version): for every text, level and version the outcome is a line or a gfapy error *)
Theorem parse_line_no_foreign O vl version s : nf (parse_line O vl version s).
Proof.
  unfold parse_line. apply nf_bind; [apply subclass_nf|]. intros c Hc.
  pose proof (class_good c (subclass_in _ _ _ Hc)) as Gc.
  destruct (String.eqb (rc_name c) "Comment").
  - apply nf_bind; [apply parse_comment_nf|]. intros l _. destruct version as [v|]; [|reflexivity].
    apply nf_bind; [apply validate_version_nf|]. intros _ _. reflexivity.
  - apply nf_bind.
    + destruct version as [v|]; [|apply compute_version_nf].
      apply nf_bind; [apply validate_version_nf|]. intros _ _. reflexivity.
    + intros v _. destruct (String.eqb (rc_name c) "CustomRecord").
      * apply nf_bind; [apply parse_custom_nf|]. intros l _. reflexivity.
      * destruct (Nat.ltb _ _); [reflexivity|].
        apply nf_bind; [apply init_fields_nf|]. intros _ _.
        apply nf_bind; [apply init_tags_nf; exact Gc|]. intros tags _.
        apply nf_bind; [destruct (Nat.leb 1 vl); [apply specific_validation_nf|reflexivity]|]. intros _ _. reflexivity.
Qed.

Lemma rmapM_nf {A B} (f : A -> res B) : (forall a, nf (f a)) -> forall l, nf (rmapM f l).
Proof.
  intros Hf. induction l as [|a l IH]; cbn [rmapM]; [reflexivity|].
  specialize (Hf a). destruct (f a) as [b|[e|p]]; [|reflexivity|discriminate].
  destruct (rmapM f l) as [bs|[e|p]]; [reflexivity|reflexivity|discriminate].
Qed.

(* a whole document whose version is known: every line is constructed as above *)
Theorem parse_doc_no_foreign O vl version text : nf (parse_doc O vl version text).
Proof.
  unfold parse_doc. apply rmapM_nf. intro s. destruct s as [|a r]; [apply parse_line_no_foreign|].
  destruct a as [[] [] [] [] [] [] [] []]; apply parse_line_no_foreign.
Qed.
