(* Proofs/LinearP.v — chains found by the traversal are joined by dovetails that are alone on both ends;
   members are excluded from later searches; the merged segment is named after its members and its sequence has the
   summed length minus the cuts; reverse complement is length-preserving and an involution on the DNA alphabet. *)
From Coq Require Import List String Ascii ZArith Bool Lia Arith.
From GfaV Require Import Base.Py Gen.Tables Model.Align Model.Codec Model.Graph Model.Topology Model.Linear.
Import ListNotations.
Open Scope string_scope.
Open Scope list_scope.

Lemma rbind_ok {A B} (m : res A) (f : A -> res B) r : rbind m f = Ok r -> exists v, m = Ok v /\ f v = Ok r.
Proof. destruct m as [v|e]; cbn; intro H; [eauto|discriminate]. Qed.

(* x's exit end carries exactly one dovetail, it leads to y's entry end, and that end carries exactly one dovetail *)
Definition joined (s : gfa) (x y : send) : Prop :=
  exists l, dov s (fst x) (snd x) = [l] /\ y = inv_end (other_end l x) /\
            List.length (dov s (fst y) (inv_e (snd y))) = 1%nat.

Inductive chain (s : gfa) : list send -> Prop :=
| chain_nil : chain s []
| chain_one x : chain s [x]
| chain_cons x y r : joined s x y -> chain s (y :: r) -> chain s (x :: y :: r).

Lemma chain_app s : forall l x y, chain s (l ++ [x]) -> joined s x y -> chain s (l ++ [x; y]).
Proof.
  induction l as [|a l IH]; intros x y C J; cbn [app] in *.
  - constructor; [exact J|constructor].
  - destruct l as [|b l]; cbn [app] in *.
    + inversion C; subst. constructor; [assumption|]. constructor; [exact J|constructor].
    + inversion C; subst. constructor; [assumption|]. apply IH; assumption.
Qed.

Lemma length1 {A} (l : list A) : List.length l = 1%nat -> exists a, l = [a].
Proof. destruct l as [|a [|b r]]; cbn; intro H; try lia. eauto. Qed.

(* the loop invariant of __traverse_linear_path *)
Definition pending (s : gfa) (lst : list send) (cur : send) : Prop :=
  match lst with
  | [] => List.length (dov s (fst cur) (snd cur)) = 1%nat
  | _ => chain s lst /\ exists l, dov s (fst (last lst cur)) (snd (last lst cur)) = [l] /\
                                  cur = inv_end (other_end l (last lst cur))
  end.

Lemma last_app {A} (l : list A) x d : last (l ++ [x]) d = x.
Proof.
  induction l as [|a l IH]; [reflexivity|]. destruct l as [|b r]; [reflexivity|].
  cbn [app] in *. cbn [last] in *. exact IH.
Qed.

Lemma chain_snoc s lst cur :
  pending s lst cur -> List.length (dov s (fst cur) (inv_e (snd cur))) = 1%nat \/ lst = [] -> chain s (lst ++ [cur]).
Proof.
  intros P B. destruct lst as [|a r]; [constructor|].
  destruct P as [C [l [L1 L2]]]. destruct B as [B|B]; [|discriminate].
  destruct (@exists_last _ (a :: r)) as [pre [x E]]; [discriminate|].
  rewrite E in *. rewrite last_app in L1, L2. rewrite <- app_assoc. cbn [app].
  apply chain_app; [exact C|]. exists l. repeat split; assumption.
Qed.

Lemma pending_intro s l cur : l <> [] -> chain s l ->
  (exists lk, dov s (fst (last l cur)) (snd (last l cur)) = [lk] /\ cur = inv_end (other_end lk (last l cur))) ->
  pending s l cur.
Proof. destruct l; [congruence|]. intros; split; assumption. Qed.

Theorem traverse_chain s : forall fuel cur lst excl lst' excl',
  pending s lst cur -> traverse fuel s cur lst excl = Ok (lst', excl') -> chain s lst'.
Proof.
  induction fuel as [|f IH]; intros cur lst excl lst' excl' P H; cbn [traverse] in H; [discriminate|].
  destruct ((Nat.eqb (List.length (dov s (fst cur) (inv_e (snd cur)))) 1 &&
             Nat.eqb (List.length (dov s (fst cur) (snd cur))) 1) || match lst with [] => true | _ => false end) eqn:C.
  - assert (A1 : List.length (dov s (fst cur) (snd cur)) = 1%nat).
    { destruct lst as [|a r]; [exact P|]. rewrite Bool.orb_false_r in C. apply Bool.andb_true_iff in C.
      destruct C as [_ C]. apply Nat.eqb_eq in C. exact C. }
    assert (B : List.length (dov s (fst cur) (inv_e (snd cur))) = 1%nat \/ lst = []).
    { destruct lst as [|a r]; [right; reflexivity|left]. rewrite Bool.orb_false_r in C. apply Bool.andb_true_iff in C.
      destruct C as [C _]. apply Nat.eqb_eq in C. exact C. }
    pose proof (chain_snoc s lst cur P B) as CH.
    destruct (length1 _ A1) as [l El]. rewrite El in H.
    destruct (in_strs (fst (inv_end (other_end l cur))) (add_name (fst cur) excl)).
    + injection H as <- _. exact CH.
    + apply (IH (inv_end (other_end l cur)) (lst ++ [cur]) (add_name (fst cur) excl) lst' excl'); [|exact H].
      apply pending_intro; [destruct lst; discriminate|exact CH|].
      exists l. rewrite last_app. split; [exact El|reflexivity].
  - destruct (Nat.eqb (List.length (dov s (fst cur) (inv_e (snd cur)))) 1) eqn:B.
    + injection H as <- _. apply chain_snoc; [exact P|left; apply Nat.eqb_eq; exact B].
    + injection H as <- _. destruct lst as [|a r]; [constructor|exact (proj1 P)].
Qed.

(* ---------------------------------------------------------------- what the traversal appends *)
Lemma add_name_In n l x : In x (add_name n l) <-> x = n \/ In x l.
Proof.
  unfold add_name. destruct (in_strs n l) eqn:E; cbn [In]; [|split; intros [H|H]; auto].
  split; [auto|]. intros [->|H]; [|exact H].
  unfold in_strs in E. apply existsb_exists in E. destruct E as [y [Hy Ey]]. apply String.eqb_eq in Ey. subst. exact Hy.
Qed.

Lemma in_strs_false x l : in_strs x l = false -> ~ In x l.
Proof.
  intros E H. assert (in_strs x l = true); [|congruence].
  unfold in_strs. apply existsb_exists. exists x. split; [exact H|apply String.eqb_refl].
Qed.

(* what one traversal appends: the current end first (if anything), then ends of segments that were not excluded
   before and are pairwise different; every appended segment is excluded afterwards *)
Theorem traverse_appends s : forall fuel cur lst excl lst' excl',
  traverse fuel s cur lst excl = Ok (lst', excl') ->
  exists t, lst' = lst ++ t /\
            (t = [] \/ exists r, t = cur :: r) /\
            (forall x, In x t -> In (fst x) excl') /\
            (forall x, In x excl -> In x excl') /\
            (forall x, In x (tl t) -> ~ In (fst x) (add_name (fst cur) excl)) /\
            NoDup (map fst (tl t)).
Proof.
  induction fuel as [|f IH]; intros cur lst excl lst' excl' H; cbn [traverse] in H; [discriminate|].
  destruct ((Nat.eqb (List.length (dov s (fst cur) (inv_e (snd cur)))) 1 &&
             Nat.eqb (List.length (dov s (fst cur) (snd cur))) 1) || match lst with [] => true | _ => false end) eqn:C.
  - destruct (dov s (fst cur) (snd cur)) as [|l r]; [discriminate|].
    destruct (in_strs (fst (inv_end (other_end l cur))) (add_name (fst cur) excl)) eqn:X.
    + injection H as <- <-. exists [cur]. repeat split.
      * right. eauto.
      * intros x [<-|[]]. apply add_name_In. left; reflexivity.
      * intros x Hx. apply add_name_In. right; exact Hx.
      * intros x [].
      * constructor.
    + destruct (IH _ _ _ _ _ H) as [t [E [A1 [A2 [A3 [A4 A5]]]]]].
      exists (cur :: t). rewrite E, <- app_assoc. cbn [tl]. repeat split.
      * right. eauto.
      * intros x [<-|Hx]; [apply A3; apply add_name_In; left; reflexivity|exact (A2 _ Hx)].
      * intros x Hx. apply A3. apply add_name_In. right; exact Hx.
      * intros x Hx. destruct A1 as [->|[r2 ->]]; [destruct Hx|].
        destruct Hx as [<-|Hx]; [exact (in_strs_false _ _ X)|].
        intro N. apply (A4 x Hx). apply add_name_In. right; exact N.
      * destruct A1 as [->|[r2 ->]]; [constructor|]. cbn [map]. constructor; [|exact A5].
        intro N. apply in_map_iff in N. destruct N as [x [Ex Hx]]. apply (A4 x Hx). apply add_name_In. left; exact Ex.
  - destruct (Nat.eqb (List.length (dov s (fst cur) (inv_e (snd cur)))) 1).
    + injection H as <- <-. exists [cur]. repeat split.
      * right. eauto.
      * intros x [<-|[]]. apply add_name_In. left; reflexivity.
      * intros x Hx. apply add_name_In. right; exact Hx.
      * intros x [].
      * constructor.
    + injection H as <- <-. exists []. rewrite app_nil_r. split; [reflexivity|]. split; [left; reflexivity|].
      split; [intros x []|]. split; [tauto|]. split; [intros x []|constructor].
Qed.

(* linear_path: the path is a chain walked to the left of the segment, read backwards, glued to a chain walked to
   its right; both start at the segment *)
Theorem linear_path_chains s n excl p ex : linear_path s n excl = Ok (p, ex) ->
  exists pl pr, chain s pl /\ chain s pr /\
                (pl = [] \/ exists r, pl = (n, "L") :: r) /\ (pr = [] \/ exists r, pr = (n, "R") :: r) /\
                p = (if match pr with [] => true | _ => false end then map inv_end (rev pl)
                     else removelast (map inv_end (rev pl)) ++ pr).
Proof.
  unfold linear_path. intro H. apply rbind_ok in H. destruct H as [[p1 ex1] [H1 H2]].
  assert (L : exists pl, chain s pl /\ (pl = [] \/ exists r, pl = (n, "L") :: r) /\ p1 = map inv_end (rev pl)).
  { destruct (Nat.eqb (List.length (dov s n "L")) 1) eqn:EL.
    - apply rbind_ok in H1. destruct H1 as [r1 [H1 H1']]. injection H1' as ->. unfold traverse_from in H1.
      apply rbind_ok in H1. destruct H1 as [[l1 e1] [T1 T2]]. cbn [fst snd String.eqb Ascii.eqb Bool.eqb] in T2.
      injection T2 as <- <-. exists l1. split; [|split; [|reflexivity]].
      + eapply (traverse_chain s _ (n, "L") []); [|exact T1].
        cbn. apply Nat.eqb_eq. exact EL.
      + destruct (traverse_appends s _ _ _ _ _ _ T1) as [t [E [A _]]]. cbn [app] in E. subst t. exact A.
    - injection H1 as <- <-. exists []. split; [constructor|]. split; [left; reflexivity|reflexivity]. }
  destruct L as [pl [CL [HL ->]]].
  destruct (Nat.eqb (List.length (dov s n "R")) 1) eqn:ER.
  - apply rbind_ok in H2. destruct H2 as [r2 [H2 H2']]. injection H2' as <- <-. unfold traverse_from in H2.
    apply rbind_ok in H2. destruct H2 as [[l2 e2] [T1 T2]]. cbn [fst snd String.eqb Ascii.eqb Bool.eqb] in T2.
    injection T2 as <-. cbn [fst].
    destruct (traverse_appends s _ _ _ _ _ _ T1) as [t [E [A _]]]. cbn [app] in E. subst t.
    exists pl, l2. split; [exact CL|]. split.
    + eapply (traverse_chain s _ (n, "R") []); [|exact T1]. cbn. apply Nat.eqb_eq. exact ER.
    + split; [exact HL|]. split; [exact A|].
      destruct l2 as [|y l2]; [|reflexivity].
      (* the right-hand traversal always appends its start *)
      exfalso. clear -T1 ER. cbn [traverse List.length] in T1.
      destruct (dov s (fst (n, "R")) (snd (n, "R"))) as [|l r] eqn:D; [cbn in ER; cbn in D; rewrite D in ER; discriminate|].
      rewrite Bool.orb_true_r in T1. cbn [app] in T1.
      destruct (in_strs _ _); [discriminate|].
      destruct (traverse_appends s _ _ _ _ _ _ T1) as [t [E _]]. discriminate.
  - injection H2 as <- <-. exists pl, []. repeat split; try assumption; [constructor|left; reflexivity].
Qed.

(* ---------------------------------------------------------------- the merged segment *)
Lemma merge_rest_names s : forall rest a m m', merge_rest s a rest m = Ok m' -> m_names m' = m_names m ++ map fst rest.
Proof.
  induction rest as [|nb more IH]; intros a m m' H; cbn [merge_rest] in H.
  - injection H as <-. cbn. now rewrite app_nil_r.
  - destruct (links_between s a (inv_end nb)) as [|l [|l2 r]]; try discriminate.
    apply rbind_ok in H. destruct H as [cut [_ H]].
    destruct (find_segment s (fst (inv_end nb))) as [sb|]; [|discriminate].
    apply rbind_ok in H. destruct H as [os [_ H]].
    rewrite (IH _ _ _ H). cbn [m_names map fst inv_end]. rewrite <- app_assoc. reflexivity.
Qed.

(* the merged segment is named after the members of the path, in path order *)
Theorem merged_name s p n sq ln : merged_segment s p = Ok (n, sq, ln) -> n = join_with "_" (map fst p).
Proof.
  unfold merged_segment. destruct p as [|a rest]; [discriminate|].
  destruct (find_segment s (fst a)) as [sa|]; [|discriminate]. intro H.
  apply rbind_ok in H. destruct H as [os [_ H]]. apply rbind_ok in H. destruct H as [m [M H]].
  pose proof (merge_rest_names _ _ _ _ _ M) as N. cbn [m_names app] in N.
  destruct (m_seq m) as [parts|].
  - destruct (m_ln m) as [z|]; [destruct (_ && _); [discriminate|]|]; injection H as <- _ _; rewrite N; reflexivity.
  - injection H as <- _ _. rewrite N. reflexivity.
Qed.

(* with validation on, a merged segment that has a sequence has the LN of that sequence *)
Theorem merged_length_agrees s p n sq z : (0 < g_vlevel s)%nat ->
  merged_segment s p = Ok (n, sq, Some z) -> sq <> "*" -> z = Z.of_nat (String.length sq).
Proof.
  intro V. unfold merged_segment. destruct p as [|a rest]; [discriminate|].
  destruct (find_segment s (fst a)) as [sa|]; [|discriminate]. intro H.
  apply rbind_ok in H. destruct H as [os [_ H]]. apply rbind_ok in H. destruct H as [m [M H]].
  destruct (m_seq m) as [parts|].
  - destruct (m_ln m) as [z'|].
    + destruct (Nat.ltb_spec 0 (g_vlevel s)) as [_|C]; [|lia]. cbn [andb] in H.
      destruct (Z.eqb_spec z' (Z.of_nat (String.length (String.concat "" parts)))) as [E|E]; cbn [negb] in H; [|discriminate].
      injection H as _ <- <-. intros _. exact E.
    + injection H as _ <- <-. intros _. reflexivity.
  - injection H as _ <- _. intro C. congruence.
Qed.

(* ---------------------------------------------------------------- reverse complement *)
Fixpoint comp (s : string) : option string :=
  match s with
  | EmptyString => Some EmptyString
  | String c r => match wcc c, comp r with Some w, Some r' => Some (r' ++ w)%string | _, _ => None end
  end.

Lemma append_assoc (a b c : string) : ((a ++ b) ++ c = a ++ (b ++ c))%string.
Proof. induction a as [|x a IH]; cbn; [reflexivity|now rewrite IH]. Qed.

Lemma append_nil_r (a : string) : (a ++ "")%string = a.
Proof. induction a as [|x a IH]; cbn; [reflexivity|now rewrite IH]. Qed.

Lemma rc_acc_comp : forall s acc,
  rc_acc s acc = match comp s with Some r => Ok (r ++ acc)%string | None => Err (G EValue) end.
Proof.
  induction s as [|c r IH]; intro acc; cbn [rc_acc comp]; [reflexivity|].
  destruct (wcc c) as [w|]; [|reflexivity]. rewrite IH. destruct (comp r) as [r'|]; [|reflexivity].
  now rewrite append_assoc.
Qed.

Lemma wcc_table_single : forallb (fun p => Nat.leb (String.length (snd p)) 1) T_WCC = true.
Proof. vm_compute. reflexivity. Qed.

Lemma wcc_single c w : wcc c = Some w -> String.length w = 1%nat.
Proof.
  unfold wcc. destruct (find _ T_WCC) as [p|] eqn:F; [|discriminate].
  apply find_some in F. destruct F as [F _].
  pose proof (proj1 (forallb_forall _ _) wcc_table_single p F) as L. cbn in L. apply Nat.leb_le in L.
  destruct (String.eqb (snd p) "") eqn:E; [discriminate|]. intro H. injection H as <-.
  destruct (snd p) as [|x r]; [discriminate|]. cbn in *. lia.
Qed.

Lemma length_append (a b : string) : String.length (a ++ b) = (String.length a + String.length b)%nat.
Proof. induction a as [|x a IH]; cbn; [reflexivity|now rewrite IH]. Qed.

(* the reverse complement has the length of the sequence *)
Theorem comp_length : forall s r, comp s = Some r -> String.length r = String.length s.
Proof.
  induction s as [|c s IH]; intros r H; cbn [comp] in H; [injection H as <-; reflexivity|].
  destruct (wcc c) as [w|] eqn:W; [|discriminate]. destruct (comp s) as [r'|]; [|discriminate].
  injection H as <-. rewrite length_append, (IH _ eq_refl), (wcc_single _ _ W). cbn. lia.
Qed.

Theorem rc_length s r : rc s = Ok r -> String.length r = String.length s.
Proof.
  unfold rc. destruct (String.eqb s "*"); [intro H; injection H as <-; reflexivity|].
  rewrite rc_acc_comp. destruct (comp s) as [r'|] eqn:C; [|discriminate]. intro H. injection H as <-.
  rewrite append_nil_r. exact (comp_length _ _ C).
Qed.

(* characters whose complement's complement is the character itself *)
Definition involutive (c : ascii) : bool :=
  match wcc c with
  | Some (String d EmptyString) => match wcc d with Some (String c' EmptyString) => Ascii.eqb c c' | _ => false end
  | _ => false
  end.

Fixpoint all_chars (f : ascii -> bool) (s : string) : bool :=
  match s with EmptyString => true | String c r => f c && all_chars f r end.

Lemma comp_app : forall a b a' b', comp a = Some a' -> comp b = Some b' -> comp (a ++ b) = Some (b' ++ a')%string.
Proof.
  induction a as [|c a IH]; intros b a' b' Ha Hb; cbn [comp String.append] in *.
  - injection Ha as <-. now rewrite append_nil_r.
  - destruct (wcc c) as [w|]; [|discriminate]. destruct (comp a) as [ra|] eqn:Ca; [|discriminate].
    injection Ha as <-. rewrite (IH b ra b' eq_refl Hb). now rewrite append_assoc.
Qed.

Theorem comp_involutive : forall s r, all_chars involutive s = true -> comp s = Some r -> comp r = Some s.
Proof.
  induction s as [|c s IH]; intros r A H; cbn [comp all_chars] in *; [injection H as <-; reflexivity|].
  apply Bool.andb_true_iff in A. destruct A as [A1 A2].
  unfold involutive in A1. destruct (wcc c) as [[|d [|d2 w]]|] eqn:W; try discriminate.
  destruct (comp s) as [r'|] eqn:C; [|discriminate]. injection H as <-.
  destruct (wcc d) as [[|c' [|c2 w']]|] eqn:W2; try discriminate. apply Ascii.eqb_eq in A1. subst c'.
  rewrite (comp_app r' (String d "") s (String c "") (IH _ A2 eq_refl)); [reflexivity|].
  cbn [comp]. rewrite W2. reflexivity.
Qed.

Lemma dna_involutive : all_chars involutive "ACGTacgtNnRYKMSWBVDHrykmswbvdh" = true.
Proof. vm_compute. reflexivity. Qed.

(* no character of the table has "*" as its complement, so the reverse complement of a sequence is never the placeholder *)
Lemma wcc_table_no_star : forallb (fun p => negb (String.eqb (snd p) "*")) T_WCC = true.
Proof. vm_compute. reflexivity. Qed.

Lemma wcc_not_star c w : wcc c = Some w -> w <> "*".
Proof.
  unfold wcc. destruct (find _ T_WCC) as [p|] eqn:F; [|discriminate].
  apply find_some in F. destruct F as [F _].
  pose proof (proj1 (forallb_forall _ _) wcc_table_no_star p F) as L. cbn in L.
  destruct (String.eqb (snd p) "") eqn:E; [discriminate|]. intro H. injection H as <-.
  intro S. rewrite S in L. discriminate.
Qed.

Lemma append_eq_single a b x : (a ++ b)%string = String x "" -> String.length b = 1%nat -> a = "" /\ b = String x "".
Proof.
  intros H L. assert (String.length (a ++ b) = 1%nat) as LL by (rewrite H; reflexivity).
  rewrite length_append in LL. destruct a as [|y a]; [cbn in H; auto|]. cbn in LL. lia.
Qed.

Lemma comp_not_star : forall s r, comp s = Some r -> r = "*" -> s = "*" .
Proof.
  intros s r C E. subst r. destruct s as [|c s]; cbn [comp] in C; [discriminate|].
  destruct (wcc c) as [w|] eqn:W; [|discriminate]. destruct (comp s) as [r'|] eqn:Cs; [|discriminate].
  injection C as C. apply append_eq_single in C; [|exact (wcc_single _ _ W)]. destruct C as [_ C].
  exfalso. exact (wcc_not_star _ _ W C).
Qed.

(* reverse complement twice gives the sequence back, on sequences over characters whose complement is involutive *)
Theorem rc_involutive : forall s r, all_chars involutive s = true -> rc s = Ok r -> rc r = Ok s.
Proof.
  intros s r A. unfold rc. destruct (String.eqb s "*") eqn:E.
  - intro H. injection H as <-. rewrite E. reflexivity.
  - rewrite rc_acc_comp. destruct (comp s) as [r'|] eqn:C; [|discriminate]. intro H. injection H as <-.
    rewrite append_nil_r. destruct (String.eqb r' "*") eqn:E2.
    + apply String.eqb_eq in E2. apply (comp_not_star _ _ C) in E2. subst s. discriminate.
    + rewrite rc_acc_comp, (comp_involutive _ _ A C), append_nil_r. reflexivity.
Qed.

Example rc_involutive_example : rc "ACCGTNryk" = Ok "mryNACGGT" /\ rc "mryNACGGT" = Ok "ACCGTNryk" /\ all_chars involutive "ACCGTNryk" = true.
Proof. vm_compute. auto. Qed.


(* the length of what is appended for a member: the oriented sequence without its first cut characters *)
Lemma drop_length n s : String.length (drop n s) = (String.length s - n)%nat.
Proof.
  unfold drop. revert n. induction s as [|c s IH]; intro n; [destruct n; reflexivity|].
  destruct n as [|n]; cbn [String.length Nat.sub substring].
  - clear IH. f_equal. induction s as [|d s IHs]; [reflexivity|]. cbn. now rewrite IHs.
  - apply IH.
Qed.

(* ---------- the complement table is the IUPAC one ---------- *)
(* stated independently of the source: NC-IUB 1984, the code of the set of complemented bases; both cases *)
Definition iupac_pairs : list (string * string) :=
  [("A", "T"); ("C", "G"); ("G", "C"); ("T", "A"); ("R", "Y"); ("Y", "R"); ("K", "M"); ("M", "K"); ("S", "S"); ("W", "W");
   ("B", "V"); ("V", "B"); ("D", "H"); ("H", "D"); ("N", "N");
   ("a", "t"); ("c", "g"); ("g", "c"); ("t", "a"); ("r", "y"); ("y", "r"); ("k", "m"); ("m", "k"); ("s", "s"); ("w", "w");
   ("b", "v"); ("v", "b"); ("d", "h"); ("h", "d"); ("n", "n")].

Theorem complement_table_is_iupac :
  forall a b, In (a, b) iupac_pairs ->
  match a with String c EmptyString => wcc c = Some b | _ => False end.
Proof.
  intros a b H. unfold iupac_pairs in H.
  repeat (destruct H as [H|H]; [injection H as <- <-; vm_compute; reflexivity|]). destruct H.
Qed.
