(* Props/C03.v — the graph does not depend on the order of the lines.
   PARTIAL.  Proved (for every history, hence every arrival order): identifiers stay unique, therefore a placeholder
   and a definition can never coexist under one identifier — once a definition has arrived no placeholder remains for
   it — and every state is closed (C02).  The version part of the statement is C13_order_independent.  NOT proved: that
   two arrival orders of one valid document end in states with the same canonical observation; this is decided by the
   correspondence (each order is run on gfapy and on the model and compared step by step) and by the oracle (all
   permutations of <= 6 lines / 30 shuffles must give one canonical observation). *)
From Coq Require Import List String Ascii ZArith Bool.
From GfaV Require Import Base.Py Model.Codec Model.Line Model.Graph Proofs.GraphP Proofs.FrameP Proofs.RealsP Proofs.OrdersBackrefsP Corr.Graphc.
Import ListNotations.
Open Scope string_scope.

Theorem C03_no_placeholder_for_a_defined_identifier : forall s n l v,
  names_unique s -> In l (lines s) -> In v (lines s) -> ns_name l = [n] -> ns_name v = [n] ->
  g_virtual l = false -> g_virtual v = true -> False.
Proof.
  intros s n l v Hu Hl Hv Hnl Hnv Hr Hvirt.
  destruct (proj2 (proj2 (lookup_coherent s n Hu)) l v Hl Hv Hnl Hnv) as [E|E].
  - (* same identity but different virtual flag is excluded by the second alternative of lookup_coherent's proof;
       here we only need l = v from the unique-identifier argument *)
    assert (l = v).
    { unfold names_unique, ns_names in Hu. clear E.
      induction (lines s) as [|x ls IH]; [contradiction|]. cbn [flat_map] in Hu. apply NoDup_app_iff in Hu.
      destruct Hu as [Hx [Hls Hd]]. destruct Hl as [->|Hl], Hv as [->|Hv]; try reflexivity.
      - exfalso. apply (Hd n); [rewrite Hnl; left; reflexivity|]. apply in_flat_map. exists v. split; [exact Hv | rewrite Hnv; left; reflexivity].
      - exfalso. apply (Hd n); [rewrite Hnv; left; reflexivity|]. apply in_flat_map. exists l. split; [exact Hl | rewrite Hnl; left; reflexivity].
      - apply IH; assumption. }
    subst. congruence.
  - subst. congruence.
Qed.
Print Assumptions C03_no_placeholder_for_a_defined_identifier.

Theorem C03_unique_identifiers_in_every_order : forall O ops s,
  names_unique s -> guards_hold O s ops -> names_unique (run_ops O s ops).
Proof. exact names_unique_reachable. Qed.
Print Assumptions C03_unique_identifiers_in_every_order.

(* two arrival orders of one document: same lines, same placeholders (a concrete instance, not the general claim) *)
(* the same written records in every order.  [reals] are the lines of the Gfa that are not placeholders, [body] what a
   line says (record type, positional fields, tags).  An accepted addition that meets no stored record of its identifier
   appends exactly the added line to the records and changes no other; so two arrival orders of the same lines, both read
   completely, hold the same records (as a multiset: the order of arrival is the order in which they are written). *)
Theorem C03_addition_appends_the_record : forall s l s',
  ids_ok s -> no_real_duplicate s l -> connect s l = Ok s' ->
  map body (reals s') = (map body (reals s) ++ [body l])%list.
Proof. exact connect_reals. Qed.
Print Assumptions C03_addition_appends_the_record.

Theorem C03_orders_hold_the_same_records : forall ls ls' s1 s2 v vl,
  Permutation.Permutation ls ls' ->
  guards_all (init_gfa v vl) ls -> guards_all (init_gfa v vl) ls' ->
  connect_all (init_gfa v vl) ls = Ok s1 -> connect_all (init_gfa v vl) ls' = Ok s2 ->
  Permutation.Permutation (map body (reals s1)) (map body (reals s2)).
Proof. exact orders_same_records. Qed.
Print Assumptions C03_orders_hold_the_same_records.

(* the same back-reference sets and the same reference targets in every order: back-references and resolution are
   functions of the records, so two orders that leave no placeholder have, for every identifier and collection, the same
   back-references (as a multiset of records) and resolve the same mentions *)
Theorem C03_orders_hold_the_same_back_references : forall ls ls' s1 s2 v vl,
  Permutation.Permutation ls ls' ->
  guards_all (init_gfa v vl) ls -> guards_all (init_gfa v vl) ls' ->
  connect_all (init_gfa v vl) ls = Ok s1 -> connect_all (init_gfa v vl) ls' = Ok s2 ->
  no_placeholder s1 -> no_placeholder s2 ->
  forall n c, Permutation.Permutation (map body (backrefs s1 n c)) (map body (backrefs s2 n c)).
Proof. exact orders_same_backrefs. Qed.
Print Assumptions C03_orders_hold_the_same_back_references.

Theorem C03_same_records_resolve_the_same_mentions : forall s1 s2,
  no_placeholder s1 -> no_placeholder s2 ->
  Permutation.Permutation (map body (reals s1)) (map body (reals s2)) ->
  forall m, rl (lines s1) m -> rl (lines s2) m.
Proof. exact same_records_same_targets. Qed.
Print Assumptions C03_same_records_resolve_the_same_mentions.

(* non-vacuity: a document with a link and a path read before their segments, in document order and reversed; the guards
   hold along both runs, both end in a state, no placeholder is left, and the records are the four lines *)
Example C03_records_witness :
  let S n := mkGl 0 KS1 [n; "*"] [] false in
  let L := mkGl 0 KL ["A"; "+"; "B"; "-"; "4M"] [] false in
  let P := mkGl 0 KP ["p"; "A+,B-"; "*"] [] false in
  let d1 := [S "A"; S "B"; L; P] in
  let d2 := [P; L; S "B"; S "A"] in
  guards_all_b (init_gfa "gfa1" 1) d1 = true /\ guards_all_b (init_gfa "gfa1" 1) d2 = true /\
  match connect_all (init_gfa "gfa1" 1) d1, connect_all (init_gfa "gfa1" 1) d2 with
  | Ok s1, Ok s2 => map body (reals s1) = map body d1 /\ map body (reals s2) = map body d2 /\
                    List.length (lines s1) = 4 /\ List.length (lines s2) = 4
  | _, _ => False
  end.
Proof. vm_compute. repeat split. Qed.

Example C03_witness :
  let t := String tab EmptyString in
  let a := OAdd ("S" ++ t ++ "A" ++ t ++ "*") in let b := OAdd ("S" ++ t ++ "B" ++ t ++ "*") in
  let l := OAdd ("L" ++ t ++ "A" ++ t ++ "+" ++ t ++ "B" ++ t ++ "-" ++ t ++ "3M") in
  let p := OAdd ("P" ++ t ++ "p" ++ t ++ "B+,A-" ++ t ++ "*") in
  Corr.Graphc.obs (run_texts "gfa1" [p; l; a; b]) = Corr.Graphc.obs (run_texts "gfa1" [a; b; l; p]) /\
  Corr.Graphc.obs (run_texts "gfa1" [l; p; b; a]) = Corr.Graphc.obs (run_texts "gfa1" [a; b; l; p]) /\
  forallb (fun x => negb (g_virtual x)) (lines (run_texts "gfa1" [p; l; a; b])) = true.
Proof. vm_compute. repeat split. Qed.
