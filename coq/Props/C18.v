(* Props/C18.v — validation levels only change when errors surface, never the result.
   Construction: Model/Line.v takes the level as a parameter.  Proved for every text and version: levels 1, 2 and 3
   construct the same line or fail with the same error; a text accepted above level 0 is accepted at level 0 and (for
   every record type with declared fields) builds the same line there.  Assignments: Model/Levels.v (set, write,
   validate of one field at a level, validity = the regenerated validators).  Proved: an invalid assignment is refused
   at the assignment at level 3, reported by the next write at level 2, and by validate at every level; a valid
   assignment is accepted, written as assigned (until a read decodes it: C10) and validates at every level; over any sequence of operations the
   stored value stays valid at level 3 and only valid texts are written at level >= 2. *)
From Coq Require Import List String Ascii ZArith Bool.
From GfaV Require Import Base.Py Base.Regex Base.RegexIncl Gen.Regexes Gen.K_clone Model.Codec Model.Line Model.Levels Proofs.LevelsP Proofs.HardOkP.
Import ListNotations.
Open Scope string_scope.

Theorem C18_levels_above_zero_agree : forall O k version s, parse_line O (S k) version s = parse_line O 1 version s.
Proof. exact levels_above_zero_agree. Qed.
Print Assumptions C18_levels_above_zero_agree.

(* a text accepted above level 0 is accepted at level 0, where every record type with declared fields yields the same
   line: the safe decoder of every datatype accepts only what the unsafe one accepts (checked inclusion of the
   regenerated grammars in the grammars of Python's int() and float(); separate arguments for GFA2 positions and GFA2
   oriented identifier lists) *)
Theorem C18_accepted_above_is_accepted_at_zero : forall O version s l,
  parse_line O 1 version s = Ok l ->
  exists l0, parse_line O 0 version s = Ok l0 /\ (rc_name (ln_class l) <> "CustomRecord" -> l0 = l).
Proof. exact accepted_above_zero_unconditional. Qed.
Print Assumptions C18_accepted_above_is_accepted_at_zero.

Theorem C18_safe_decoders_accept_less : forall O md s,
  accepts_module O md s = true -> unsafe_accepts_module md s = Ok tt.
Proof. exact safe_decoders_accept_less. Qed.
Print Assumptions C18_safe_decoders_accept_less.

(* the thresholds of the levels are read from the source: validation at the assignment from level 3, at the write from
   level 2, safe parsing at construction from level 1 *)
Theorem C18_thresholds_in_the_source : set_level = 3%nat /\ write_level = 2%nat /\ init_level = 1%nat.
Proof. repeat split; reflexivity. Qed.
Print Assumptions C18_thresholds_in_the_source.

(* a copy made by clone() is constructed with the validation level of the line it copies (read from the constructor call
   in the source), so the copies made by multiplication, merging and complement report invalid values when the original
   would *)
Theorem C18_a_copy_keeps_the_level : Gen.K_clone.k_clone_keeps_vlevel = true.
Proof. reflexivity. Qed.
Print Assumptions C18_a_copy_keeps_the_level.

Theorem C18_invalid_assignment_level3 : forall O c v, valid O (mkF (f_dt c) v) = false ->
  lstep O 3 c (LSet v) = (c, Err (G EFormat)).
Proof. exact invalid_assignment_level3. Qed.
Print Assumptions C18_invalid_assignment_level3.

Theorem C18_invalid_assignment_level2 : forall O c v, valid O (mkF (f_dt c) v) = false ->
  snd (lstep O 2 c (LSet v)) = Ok "" /\ snd (lstep O 2 (fst (lstep O 2 c (LSet v))) LWrite) = Err (G EFormat).
Proof. exact invalid_assignment_level2. Qed.
Print Assumptions C18_invalid_assignment_level2.

Theorem C18_invalid_value_found_by_validate : forall O level c, valid O c = false ->
  snd (lstep O level c LValidate) = Err (G EFormat).
Proof. exact invalid_value_found_by_validate. Qed.
Print Assumptions C18_invalid_value_found_by_validate.

Theorem C18_valid_assignment_accepted : forall O level c v, valid O (mkF (f_dt c) v) = true ->
  lstep O level c (LSet v) = (mkF (f_dt c) v, Ok "") /\
  snd (lstep O level (mkF (f_dt c) v) LWrite) = Ok v /\
  snd (lstep O level (mkF (f_dt c) v) LValidate) = Ok "".
Proof. exact valid_assignment_accepted. Qed.
Print Assumptions C18_valid_assignment_accepted.

Theorem C18_level3_always_valid : forall O ops c, valid O c = true -> valid O (fst (lrun O 3 c ops)) = true.
Proof. exact level3_always_valid. Qed.
Print Assumptions C18_level3_always_valid.

Theorem C18_level2_writes_only_valid : forall O level c, (2 <= level)%nat ->
  forall t, snd (lstep O level c LWrite) = Ok t -> t = f_text c /\ valid O c = true.
Proof. exact level2_writes_only_valid. Qed.
Print Assumptions C18_level2_writes_only_valid.

Example C18_demo :
  let O := table_oracle [] [] in
  snd (lrun O 3 (mkF "i" "5") [LSet "x"; LWrite; LSet "7"; LWrite]) = [Err (G EFormat); Ok "5"; Ok ""; Ok "7"] /\
  snd (lrun O 2 (mkF "i" "5") [LSet "x"; LWrite; LValidate]) = [Ok ""; Err (G EFormat); Err (G EFormat)] /\
  snd (lrun O 0 (mkF "i" "5") [LSet "x"; LWrite; LValidate]) = [Ok ""; Ok "x"; Err (G EFormat)] /\
  parse_line O 3 (Some "gfa1") "S	A	*	LN:i:x" = parse_line O 1 (Some "gfa1") "S	A	*	LN:i:x" /\
  is_ok (parse_line O 0 (Some "gfa1") "S	A	*	LN:i:x") = false /\
  is_ok (parse_line O 0 (Some "gfa1") "S	A	*	xx:J:[1") = true /\ is_ok (parse_line O 1 (Some "gfa1") "S	A	*	xx:J:[1") = false.
Proof. vm_compute. repeat split. Qed.
