(* Props/C13.v — the GFA version is inferred from content and enforced consistently (validation level >= 1).
   Model/Version.v is the hand model of add_line's unknown-version queue (lines/creators.py), corresponded with the
   implementation on generated documents in every arrival order; Spec/VersionSpec.v is order-free by construction. *)
From Coq Require Import List String Ascii ZArith Bool Permutation.
From GfaV Require Import Base.Py Model.Version Spec.VersionSpec Proofs.VersionP.
Import ListNotations.

(* what add_line/process_line_queue/validate compute is the content-only specification: accepted as v iff the
   explicit version, else a VN header or version-specific content, else the L/C/P-based default, is v and every line
   is valid in v; everything else is rejected *)
Theorem C13_automaton_is_specification : forall c ks, outcome_ver (build c ks) = decide c ks.
Proof. exact build_is_decide. Qed.
Print Assumptions C13_automaton_is_specification.

(* hence the same version, or the same rejection, for every order of the lines *)
Theorem C13_order_independent : forall c ks ks',
  Permutation ks ks' -> outcome_ver (build c ks) = outcome_ver (build c ks').
Proof. exact version_order_independent. Qed.
Print Assumptions C13_order_independent.

(* lines queued while the version was unknown, like all others, are added exactly once *)
Theorem C13_each_line_added_once : forall c ks v added,
  build c ks = Accepted v added -> Permutation added ks.
Proof. exact each_line_added_once. Qed.
Print Assumptions C13_each_line_added_once.

(* mixed or contradictory content is rejected; pure content is accepted as its version *)
Example C13_witness :
  decide (mkCfg None false) [KG V1; KCustom; KS V2] = None /\
  decide (mkCfg None false) [KG V1; KH; KS V1; KComment] = Some V1 /\
  decide (mkCfg None false) [KCustom; KComment] = Some V2 /\
  decide (mkCfg None false) [KG V1] = Some V1 /\
  decide (mkCfg (Some V1) false) [KS V2] = None /\
  decide (mkCfg None true) [KS V2] = None /\
  decide (mkCfg None false) [KVN (Some V1); KVN (Some V2)] = None /\
  outcome_ver (build (mkCfg None false) [KCustom; KG V1; KS V1]) = None.
Proof. vm_compute. repeat split. Qed.
