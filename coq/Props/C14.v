(* Props/C14.v — linear paths and their merging.
   Model/Linear.v is linear_path/linear_paths/__traverse_linear_path and the construction of the merged segment on the
   reference semantics of the graph (Model/Graph.v); the complement table is the regenerated gfapy.sequence.WCC.
   Proved for graphs and chains of any size: what a traversal returns is a chain of ends joined by dovetails that are
   alone on both joined ends; its members were not assigned before, are pairwise different and are assigned afterwards;
   the path of a segment is two such chains glued at the segment; the merged segment is named after the members in
   order, its LN is the length of its sequence; reverse complement keeps the length and is an involution on the
   nucleotide alphabet.  PARTIAL: maximality of the chains, the re-attachment of the outward dovetails, the
   untouched rest and idempotence are decided per generated graph by the independent oracle (harness/spec_linear.py),
   not proved. *)
From Coq Require Import List String Ascii ZArith Bool.
From GfaV Require Import Base.Py Model.Codec Model.Graph Model.Topology Model.Linear Proofs.LinearP Proofs.GraphP Proofs.MergeFrameP Proofs.RelinkP.
Import ListNotations.
Open Scope string_scope.
Open Scope list_scope.

Theorem C14_traversal_is_a_chain : forall s fuel cur lst excl lst' excl',
  pending s lst cur -> traverse fuel s cur lst excl = Ok (lst', excl') -> chain s lst'.
Proof. exact traverse_chain. Qed.
Print Assumptions C14_traversal_is_a_chain.

Theorem C14_traversal_members : forall s fuel cur lst excl lst' excl',
  traverse fuel s cur lst excl = Ok (lst', excl') ->
  exists t, lst' = lst ++ t /\
            (t = [] \/ exists r, t = cur :: r) /\
            (forall x, In x t -> In (fst x) excl') /\
            (forall x, In x excl -> In x excl') /\
            (forall x, In x (tl t) -> ~ In (fst x) (add_name (fst cur) excl)) /\
            NoDup (map fst (tl t)).
Proof. exact traverse_appends. Qed.
Print Assumptions C14_traversal_members.

Theorem C14_linear_path_is_two_chains : forall s n excl p ex, linear_path s n excl = Ok (p, ex) ->
  exists pl pr, chain s pl /\ chain s pr /\
                (pl = [] \/ exists r, pl = (n, "L") :: r) /\ (pr = [] \/ exists r, pr = (n, "R") :: r) /\
                p = (if match pr with [] => true | _ => false end then map inv_end (rev pl)
                     else removelast (map inv_end (rev pl)) ++ pr).
Proof. exact linear_path_chains. Qed.
Print Assumptions C14_linear_path_is_two_chains.

Theorem C14_merged_name : forall s p n sq ln, merged_segment s p = Ok (n, sq, ln) -> n = join_with "_" (map fst p).
Proof. exact merged_name. Qed.
Print Assumptions C14_merged_name.

Theorem C14_merged_length_agrees : forall s p n sq z, (0 < g_vlevel s)%nat ->
  merged_segment s p = Ok (n, sq, Some z) -> sq <> "*" -> z = Z.of_nat (String.length sq).
Proof. exact merged_length_agrees. Qed.
Print Assumptions C14_merged_length_agrees.

Theorem C14_reverse_complement_length : forall s r, rc s = Ok r -> String.length r = String.length s.
Proof. exact rc_length. Qed.
Print Assumptions C14_reverse_complement_length.

Theorem C14_reverse_complement_involution : forall s r, all_chars involutive s = true -> comp s = Some r -> comp r = Some s.
Proof. exact comp_involutive. Qed.
Print Assumptions C14_reverse_complement_involution.

(* at the level of the method: the reverse complement of the reverse complement is the sequence, the placeholder included *)
Theorem C14_reverse_complement_twice : forall s r, all_chars involutive s = true -> rc s = Ok r -> rc r = Ok s.
Proof. exact rc_involutive. Qed.
Print Assumptions C14_reverse_complement_twice.

(* the reverse complement of two sequences spelled one after the other is the reverse complement of the second followed by
   that of the first: a chain walked the other way round spells the reverse complement of what it spells *)
Theorem C14_reverse_complement_of_concatenation : forall a b a' b',
  comp a = Some a' -> comp b = Some b' -> comp (a ++ b)%string = Some (b' ++ a')%string.
Proof. exact comp_app. Qed.
Print Assumptions C14_reverse_complement_of_concatenation.

Theorem C14_cut_length : forall n s, String.length (drop n s) = (String.length s - n)%nat.
Proof. exact drop_length. Qed.
Print Assumptions C14_cut_length.

(* non-vacuity: a chain of three with mixed orientations, a branching junction; the spelled sequence *)
Definition demo : gfa :=
  let mk i k pos tags := mkGl i k pos tags false in
  mkGfa [mk 0 KS1 ["A"; "AACC"] []; mk 1 KS1 ["B"; "GGTT"] []; mk 2 KS1 ["C"; "ACGTA"] [];
         mk 3 KS1 ["D"; "*"] []; mk 4 KS1 ["E"; "*"] [];
         mk 5 KL ["A"; "+"; "B"; "-"; "2M"] []; mk 6 KL ["C"; "-"; "B"; "+"; "1M"] [];
         mk 7 KL ["C"; "+"; "D"; "+"; "*"] []; mk 8 KL ["C"; "+"; "E"; "+"; "*"] []] 9 "gfa1" 1.

(* every segment that is not a member of the merged chain (and is not a placeholder) is in the graph afterwards, as it
   was: the merge creates one segment, re-creates the outward dovetails and removes the members with what depends on
   them, and a segment never depends on another line *)
Theorem C14_other_segments_untouched : forall s path s' x,
  ids_ok s -> merge_path s path = Ok s' ->
  In x (lines s) -> is_segment x = true -> g_virtual x = false -> ~ In (nth_s 0 (g_pos x)) (map fst path) ->
  In x (lines s').
Proof. exact merge_path_keeps_other_segments. Qed.
Print Assumptions C14_other_segments_untouched.

(* the outward dovetails arrive on the right ends: a link on the exit end of the last member of the chain is, after
   relinking, on the R end of the merged segment; a link on the entry end of the first member on its L end — whatever the
   orientations of the link and of the traversal (the flags are those merge_path passes) *)
Theorem C14_dovetails_of_the_last_member_go_right : forall name n e i f fo t too rest tags v,
  orient_ok fo -> orient_ok too -> end_ok e ->
  (f = t -> (if String.eqb fo "+" then "R" else "L") = (if String.eqb too "+" then "L" else "R")) ->
  In (n, e) (link_ends (mkGl i KL (f :: fo :: t :: too :: rest) tags v)) ->
  In (name, "R") (link_ends (relink name (n, e) (String.eqb e "L") (mkGl i KL (f :: fo :: t :: too :: rest) tags v))).
Proof. exact relink_last. Qed.
Print Assumptions C14_dovetails_of_the_last_member_go_right.

Theorem C14_dovetails_of_the_first_member_go_left : forall name n e i f fo t too rest tags v,
  orient_ok fo -> orient_ok too -> end_ok e ->
  (f = t -> (if String.eqb fo "+" then "R" else "L") = (if String.eqb too "+" then "L" else "R")) ->
  In (inv_end (n, e)) (link_ends (mkGl i KL (f :: fo :: t :: too :: rest) tags v)) ->
  In (name, "L") (link_ends (relink name (inv_end (n, e)) (String.eqb e "L") (mkGl i KL (f :: fo :: t :: too :: rest) tags v))).
Proof. exact relink_first. Qed.
Print Assumptions C14_dovetails_of_the_first_member_go_left.

(* the complement table read from the source is the IUPAC one (stated here independently of the source): A/T, C/G, R/Y,
   K/M, B/V, D/H swap, S, W and N are their own complements, in both cases *)
Theorem C14_complement_table_is_iupac : forall a b, In (a, b) iupac_pairs ->
  match a with String c EmptyString => wcc c = Some b | _ => False end.
Proof. exact complement_table_is_iupac. Qed.
Print Assumptions C14_complement_table_is_iupac.

Example C14_demo :
  linear_paths demo = Ok [[("A", "R"); ("B", "L"); ("C", "R")]]
  /\ merged_segment demo [("A", "R"); ("B", "L"); ("C", "R")] = Ok ("A_B_C", "AACCCCCGTA", Some 10%Z)
  /\ rc "AACCGT" = Ok "ACGGTT" /\ all_chars involutive "ACGTacgtNn" = true.
Proof. vm_compute. repeat split. Qed.
