(* Props/C15.v — segment multiplication makes faithful copies and splits the counts.
   Model/Multiply.v is Gfa.multiply on the reference semantics of the graph (Model/Graph.v); the end selection is the
   GENERATED kernel of _auto_select_distribute_end.  Proved for all inputs: naming, count division, coverage of the
   distribution windows, selection of the end, the factor cases.  PARTIAL: "every copy carries a copy of every edge"
   and "the rest of the graph is untouched" are decided on every generated case by the correspondence of the whole
   observation with the implementation and by the text-level oracle, not proved about the model. *)
From Coq Require Import List String Ascii ZArith Bool.
From GfaV Require Import Base.Py Gen.Tables Gen.K_mult Model.Codec Model.Graph Model.Multiply Proofs.MultiplyP Proofs.GraphP Proofs.FrameP Proofs.RealsP Proofs.MultiplyRecordsP.
Import ListNotations.
Open Scope string_scope.

(* automatic copy names exist for every graph, are factor-1 many, not in use, pairwise distinct *)
Theorem C15_copy_names_fresh : forall s n factor, (2 <= factor)%Z ->
  exists l, compute_copy_names s n factor = Some l /\
            List.length l = Z.to_nat (factor - 1) /\
            Forall (fun x => ~ In x (used_names s)) l /\ NoDup l.
Proof. exact copy_names_fresh. Qed.
Print Assumptions C15_copy_names_fresh.

(* names already ending in *n continue the numbering of their base, skipping identifiers in use *)
Example C15_names_witness :
  copy_names_from 3 ["A*2"; "A*3"; "A*5"; "B"] (copy_base "A*2") 2 = Some ["A*4"; "A*6"; "A*7"]
  /\ copy_base "x*7" = "x" /\ copy_base "A*b" = "A*b" /\ copy_base "a*1*22" = "a*1".
Proof. vm_compute. repeat split. Qed.

(* counts: floor division of exactly the integer RC/FC/KC tags *)
Theorem C15_counts_divided : forall name v k, In name count_tags ->
  div_tag k (name ++ ":i:" ++ str_of_Z v) = (name ++ ":i:" ++ str_of_Z (v / k))%string.
Proof. exact div_tag_count. Qed.
Print Assumptions C15_counts_divided.

Theorem C15_other_tags_untouched : forall k t, in_strs (substring 0 2 t) count_tags = false -> div_tag k t = t.
Proof. exact div_tag_other. Qed.
Print Assumptions C15_other_tags_untouched.

Theorem C15_non_integer_count_untouched : forall k t, String.eqb (substring 2 3 t) ":i:" = false -> div_tag k t = t.
Proof. exact div_tag_not_integer. Qed.
Print Assumptions C15_non_integer_count_untouched.

Example C15_counts_witness :
  map (div_tag 3) ["RC:i:10"; "KC:i:2"; "FC:i:-7"; "xx:i:9"; "RC:Z:12"; "LN:i:30"] = ["RC:i:3"; "KC:i:0"; "FC:i:-3"; "xx:i:9"; "RC:Z:12"; "LN:i:30"].
Proof. vm_compute. reflexivity. Qed.

(* distribution: copy i keeps the links at positions i .. i+max(n-k,0) of the original's list;
   every position is kept by some copy (every former neighbour stays linked) and no window leaves the list *)
Theorem C15_windows_cover : forall (A : Type) (d : A) (sigs : list A) (k : nat), (1 <= k)%nat ->
  forall j, (j < List.length sigs)%nat ->
  exists i, (i < k)%nat /\ In (nth j sigs d) (slice sigs i (S (List.length sigs - k))).
Proof. exact @windows_cover. Qed.
Print Assumptions C15_windows_cover.

Theorem C15_window_within : forall (A : Type) (sigs : list A) i len, incl (slice sigs i len) sigs.
Proof. exact @window_within. Qed.
Print Assumptions C15_window_within.

(* selection of the end by the regenerated _auto_select_distribute_end *)
Theorem C15_equal_policy : forall f b e x,
  k_auto_select_distribute_end f b e true = Some x -> (x = "R" /\ e = f) \/ (x = "L" /\ b = f /\ e <> f).
Proof. exact equal_policy_spec. Qed.
Print Assumptions C15_equal_policy.

Theorem C15_equal_policy_none : forall f b e,
  k_auto_select_distribute_end f b e true = None <-> e <> f /\ b <> f.
Proof. exact equal_policy_none. Qed.
Print Assumptions C15_equal_policy_none.

Theorem C15_auto_policy : forall f b e x,
  k_auto_select_distribute_end f b e false = Some x ->
  (x = "R" /\ (e = f \/ 2 <= e)%Z) \/ (x = "L" /\ (b = f \/ 2 <= b)%Z).
Proof. exact auto_policy_spec. Qed.
Print Assumptions C15_auto_policy.

Theorem C15_auto_policy_none : forall f b e,
  k_auto_select_distribute_end f b e false = None <-> (e <> f /\ b <> f /\ e < 2 /\ b < 2)%Z.
Proof. exact auto_policy_none. Qed.
Print Assumptions C15_auto_policy_none.

(* factor cases *)
Theorem C15_negative_refused : forall s n k names pol, (k < 0)%Z -> multiply s n k names pol = Err (G EArgument).
Proof. exact multiply_negative. Qed.
Print Assumptions C15_negative_refused.

Theorem C15_factor_zero_removes : forall s n names pol, multiply s n 0 names pol = rm s n.
Proof. exact multiply_zero. Qed.
Print Assumptions C15_factor_zero_removes.

Theorem C15_factor_one_identity : forall s n names pol, multiply s n 1 names pol = Ok s.
Proof. exact multiply_one. Qed.
Print Assumptions C15_factor_one_identity.

Theorem C15_unknown_policy_refused : forall s p n f,
  in_strs p T_LINKS_DISTRIBUTION_POLICY = false -> select_end s p n f = Err (G EArgument).
Proof. exact unknown_policy_refused. Qed.
Print Assumptions C15_unknown_policy_refused.

(* the rest of the graph is untouched: without distribution, every line that is not a placeholder, not the multiplied
   segment and not one of its dovetails or containments is in the graph afterwards exactly as it was — for every factor
   >= 2, every list of copy names, every graph *)
Theorem C15_rest_of_the_graph_untouched : forall s n k names s',
  ids_ok s -> (2 <= k)%Z -> multiply s n k names None = Ok s' ->
  forall x, In x (lines s) -> g_virtual x = false ->
            (forall seg0, find_segment s n = Some seg0 -> g_id x <> g_id seg0) ->
            ~ In (g_id x) (map g_id (seg_edges s n)) ->
            In x (lines s').
Proof. exact multiply_frame. Qed.
Print Assumptions C15_rest_of_the_graph_untouched.


(* every copy carries every edge: without distribution the records after the multiplication are the records with the
   counts divided followed, for each copy name in turn, by the segment under that name and each of its dovetails and
   containments with the name substituted — for every factor, every list of names, every graph in which none of the new
   lines meets a stored record of its identifier or oriented pair *)
Theorem C15_every_copy_carries_every_edge : forall s n k cns s' seg0 seg,
  ids_ok s -> (2 <= k)%Z ->
  find_segment s n = Some seg0 -> find_segment (divided s n k seg0) n = Some seg ->
  multiply s n k (Some cns) None = Ok s' ->
  guards_all (divided s n k seg0) (flat_map (clone_lines seg (seg_edges (divided s n k seg0) n)) cns) ->
  map body (reals s') =
  (map body (reals (divided s n k seg0)) ++
   map body (flat_map (clone_lines seg (seg_edges (divided s n k seg0) n)) cns))%list.
Proof. exact multiply_records. Qed.
Print Assumptions C15_every_copy_carries_every_edge.

(* non-vacuity: a segment with a link and a containment, multiplied by 3 *)
Example C15_copies_witness :
  let t := String tab EmptyString in
  let s0 := run_texts "gfa1" [OAdd ("S" ++ t ++ "A" ++ t ++ "*" ++ t ++ "RC:i:9"); OAdd ("S" ++ t ++ "B" ++ t ++ "*");
     OAdd ("L" ++ t ++ "A" ++ t ++ "+" ++ t ++ "B" ++ t ++ "+" ++ t ++ "3M" ++ t ++ "KC:i:7");
     OAdd ("C" ++ t ++ "B" ++ t ++ "+" ++ t ++ "A" ++ t ++ "+" ++ t ++ "0" ++ t ++ "*")] in
  match find_segment s0 "A" with
  | Some seg0 =>
      match find_segment (divided s0 "A" 3 seg0) "A" with
      | Some seg =>
          guards_all_b (divided s0 "A" 3 seg0) (flat_map (clone_lines seg (seg_edges (divided s0 "A" 3 seg0) "A")) ["A2"; "A3"]) = true /\
          match multiply s0 "A" 3 (Some ["A2"; "A3"]) None with
          | Ok s' => map gl_text (reals s') =
                     ["S" ++ t ++ "A" ++ t ++ "*" ++ t ++ "RC:i:3"; "S" ++ t ++ "B" ++ t ++ "*";
                      "L" ++ t ++ "A" ++ t ++ "+" ++ t ++ "B" ++ t ++ "+" ++ t ++ "3M" ++ t ++ "KC:i:2";
                      "C" ++ t ++ "B" ++ t ++ "+" ++ t ++ "A" ++ t ++ "+" ++ t ++ "0" ++ t ++ "*";
                      "S" ++ t ++ "A2" ++ t ++ "*" ++ t ++ "RC:i:3";
                      "L" ++ t ++ "A2" ++ t ++ "+" ++ t ++ "B" ++ t ++ "+" ++ t ++ "3M" ++ t ++ "KC:i:2";
                      "C" ++ t ++ "B" ++ t ++ "+" ++ t ++ "A2" ++ t ++ "+" ++ t ++ "0" ++ t ++ "*";
                      "S" ++ t ++ "A3" ++ t ++ "*" ++ t ++ "RC:i:3";
                      "L" ++ t ++ "A3" ++ t ++ "+" ++ t ++ "B" ++ t ++ "+" ++ t ++ "3M" ++ t ++ "KC:i:2";
                      "C" ++ t ++ "B" ++ t ++ "+" ++ t ++ "A3" ++ t ++ "+" ++ t ++ "0" ++ t ++ "*"]
          | Err _ => False
          end
      | None => False
      end
  | None => False
  end.
Proof. vm_compute. repeat split. Qed.
