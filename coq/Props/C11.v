(* Props/C11.v — segment neighbourhoods match the specification's edge semantics (kernel level).
   k_substring_type, k_edge2_refkey_for_s, k_alignment_type_for_substring_types, k_gap_refkey_for_s,
   k_from_end, k_to_end, k_segment_role, k_is_sid1_from are REGENERATED from gfapy on every run;
   Spec/EdgeSpec.v is written from the GFA specification. *)
From Coq Require Import List String Ascii ZArith Bool.
From GfaV Require Import Base.Py Gen.K_edge2 Gen.K_fromto Gen.K_togfa1 Spec.EdgeSpec Proofs.EdgeSpecP.
Import ListNotations.
Open Scope string_scope.

(* E lines: for all orientations and all well-formed intervals (positions are unbounded integers) the
   collection chosen for each of the two segments and the dovetail/containment/internal class are the
   specification's *)
Theorem C11_E : forall o1 o2 snum b1 e1 b2 e2,
  orient_ok o1 -> orient_ok o2 -> (snum = 1 \/ snum = 2)%Z ->
  wf_interval b1 e1 = true -> wf_interval b2 e2 = true ->
  exists st1 f1 st2 f2,
    k_substring_type b1 e1 = Ok (st1, f1) /\ k_substring_type b2 e2 = Ok (st2, f2) /\
    k_edge2_refkey_for_s o1 o2 snum st1 st2 = collection_of_E o1 o2 snum (ikind_of b1 e1) (ikind_of b2 e2) /\
    k_alignment_type_for_substring_types o1 o2 st1 st2 =
      class_letter (edge_class o1 o2 (ikind_of b1 e1) (ikind_of b2 e2)).
Proof. exact edge_collection_spec. Qed.
Print Assumptions C11_E.

Theorem C11_G : forall o1 o2 snum,
  orient_ok o1 -> orient_ok o2 -> (snum = 1 \/ snum = 2)%Z ->
  k_gap_refkey_for_s o1 o2 snum = Ok (collection_of_G o1 o2 snum).
Proof. exact gap_collection_spec. Qed.
Print Assumptions C11_G.

Theorem C11_L : forall seg fo too,
  orient_ok fo -> orient_ok too ->
  "dovetails_" ++ snd (k_from_end seg fo) = collection_of_L fo too true /\
  "dovetails_" ++ snd (k_to_end seg too) = collection_of_L fo too false /\
  fst (k_from_end seg fo) = seg /\ fst (k_to_end seg too) = seg.
Proof. exact link_collection_spec. Qed.
Print Assumptions C11_L.

(* the from/to roles that the GFA1 view of an E line uses follow the same classification *)
Theorem C11_roles : forall o1 o2 b1 e1 b2 e2,
  orient_ok o1 -> orient_ok o2 -> wf_interval b1 e1 = true -> wf_interval b2 e2 = true ->
  match edge_class o1 o2 (ikind_of b1 e1) (ikind_of b2 e2) with
  | Internal => k_is_sid1_from b1 e1 o1 b2 e2 o2 = Err (G EValue)
  | Containment => k_is_sid1_from b1 e1 o1 b2 e2 o2 =
                   Ok (match ikind_of b2 e2 with KWhole => true | _ => false end)
  | Dovetail => k_is_sid1_from b1 e1 o1 b2 e2 o2 =
                Ok (match eff o1 (ikind_of b1 e1) with KSfx => true | _ => false end)
  end.
Proof. exact is_sid1_from_spec. Qed.
Print Assumptions C11_roles.

(* non-vacuity: a dovetail between a suffix of A+ and a prefix of B+, a containment, an internal one *)
Example C11_witness :
  wf_interval (5, false)%Z (10, true)%Z = true /\ wf_interval (0, false)%Z (5, false)%Z = true /\
  collection_of_E "+" "+" 1 (ikind_of (5, false)%Z (10, true)%Z) (ikind_of (0, false)%Z (5, false)%Z) = "dovetails_R" /\
  collection_of_E "+" "-" 2 (ikind_of (0, false)%Z (5, false)%Z) (ikind_of (0, false)%Z (7, true)%Z) = "edges_to_containers" /\
  collection_of_E "-" "+" 1 (ikind_of (2, false)%Z (5, false)%Z) (ikind_of (0, false)%Z (3, false)%Z) = "internals".
Proof. vm_compute. repeat split. Qed.
