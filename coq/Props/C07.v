(* Props/C07.v — only gfapy errors escape from the construction of a line, whatever the text.
   Model/Line.v is gfapy.Line(text, vlevel, version): record-type dispatch, version rules, positional fields, tags
   (uniqueness, predefined types, custom names, values through the regenerated validators), record-specific checks,
   comments and custom records.  Proved for every string, level and version: the outcome is a line or an error of the
   gfapy hierarchy, never a foreign exception; the one place where the implementation indexes a class table with an
   unchecked key (the datatype of a predefined tag) is covered by a fact about the regenerated tables that is proved
   by evaluation.  All model functions are structurally recursive: construction terminates.  For the operations of the
   graph model (add_line, rm, rename of Model/Graph.v, compared with gfapy on generated histories by C02/C05/C08/C09):
   every operation on every state ends in a state or a gfapy error; the only other outcome is RecursionError of a
   removal whose checked cascade runs out of fuel.  The remaining entry points (from_file, lookups, get/set/validate,
   str) are decided by the exhaustive and mutation-driven oracle with a watchdog (harness/props/c07.py), not proved. *)
From Coq Require Import List String Ascii ZArith Bool.
From GfaV Require Import Base.Py Model.Codec Model.Line Model.Doc Model.Graph Proofs.NoForeignP Proofs.GraphErrorsP.
Import ListNotations.
Open Scope string_scope.

Theorem C07_line_construction_raises_only_gfapy_errors : forall O vlevel version s,
  is_foreign (parse_line O vlevel version s) = false.
Proof. exact parse_line_no_foreign. Qed.
Print Assumptions C07_line_construction_raises_only_gfapy_errors.

Theorem C07_document_construction_raises_only_gfapy_errors : forall O vlevel version text,
  is_foreign (parse_doc O vlevel version text) = false.
Proof. exact parse_doc_no_foreign. Qed.
Print Assumptions C07_document_construction_raises_only_gfapy_errors.

(* the graph operations: additions and renames end in a state or a gfapy error; removals may in addition exhaust the
   fuel of the checked cascade *)
Theorem C07_additions_raise_only_gfapy_errors : forall O s t, is_foreign (add_line O s t) = false.
Proof. exact add_line_nf. Qed.
Print Assumptions C07_additions_raise_only_gfapy_errors.

Theorem C07_renames_raise_only_gfapy_errors : forall s a b, is_foreign (rename s a b) = false.
Proof. exact rename_nf. Qed.
Print Assumptions C07_renames_raise_only_gfapy_errors.

Theorem C07_operations_errors : forall O s o e, step O s o = Err e -> (exists g, e = G g) \/ e = Foreign RecursionError.
Proof. exact step_errors. Qed.
Print Assumptions C07_operations_errors.

(* the table fact the proof rests on: every predefined tag of every record class has a datatype *)
Theorem C07_predefined_tags_have_datatypes : forallb good_class all_classes = true.
Proof. exact all_classes_good. Qed.
Print Assumptions C07_predefined_tags_have_datatypes.

(* non-vacuity: all three outcomes occur *)
Example C07_outcomes :
  let O := table_oracle [] [] in
  is_ok (parse_line O 1 (Some "gfa1") "S	A	*	LN:i:3") = true /\
  parse_line O 1 (Some "gfa1") "S	A" = Err (G EFormat) /\
  parse_line O 1 (Some "gfa1") "E	*	A+	B+	0	1	0	1	*" = Err (G EVersion) /\
  parse_line O 3 None "S	A	*	LN:Z:x" = Err (G EType).
Proof. vm_compute. repeat split. Qed.
