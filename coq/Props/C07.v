(* Props/C07.v — only gfapy errors escape from the construction of a line, whatever the text.
   Model/Line.v is gfapy.Line(text, vlevel, version): record-type dispatch, version rules, positional fields, tags
   (uniqueness, predefined types, custom names, values through the regenerated validators), record-specific checks,
   comments and custom records.  Proved for every string, level and version: the outcome is a line or an error of the
   gfapy hierarchy, never a foreign exception; the one place where the implementation indexes a class table with an
   unchecked key (the datatype of a predefined tag) is covered by a fact about the regenerated tables that is proved
   by evaluation.  All model functions are structurally recursive: construction terminates.  The graph-level entry
   points (Gfa, add_line, from_file, lookups, removals, renames, get/set/validate) are decided by the exhaustive and
   mutation-driven oracle with a watchdog (harness/props/c07.py), not proved. *)
From Coq Require Import List String Ascii ZArith Bool.
From GfaV Require Import Base.Py Model.Codec Model.Line Model.Doc Proofs.NoForeignP.
Import ListNotations.
Open Scope string_scope.

Theorem C07_line_construction_raises_only_gfapy_errors : forall O vlevel version s,
  is_foreign (parse_line O vlevel version s) = false.
Proof. exact parse_line_no_foreign. Qed.
Print Assumptions C07_line_construction_raises_only_gfapy_errors.

Theorem C07_document_construction_raises_only_gfapy_errors : forall O vlevel version text,
  is_foreign (parse_doc O vlevel version text) = false.
Proof. exact parse_doc_no_foreign. Qed.
Print Assumptions C07_document_construction_raises_only_gfapy_errors.

(* the table fact the proof rests on: every predefined tag of every record class has a datatype *)
Theorem C07_predefined_tags_have_datatypes : forallb good_class all_classes = true.
Proof. exact all_classes_good. Qed.
Print Assumptions C07_predefined_tags_have_datatypes.

(* non-vacuity: all three outcomes occur *)
Example C07_outcomes :
  let O := table_oracle [] [] in
  is_ok (parse_line O 1 (Some "gfa1") "S	A	*	LN:i:3") = true /\
  parse_line O 1 (Some "gfa1") "S	A" = Err (G EFormat) /\
  parse_line O 1 (Some "gfa1") "E	*	A+	B+	0	1	0	1	*" = Err (G EVersion) /\
  parse_line O 3 None "S	A	*	LN:Z:x" = Err (G EType).
Proof. vm_compute. repeat split. Qed.
