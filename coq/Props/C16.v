(* Props/C16.v — connected components agree with the graph.
   Model/Topology.v computes components and counters from the reference semantics (Model/Graph.v), where adjacency is
   "a dovetail record mentions both segments" (collections chosen by the regenerated kernels); it is compared with
   connected_components(), segment_connected_component() and the n_* counters of the implementation after generated
   histories.  The counter identities are proved from the invariant of the graph (C02/C09): each dovetail, containment
   and internal record is filed exactly twice among the collections of its class, so the halved sums are the numbers
   of records.  n_dead_ends is the number of segment ends on which no line of the document puts a dovetail. *)
From Coq Require Import List String Ascii ZArith Bool.
From GfaV Require Import Base.Py Model.Codec Model.Graph Model.Topology Proofs.GraphP Proofs.TopologyP Proofs.CountersP Proofs.DeadEndsP.
Import ListNotations.
Open Scope string_scope.

(* the component of a segment is exactly the set of segments joined to it by a chain of dovetails *)
Theorem C16_component_is_the_class : forall s a c,
  component s a = Ok c -> forall x, In x c <-> chain s a x.
Proof. exact component_exact. Qed.
Print Assumptions C16_component_is_the_class.

(* components are equivalence classes: b lies in the component of a iff the two components are the same set *)
Theorem C16_components_are_classes : forall s a b ca cb,
  In a (segment_names s) -> In b (segment_names s) ->
  component s a = Ok ca -> component s b = Ok cb ->
  (In b ca <-> forall x, In x ca <-> In x cb).
Proof. exact same_component_iff. Qed.
Print Assumptions C16_components_are_classes.

(* connected_components is a partition: every segment lies in a listed component, and listed components are disjoint
   from everything listed before them *)
Theorem C16_every_segment_covered : forall s cs a,
  connected_components s = Ok cs -> In a (segment_names s) -> exists c, In c cs /\ In a c.
Proof. exact every_segment_in_a_component. Qed.
Print Assumptions C16_every_segment_covered.

Theorem C16_components_disjoint : forall s todo seen cs,
  (forall x, In x todo -> In x (segment_names s)) ->
  (forall x y, In x seen -> chain s x y -> In y seen) ->
  components_from s todo seen = Ok cs ->
  forall c, In c cs -> forall x, In x c -> ~ In x seen.
Proof. exact components_from_disjoint. Qed.
Print Assumptions C16_components_disjoint.

(* in every state with unique identifiers, resolved mentions and oriented links the counters count the records *)
Theorem C16_counters_count_records : forall s, names_unique s -> closed s -> links_oriented s ->
  n_dovetails s = count_class s "L" /\ n_containments s = count_class s "C" /\ n_internals s = count_class s "I".
Proof. exact counters_count_records. Qed.
Print Assumptions C16_counters_count_records.

(* and such states are all the states reachable by additions and removals inside the guards of C02 *)
Theorem C16_counters_in_reachable_states : forall O ops s, Inv s -> guards2_hold O s ops -> links_oriented (run_ops O s ops) ->
  n_dovetails (run_ops O s ops) = count_class (run_ops O s ops) "L".
Proof.
  intros O ops s I G LO. destruct (inv_reachable O ops s I G) as [_ [NU CL]].
  exact (proj1 (counters_count_records _ NU CL LO)).
Qed.
Print Assumptions C16_counters_in_reachable_states.

(* containments and internal alignments do not connect *)
(* dead ends, counted from the document: an end is dead exactly when no line mentions it as the end of a dovetail, and
   n_dead_ends is the number of such ends over the segments of the Gfa *)
Theorem C16_dead_ends_counted_from_the_document : forall s,
  n_dead_ends s =
  sum_nat (map (fun n => (if end_is_dead s n "L" then 1 else 0) + (if end_is_dead s n "R" then 1 else 0)) (segment_names s)).
Proof. exact dead_ends_counted_from_the_document. Qed.
Print Assumptions C16_dead_ends_counted_from_the_document.

Theorem C16_dead_end_spec : forall s n e,
  end_is_dead s n e = true <->
  forall l m, In l (lines s) -> In m (mentions l) -> m_target m = n -> m_coll m <> ("dovetails_" ++ e)%string.
Proof. exact end_is_dead_spec. Qed.
Print Assumptions C16_dead_end_spec.

Example C16_witness :
  let t := String tab EmptyString in
  let s := Proofs.GraphP.run_texts "gfa1"
    [OAdd ("S" ++ t ++ "A" ++ t ++ "*"); OAdd ("S" ++ t ++ "B" ++ t ++ "*"); OAdd ("S" ++ t ++ "C" ++ t ++ "*");
     OAdd ("S" ++ t ++ "D" ++ t ++ "*");
     OAdd ("L" ++ t ++ "A" ++ t ++ "+" ++ t ++ "B" ++ t ++ "-" ++ t ++ "*");
     OAdd ("C" ++ t ++ "B" ++ t ++ "+" ++ t ++ "C" ++ t ++ "+" ++ t ++ "0" ++ t ++ "*");
     OAdd ("L" ++ t ++ "D" ++ t ++ "+" ++ t ++ "D" ++ t ++ "+" ++ t ++ "*")] in
  connected_components s = Ok [["A"; "B"]; ["C"]; ["D"]] /\ n_dovetails s = 2 /\ n_containments s = 1 /\ n_dead_ends s = 4.
Proof. vm_compute. repeat split. Qed.
