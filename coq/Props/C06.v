(* Props/C06.v — GFA1 <-> GFA2 conversion of edge records (value level).
   Classification/role kernels and the CIGAR kernels are REGENERATED from gfapy on every run; the coordinate
   arithmetic (link/to_gfa2.py, containment/to_gfa2.py, gfa2/to_gfa1.py, LastPos.__sub__) is the hand model
   Model/Convert.v, compared with the implementation on every run (Corr/C06c.v). *)
From Coq Require Import List String Ascii ZArith Bool.
From GfaV Require Import Base.Py Gen.K_cigar Model.Align Model.Link Model.Convert Proofs.ConvertP.
Import ListNotations.
Open Scope string_scope.

(* a link and its E-line counterpart: same oriented pair, same alignment, intervals of the CIGAR's reference and
   query length inside the segments, `$` exactly on a segment's last position *)
Theorem C06_link_intervals : forall l lf lt c eid,
  proper_link l lf lt c ->
  exists e, link_to_gfa2 l eid (Some lf) (Some lt) = Ok e /\
    (fst (e_e1 e) - fst (e_b1 e) = k_cigar_length_on_reference c)%Z /\
    (fst (e_e2 e) - fst (e_b2 e) = k_cigar_length_on_query c)%Z /\
    (0 <= fst (e_b1 e) <= fst (e_e1 e) /\ fst (e_e1 e) <= lf)%Z /\
    (0 <= fst (e_b2 e) <= fst (e_e2 e) /\ fst (e_e2 e) <= lt)%Z /\
    (snd (e_e1 e) = true <-> fst (e_e1 e) = lf) /\ (snd (e_e2 e) = true <-> fst (e_e2 e) = lt) /\
    (snd (e_b1 e) = true -> fst (e_b1 e) = lf) /\ (snd (e_b2 e) = true -> fst (e_b2 e) = lt) /\
    e_s1 e = l_from l /\ e_o1 e = l_fo l /\ e_s2 e = l_to l /\ e_o2 e = l_too l /\ e_aln e = l_ov l.
Proof. exact link_intervals. Qed.
Print Assumptions C06_link_intervals.

(* there and back: the same link (orientations, alignment direction) for every orientation pair and every
   CIGAR over M I D P, asymmetric ones included *)
Theorem C06_link_roundtrip : forall l lf lt c eid,
  proper_link l lf lt c ->
  exists e, link_to_gfa2 l eid (Some lf) (Some lt) = Ok e /\ edge_to_gfa1 e = Ok (GL l).
Proof. exact link_roundtrip. Qed.
Print Assumptions C06_link_roundtrip.

(* containments at any offset *)
Theorem C06_containment_roundtrip : forall k lf lt c eid,
  proper_cont k lf lt c ->
  exists e, cont_to_gfa2 k eid (Some lf) (Some lt) = Ok e /\ edge_to_gfa1 e = Ok (GC k) /\
    fst (e_b1 e) = fst (c_pos k) /\ (fst (e_e1 e) - fst (e_b1 e) = k_cigar_length_on_reference c)%Z /\
    (snd (e_e1 e) = true <-> fst (e_e1 e) = lf) /\ e_b2 e = (0%Z, false) /\ e_e2 e = (lt, true).
Proof. exact cont_roundtrip. Qed.
Print Assumptions C06_containment_roundtrip.

(* records without counterpart are refused, and what is produced is classified as what it is *)
Theorem C06_internal_refused : forall e, alignment_type e = Ok "I" -> edge_to_gfa1 e = Err (G ERuntime).
Proof. exact internal_edge_refused. Qed.
Print Assumptions C06_internal_refused.

Theorem C06_converted_is_classified : forall e r,
  edge_to_gfa1 e = Ok r ->
  (exists l, r = GL l /\ alignment_type e = Ok "L") \/ (exists k, r = GC k /\ alignment_type e = Ok "C") \/
  (exists a, alignment_type e = Ok a /\ a <> "I" /\ a <> "L" /\ a <> "C").
Proof. exact converted_edge_is_classified. Qed.
Print Assumptions C06_converted_is_classified.

(* known finding F25 (inherent to the formats): a link whose overlap spans a whole segment is a containment in
   GFA2 — outside [proper_link], and indeed not a round trip *)
Theorem C06_full_length_overlap_refuted :
  exists l e, link_to_gfa2 l None (Some 4%Z) (Some 9%Z) = Ok e /\ edge_to_gfa1 e <> Ok (GL l).
Proof.
  exists (mkLink "A" "+" "B" "+" (ACigar [(4%Z, "M")])). eexists. split; [vm_compute; reflexivity|].
  vm_compute. discriminate.
Qed.
Print Assumptions C06_full_length_overlap_refuted.

Example C06_witness :
  proper_link (mkLink "A" "+" "B" "-" (ACigar [(2%Z, "M"); (1%Z, "D"); (3%Z, "M")])) 10 12
              [(2%Z, "M"); (1%Z, "D"); (3%Z, "M")].
Proof. unfold proper_link. cbn. repeat split; try reflexivity; discriminate. Qed.
