(* Props/C05.v — mutating a Gfa is equivalent to editing its text: the removal cascade is exact.
   Model/Graph.v IS the text-level semantics (a state is the list of the lines of the Gfa; an operation edits that list),
   tied to the implementation by the correspondence run on generated histories.  Proved here: what rm deletes. *)
From Coq Require Import List String Ascii ZArith Bool.
From GfaV Require Import Base.Py Gen.Tables Model.Codec Model.Graph Proofs.GraphP Proofs.RenameP Proofs.FrameP Proofs.MergeFrameP Proofs.RealsP Proofs.OrdersBackrefsP Proofs.ReparseP.
Import ListNotations.
Open Scope string_scope.

(* rm deletes a line iff it is the named line or depends on it directly or transitively — the least set closed under
   "mentions a removed line in a collection its class declares dependent" — and leaves every other line untouched *)
Theorem C05_removal_is_the_dependency_closure : forall s x s',
  In x (lines s) -> disconnect s x = Ok s' ->
  lines s' = filter (fun l => negb (mem_id (g_id l) (closure (fuel_for s) s [x] []))) (lines s) /\
  (forall l, In l (lines s) ->
     (mem_id (g_id l) (closure (fuel_for s) s [x] []) = true <-> exists y, reach s x y /\ g_id y = g_id l)).
Proof. exact disconnect_exact. Qed.
Print Assumptions C05_removal_is_the_dependency_closure.

Theorem C05_everything_else_is_kept : forall s x s' l, disconnect s x = Ok s' -> In l (lines s') -> In l (lines s).
Proof. exact disconnect_keeps_the_rest. Qed.
Print Assumptions C05_everything_else_is_kept.

(* after the removal no remaining line mentions a removed one (under the guard that excludes F28) *)
Theorem C05_no_dangling_mention : forall s x s',
  ids_ok s -> closed s -> dep_guard s -> disconnect s x = Ok s' -> ids_ok s' /\ closed s'.
Proof. exact disconnect_closed. Qed.
Print Assumptions C05_no_dangling_mention.

(* the dependency tables the cascade uses (regenerated from the record classes on every run) are the documented ones
   (doc/tutorial/references.rst: GFA1 segment -> links (+paths), containments; link -> paths; GFA2 segment -> edges,
   gaps, fragments, sets, paths; edge -> sets, paths; set -> sets) *)
Definition same_set (a b : list string) : bool :=
  forallb (fun x => in_strs x b) a && forallb (fun x => in_strs x a) b.

Theorem C05_dependency_tables_are_documented :
  same_set T_SegmentGFA1_DEPENDENT_LINES ["dovetails_L"; "dovetails_R"; "edges_to_contained"; "edges_to_containers"; "paths"] = true /\
  same_set T_Link_DEPENDENT_LINES ["paths"] = true /\
  same_set T_Containment_DEPENDENT_LINES [] = true /\ same_set T_Path_DEPENDENT_LINES [] = true /\
  same_set T_SegmentGFA2_DEPENDENT_LINES ["dovetails_L"; "dovetails_R"; "edges_to_contained"; "edges_to_containers";
                                         "internals"; "gaps_L"; "gaps_R"; "fragments"; "sets"; "paths"] = true /\
  same_set T_EdgeGFA2_DEPENDENT_LINES ["sets"; "paths"] = true /\
  same_set T_Ordered_DEPENDENT_LINES ["sets"; "paths"] = true /\
  same_set T_Unordered_DEPENDENT_LINES ["sets"] = true /\
  same_set T_Unknown_DEPENDENT_LINES ["sets"; "paths"] = true /\
  same_set T_Gap_DEPENDENT_LINES [] = true /\ same_set T_Fragment_DEPENDENT_LINES [] = true.
Proof. vm_compute. repeat split. Qed.
Print Assumptions C05_dependency_tables_are_documented.

(* non-vacuity: removing a segment with two links on one end, a path over one of them and a containment *)
(* renaming rewrites the identifier wherever it is mentioned and nothing else: the lines of the new state are the old
   ones, the renamed line carrying the new identifier (and moved to the end of its collection), every other line
   rewritten by [ren]; the mentions of a rewritten line are the old mentions with the old identifier replaced; a line that
   did not mention the old identifier mentions what it mentioned before *)
Theorem C05_rename_edits_the_lines : forall s old new s' x,
  find_named s old = Some x -> find_named s new = None -> rename s old new = Ok s' ->
  lines s' = (map (ren old new) (filter (fun l => negb (Nat.eqb (g_id l) (g_id x))) (lines s)) ++ [renamed new x])%list.
Proof. exact rename_lines. Qed.
Print Assumptions C05_rename_edits_the_lines.

Theorem C05_rename_rewrites_every_mention : forall old new l,
  clean old = true -> clean new = true -> mentions (ren old new l) = map (retarget old new) (mentions l).
Proof. exact mentions_ren. Qed.
Print Assumptions C05_rename_rewrites_every_mention.

Theorem C05_rename_leaves_other_mentions : forall old new l,
  clean old = true -> clean new = true -> (forall m, In m (mentions l) -> m_target m <> old) ->
  mentions (ren old new l) = mentions l.
Proof. exact ren_untouched. Qed.
Print Assumptions C05_rename_leaves_other_mentions.

(* frame of a removal: whatever is removed, no other segment goes (a segment depends on nothing); frame of an
   addition: every line that is not a placeholder stays as it is when a line that is not a group is connected *)
Theorem C05_removal_keeps_other_segments : forall s y s',
  ids_ok s -> In y (lines s) -> disconnect s y = Ok s' ->
  forall x, In x (lines s) -> is_segment x = true -> g_id x <> g_id y -> In x (lines s').
Proof. exact disconnect_keeps_segments. Qed.
Print Assumptions C05_removal_keeps_other_segments.

Theorem C05_addition_keeps_every_record : forall s l s',
  ids_ok s -> g_rk l <> KO -> g_rk l <> KU -> connect s l = Ok s' ->
  (forall x, In x (lines s) -> g_virtual x = false -> In x (lines s')) /\ ids_ok s'.
Proof. exact connect_keeps. Qed.
Print Assumptions C05_addition_keeps_every_record.

(* the content of the Gfa equals that of a Gfa read afresh from its records: reading the records of a state without
   placeholders into an empty Gfa gives the same records, and therefore the same back-references for every identifier
   and collection *)
Theorem C05_reread_gives_the_same_records : forall s s',
  no_placeholder s ->
  guards_all (init_gfa (g_version s) (g_vlevel s)) (lines s) ->
  connect_all (init_gfa (g_version s) (g_vlevel s)) (lines s) = Ok s' ->
  map body (reals s') = map body (reals s).
Proof. exact reread_same_records. Qed.
Print Assumptions C05_reread_gives_the_same_records.

Theorem C05_reread_gives_the_same_back_references : forall s s',
  no_placeholder s -> no_placeholder s' ->
  guards_all (init_gfa (g_version s) (g_vlevel s)) (lines s) ->
  connect_all (init_gfa (g_version s) (g_vlevel s)) (lines s) = Ok s' ->
  forall n c, Permutation.Permutation (map body (backrefs s n c)) (map body (backrefs s' n c)).
Proof. exact reread_same_backrefs. Qed.
Print Assumptions C05_reread_gives_the_same_back_references.

Example C05_witness :
  let t := String tab EmptyString in
  let ops := [OAdd ("S" ++ t ++ "A" ++ t ++ "*"); OAdd ("S" ++ t ++ "B" ++ t ++ "*"); OAdd ("S" ++ t ++ "C" ++ t ++ "*");
              OAdd ("L" ++ t ++ "A" ++ t ++ "+" ++ t ++ "B" ++ t ++ "+" ++ t ++ "*");
              OAdd ("L" ++ t ++ "A" ++ t ++ "+" ++ t ++ "C" ++ t ++ "+" ++ t ++ "*");
              OAdd ("C" ++ t ++ "B" ++ t ++ "+" ++ t ++ "A" ++ t ++ "+" ++ t ++ "0" ++ t ++ "*");
              OAdd ("P" ++ t ++ "p" ++ t ++ "A+,B+" ++ t ++ "*"); OAdd ("L" ++ t ++ "B" ++ t ++ "+" ++ t ++ "C" ++ t ++ "+" ++ t ++ "*")] in
  map gl_text (lines (run_texts "gfa1" (ops ++ [ORm "A"]))) =
  ["S" ++ t ++ "B" ++ t ++ "*"; "S" ++ t ++ "C" ++ t ++ "*"; "L" ++ t ++ "B" ++ t ++ "+" ++ t ++ "C" ++ t ++ "+" ++ t ++ "*"].
Proof. vm_compute. reflexivity. Qed.
