(* Props/C10.v — read-only operations never modify anything.
   In gfapy a query is a function of the stored fields except for one effect: FieldData.get replaces the stored string
   of a field that is parsed on access by the decoded object, which is later written with its canonical spelling
   (Model/Purity.v).  Proved: on every document whose fields are settled (decoded at construction, which is always the
   case at validation level >= 1, or spelled canonically) no sequence of reads changes the written form of any line
   or any later answer; a repeated read returns the same value in every document.  Refuted for unsettled fields
   (finding F56).  That every public query of the implementation is such a read is what the differential run of the
   query catalogue against real Gfa objects decides (harness/props/c10.py). *)
From Coq Require Import List String Ascii ZArith Bool.
From GfaV Require Import Base.Py Model.Codec Model.Purity Proofs.PurityP.
Import ListNotations.
Open Scope string_scope.

Theorem C10_reads_change_nothing : forall O d qs, canonical O d ->
  write_doc (run O d qs) = write_doc d /\ forall q, answer O (run O d qs) q = answer O d q.
Proof. exact reads_change_nothing. Qed.
Print Assumptions C10_reads_change_nothing.

Theorem C10_read_twice : forall O c, snd (get_cell O (fst (get_cell O c))) = snd (get_cell O c).
Proof. exact read_twice. Qed.
Print Assumptions C10_read_twice.

(* at validation level >= 1 every field is decoded when the line is built: every document is settled *)
Theorem C10_validated_documents_are_settled : forall O vlevel prefix dt text,
  (1 <= vlevel)%nat -> canonical_cell O (init_cell O vlevel prefix dt text).
Proof. exact init_settled. Qed.
Print Assumptions C10_validated_documents_are_settled.

(* non-vacuity and the finding: at level 0 a JSON tag spelled with two spaces is written differently after it was read *)
Definition demo_oracle : oracle := table_oracle [] [("[1,  2]", Some "[1, 2]")].
Definition demo_doc (vl : nat) : doc :=
  [[init_cell demo_oracle vl "" "Z" "S"; init_cell demo_oracle vl "" "Z" "A"; init_cell demo_oracle vl "" "seq" "*";
    init_cell demo_oracle vl "xx:J:" "J" "[1,  2]"; init_cell demo_oracle vl "LN:i:" "i" "007"]].

Example C10_demo_settled : canonical demo_oracle (demo_doc 1) /\
  write_doc (run demo_oracle (demo_doc 1) [QGet 0 3; QStr 0; QGet 0 4; QDoc]) = write_doc (demo_doc 1).
Proof.
  split; [|vm_compute; reflexivity].
  intros l [<-|[]] c Hc. cbn in Hc. repeat (destruct Hc as [<-|Hc]; [left; vm_compute; reflexivity|]). destruct Hc.
Qed.

Theorem C10_unsettled_read_refuted :
  exists O d q, write_doc (run O d [q]) <> write_doc d.
Proof. exists demo_oracle, (demo_doc 0), (QGet 0 3). vm_compute. discriminate. Qed.
Print Assumptions C10_unsettled_read_refuted.
