(* Props/C01.v — parse -> write round trip (model level; see LEVEL_TEXT of harness/props/c01.py for what is
   decided by the correspondence and by the oracle instead). *)
From Coq Require Import List String Ascii ZArith Bool.
From GfaV Require Import Base.Py Model.Codec Model.Line Model.Doc Proofs.CodecP Proofs.RoundTripP.
Import ListNotations.
Open Scope string_scope.
Open Scope list_scope.

(* a written integer reads back to the same value (any size, any sign) *)
Theorem C01_integer_reads_back : forall z, py_int (str_of_Z z) = Some z.
Proof. exact py_int_str_of_Z_full. Qed.
Print Assumptions C01_integer_reads_back.

(* canonical spelling of numbers is a fixed point: writing what was written changes nothing *)
Theorem C01_canonical_integer_fixed_point : forall s, canon_int (canon_int s) = canon_int s.
Proof. exact canon_int_idempotent. Qed.
Print Assumptions C01_canonical_integer_fixed_point.

(* the fields of a written line are recovered by splitting it, for any number of fields of any content
   that does not contain the separator (tab for lines, comma and space for lists) *)
Theorem C01_split_join : forall c l,
  l <> [] -> forallb (fun x => negb (has_char c x)) l = true ->
  split_on c (join_with (String c EmptyString) l) = l.
Proof. exact split_join. Qed.
Print Assumptions C01_split_join.

(* records grouped by type: each block keeps its records once and in order, blocks do not mix, and grouping a
   grouped document again changes nothing *)
Theorem C01_block_stable : forall a l, filter (is_class a) (filter (is_class a) l) = filter (is_class a) l.
Proof. exact class_block_stable. Qed.
Print Assumptions C01_block_stable.

Theorem C01_blocks_do_not_mix : forall a b l, a <> b -> filter (is_class b) (filter (is_class a) l) = [].
Proof. exact class_blocks_do_not_mix. Qed.
Print Assumptions C01_blocks_do_not_mix.

Theorem C01_grouping_idempotent : forall a b l,
  a <> b ->
  let g := fun l => filter (is_class a) l ++ filter (is_class b) l in
  g (g l) = g l.
Proof. exact two_blocks_idempotent. Qed.
Print Assumptions C01_grouping_idempotent.

Example C01_witness :
  canon_int "+007" = "7" /\ canon_int "-0" = "0" /\
  split_on tab (join_with (String tab EmptyString) ["S"; "A"; "*"; "LN:i:5"]) = ["S"; "A"; "*"; "LN:i:5"].
Proof. vm_compute. repeat split. Qed.
