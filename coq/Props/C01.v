(* Props/C01.v — parse -> write round trip (model level; see LEVEL_TEXT of harness/props/c01.py for what is
   decided by the correspondence and by the oracle instead). *)
From Coq Require Import List String Ascii ZArith Bool.
From GfaV Require Import Base.Py Model.Codec Model.Line Model.Doc Proofs.CodecP Proofs.RoundTripP Proofs.LineRoundTripP.
Import ListNotations.
Open Scope string_scope.
Open Scope list_scope.

(* a written integer reads back to the same value (any size, any sign) *)
Theorem C01_integer_reads_back : forall z, py_int (str_of_Z z) = Some z.
Proof. exact py_int_str_of_Z_full. Qed.
Print Assumptions C01_integer_reads_back.

(* canonical spelling of numbers is a fixed point: writing what was written changes nothing *)
Theorem C01_canonical_integer_fixed_point : forall s, canon_int (canon_int s) = canon_int s.
Proof. exact canon_int_idempotent. Qed.
Print Assumptions C01_canonical_integer_fixed_point.

(* the fields of a written line are recovered by splitting it, for any number of fields of any content
   that does not contain the separator (tab for lines, comma and space for lists) *)
Theorem C01_split_join : forall c l,
  l <> [] -> forallb (fun x => negb (has_char c x)) l = true ->
  split_on c (join_with (String c EmptyString) l) = l.
Proof. exact split_join. Qed.
Print Assumptions C01_split_join.

(* records grouped by type: each block keeps its records once and in order, blocks do not mix, and grouping a
   grouped document again changes nothing *)
Theorem C01_block_stable : forall a l, filter (is_class a) (filter (is_class a) l) = filter (is_class a) l.
Proof. exact class_block_stable. Qed.
Print Assumptions C01_block_stable.

Theorem C01_blocks_do_not_mix : forall a b l, a <> b -> filter (is_class b) (filter (is_class a) l) = [].
Proof. exact class_blocks_do_not_mix. Qed.
Print Assumptions C01_blocks_do_not_mix.

Theorem C01_grouping_idempotent : forall a b l,
  a <> b ->
  let g := fun l => filter (is_class a) l ++ filter (is_class b) l in
  g (g l) = g l.
Proof. exact two_blocks_idempotent. Qed.
Print Assumptions C01_grouping_idempotent.

(* ---------- one line: the constructor followed by the writer ---------- *)
(* For every text, validation level and version (known or not): if the constructor accepts the text as a line of a
   standard record type (H S L C P E G F O U), the written line is the text, field by field: the same record type, the
   same number of fields in the same order, every tag with its name and its datatype; the only difference is that each
   value is replaced by its canonical spelling.  Nothing is added, nothing is dropped. *)
Theorem C01_written_line_is_the_text_with_canonical_values : forall O vl version s l rt fs,
  parse_line O vl version s = Ok l -> standard (ln_class l) -> split_on tab s = rt :: fs ->
  line_to_s O l =
  join_with (String tab EmptyString)
    (rt :: canon_pos O (rc_pos (ln_class l)) (rc_dt (ln_class l)) fs
        ++ map (canon_tag O) (skipn (List.length (rc_pos (ln_class l))) fs)).
Proof. exact write_is_the_text_with_canonical_values. Qed.
Print Assumptions C01_written_line_is_the_text_with_canonical_values.

Theorem C01_tag_keeps_name_and_datatype : forall O s n dt v,
  parse_tag s = Ok (n, dt, v) -> canon_tag O s = (n ++ ":" ++ dt ++ ":" ++ canon O dt v)%string.
Proof. exact canon_tag_keeps_name_and_type. Qed.
Print Assumptions C01_tag_keeps_name_and_datatype.

(* when the values are spelled canonically already, the written line is the text itself, and reading it back gives the
   same line: parse(write(parse T)) = parse T, line by line *)
Theorem C01_written_line_is_the_text : forall O vl version s l,
  parse_line O vl version s = Ok l -> standard (ln_class l) ->
  Forall (canonical_field O) (ln_pos l) -> Forall (canonical_field O) (ln_tags l) ->
  line_to_s O l = s.
Proof. exact write_of_parsed_line. Qed.
Print Assumptions C01_written_line_is_the_text.

Theorem C01_line_fixed_point : forall O vl version s l,
  parse_line O vl version s = Ok l -> standard (ln_class l) ->
  Forall (canonical_field O) (ln_pos l) -> Forall (canonical_field O) (ln_tags l) ->
  parse_line O vl version (line_to_s O l) = Ok l.
Proof. exact parse_of_written_line. Qed.
Print Assumptions C01_line_fixed_point.

(* a comment is written as it was read, whatever it contains *)
Theorem C01_comment_is_kept : forall O vl version s l,
  parse_line O vl version s = Ok l -> rc_name (ln_class l) = "Comment" -> line_to_s O l = s.
Proof. exact write_of_parsed_comment. Qed.
Print Assumptions C01_comment_is_kept.

(* joining the fields of a split line gives the line back (the other direction of C01_split_join) *)
Theorem C01_join_split : forall c s, join_with (String c EmptyString) (split_on c s) = s.
Proof. exact join_split. Qed.
Print Assumptions C01_join_split.

(* non-vacuity: a GFA1 link with three tags (one of them a float respelled by the oracle) and a GFA2 edge; the hypotheses
   of the theorems hold for the second *)
Local Open Scope string_scope.
Example C01_line_witness :
  let t := String tab EmptyString in
  let O := mkOracle (fun s => if String.eqb s "1e1" then "10.0" else s) (fun s => Some s) in
  let s1 := "L" ++ t ++ "A" ++ t ++ "+" ++ t ++ "B" ++ t ++ "-" ++ t ++ "4M" ++ t ++ "RC:i:+07" ++ t ++ "xx:f:1e1" ++ t ++ "yy:Z:a b" in
  let s2 := "E" ++ t ++ "e" ++ t ++ "A+" ++ t ++ "B-" ++ t ++ "0" ++ t ++ "4" ++ t ++ "6" ++ t ++ "10$" ++ t ++ "4M" ++ t ++ "TS:i:3" in
  match parse_line O 1 (Some "gfa1") s1, parse_line O 1 (Some "gfa2") s2 with
  | Ok l1, Ok l2 =>
      line_to_s O l1 = "L" ++ t ++ "A" ++ t ++ "+" ++ t ++ "B" ++ t ++ "-" ++ t ++ "4M" ++ t ++ "RC:i:7" ++ t ++ "xx:f:10.0" ++ t ++ "yy:Z:a b"
      /\ line_to_s O l2 = s2
      /\ forallb (fun f => String.eqb (canon O (snd (fst f)) (snd f)) (snd f)) (ln_pos l2 ++ ln_tags l2)%list = true
      /\ rc_name (ln_class l2) = "EdgeGFA2"
  | _, _ => False
  end.
Proof. vm_compute. repeat split. Qed.
Local Open Scope list_scope.

Example C01_witness :
  canon_int "+007" = "7" /\ canon_int "-0" = "0" /\
  split_on tab (join_with (String tab EmptyString) ["S"; "A"; "*"; "LN:i:5"]) = ["S"; "A"; "*"; "LN:i:5"].
Proof. vm_compute. repeat split. Qed.
