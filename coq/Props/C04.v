(* Props/C04.v — validation accepts exactly the grammar (field level).
   Gen/Regexes.v is REGENERATED from the re.* call sites of gfapy on every run; Spec/Grammar.v is written from
   the specifications.  Model/Codec.v (which check runs for which datatype) is tied to the implementation by the
   exhaustive enumeration run of this check (Corr/Codecc.v). *)
From Coq Require Import List String Ascii ZArith Bool.
From GfaV Require Import Base.Py Base.Regex Gen.Regexes Model.Codec Spec.Grammar Proofs.CodecP.
Import ListNotations.
Open Scope string_scope.

(* every regular expression the code uses for a field, a tag or a tag name is the specification's *)
Theorem C04_regexes_are_the_grammar :
  re_field_integer_validate_encoded = g_integer /\
  re_field_float_validate_encoded = g_float /\
  re_field_string_validate_encoded = g_string /\
  re_field_char_validate_encoded = g_char /\
  re_field_byte_array_validate_encoded = g_hex /\
  re_field_numeric_array_validate_encoded = g_numeric_array /\
  re_field_identifier_gfa2_validate_encoded = g_identifier /\
  re_field_identifier_list_gfa2_validate_encoded = g_identifier_list /\
  re_field_optional_identifier_gfa2_validate_encoded = g_identifier /\
  re_field_oriented_identifier_gfa2_validate_encoded = g_oriented_identifier /\
  re_field_oriented_identifier_gfa2_validate_decoded = g_identifier /\
  re_field_oriented_identifier_list_gfa2_validate_encoded = g_oriented_identifier_list2 /\
  re_field_oriented_identifier_list_gfa1_validate_encoded = g_oriented_identifier_list1 /\
  re_field_oriented_identifier_list_gfa1_validate_decoded = g_name1 /\
  re_field_path_name_gfa1_validate_encoded = g_name1 /\
  re_field_segment_name_gfa1_validate_encoded = g_name1 /\
  re_field_segment_name_gfa1_validate_encoded_1 = g_plus_comma /\
  re_field_position_gfa1_validate_encoded = g_position1 /\
  re_field_position_gfa2_validate_encoded = g_position2 /\
  re_field_optional_integer_validate_encoded = g_optional_integer /\
  re_field_sequence_gfa1_validate_encoded = g_sequence1 /\
  re_field_sequence_gfa2_validate_encoded = g_sequence2 /\
  re_alignment_cigar__from_string = g_cigar1 /\
  re_alignment_cigar__from_string_1 = g_cigar2 /\
  re_alignment_cigar__from_string_2 = cigar1_op /\
  re_field_alignment_gfa1_validate_encoded = g_alignment1 /\
  re_field_alignment_list_gfa1_validate_encoded = g_alignment_list1 /\
  re_alignment_trace__from_string = g_trace /\
  re_field_json_validate_all_printable = g_string /\
  re_field_custom_record_type_validate_encoded = g_identifier /\
  re_field_parser__parse_gfa_tag = g_tag /\
  re_line_common_validate__is_valid_custom_tagname = g_tagname /\
  re_oriented_line___validate_line = g_identifier /\
  re_segment_end___validate_segment = g_identifier.
Proof. exact gen_is_spec. Qed.
Print Assumptions C04_regexes_are_the_grammar.

(* for all strings (no bound on length): the safe decoder accepts s iff s is in the grammar of the datatype *)
Theorem C04_field_accepts_iff_grammar : forall O md s,
  In md regex_modules -> no_newline s = true -> (accepts_module O md s = true <-> G_field md s).
Proof. exact accepts_iff_grammar. Qed.
Print Assumptions C04_field_accepts_iff_grammar.

Theorem C04_float_accepts_iff_grammar : forall O s,
  no_newline s = true ->
  (accepts_module O "float" s = true <-> lang g_float s /\ finite_spelling (fcanon O s) = true).
Proof. exact accepts_float_iff. Qed.
Print Assumptions C04_float_accepts_iff_grammar.

(* numeric arrays: the range test of from_string, regenerated from the source, accepts an integer element exactly when it
   lies in the half-open range of its subtype; and the regenerated ranges are the two's-complement ranges of 8, 16 and 32
   bits *)
Theorem C04_array_element_range : forall e lo hi, Gen.K_narange.k_na_in_range e lo hi = true <-> (lo <= e < hi)%Z.
Proof. intros e lo hi. unfold Gen.K_narange.k_na_in_range. rewrite andb_true_iff, Z.geb_le, Z.ltb_lt. reflexivity. Qed.
Print Assumptions C04_array_element_range.

Theorem C04_array_subtype_ranges :
  let r st := assoc st Gen.Tables.T_NA_SUBTYPE_RANGE in
  r "c" = Some (-128, 128)%Z /\ r "C" = Some (0, 256)%Z /\ r "s" = Some (-32768, 32768)%Z /\ r "S" = Some (0, 65536)%Z /\
  r "i" = Some (-2147483648, 2147483648)%Z /\ r "I" = Some (0, 4294967296)%Z /\ List.length Gen.Tables.T_NA_SUBTYPE_RANGE = 6.
Proof. cbv zeta. repeat split; reflexivity. Qed.
Print Assumptions C04_array_subtype_ranges.


(* known finding F23: the guard is necessary — Python's `$` lets one trailing newline through *)
Theorem C04_trailing_newline_refuted :
  exists O s, accepts_module O "integer" s = true /\ ~ G_field "integer" s.
Proof. exact accepts_trailing_newline_refuted. Qed.
Print Assumptions C04_trailing_newline_refuted.

Example C04_witness :
  In "integer" regex_modules /\ no_newline "-1.5e+3" = true /\
  accepts_module (mkOracle (fun s => s) (fun _ => None)) "float" "-1.5e+3" = true /\
  accepts_module (mkOracle (fun s => s) (fun _ => None)) "float" "1e" = false.
Proof. vm_compute. repeat split; tauto. Qed.
