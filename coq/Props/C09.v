(* Props/C09.v — identifiers are unique; lookup and renaming stay coherent (reference semantics Model/Graph.v). *)
From Coq Require Import List String Ascii ZArith Bool.
From GfaV Require Import Base.Py Model.Codec Model.Line Model.Graph Proofs.GraphP.
Import ListNotations.
Open Scope string_scope.

(* pairwise distinct identifiers in every reachable state, for histories of add / rm / rename *)
Theorem C09_unique_one_step : forall O s o s',
  names_unique s -> op_guard O s o -> step O s o = Ok s' -> names_unique s'.
Proof. exact step_names. Qed.
Print Assumptions C09_unique_one_step.

Theorem C09_unique_every_reachable_state : forall O ops s,
  names_unique s -> guards_hold O s ops -> names_unique (run_ops O s ops).
Proof. exact names_unique_reachable. Qed.
Print Assumptions C09_unique_every_reachable_state.

(* looking an identifier up returns exactly the line that carries it, nothing for an identifier not in use, and no two
   lines carry one identifier *)
Theorem C09_lookup_coherent : forall s n,
  names_unique s ->
  (forall l, find_named s n = Some l -> In l (lines s) /\ ns_name l = [n]) /\
  (find_named s n = None <-> ~ In n (ns_names s)) /\
  (forall l l', In l (lines s) -> In l' (lines s) -> ns_name l = [n] -> ns_name l' = [n] -> g_id l = g_id l' \/ l = l').
Proof. exact lookup_coherent. Qed.
Print Assumptions C09_lookup_coherent.

(* renaming onto an identifier in use is refused, unless it is the line's own *)
Theorem C09_rename_to_used_identifier : forall s old new x y,
  find_named s old = Some x -> find_named s new = Some y -> g_id y <> g_id x ->
  (Nat.leb 3 (g_vlevel s) = false \/ True) ->
  exists e, rename s old new = Err e.
Proof.
  intros s old new x y Hx Hy Hne _. unfold rename. rewrite Hx.
  destruct (negb _ && _); [eexists; reflexivity|]. destruct (Nat.leb 1 (g_vlevel s) && _); [eexists; reflexivity|]. rewrite Hy.
  destruct (Nat.eqb (g_id y) (g_id x)) eqn:E; [apply Nat.eqb_eq in E; contradiction | eexists; reflexivity].
Qed.
Print Assumptions C09_rename_to_used_identifier.

(* the guard is necessary: a line that lists its own identifier (gfapy accepts 'U u u') ends up next to a placeholder
   with the same identifier *)
Theorem C09_self_mention_refuted :
  exists ops, names_unique_b (run_texts "gfa2" ops) = false.
Proof. exists [OAdd ("U" ++ String tab "u" ++ String tab "u")]. vm_compute. reflexivity. Qed.
Print Assumptions C09_self_mention_refuted.

Example C09_witness :
  let t := String tab EmptyString in
  let ops := [OAdd ("U" ++ t ++ "u" ++ t ++ "A e1"); OAdd ("S" ++ t ++ "A" ++ t ++ "5" ++ t ++ "*");
              OAdd ("E" ++ t ++ "e1" ++ t ++ "A+" ++ t ++ "A-" ++ t ++ "0" ++ t ++ "0" ++ t ++ "0" ++ t ++ "0" ++ t ++ "*");
              ORename "A" "X"; OAdd ("U" ++ t ++ "u" ++ t ++ "X")] in
  names_unique_b (run_texts "gfa2" ops) = true /\ ns_names (run_texts "gfa2" ops) = ["e1"; "X"; "u"].
Proof. vm_compute. repeat split. Qed.
