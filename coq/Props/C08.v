(* Props/C08.v — a failed mutation leaves the Gfa unchanged.
   In the reference semantics (Model/Graph.v) an operation is a function from a state to an error or a new state, so
   the statement holds by construction; it is stated so that the correspondence run has a precise reference: after
   every raising call the implementation must show exactly the observation of the unchanged model state. *)
From Coq Require Import List String Ascii ZArith Bool.
From GfaV Require Import Base.Py Model.Codec Model.Graph Proofs.GraphP.
Import ListNotations.

Theorem C08_failed_operation_changes_nothing : forall O s o e, step O s o = Err e -> fst (apply O s o) = s.
Proof. exact failed_step_changes_nothing. Qed.
Print Assumptions C08_failed_operation_changes_nothing.

Theorem C08_successful_operation_is_its_result : forall O s o s', step O s o = Ok s' -> apply O s o = (s', None).
Proof. exact successful_step_is_the_step. Qed.
Print Assumptions C08_successful_operation_is_its_result.

(* several failing calls interleaved with successful ones: only the successful ones count *)
Theorem C08_failures_are_skipped : forall O s o ops e,
  step O s o = Err e -> run_ops O s (o :: ops) = run_ops O s ops.
Proof. intros O s o ops e H. cbn [run_ops]. rewrite (failed_step_changes_nothing O s o e H). reflexivity. Qed.
Print Assumptions C08_failures_are_skipped.

Example C08_witness :
  let t := String tab EmptyString in
  let s := run_texts "gfa1" [OAdd ("S" ++ t ++ "A" ++ t ++ "*")%string; OAdd ("S" ++ t ++ "B" ++ t ++ "*")%string] in
  (exists e, step plain_oracle s (OAdd ("S" ++ t ++ "A" ++ t ++ "*")%string) = Err e) /\
  (exists e, step plain_oracle s (ORename "A" "B") = Err e) /\ (exists e, step plain_oracle s (ORm "zz") = Err e).
Proof. repeat split; eexists; vm_compute; reflexivity. Qed.
