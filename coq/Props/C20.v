(* Props/C20.v — tag values set through the API are written in the syntax of their datatype and read back
   unchanged (model level: decimal spelling, numeric array subtype, default datatypes). *)
From Coq Require Import List String Ascii ZArith Bool.
From GfaV Require Import Base.Py Gen.Tables Gen.K_numarr Model.Codec Model.TagValue Proofs.CodecP Proofs.NumArrP.
Import ListNotations.
Open Scope string_scope.

(* an integer is written in a spelling that int() reads back to the same value *)
Theorem C20_integer_roundtrip : forall z, py_int_core (str_of_Z z) = Some z.
Proof. exact py_int_str_of_Z. Qed.
Print Assumptions C20_integer_roundtrip.

(* the generated integer_type kernel is the documented rule ... *)
Theorem C20_integer_type_is_spec : forall lo hi,
  k_integer_type (lo, hi) = match spec_type lo hi with Some st => Ok st | None => Err (G EValue) end.
Proof. exact integer_type_is_spec. Qed.
Print Assumptions C20_integer_type_is_spec.

(* ... which picks the smallest subtype whose range holds all elements (signed iff the minimum is negative) ... *)
Theorem C20_smallest_subtype : forall lo hi st,
  (lo <= hi)%Z -> spec_type lo hi = Some st ->
  holds st lo hi /\
  ((lo < 0)%Z -> In st ["c"; "s"; "i"] /\
                 (st = "s" -> ~ holds "c" lo hi) /\ (st = "i" -> ~ holds "c" lo hi /\ ~ holds "s" lo hi)) /\
  ((0 <= lo)%Z -> In st ["C"; "S"; "I"] /\
                  (st = "S" -> ~ holds "C" lo hi) /\ (st = "I" -> ~ holds "C" lo hi /\ ~ holds "S" lo hi)).
Proof. exact spec_type_smallest. Qed.
Print Assumptions C20_smallest_subtype.

(* ... and rejects exactly the arrays no 32-bit subtype can hold *)
Theorem C20_out_of_range_rejected : forall lo hi,
  (lo <= hi)%Z ->
  (spec_type lo hi = None <-> ((lo < 0)%Z -> ~ holds "i" lo hi) /\ ((0 <= lo)%Z -> ~ holds "I" lo hi)).
Proof. exact spec_type_none_iff. Qed.
Print Assumptions C20_out_of_range_rejected.

(* default datatype of a new tag: the dispatch over the generated table gives the documented i f Z J B H *)
Theorem C20_default_datatype : forall k, default_datatype k = documented_default k.
Proof. intros k. destruct k; reflexivity. Qed.
Print Assumptions C20_default_datatype.

Example C20_witness :
  spec_type (-129) 5 = Some "s" /\ spec_type 0 255 = Some "C" /\ spec_type 0 256 = Some "S" /\
  spec_type (-2147483649) 0 = None /\ k_integer_type (0, 4294967295)%Z = Ok "I" /\ str_of_Z (-42) = "-42".
Proof. vm_compute. repeat split. Qed.
